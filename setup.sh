#!/bin/bash
# Builds the whole framework offline from files on disk: Coq development, extracted OCaml models,
# and a warm Go build cache for the harness.  Idempotent.
set -u
cd "$(dirname "$0")"
export GOFLAGS=-mod=mod GOPROXY=off
unset GOTOOLCHAIN GOSUMDB
rc=0
# keep going past a broken file: every check rebuilds and reports its own cone
VERIF_MAKEFLAGS=-k bin/coqbuild > coq/.setup.log 2>&1 || { echo "WARNING: some Coq files did not build (see coq/.setup.log)"; grep -E "Error|\*\*\*" coq/.setup.log | head -20; }
for f in coq/extract/*.v; do
  c="$(basename "$f" .v | tr A-Z a-z)"
  bin/build-model "$c" || { echo "model $c failed"; rc=1; }
done
cp /repo/go.sum harness/go.sum 2>/dev/null
(cd harness && go build -tags verif ./cmd/... ) || { echo "harness build failed"; rc=1; }
exit $rc
