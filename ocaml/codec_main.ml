(* driver for the Codec model (Oxia.Codec.Instance): one case per line on stdin, one canonical result line per case.
   v = 1|2, integers decimal, byte strings hex ("-" = empty), "nil"/"none" = absent.
   crc     <id> <prev> <hex>                           -> <id> <raw crc32c update>,<Value()>
   hdr     <id> <v> <start> <buf>                      -> <id> ok:<size>,<prevCrc>,<crc> | err:<k> | panic
   rec     <id> <v> <start> <buf>                      -> <id> ok:<payload> | err:<k> | panic
   size    <id> <v> <start> <buf>                      -> <id> ok:<n> | err:<k> | panic
   write   <id> <v> <start> <prev> <payload> <buf>     -> <id> ok:<buf'>;<recordSize>;<crc> | panic
   recover <id> <v> <start> <base> <commit|nil> <buf>  -> <id> ok:<off,off,..|->;<lastCrc>;<newFileOffset>;<lastEntry> | err:<k> | panic | hang
   ridx    <id> <v> <file|none>                        -> <id> ok:<index bytes> | err:<k> | panic
   widx    <id> <v> <index>                            -> <id> <file bytes>
   ro      <id> <v> <base> <txn> <idxfile|none>        -> <id> ok:<last>;<lastCrc>;<read base-1>,<read base>,...,<read last+1> | err:<k> | panic | hang
   rw      <id> <v> <base> <commit|nil> <txn>          -> <id> ok:<last>;<lastCrc>;<reads as for ro> | err:<k> | panic | hang
   With VERIF_CODEC_ORIG=1 the model of the code as found at the pinned commit is used (before the O-6 repair). *)
let orig = (try Sys.getenv "VERIF_CODEC_ORIG" = "1" with Not_found -> false)
let ver s = match s with "1" -> M.V1 | "2" -> M.V2 | _ -> failwith ("bad version " ^ s)
let err_name e = match e with
  | M.EOffsetOutOfBounds -> "oob" | M.EEmptyPayload -> "empty" | M.EDataCorrupted -> "corrupt" | M.EOther -> "other"
let outcome (f : 'a -> string) (o : 'a M.outcome) : string = match o with
  | M.Ok a -> "ok:" ^ f a
  | M.Err e -> "err:" ^ err_name e
  | M.Panic -> "panic"
  | M.Hang -> "hang"
let opt_z s = if s = "nil" then None else Some (mz_of_string s)
let opt_bytes s = if s = "none" then None else Some (bytes_of_hex s)
let offs l = if l = [] then "-" else String.concat "," (List.map string_of_n l)
(* reads of every offset base-1 .. last+1 (at most [cap] of them are printed: the first ones and the last ones) *)
let reads v txn idx base last =
  let zb = z_of_mz base and zl = z_of_mz last in
  let n = Z.to_int (Z.min (Z.of_int 100000) (Z.max Z.zero (Z.add (Z.sub zl zb) (Z.of_int 3)))) in
  let one i =
    let off = mz_of_z (Z.add (Z.sub zb Z.one) (Z.of_int i)) in
    outcome hex_of_bytes (M.c_seg_read orig v txn idx base last off) in
  String.concat "," (List.init n one)
let () = read_lines (fun line ->
  match String.split_on_char ' ' line with
  | ["crc"; id; prev; b] ->
    let p = n_of_string prev and l = bytes_of_hex b in
    Printf.printf "%s %s,%s\n" id (string_of_n (M.crc32c_update p l)) (string_of_n (M.c_cv p l))
  | ["hdr"; id; v; start; b] ->
    Printf.printf "%s %s\n" id (outcome (fun ((s, p), c) -> string_of_n s ^ "," ^ string_of_n p ^ "," ^ string_of_n c)
      (M.c_read_header orig (ver v) (bytes_of_hex b) (n_of_string start)))
  | ["rec"; id; v; start; b] ->
    Printf.printf "%s %s\n" id (outcome hex_of_bytes (M.c_read_record orig (ver v) (bytes_of_hex b) (n_of_string start)))
  | ["size"; id; v; start; b] ->
    Printf.printf "%s %s\n" id (outcome string_of_n (M.c_get_record_size orig (ver v) (bytes_of_hex b) (n_of_string start)))
  | ["write"; id; v; start; prev; p; b] ->
    Printf.printf "%s %s\n" id (outcome (fun ((b', rs), c) -> hex_of_bytes b' ^ ";" ^ string_of_n rs ^ ";" ^ string_of_n c)
      (M.c_write_record (ver v) (bytes_of_hex b) (n_of_string start) (n_of_string prev) (bytes_of_hex p)))
  | ["recover"; id; v; start; base; commit; b] ->
    Printf.printf "%s %s\n" id (outcome (fun (((idx, lc), fo), le) ->
        offs idx ^ ";" ^ string_of_n lc ^ ";" ^ string_of_n fo ^ ";" ^ string_of_mz le)
      (M.c_recover_index orig (ver v) (bytes_of_hex b) (n_of_string start) (mz_of_string base) (opt_z commit)))
  | ["ridx"; id; v; f] ->
    Printf.printf "%s %s\n" id (outcome hex_of_bytes (M.c_read_index orig (ver v) (opt_bytes f)))
  | ["widx"; id; v; ix] ->
    Printf.printf "%s %s\n" id (hex_of_bytes (M.c_index_file (ver v) (bytes_of_hex ix)))
  | ["ro"; id; v; base; txn; idxf] ->
    let v = ver v and txn = bytes_of_hex txn and base = mz_of_string base in
    Printf.printf "%s %s\n" id (outcome (fun ((idx, last), lc) ->
        string_of_mz last ^ ";" ^ string_of_n lc ^ ";" ^ reads v txn idx base last)
      (M.c_ro_open orig v txn (opt_bytes idxf) base))
  | ["rw"; id; v; base; commit; txn] ->
    let v = ver v and txn = bytes_of_hex txn and base = mz_of_string base in
    Printf.printf "%s %s\n" id (outcome (fun (((offs, lc), fo), le) ->
        let idx = M.idx_bytes offs in
        string_of_mz le ^ ";" ^ string_of_n lc ^ ";" ^ reads v txn idx base le)
      (M.c_recover_index orig v txn M.N0 base (opt_z commit)))
  | [] | [""] -> ()
  | _ -> Printf.printf "?? bad line: %s\n" line)
