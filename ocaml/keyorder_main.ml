(* driver for the KeyOrder model: one case per line on stdin, one canonical result line per case.
   byte strings are lowercase hex ("-" = empty).
   cmp <id> <a> <b>        -> -1|0|1          (cmp_slash)        speccmp: the same through spec_cmp (enc/lex)
   sep <id> <a> <b>        -> hex             (configured Separator)   succ <id> <a> -> hex
   effsep <id> <a> <b>     -> hex             (Separator + InternalKey.Separator guard)   effsucc <id> <a>
   bsep/bsucc/beffsep/beffsucc                -> the same for pebble.DefaultComparer's bytewise members
   abbrev <id> <a>         -> decimal uint64  immsucc <id> <a> -> hex     split <id> -> nil|set
   heap <id> <k1,k2,...>   -> keys in pop order, comma separated
   kv <id> <op;op;...>     -> results of the read ops, ';' separated (see below)
   dblist|dbrscan <id> <phase> <k1,k2,...> <lo> <hi> -> n:key,...   (kv_range_scan over the map of the keys)
   respbatch <id> <maxCount> <budget> <s0,s1,...> <0|1> -> i,i|i,i,i|...  (batch_stream; 1 = OnComplete(err))
   big <id> ...            -> ok   (data sets too large for the list model: checked in the harness only)
   kv ops:  B begin batch | P:k:tag put | D:k delete | X:lo:hi delete-range | K commit | A abort
            F flush | C compact | R reopen | V:min:max value sizes          (no-ops for the model)
            g:k get  f:k floor  c:k ceiling  l:k lower  h:k higher         -> tag|nf , key=tag|nf
            s:lo:hi range scan -> n:key=tag,...   r:lo:hi reverse scan -> n:key,...
            bg:k batch get  bl:k batch FindLower -> key|nf  bs:lo:hi batch scan -> n:key=tag,...
*)
let cmp_str c = match c with M.Eq -> "0" | M.Lt -> "-1" | M.Gt -> "1"
let kv_str = function None -> "nf" | Some (k, t) -> hex_of_bytes k ^ "=" ^ string_of_n t
let scan_str l =
  string_of_int (List.length l) ^ ":" ^ String.concat "," (List.map (fun (k, t) -> hex_of_bytes k ^ "=" ^ string_of_n t) l)
let keys_str l = string_of_int (List.length l) ^ ":" ^ String.concat "," (List.map (fun (k, _) -> hex_of_bytes k) l)

let run_kv (ops : string) : string =
  let m = ref [] in            (* committed map *)
  let w = ref None in          (* open batch: working copy *)
  let cur () = match !w with Some x -> x | None -> !m in
  let upd f = match !w with Some x -> w := Some (f x) | None -> m := f !m in
  let out = Buffer.create 4096 in
  let emit s = if Buffer.length out > 0 then Buffer.add_char out ';'; Buffer.add_string out s in
  List.iter (fun op ->
    match String.split_on_char ':' op with
    | ["B"] -> w := Some !m
    | ["K"] -> (match !w with Some x -> m := x; w := None | None -> ())
    | ["A"] -> w := None
    | ["F"] | ["C"] | ["R"] | ["V"; _; _] -> ()
    | ["P"; k; t] -> upd (M.sm_put (bytes_of_hex k) (n_of_string t))
    | ["D"; k] -> upd (M.sm_delete (bytes_of_hex k))
    | ["X"; lo; hi] -> upd (M.sm_delete_range (bytes_of_hex lo) (bytes_of_hex hi))
    | ["g"; k] -> emit (match M.kv_get_equal (bytes_of_hex k) !m with Some (_, t) -> string_of_n t | None -> "nf")
    | ["f"; k] -> emit (kv_str (M.kv_get_floor (bytes_of_hex k) !m))
    | ["c"; k] -> emit (kv_str (M.kv_get_ceiling (bytes_of_hex k) !m))
    | ["l"; k] -> emit (kv_str (M.kv_get_lower (bytes_of_hex k) !m))
    | ["h"; k] -> emit (kv_str (M.kv_get_higher (bytes_of_hex k) !m))
    | ["s"; lo; hi] -> emit (scan_str (M.kv_range_scan (bytes_of_hex lo) (bytes_of_hex hi) !m))
    | ["r"; lo; hi] -> emit (keys_str (M.kv_range_scan_reverse (bytes_of_hex lo) (bytes_of_hex hi) !m))
    | ["bg"; k] -> emit (match M.sm_get (bytes_of_hex k) (cur ()) with Some t -> string_of_n t | None -> "nf")
    | ["bl"; k] -> emit (match M.kv_find_lower (bytes_of_hex k) (cur ()) with Some k' -> hex_of_bytes k' | None -> "nf")
    | ["bs"; lo; hi] -> emit (scan_str (M.sm_range (bytes_of_hex lo) (bytes_of_hex hi) (cur ())))
    | [""] -> ()
    | _ -> emit ("?" ^ op)) (String.split_on_char ';' ops);
  if not (M.sm_sortedb !m) then emit "MODEL-NOT-SORTED";
  if Buffer.length out = 0 then "-" else Buffer.contents out

let () = read_lines (fun line ->
  match String.split_on_char ' ' line with
  | ["cmp"; id; a; b] -> Printf.printf "%s %s\n" id (cmp_str (M.cmp_slash (bytes_of_hex a) (bytes_of_hex b)))
  | ["speccmp"; id; a; b] -> Printf.printf "%s %s\n" id (cmp_str (M.spec_cmp (bytes_of_hex a) (bytes_of_hex b)))
  | ["sep"; id; a; b] -> Printf.printf "%s %s\n" id (hex_of_bytes (M.separator (bytes_of_hex a) (bytes_of_hex b)))
  | ["succ"; id; a] -> Printf.printf "%s %s\n" id (hex_of_bytes (M.successor (bytes_of_hex a)))
  | ["effsep"; id; a; b] -> Printf.printf "%s %s\n" id (hex_of_bytes (M.effective_sep (bytes_of_hex a) (bytes_of_hex b)))
  | ["effsucc"; id; a] -> Printf.printf "%s %s\n" id (hex_of_bytes (M.effective_succ (bytes_of_hex a)))
  | ["bsep"; id; a; b] -> Printf.printf "%s %s\n" id (hex_of_bytes (M.bytewise_separator (bytes_of_hex a) (bytes_of_hex b)))
  | ["bsucc"; id; a] -> Printf.printf "%s %s\n" id (hex_of_bytes (M.bytewise_successor (bytes_of_hex a)))
  | ["beffsep"; id; a; b] ->
    Printf.printf "%s %s\n" id (hex_of_bytes (M.effective_sep_with M.bytewise_separator (bytes_of_hex a) (bytes_of_hex b)))
  | ["beffsucc"; id; a] ->
    Printf.printf "%s %s\n" id (hex_of_bytes (M.effective_succ_with M.bytewise_successor (bytes_of_hex a)))
  | ["abbrev"; id; a] -> Printf.printf "%s %s\n" id (string_of_n (M.abbreviated_key (bytes_of_hex a)))
  | ["immsucc"; id; a] -> Printf.printf "%s %s\n" id (hex_of_bytes (M.immediate_successor (bytes_of_hex a)))
  | "split" :: id :: _ -> Printf.printf "%s %s\n" id (if M.split_configured then "set" else "nil")
  | ["heap"; id; ks] ->
    let l = List.map bytes_of_hex (split_on ',' ks) in
    Printf.printf "%s %s\n" id (String.concat "," (List.map hex_of_bytes (M.key_sort l)))
  | ["kv"; id; ops] -> Printf.printf "%s %s\n" id (run_kv ops)
  | [("dblist" | "dbrscan"); id; _phase; ks; lo; hi] ->
    (* DB-layer list / range-scan: the user keys of [lo,hi) of the sorted map built from ks *)
    let m = List.fold_left (fun m k -> M.sm_put (bytes_of_hex k) M.N0 m) M.sm_empty (split_on ',' ks) in
    Printf.printf "%s %s\n" id (keys_str (M.kv_range_scan (bytes_of_hex lo) (bytes_of_hex hi) m))
  | ["respbatch"; id; maxc; budget; sizes; fail] ->
    (* BatchStreamOnce: items are numbered 0..n-1, sizes given; result = the flushed messages, items by index *)
    let items = List.mapi (fun i s -> (n_of_int i, n_of_string s)) (split_on ',' (if sizes = "-" then "" else sizes)) in
    let f = if fail = "1" then M.batch_stream_failed else M.batch_stream in
    let bs = f (n_of_string maxc) (n_of_string budget) snd items in
    let str = String.concat "|" (List.map (fun b -> String.concat "," (List.map (fun (i, _) -> string_of_n i) b)) bs) in
    Printf.printf "%s %s\n" id (if bs = [] then "-" else str)
  | "big" :: id :: _ -> Printf.printf "%s ok\n" id
  | [] | [""] -> ()
  | _ -> Printf.printf "?? bad line: %.200s\n" line)
