(* driver for the Selector model (C19): one case per stdin line, one canonical result line per case.
   Lists of ids "1,2,3" ("-" = empty).  md "s:l=v.l=v;s:;..." ("-" = none).  rules "S:10.11;R:12;X:" ("-" = none).
   rank "nil" | "-" | ids.  idx "nil" | n.
     ens      <id> <nodes> <md> <rules> <rank> <idx> <rf>            -> set of  ok:a.b.c | err:<kind> | panic
     single   <id> <nodes> <md> <rules> <rank> <idx> <sel|nosel>     -> set of  ok:a | err:<kind> | panic
     swap     <id> <nodes> <md> <rules> <rank> <idx> <ens> <from>    -> set of  swap:t | noswap | err:<kind> | panic
     place    <id> <nodes> <md> <rules> <rf>                         -> set of  ok:a.b.c | refused | panic   (no ranking)
     swapctl  <id> <ens> <removed> <from> <to> <election ok 0|1>     -> refused|failed|done : <stored ensemble>
     swapnode <id> <ens> <removed> <from> <to>                       -> ok:<ens>/<removed> | refused:<ens>/<removed>
     round    <id> <nodes> <md> <rank> <idx> <shards> <reqs>         -> set of  <trace>;<final>
              shards "sid/rules/ens_sid/rules/ens", reqs "sid>from,sid>from" ("-" = none)
              trace  outcomes joined by ",", final "sid:ens/removed_..."
   A set is its distinct members sorted and joined by "|".
   The model version is Fixed (the tree with /verif/fixes applied) unless VERIF_SELECTOR_OLD=1. *)
let version = match Sys.getenv_opt "VERIF_SELECTOR_OLD" with Some "1" -> M.Old | _ -> M.Fixed
let ids s = if s = "-" then [] else List.map n_of_string (String.split_on_char ',' s)
let ids_dot s = if s = "-" || s = "" then [] else List.map n_of_string (String.split_on_char '.' s)
let str_ids sep l = if l = [] then "-" else String.concat sep (List.map string_of_n l)
let rec nat_of_int i = if i <= 0 then M.O else M.S (nat_of_int (i - 1))
let md_of s =
  if s = "-" then [] else
  List.map (fun e ->
    match String.split_on_char ':' e with
    | [sv; ls] ->
      let labels = if ls = "" then [] else
        List.map (fun kv -> match String.split_on_char '=' kv with
          | [k; v] -> (n_of_string k, n_of_string v)
          | _ -> failwith ("bad label " ^ kv)) (String.split_on_char '.' ls) in
      (n_of_string sv, labels)
    | _ -> failwith ("bad md " ^ e)) (String.split_on_char ';' s)
let rules_of s =
  if s = "-" then [] else
  List.map (fun e ->
    match String.split_on_char ':' e with
    | [m; ls] ->
      let mode = (match m with "S" -> M.Strict | "R" -> M.Relaxed | _ -> M.OtherMode) in
      { M.r_labels = ids_dot ls; M.r_mode = mode }
    | _ -> failwith ("bad rule " ^ e)) (String.split_on_char ';' s)
let rank_of s = if s = "nil" then None else Some (ids s)
let idx_of s = if s = "nil" then None else Some (n_of_string s)
let env md rules rank idx = { M.e_md = md_of md; M.e_rules = rules_of rules; M.e_rank = rank_of rank; M.e_idx = idx_of idx }
let err_name = function
  | M.EReplicas -> "replicas" | M.EAntiAffinity -> "antiaffinity" | M.EMode -> "mode"
  | M.ENoFunctioning -> "nofunctioning" | M.EMultiple -> "multiple" | M.ETargetMissing -> "targetmissing"
let set_str l = String.concat "|" (List.sort_uniq compare l)
let swap_str = function
  | M.Swap t -> "swap:" ^ string_of_n t | M.NoSwap -> "noswap"
  | M.SwapErr e -> "err:" ^ err_name e | M.SwapPanic -> "panic"
let md_str m = str_ids "." m.M.m_ens ^ "/" ^ str_ids "." m.M.m_removed
let () = read_lines (fun line ->
  match String.split_on_char ' ' line with
  | ["ens"; id; nodes; md; rules; rank; idx; rf] ->
    let rs = M.ensemble_select version (env md rules rank idx) (ids nodes) (nat_of_int (int_of_string rf)) in
    Printf.printf "%s %s\n" id (set_str (List.map (function
      | M.Ok l -> "ok:" ^ str_ids "." l | M.Err e -> "err:" ^ err_name e | M.Panic -> "panic") rs))
  | ["place"; id; nodes; md; rules; rf] ->
    (* shard creation through the coordinator: the load ranking is not an input; without a ranking every candidate
       is an admissible pick, so the outcome set contains the outcomes of every ranking; errors are not observable
       in the cluster status (the namespace is absent) *)
    let rs = M.ensemble_select version (env md rules "nil" "nil") (ids nodes) (nat_of_int (int_of_string rf)) in
    Printf.printf "%s %s\n" id (set_str (List.map (function
      | M.Ok l -> "ok:" ^ str_ids "." l | M.Err _ -> "refused" | M.Panic -> "panic") rs))
  | ["single"; id; nodes; md; rules; rank; idx; sel] ->
    let sel = if sel = "nosel" then None else Some (ids sel) in
    let rs = M.single_case version (env md rules rank idx) (ids nodes) sel in
    Printf.printf "%s %s\n" id (set_str (List.map (function
      | M.Ok s -> "ok:" ^ string_of_n s | M.Err e -> "err:" ^ err_name e | M.Panic -> "panic") rs))
  | ["swap"; id; nodes; md; rules; rank; idx; ens; from] ->
    let rs = M.swap_shard version (env md rules rank idx) (ids nodes) (ids ens) (n_of_string from) in
    Printf.printf "%s %s\n" id (set_str (List.map swap_str rs))
  | ["swapnode"; id; ens; removed; from; to_] ->
    let (m, ok) = M.swap_node version { M.m_ens = ids ens; M.m_removed = ids removed } (n_of_string from) (n_of_string to_) in
    Printf.printf "%s %s:%s\n" id (if ok then "ok" else "refused") (md_str m)
  | ["swapctl"; id; ens; removed; from; to_; eok] ->
    (* a whole swapNode of a controller whose memory equals the status: verdict and STORED ensemble afterwards *)
    let m = { M.m_ens = ids ens; M.m_removed = ids removed } in
    let (c, r) = M.swap_node_ctl version { M.ctl_mem = m; M.ctl_stored = m } (n_of_string from) (n_of_string to_) (eok = "1") in
    Printf.printf "%s %s:%s\n" id
      (match r with M.SwapRefused -> "refused" | M.SwapElectionFailed -> "failed" | M.SwapDone -> "done")
      (str_ids "." c.M.ctl_stored.M.m_ens)
  | ["round"; id; nodes; md; rank; idx; shards; reqs] ->
    let snap = if shards = "-" then [] else List.map (fun s ->
      match String.split_on_char '/' s with
      | [sid; rules; ens] -> (n_of_string sid, (rules_of rules, ids ens))
      | _ -> failwith ("bad shard " ^ s)) (String.split_on_char '_' shards) in
    let reqs = if reqs = "-" then [] else List.map (fun s ->
      match String.split_on_char '>' s with
      | [sid; from] -> (n_of_string sid, n_of_string from)
      | _ -> failwith ("bad req " ^ s)) (String.split_on_char ',' reqs) in
    let rs = M.round version version (env md "-" rank idx) (ids nodes) snap reqs in
    Printf.printf "%s %s\n" id (set_str (List.map (fun (trace, st) ->
      (if trace = [] then "-" else String.concat "," (List.map swap_str trace)) ^ ";" ^
      (if st = [] then "-" else String.concat "_" (List.map (fun (k, m) -> string_of_n k ^ ":" ^ md_str m) st))) rs))
  | [] | [""] -> ()
  | _ -> Printf.printf "?? bad line: %s\n" line)
