(* driver for the Quorum model (quorum_ack_tracker.go): one case per line, state threaded inside the case.
   seq <id> <rf> <head> <commit> <op>;<op>;...     ("-" = no ops)
     ops:  N            NextOffset()
           H<h>         AdvanceHeadOffset(h)
           W<o>:<id>    WaitForCommitOffsetAsync(o, callback id)
           V<o>:<id>    the same call with an already cancelled context (the tracker ignores the context)
           C<a>         NewCursorAcker(a)
           A<c>:<o>     ack of offset o through the cursor with index c
           X            Close()
           P<o>:<id>    WaitForHeadOffset(o) issued by a parked waiter (a follower cursor) with that id
   result: one observation per op joined by ';' :  <commit>,<head>,<res>,<fired>,<woken>
     woken: - | ids of the head waiters that returned after this op, ascending, joined by '.' 
     res:   - | n<o> | c<idx> | e:toomany | e:invalidhead | panic
     fired: - | <id>+ / <id>!  joined by '.'   (+ = OnComplete, ! = OnCompleteError) *)
let parse_op s : M.op =
  let rest = String.sub s 1 (String.length s - 1) in
  match s.[0] with
  | 'N' -> M.OpNext
  | 'H' -> M.OpAdvance (mz_of_string rest)
  | 'W' | 'V' -> (match String.split_on_char ':' rest with
            | [o; id] -> M.OpWait (mz_of_string o, n_of_string id) | _ -> failwith ("bad op " ^ s))
  | 'C' -> M.OpNewCursor (mz_of_string rest)
  | 'A' -> (match String.split_on_char ':' rest with
            | [c; o] -> M.OpAck (n_of_string c, mz_of_string o) | _ -> failwith ("bad op " ^ s))
  | 'X' -> M.OpClose
  | _ -> failwith ("bad op " ^ s)
let parse_hop s : M.hop =
  if s.[0] = 'P' then
    (match String.split_on_char ':' (String.sub s 1 (String.length s - 1)) with
     | [o; id] -> M.HPark (mz_of_string o, n_of_string id) | _ -> failwith ("bad op " ^ s))
  else M.HBase (parse_op s)
let string_of_woken l =
  if l = [] then "-" else
  String.concat "." (List.map Z.to_string (List.sort Z.compare (List.map z_of_n l)))
let string_of_res = function
  | M.RNone -> "-"
  | M.RNext o -> "n" ^ string_of_mz o
  | M.RCursor i -> "c" ^ string_of_n i
  | M.RErrTooMany -> "e:toomany"
  | M.RErrInvalidHead -> "e:invalidhead"
  | M.RPanic -> "panic"
let string_of_fired l =
  if l = [] then "-" else
  String.concat "." (List.map (fun (id, ok) -> string_of_n id ^ (if ok then "+" else "!")) l)
let () = read_lines (fun line ->
  match String.split_on_char ' ' line with
  | ["seq"; id; rf; h; c; ops] ->
    let st = ref (M.new_tracker (n_of_string rf) (mz_of_string h) (mz_of_string c), []) in
    let ops = if ops = "-" then [] else String.split_on_char ';' ops in
    let obs = List.map (fun o ->
      let (st', ((r, f), w)) = M.hstep !st (parse_hop o) in
      st := st';
      let s' = fst st' in
      Printf.sprintf "%s,%s,%s,%s,%s" (string_of_mz (M.commit s')) (string_of_mz (M.head s')) (string_of_res r) (string_of_fired f) (string_of_woken w)) ops in
    Printf.printf "%s %s\n" id (if obs = [] then "-" else String.concat ";" obs)
  | [] | [""] -> ()
  | _ -> Printf.printf "?? bad line: %s\n" line)
