(* driver for the Cluster (World) model: replays the action list that the Go cluster harness derived from the
   event log of a REAL oxia cluster through the extracted [step], one trace per stdin line.

   trace <id> <ens: 1,2,3> <universe: 1,2,3,4> <tok> <tok> ...   ->   <id> ok c01=<bool> inconsistent_attaches=<k>     (c01 = acked_survive_b held after every action)
                                                                   |   <id> refused@<i>:<tok> <model node states>
                                                                   |   <id> mismatch@<i>:<tok> model=<term>:<status>:<log>
   tokens (nodes, terms, offsets, value ids are decimals; model term = oxia term + 1; log = t.v,t.v,... or -):
     NE | NT:n:t | EL:l:n=log|n=log|...:rrs | BL:l | AT:l:f:flog[:T|N] | FB:l | CW:l:v | SA:l:f:o | RA:f:t:o:t.v
     RK:l:f:o | AC:l:o | LC:f:l:c | CR:n | SW:from:to | DR
     DL:n          the node lost its disk and came back with nothing (DiskLoss.xstep; not an action of the base model)
     IS:l:f:k      snapshot install of the first k entries of l's log on f (mapped to SendAppend/RecvAppend/RecvAck/
                   LearnCommit, see below)
     CK:n:term:status:log   checkpoint: the real node n showed this projection here (status N|F|O|L, X = F or O);
                   not a model action
   AT's optional last field says what the real leader did (T = it sent a Truncate RPC, N = it attached the cursor
   without one); it is compared with the extracted attach_decide on the model's state before the Attach is replayed.
   The step function is DiskLoss.xstep = CodeModel.step_code (the protocol as the code runs it) + DiskLoss; attach_consistent is evaluated
   before every Attach.
     #...          note, ignored *)
let rec nat_of_int i = if i <= 0 then M.O else M.S (nat_of_int (i - 1))
let rec int_of_nat = function M.O -> 0 | M.S n -> 1 + int_of_nat n
let nat_s s = nat_of_int (int_of_string s)
let ints s = if s = "-" || s = "" then [] else List.map int_of_string (String.split_on_char ',' s)
let nats s = List.map nat_of_int (ints s)
let entry_s s = match String.split_on_char '.' s with
  | [t; v] -> { M.eterm = nat_s t; M.eval = nat_s v }
  | _ -> failwith ("bad entry " ^ s)
let log_s s = if s = "-" || s = "" then [] else List.map entry_s (String.split_on_char ',' s)
let str_entry e = Printf.sprintf "%d.%d" (int_of_nat e.M.eterm) (int_of_nat e.M.eval)
let str_log l = if l = [] then "-" else String.concat "," (List.map str_entry l)
let str_status = function M.NotMember -> "N" | M.Fenced -> "F" | M.Follower -> "O" | M.Leader -> "L"

let parse_action tok : M.action list =
  match String.split_on_char ':' tok with
  | ["NE"] -> [M.NewElection]
  | ["NT"; n; t] -> [M.NewTerm (nat_s n, nat_s t)]
  | ["EL"; l; cands; rrs] ->
    let cs = if cands = "-" then [] else List.map (fun c ->
      match String.split_on_char '=' c with
      | [n; lg] -> (nat_s n, log_s lg)
      | _ -> failwith ("bad cand " ^ c)) (String.split_on_char '|' cands) in
    [M.Elect (nat_s l, cs, nats rrs)]
  | ["BL"; l] -> [M.BecomeLeader (nat_s l)]
  | ["AT"; l; f; flog] | ["AT"; l; f; flog; _] -> [M.Attach (nat_s l, nat_s f, log_s flog)]
  | ["FB"; l] -> [M.FinishBecomeLeader (nat_s l)]
  | ["CW"; l; v] -> [M.ClientWrite (nat_s l, nat_s v)]
  | ["SA"; l; f; o] -> [M.SendAppend (nat_s l, nat_s f, nat_s o)]
  | ["RA"; f; t; o; e] -> [M.RecvAppend (nat_s f, nat_s t, nat_s o, entry_s e)]
  | ["RK"; l; f; o] -> [M.RecvAck (nat_s l, nat_s f, nat_s o)]
  | ["AC"; l; o] -> [M.AckClient (nat_s l, nat_s o)]
  | ["LC"; f; l; c] -> [M.LearnCommit (nat_s f, nat_s l, nat_s c)]
  | ["CR"; n] -> [M.Crash (nat_s n)]
  | ["SW"; a; b] -> [M.Swap (nat_s a, nat_s b)]
  | ["DR"] -> [M.DeleteRemoved]
  | _ -> failwith ("bad token " ^ tok)

let nth_opt l i = try Some (List.nth l i) with _ -> None

(* snapshot install: the follower receives the state after the first k entries of the leader's log.  As decided by
   the model's author it is replayed as: the appends of the entries the follower misses, one cumulative ack, and
   LearnCommit f l k (the follower's database is at commit offset k-1). *)
let expand_snapshot (w : M.world) l f k : M.action list =
  let s = w.M.nodes (nat_of_int l) in
  let have = List.length ((w.M.nodes (nat_of_int f)).M.nlog) in
  let rec go i acc =
    if i >= k then List.rev acc else
    match nth_opt s.M.nlog i with
    | None -> List.rev acc
    | Some e ->
      go (i + 1) (M.RecvAppend (nat_of_int f, s.M.nterm, nat_of_int i, e)
                  :: M.SendAppend (nat_of_int l, nat_of_int f, nat_of_int i) :: acc) in
  go have [] @ (if k > 0 && have < k then [M.RecvAck (nat_of_int l, nat_of_int f, nat_of_int (k - 1))] else [])
  @ [M.LearnCommit (nat_of_int f, nat_of_int l, nat_of_int k)]

let dump (w : M.world) (univ : int list) =
  String.concat " " (List.map (fun n ->
    let s = w.M.nodes (nat_of_int n) in
    Printf.sprintf "[%d: t=%d %s%s log=%s ehead=%d rf=%d commit=%d acked=%s]" n (int_of_nat s.M.nterm) (str_status s.M.nst)
      (if s.M.nelect then "+electing" else "") (str_log s.M.nlog) (int_of_nat s.M.nehead) (int_of_nat s.M.nrf)
      (int_of_nat s.M.ncommit)
      (String.concat "," (List.map (fun (f, a) -> Printf.sprintf "%d>%d" (int_of_nat f) (int_of_nat a)) s.M.nacked)))
    univ)
  ^ Printf.sprintf " cterm=%d ens=%s removed=%s" (int_of_nat w.M.cterm)
      (String.concat "," (List.map (fun n -> string_of_int (int_of_nat n)) w.M.ens))
      (String.concat "," (List.map (fun n -> string_of_int (int_of_nat n)) w.M.removed))

exception Stop of string

let run_trace id ens univ toks =
  let w = ref (M.init (List.map nat_of_int ens)) in
  let inconsistent = ref 0 in
  let lost = ref false in
  let univn = List.map nat_of_int univ in
  let step_all i tok acts =
    List.iter (fun a ->
      if not (M.attach_consistent !w a) then incr inconsistent;
      match M.xstep !w (M.Base a) with
      | Some w' -> w := w'; if not (M.acked_survive_b w' univn) then lost := true
      | None -> raise (Stop (Printf.sprintf "refused@%d:%s %s" i tok (dump !w univ)))) acts in
  (try
    List.iteri (fun i tok ->
      if tok = "" || tok.[0] = '#' then ()
      else match String.split_on_char ':' tok with
      | ["CK"; n; t; st; lg] ->
        let s = !w.M.nodes (nat_s n) in
        let ms = str_status s.M.nst in
        let ms' = if st = "X" && (ms = "F" || ms = "O") then "X" else ms in
        let m = Printf.sprintf "%d:%s:%s" (int_of_nat s.M.nterm) ms' (str_log s.M.nlog) in
        if m <> Printf.sprintf "%s:%s:%s" t st lg then
          raise (Stop (Printf.sprintf "mismatch@%d:%s model=%s" i tok m))
      | ["AT"; l; _; flog; did] ->
        let s = !w.M.nodes (nat_s l) in
        let rec firstn n l = match n, l with 0, _ | _, [] -> [] | n, x :: tl -> x :: firstn (n - 1) tl in
        let eh = int_of_nat s.M.nehead in
        let lh = (M.last_term (firstn eh s.M.nlog), s.M.nehead) in
        let d = match M.attach_decide s.M.nlog lh (M.lhead (log_s flog)) with
          | M.NoTruncate _ -> "N" | M.TruncateTo (_, _) -> "T" | M.AttachError -> "E" in
        if d <> did then
          raise (Stop (Printf.sprintf "mismatch@%d:%s model=attach_decide:%s impl=%s (T = Truncate sent, N = attached without Truncate) %s"
                         i tok d did (dump !w univ)));
        step_all i tok (parse_action tok)
      | ["DL"; n] ->
        (match M.xstep !w (M.DiskLoss (nat_s n)) with
         | Some w' -> w := w'
         | None -> raise (Stop (Printf.sprintf "refused@%d:%s %s" i tok (dump !w univ))))
      | ["IS"; l; f; k] ->
        step_all i tok (expand_snapshot !w (int_of_string l) (int_of_string f) (int_of_string k))
      | _ -> step_all i tok (parse_action tok)) toks;
    let c01 = not !lost in
    Printf.printf "%s ok c01=%b inconsistent_attaches=%d\n" id c01 !inconsistent
  with
  | Stop m -> Printf.printf "%s %s\n" id m
  | Failure m -> Printf.printf "%s error:%s\n" id m)

let () = read_lines (fun line ->
  match String.split_on_char ' ' line with
  | "trace" :: id :: ens :: univ :: toks -> run_trace id (ints ens) (ints univ) toks
  | [] | [""] -> ()
  | _ -> Printf.printf "?? bad line\n")
