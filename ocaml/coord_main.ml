(* driver for the Coord model (property C05): one case per line on stdin, one canonical result line per case.
   sel   <id> <resp>                                   -> <id> panic | <id> <cands a|b> <resp sorted>
   elect <id> <prov> <ens> <rem> <t0> <heads> <incs>   -> <id> trace tokens (BL token: BL:<t>:<rf>:<cands a|b>:<res sorted>)
   fstore <id> <cut>                                   -> <id> old|new     (fixed file provider: all-or-nothing)
   cfgrace <id> <bl|full> <t0>                         -> <id> trace tokens (ConfigChanged racing with an election retry)
   node  <id> <ops>                                    -> <id> res:dterm:status:term;...
   Servers are decimal numbers. *)
let split_list s = if s = "-" || s = "" then [] else String.split_on_char ',' s
let eid_of_string s =
  let i = String.rindex s ':' in
  { M.e_term = mz_of_string (String.sub s 0 i); M.e_off = mz_of_string (String.sub s (i+1) (String.length s - i - 1)) }
let string_of_eid e = string_of_mz e.M.e_term ^ ":" ^ string_of_mz e.M.e_off
let resp_of_string s =
  List.map (fun p -> let i = String.index p '=' in
    (n_of_string (String.sub p 0 i), eid_of_string (String.sub p (i+1) (String.length p - i - 1)))) (split_list s)
let cmp_n a b = Z.compare (z_of_n a) (z_of_n b)
(* servers are printed in the order of their decimal strings, as the Go side sorts names *)
let cmp_name a b = compare (string_of_n a) (string_of_n b)
let string_of_resp l =
  if l = [] then "-" else
  String.concat "," (List.map (fun (s, e) -> string_of_n s ^ "=" ^ string_of_eid e)
                       (List.sort (fun (a, _) (b, _) -> cmp_name a b) l))
let names sep l = if l = [] then "-" else String.concat sep (List.map string_of_n l)
let sorted_names sep l = names sep (List.sort cmp_name l)
let rec nat_of_int i = if i <= 0 then M.O else M.S (nat_of_int (i - 1))
let rec int_of_nat = function M.O -> 0 | M.S n -> 1 + int_of_nat n

let gate_of_string s = match s with
  | "none" -> M.GNone | "s1pre" -> M.GS1pre | "s1post" -> M.GS1post | "blpre" -> M.GBlpre | "blpost" -> M.GBlpost
  | "s2pre" -> M.GS2pre | "s2post" -> M.GS2post | "end" -> M.GEnd
  | _ when String.length s > 2 && String.sub s 0 2 = "nt" -> M.GNt (nat_of_int (int_of_string (String.sub s 2 (String.length s - 2))))
  | _ -> failwith ("bad gate " ^ s)
let string_of_gate = function
  | M.GNone -> "none" | M.GS1pre -> "s1pre" | M.GS1post -> "s1post" | M.GBlpre -> "blpre" | M.GBlpost -> "blpost"
  | M.GS2pre -> "s2pre" | M.GS2post -> "s2post" | M.GEnd -> "end" | M.GNt j -> "nt" ^ string_of_int (int_of_nat j)

let signed s = (n_of_string (String.sub s 0 (String.length s - 1)), s.[String.length s - 1] = '+')
let round_of_string s =
  match String.split_on_char ';' s with
  | [arr; bl; rf] ->
    { M.r_arr = List.map (fun a -> if a = "T" then M.STimer else let (n, ok) = signed a in M.SArrive (n, ok)) (split_list arr);
      M.r_bl = (bl = "ok");
      M.r_ref = List.map signed (split_list rf) }
  | _ -> failwith ("bad round " ^ s)
let inc_of_string s =
  let i = String.rindex s '@' in
  { M.i_rounds = List.map round_of_string (String.split_on_char '|' (String.sub s 0 i));
    M.i_gate = gate_of_string (String.sub s (i+1) (String.length s - i - 1)) }

let status_name = function M.SUnknown -> "unknown" | M.SSteady -> "steady" | M.SElection -> "election" | M.SDeleting -> "deleting"
let string_of_obs = function
  | M.OInc i -> "I" ^ string_of_int (int_of_nat i)
  | M.OInit -> "INIT"
  | M.OStore (c, elected) ->
    let l = match c.M.c_leader with None -> "-" | Some l -> if elected then "$L" else string_of_n l in
    Printf.sprintf "S:%s:%s:%s:%s:%s" (string_of_mz c.M.c_term) (status_name c.M.c_status) l (names "." c.M.c_ens) (names "." c.M.c_rem)
  | M.OConfigStore (c, elected) ->
    let l = match c.M.c_leader with None -> "-" | Some l -> if elected then "$L" else string_of_n l in
    Printf.sprintf "CS:%s:%s:%s:%s:%s" (string_of_mz c.M.c_term) (status_name c.M.c_status) l (names "." c.M.c_ens) (names "." c.M.c_rem)
  | M.OCrashCfg -> "X:cfg"
  | M.ONewTerms (t, l) -> Printf.sprintf "NT:%s:%s" (string_of_mz t) (sorted_names "." l)
  | M.OQFail -> "Q:fail"
  | M.OBecomeLeader (t, rf, cands, res) ->
    Printf.sprintf "BL:%s:%d:%s:%s" (string_of_mz t) (int_of_nat rf) (sorted_names "|" cands) (string_of_resp res)
  | M.OBlResp ok -> if ok then "BLR:ok" else "BLR:err"
  | M.ODeleteShard (t, n) -> Printf.sprintf "DS:%s:%s" (string_of_mz t) (string_of_n n)
  | M.ORefence (t, n, ok, h) ->
    if ok then Printf.sprintf "RF:%s:%s:ok:AF:$L:%s:%s:%s" (string_of_mz t) (string_of_n n) (string_of_n n)
                 (string_of_mz h.M.e_term) (string_of_mz h.M.e_off)
    else Printf.sprintf "RF:%s:%s:err" (string_of_mz t) (string_of_n n)
  | M.OGetStatus n -> "GS:" ^ string_of_n n
  | M.OIdle -> "IDLE"
  | M.OCrash g -> "X:" ^ string_of_gate g
  | M.OStuck i -> "X:model-stuck-" ^ string_of_int (int_of_nat i)

let nstatus_name = function M.NotMember -> "notmember" | M.Fenced -> "fenced" | M.Follower -> "follower" | M.Leader -> "leader"
let res_name = function M.Ok -> "ok" | M.InvalidTerm -> "status:invalid-term" | M.InvalidStatus -> "status:invalid-status"
                      | M.Unavailable -> "err:unavailable"
let nodeop_of_string s =
  match String.split_on_char ':' s with
  | ["nt"; t] -> M.NONewTerm (mz_of_string t)
  | ["bl"; t] -> M.NOBecomeLeader (mz_of_string t)
  | ["fo"; t] -> M.NOFollow (mz_of_string t)
  | ["rs"] | ["cr"] -> M.NORestart
  | _ -> failwith ("bad node op " ^ s)

let () = read_lines (fun line ->
  match String.split_on_char ' ' line with
  | ["sel"; id; resp] ->
    let r = resp_of_string resp in
    (match M.candidates r with
     | [] -> Printf.printf "%s panic\n" id
     | c -> Printf.printf "%s %s %s\n" id (sorted_names "|" c) (string_of_resp r))
  | ["elect"; id; _prov; ens; rem; t0; heads; incs] ->
    let ns l = List.map n_of_string (split_list l) in
    let tr = M.drive M.fixed (ns ens) (ns rem) (mz_of_string t0) (resp_of_string heads)
               (List.map inc_of_string (String.split_on_char '/' incs)) in
    Printf.printf "%s %s\n" id (String.concat " " (List.map string_of_obs tr))
  | ["cfgrace"; id; mode; t0] ->
    let tr = M.cfg_drive M.cfixed (mode = "full") (mz_of_string t0) in
    Printf.printf "%s %s\n" id (String.concat " " (List.map string_of_obs tr))
  | "swapf" :: id :: _ ->
    (* a swap whose election fails at some RPC: decided by the monitors on the RPC / Store log *)
    Printf.printf "%s *\n" id
  | "quorum" :: id :: _ ->
    (* real nodes in scripted states: judged by the "sel" line that follows (model on the TRUE heads) and by the monitors *)
    Printf.printf "%s *\n" id
  | "sfault" :: id :: _ ->
    (* metadata-store outage: retrying, and dying during the outage, are both admitted (ACoordStoreFail / ACoordCrash);
       these cases are decided by the monitors on the RPCs that left the coordinator, not by a trace comparison *)
    Printf.printf "%s *\n" id
  | ["fstore"; id; cut] ->
    (* fixed provider: the write is all-or-nothing; which of the two depends on whether the whole status fits *)
    Printf.printf "%s old|new\n" id
  | ["node"; id; ops] ->
    let tr = M.node_run M.node_init (List.map nodeop_of_string (split_list ops)) in
    Printf.printf "%s %s\n" id (String.concat ";" (List.map (fun ((r, dt), st) ->
      Printf.sprintf "%s:%s:%s" (res_name r) (string_of_mz dt)
        (match st with None -> "none" | Some (s, t) -> nstatus_name s ^ "@" ^ string_of_mz t)) tr))
  | [] | [""] -> ()
  | _ -> Printf.printf "?? bad line: %s\n" line)
