(* driver for the Wal model: one op sequence per line.
   seq    <id> <seg_size> <retention_ms> <op>;<op>;...   -> <id> <obs>;<obs>;...     (Model.run, the code as repaired)
   seqold <id> <seg_size> <retention_ms> <op>;...        -> <id> <obs>;...           (Model.run_old, the code before the repairs)
   ops:  a:<psize>:<term>:<off>:<ts>:<pay>[:<len>]  AppendAsync      A:...  Append   (<len>: value length, used by the Go side only)
         s Sync   t:<o> TruncateLog   c Clear   T:<now>:<commit> trimmer round   r Close+reopen
         f:<after> forward read   F forward read from the first offset   b reverse read
   obs:  <out>@<first>,<last>   out = ok | err:<kind> | tr:<z> | rd:<e>,<e>,...[!<kind>]   e = term.off.ts.pay  ("-" = none) *)
let entry_of t o ts p = { M.e_term = mz_of_string t; M.e_off = mz_of_string o; M.e_ts = mz_of_string ts; M.e_pay = n_of_string p }
let op_of_string ret s =
  match String.split_on_char ':' s with
  | ["a"; ps; t; o; ts; p] | ["a"; ps; t; o; ts; p; _] -> M.AppendAsync (n_of_string ps, entry_of t o ts p)
  | ["A"; ps; t; o; ts; p] | ["A"; ps; t; o; ts; p; _] -> M.Append (n_of_string ps, entry_of t o ts p)
  | ["s"] -> M.Sync
  | ["t"; o] -> M.Truncate (mz_of_string o)
  | ["c"] -> M.Clear
  | ["T"; now; commit] -> M.Trim (mz_of_string now, ret, mz_of_string commit)
  | ["r"] -> M.Reopen
  | ["R"] -> M.Reopen   (* crash + reopen on a copy of the directory: every appended byte is in the copy, the model's reopen *)
  | ["f"; a] -> M.ReadFwd (mz_of_string a)
  | ["F"] -> M.ReadAll
  | ["b"] -> M.ReadBwd
  | _ -> failwith ("bad op " ^ s)
let string_of_err = function
  | M.ENegOffset -> "neg-offset" | M.EInvalidNext -> "invalid-next" | M.ESegmentFull -> "segment-full"
  | M.EEmptyPayload -> "empty-payload" | M.EOutOfBounds -> "out-of-bounds" | M.EEntryNotFound -> "entry-not-found"
  | M.EIO -> "io" | M.EDataCorrupted -> "data-corrupted" | M.EPanic -> "panic" | M.EHang -> "hang"
let string_of_entry e =
  String.concat "." [string_of_mz e.M.e_term; string_of_mz e.M.e_off; string_of_mz e.M.e_ts; string_of_n e.M.e_pay]
let string_of_out = function
  | M.ODone (M.Ok _) -> "ok"
  | M.ODone (M.Err e) -> "err:" ^ string_of_err e
  | M.OTrunc (M.Ok z) -> "tr:" ^ string_of_mz z
  | M.OTrunc (M.Err e) -> "err:" ^ string_of_err e
  | M.ORead (M.Err e) -> "err:" ^ string_of_err e
  | M.ORead (M.Ok (es, x)) ->
    "rd:" ^ (if es = [] then "-" else String.concat "," (List.map string_of_entry es))
    ^ (match x with None -> "" | Some e -> "!" ^ string_of_err e)
let string_of_obs ((x, f), l) = string_of_out x ^ "@" ^ string_of_mz f ^ "," ^ string_of_mz l
let () = read_lines (fun line ->
  match String.split_on_char ' ' line with
  | [kind; id; sz; ret; ops] when kind = "seq" || kind = "seqold" ->
    let ret = mz_of_string ret in
    let ops = if ops = "-" then [] else List.map (op_of_string ret) (String.split_on_char ';' ops) in
    let (_, xs) = (if kind = "seq" then M.run else M.run_old) (M.init (n_of_string sz)) ops in
    Printf.printf "%s %s\n" id (if xs = [] then "-" else String.concat ";" (List.map string_of_obs xs))
  | [] | [""] -> ()
  | _ -> Printf.printf "?? bad line: %s\n" line)
