(* Driver for the Db model (Coq directory theories/Db): one case per stdin line, one canonical result line per case.
   The Go side (harness/cmd/db/main.go) writes exactly these lines; KEEP THE TWO GRAMMARS IN SYNC.

   CASE LINES
     seq  <id> <shard> <threshold> <op>;<op>;...     request sequence against a fresh DB, full observables
     hseq <id> <shard> <threshold> <op>;<op>;...     same grammar, hostile stream: write results are reduced
                                                     to classes  ok:<statuses> | err | panic
     pure <id> <fn> <arg>                            pure helper functions (esc, unesc, hex16, pad20, scan20,
                                                     scanint, dec, cmp <a> <b>)
   Byte strings are lower-case hex, "-" = empty; optional fields use "n" for absent.
   OPS (fields separated by ':')
     W:<offset>:<ts>:<puts>:<dels>:<ranges>     ProcessWrite with WrapperUpdateOperationCallback
         puts   = "-" | put|put|...      put   = key,value,expver,session,identity,partition,deltas,indexes
                  expver/session = n | int64;  identity/partition = n | hex
                  deltas = "-" | u64+u64+...;  indexes = "-" | name=skey+name=skey+...
         dels   = "-" | key,expver|...
         ranges = "-" | start,end|...
     G:<cmp>:<key>:<incl>        Get, cmp 0..4 = EQUAL FLOOR CEILING LOWER HIGHER, incl 0|1
     L:<start>:<end>             List            S:<start>:<end>   RangeScan
     N:<from>                    ReadNextNotifications(from)
     T:<term>:<0|1>              UpdateTerm(term, {NotificationsEnabled})     E:<0|1>  EnableNotifications
     B:<seed>                    busy process from here on (harness/cmd/db/c12_busy.go); no effect in the model  -> ok
     R                           close + NewDB on the same store              C        ReadCommitOffset
     D                           full ordered dump                            H        md5 of the dump text
     IG:<name>:<cmp>:<key>:<incl>   IL:<name>:<start>:<end>   IS:<name>:<start>:<end>   secondary-index reads
   RESULT LINE  <id> <r1>;<r2>;...   one result per op
     W  -> ok:<putresps>:<delstatuses>:<rangestatuses> | err:<kind> | panic        (lists ","-separated, "-" empty)
           putresp = <STATUS> | OK/<version>/<modcount>/<ctime>/<mtime>/<session|n>/<identity|n>/<key|n>
     G,IG -> KEY_NOT_FOUND[/<key>] | <STATUS>/<key|n>/<value>/<version>/<modcount>/<ctime>/<mtime>/<session|n>/<identity|n>/<skey|n> | err:<kind>
     L,IL -> key,key,... | "-" | err:<kind>
     S  -> key=<value>/<version>/<modcount>/<ctime>/<mtime>/<session|n>/<identity|n>,...     IS -> G-style responses ","-separated
     N  -> batch,batch,...   batch = <shard>/<offset>/<ts>/<notifs>   notifs = "-" | key~c<ver> & key~m<ver> & key~d & key~r<last>  (sorted by key)
     T,E,R -> ok | err:<kind>        C -> <int> | err:<kind>
     D  -> key=<val>,...   val = R/<value>/<version>/<modcount>/<ctime>/<mtime>/<session|n>/<identity|n>/<partition|n>/<indexes>
                                 | B/<shard>/<offset>/<ts>/<notifs>        indexes = "-" | name=skey+...
           (ctime/mtime of __oxia/term and __oxia/term-options are wall-clock in the code: both sides print 0)
*)
let rec nat_of_int n = if n <= 0 then M.O else M.S (nat_of_int (n - 1))
let opt_z s = if s = "n" then None else Some (mz_of_string s)
let opt_hex s = if s = "n" then None else Some (bytes_of_hex s)
let str_opt_z = function None -> "n" | Some z -> string_of_mz z
let str_opt_hex = function None -> "n" | Some b -> hex_of_bytes b
let list_of sep s = if s = "-" then [] else String.split_on_char sep s
let join sep l = if l = [] then "-" else String.concat sep l

let sindex_of s = match String.split_on_char '=' s with
  | [a; b] -> { M.si_name = bytes_of_hex a; M.si_key = bytes_of_hex b }
  | _ -> failwith ("bad index " ^ s)
let put_of s = match String.split_on_char ',' s with
  | [k; v; ev; se; id; pa; de; ix] ->
    { M.p_key = bytes_of_hex k; M.p_value = bytes_of_hex v; M.p_expected = opt_z ev; M.p_session = opt_z se;
      M.p_identity = opt_hex id; M.p_partition = opt_hex pa;
      M.p_deltas = List.map n_of_string (list_of '+' de); M.p_indexes = List.map sindex_of (list_of '+' ix) }
  | _ -> failwith ("bad put " ^ s)
let del_of s = match String.split_on_char ',' s with
  | [k; ev] -> { M.d_key = bytes_of_hex k; M.d_expected = opt_z ev }
  | _ -> failwith ("bad delete " ^ s)
let range_of s = match String.split_on_char ',' s with
  | [a; b] -> { M.r_start = bytes_of_hex a; M.r_end = bytes_of_hex b }
  | _ -> failwith ("bad range " ^ s)

let status_s = function
  | M.OK -> "OK" | M.KEY_NOT_FOUND -> "KEY_NOT_FOUND" | M.UNEXPECTED_VERSION_ID -> "UNEXPECTED_VERSION_ID"
  | M.SESSION_DOES_NOT_EXIST -> "SESSION_DOES_NOT_EXIST"
let err_s = function
  | M.EMissingPartitionKey -> "missing_partition_key" | M.ESequenceDeltaIsZero -> "sequence_delta_zero"
  | M.EMissingSequenceDeltas -> "missing_sequence_deltas" | M.EScan -> "scan" | M.EDeserialize -> "deserialize"
  | M.ENotificationsDisabled -> "notifications_disabled" | M.EBlocked -> "blocked" | M.EBadIndexKey -> "bad_index_key"
  | M.EPanic -> "panic"
let err_out e = if e = M.EPanic then "panic" else "err:" ^ err_s e
let version_s (v : M.version) =
  String.concat "/" [string_of_mz v.M.v_id; string_of_mz v.M.v_modcount; string_of_n v.M.v_ctime; string_of_n v.M.v_mtime;
                     str_opt_z v.M.v_session; str_opt_hex v.M.v_identity]
let putresp_s (r : M.put_resp) = match r.M.pr_status, r.M.pr_version with
  | M.OK, Some v -> "OK/" ^ version_s v ^ "/" ^ str_opt_hex r.M.pr_key
  | s, _ -> status_s s
let entry_version_s (e : M.entry) =
  String.concat "/" [string_of_mz e.M.e_version; string_of_mz e.M.e_modcount; string_of_n e.M.e_ctime; string_of_n e.M.e_mtime;
                     str_opt_z e.M.e_session; str_opt_hex e.M.e_identity]
let getresp_s (g : M.get_resp) = match g.M.g_version with
  | None -> status_s g.M.g_status ^ (match g.M.g_key with None -> "" | Some k -> "/" ^ hex_of_bytes k)
  | Some v ->
    String.concat "/" [status_s g.M.g_status; str_opt_hex g.M.g_key;
                       (match g.M.g_value with None -> "-" | Some b -> hex_of_bytes b); version_s v; str_opt_hex g.M.g_skey]
let notif_s (k, n) = hex_of_bytes k ^ "~" ^ (match n with
  | M.NCreated v -> "c" ^ string_of_mz v | M.NModified v -> "m" ^ string_of_mz v
  | M.NDeleted -> "d" | M.NRangeDeleted l -> "r" ^ hex_of_bytes l)
let batch_s (b : M.nbatch) =
  String.concat "/" [string_of_mz b.M.nb_shard; string_of_mz b.M.nb_offset; string_of_n b.M.nb_ts;
                     join "&" (List.sort compare (List.map notif_s b.M.nb_notifs))]
let term_key_hex = "5f5f6f7869612f7465726d" and term_opt_hex = "5f5f6f7869612f7465726d2d6f7074696f6e73"
let value_s khex = function
  | M.VRecord e ->
    let masked = khex = term_key_hex || khex = term_opt_hex in
    String.concat "/" ["R"; hex_of_bytes e.M.e_value; string_of_mz e.M.e_version; string_of_mz e.M.e_modcount;
                       (if masked then "0" else string_of_n e.M.e_ctime); (if masked then "0" else string_of_n e.M.e_mtime);
                       str_opt_z e.M.e_session; str_opt_hex e.M.e_identity; str_opt_hex e.M.e_partition;
                       join "+" (List.map (fun si -> hex_of_bytes si.M.si_name ^ "=" ^ hex_of_bytes si.M.si_key) e.M.e_indexes)]
  | M.VNotif b -> "B/" ^ batch_s b
let dump_s (st : M.state) =
  join "," (List.map (fun (k, v) -> let kh = hex_of_bytes k in kh ^ "=" ^ value_s kh v) st.M.st_kv)
let cmp_of s = match s with "0" -> M.CEqual | "1" -> M.CFloor | "2" -> M.CCeiling | "3" -> M.CLower | "4" -> M.CHigher
  | _ -> failwith "bad cmp"

let run_op hostile cfg (st : M.state) (op : string) : M.state * string =
  match String.split_on_char ':' op with
  | ["W"; off; ts; puts; dels; ranges] ->
    let req = { M.w_puts = List.map put_of (list_of '|' puts); M.w_dels = List.map del_of (list_of '|' dels);
                M.w_ranges = List.map range_of (list_of '|' ranges) } in
    let ((st', r), _events) = M.process_write_full M.wrapper_callbacks cfg st req (mz_of_string off) (n_of_string ts) in
    (st', (match r with
      | M.Err e -> if hostile then (if e = M.EPanic then "panic" else "err") else err_out e
      | M.Ok resp ->
        "ok:" ^ join "," (List.map (fun r -> if hostile then status_s r.M.pr_status else putresp_s r) resp.M.wr_puts)
        ^ ":" ^ join "," (List.map status_s resp.M.wr_dels) ^ ":" ^ join "," (List.map status_s resp.M.wr_ranges)))
  | ["G"; c; k; incl] ->
    (st, (match M.db_get st (bytes_of_hex k) (cmp_of c) (incl = "1") with M.Ok g -> getresp_s g | M.Err e -> err_out e))
  | ["L"; a; b] -> (st, join "," (List.map hex_of_bytes (M.db_list st (bytes_of_hex a) (bytes_of_hex b))))
  | ["S"; a; b] ->
    (st, (match M.db_range_scan st (bytes_of_hex a) (bytes_of_hex b) with
      | M.Err e -> err_out e
      | M.Ok l -> join "," (List.map (fun (k, e) -> hex_of_bytes k ^ "=" ^ hex_of_bytes e.M.e_value ^ "/" ^ entry_version_s e) l)))
  | ["N"; from] ->
    (st, (match M.read_next_notifications st (mz_of_string from) with
      | M.Err e -> err_out e | M.Ok l -> join "," (List.map batch_s l)))
  | ["T"; term; en] -> (M.update_term st (mz_of_string term) (en = "1") M.N0, "ok")
  | ["E"; en] -> (M.enable_notifications st (en = "1"), "ok")
  | ["B"; _seed] -> (st, "ok")   (* busy process (harness only): no effect on the DB *)
  | ["R"] -> (match M.reopen (M.persist st) with M.Ok st' -> (st', "ok") | M.Err e -> (st, err_out e))
  | ["C"] -> (st, (match M.read_commit_offset st with M.Ok z -> string_of_mz z | M.Err e -> err_out e))
  | ["D"] -> (st, dump_s st)
  | ["H"] -> (st, Digest.to_hex (Digest.string (dump_s st)))
  | ["IG"; name; c; k; incl] ->
    (st, (match M.secondary_get st (bytes_of_hex name) (bytes_of_hex k) (cmp_of c) (incl = "1") with
      | M.Ok g -> getresp_s g | M.Err e -> err_out e))
  | ["IL"; name; a; b] ->
    (st, (match M.secondary_list st (bytes_of_hex name) (bytes_of_hex a) (bytes_of_hex b) with
      | M.Ok l -> join "," (List.map hex_of_bytes l) | M.Err e -> err_out e))
  | ["IS"; name; a; b] ->
    (st, (match M.secondary_range_scan st (bytes_of_hex name) (bytes_of_hex a) (bytes_of_hex b) with
      | M.Ok l -> join "," (List.map getresp_s l) | M.Err e -> err_out e))
  | _ -> failwith ("bad op " ^ op)

let run_seq hostile id shard thr ops =
  let cfg = { M.cfg_shard = mz_of_string shard; M.cfg_threshold = nat_of_int (int_of_string thr) } in
  let st = ref M.init_state in
  let res = List.map (fun op -> let (st', r) = run_op hostile cfg !st op in st := st'; r) (String.split_on_char ';' ops) in
  Printf.printf "%s %s\n" id (String.concat ";" res)

(* ---- C06 begin ---- snapshot transfer (Db/Snapshot.v); grammar in harness/cmd/db/c06_snapshot.go
   snapsend <id> <chunksize> <file>|<file>|...   file = <namehex>=<contenthex>
       -> <namehex>/<index>/<count>/<contenthex>,...  | panic
   snapload <id> <msg>;<msg>;...                 msg = <namehex>/<index>/<count>/<contenthex>
       -> ok:<namehex>=<contenthex>,... (directory sorted by name) | err@<i>:prev_unfinished | err@<i>:invalid_file *)
let rec int_of_nat = function M.O -> 0 | M.S n -> 1 + int_of_nat n
let c06_msg_s (m : M.chunk_msg) =
  String.concat "/" [hex_of_bytes m.M.m_name; string_of_int (int_of_nat m.M.m_index); string_of_int (int_of_nat m.M.m_count);
                     hex_of_bytes m.M.m_content]
let c06_file_of s = match String.split_on_char '=' s with
  | [n; c] -> (bytes_of_hex n, bytes_of_hex c) | _ -> failwith ("bad file " ^ s)
let c06_msg_of s = match String.split_on_char '/' s with
  | [n; i; c; b] -> { M.m_name = bytes_of_hex n; M.m_index = nat_of_int (int_of_string i);
                      M.m_count = nat_of_int (int_of_string c); M.m_content = bytes_of_hex b }
  | _ -> failwith ("bad chunk " ^ s)
let c06_snapsend id n files =
  let fs = List.map c06_file_of (list_of '|' files) in
  Printf.printf "%s %s\n" id (match M.send_all (nat_of_int (int_of_string n)) fs with
    | None -> "panic" | Some ms -> join "," (List.map c06_msg_s ms))
let c06_snapload id msgs =
  let ms = List.map c06_msg_of (list_of ';' msgs) in
  (* the first failing chunk: feed the prefixes *)
  let rec go l i = function
    | [] -> "ok:" ^ join "," (List.map (fun (n, c) -> hex_of_bytes n ^ "=" ^ hex_of_bytes c)
                                (List.sort (fun (a, _) (b, _) -> compare (hex_of_bytes a) (hex_of_bytes b)) (M.loader_dir l)))
    | m :: tl -> (match M.load_all l [m] with
        | M.LdOk l' -> go l' (i + 1) tl
        | M.LdErr M.LdPrevUnfinished -> Printf.sprintf "err@%d:prev_unfinished" i
        | M.LdErr M.LdInvalidFile -> Printf.sprintf "err@%d:invalid_file" i) in
  Printf.printf "%s %s\n" id (go M.loader_new 0 ms)
(* ---- C06 end ---- *)

(* ---- C13 begin ---- validation + the leader's write entry and the replay loops (Db/Validate.v, Db/C13_Replay.v);
   grammar in harness/cmd/db/c13_hostile.go and c13_leader.go
     val  <id> <W-op>                       -> accept | reject
     lseq <id> <shard> <thr> <op>;...       W -> rejected | ok:<statuses> | err | not-leader     (offset field ignored)
                                            B:<term> -> ok | blocked        F:<term> -> ok | blocked *)
let c13_req puts dels ranges =
  { M.w_puts = List.map put_of (list_of '|' puts); M.w_dels = List.map del_of (list_of '|' dels);
    M.w_ranges = List.map range_of (list_of '|' ranges) }
let c13_val id op = match String.split_on_char ':' op with
  | ["W"; _; _; puts; dels; ranges] ->
    Printf.printf "%s %s\n" id (if M.validate_request (c13_req puts dels ranges) then "accept" else "reject")
  | _ -> Printf.printf "%s ?? bad val op\n" id
let c13_lseq id shard thr ops =
  let cfg = { M.cfg_shard = mz_of_string shard; M.cfg_threshold = nat_of_int (int_of_string thr) } in
  (* the controller is started with NewTerm(1) + BecomeLeader on empty stores *)
  let node = ref { M.n_st = M.update_term M.init_state (mz_of_string "1") true M.N0; M.n_log = [] } and leading = ref true in
  (* E:0 (first op only): the controller is started with NewTermOptions{EnableNotifications:false}, and so are the restarts *)
  let en = ref true in
  let run op = match String.split_on_char ':' op with
    | ["E"; b] ->
      en := (b = "1");
      node := { M.n_st = M.enable_notifications (M.update_term M.init_state (mz_of_string "1") !en M.N0) !en; M.n_log = [] };
      "ok"
    | ["W"; _; ts; puts; dels; ranges] ->
      if not !leading then "not-leader" else begin
        let (n', out) = M.leader_write cfg !node (c13_req puts dels ranges) (n_of_string ts) in
        node := n';
        match out with
        | M.WRejected -> "rejected"
        | M.WFailed e -> if e = M.EPanic then "panic" else "err"
        | M.WApplied resp ->
          "ok:" ^ join "," (List.map (fun r -> status_s r.M.pr_status) resp.M.wr_puts)
          ^ ":" ^ join "," (List.map status_s resp.M.wr_dels) ^ ":" ^ join "," (List.map status_s resp.M.wr_ranges)
      end
    | ["B"; term] ->
      let (n', r) = M.leader_restart cfg !node (mz_of_string term) !en M.N0 in
      node := n';
      (match r with None -> leading := true; "ok" | Some _ -> leading := false; "blocked")
    | ["F"; term] ->
      leading := false;
      (match M.apply_log cfg (M.enable_notifications (M.update_term M.init_state (mz_of_string term) !en M.N0) !en) (!node).M.n_log with
       | (_, None) -> "ok" | (_, Some _) -> "blocked")
    | _ -> failwith ("bad lseq op " ^ op) in
  Printf.printf "%s %s\n" id (String.concat ";" (List.map run (String.split_on_char ';' ops)))
(* ---- C13 end ---- *)

(* ---- C16 begin ---- the subscriber of sequence updates (Db/SeqWait.v: step_new) driven by the keys the DB model
   generates; grammar in harness/cmd/db/c16_seq.go
     sub <id> <shard> <thr> <prefix> <step>;...    W:<write> -> ok:<key|n> | err     A:<write> -> ok
                                                   C -> committed | dropped    P, S, SR, SW -> ok
                                                   R -> <key> | -              D -> <key>,... | - *)
let c16_sub id shard thr prefix steps =
  let cfg = { M.cfg_shard = mz_of_string shard; M.cfg_threshold = nat_of_int (int_of_string thr) } in
  let prefix = bytes_of_hex prefix in
  let st = ref M.init_state and sys = ref (M.init_sys []) in
  (* pending write of an A step: state after it, whether it succeeds, the key it generated for the prefix *)
  let pending = ref None in
  let act a = match M.step_new !sys a with
    | Some s -> sys := s
    | None -> failwith "sub: step not enabled in the model (invalid schedule)" in
  let run_write ts puts dels ranges off =
    let ((st', r), evs) = M.process_write_full M.wrapper_callbacks cfg !st (c13_req puts dels ranges) (mz_of_string off) (n_of_string ts) in
    let key = List.fold_left (fun acc (p, k) -> if p = prefix then Some k else acc) None evs in
    (st', (match r with M.Ok _ -> true | M.Err _ -> false), key) in
  let recv () = match (!sys).M.s_cell with
    | Some _ -> let v = (!sys).M.s_cell in act M.Receive; v
    | None -> None in
  let run step = match String.split_on_char ':' step with
    | ["W"; off; ts; puts; dels; ranges] ->
      let (st', ok, key) = run_write ts puts dels ranges off in
      st := st';
      if not ok then "err" else begin
        (match key with Some k -> act (M.PutApply k); act M.Commit; act M.Publish | None -> ());
        "ok:" ^ (match key with Some k -> hex_of_bytes k | None -> "n")
      end
    | ["A"; "W"; off; ts; puts; dels; ranges] ->
      let (st', ok, key) = run_write ts puts dels ranges off in
      pending := Some (st', ok, key);
      (match ok, key with true, Some k -> act (M.PutApply k) | _ -> ());
      "ok"
    | ["C"] ->
      (match !pending with
       | Some (st', true, key) -> st := st'; (match key with Some _ -> act M.Commit | None -> ()); "committed"
       | Some (st', false, _) -> st := st'; pending := None; "dropped"
       | None -> failwith "sub: C without A")
    | ["P"] ->
      (match !pending with
       | Some (_, true, Some _) -> act M.Publish
       | _ -> ());
      pending := None; "ok"
    | ["E"; b] -> st := M.enable_notifications !st (b = "1"); "ok"
    | ["S"] -> act M.SubRegister; act M.SubRead; act M.SubWrite; "ok"
    | ["SR"] -> act M.SubRegister; act M.SubRead; "ok"
    | ["SW"] -> act M.SubWrite; "ok"
    | ["R"] -> (match (!sys).M.s_sub with
                | M.SubDone -> (match recv () with Some v -> hex_of_bytes v | None -> "-")
                | _ -> "-")
    | ["D"] -> (match (!sys).M.s_sub with
                | M.SubDone ->
                  let rec go acc = match recv () with Some v -> go (hex_of_bytes v :: acc) | None -> List.rev acc in
                  join "," (go [])
                | _ -> "-")
    | _ -> failwith ("bad sub step " ^ step) in
  Printf.printf "%s %s\n" id (String.concat ";" (List.map run (String.split_on_char ';' steps)))
(* several subscribers (Db/SeqWait.v: tstep alloc_counter); grammar in harness/cmd/db/c16_multi.go
     msub <id> <shard> <thr> <step>;...   T:<prefix> K:<n> X:<key> -> ok   Q:<prefix>:<deltas> -> <key> | <STATUS> | err
                                          R:<n> -> <key> | - | closed      D -> n=<key>,..|n=-|... *)
let rec c16_int_of_nat = function M.O -> 0 | M.S n -> 1 + c16_int_of_nat n
let c16_msub id shard thr steps =
  let cfg = { M.cfg_shard = mz_of_string shard; M.cfg_threshold = nat_of_int (int_of_string thr) } in
  let st = ref M.init_state and tr = ref M.init_tracker and off = ref (-1) in
  let tact a = tr := M.tstep M.alloc_counter !tr a in
  let dash = n_of_int 45 in
  let highest p =
    let lo = p @ (dash :: M.pad20 M.N0) and hi = p @ (dash :: M.pad20 (n_of_string "18446744073709551615")) in
    List.fold_left (fun acc (k, _) -> if M.cmp_slash k lo <> M.Lt && M.cmp_slash k hi = M.Lt then Some k else acc) None (!st).M.st_kv in
  let sub_of n = List.find_opt (fun s -> c16_int_of_nat s.M.sb_h = n) (!tr).M.t_subs in
  let recv1 n = match sub_of n with
    | Some s when s.M.sb_open -> (match s.M.sb_cell with Some v -> tact (M.TReceive (nat_of_int n)); Some v | None -> None)
    | _ -> None in
  let write req =
    incr off;
    let ((st', r), _) = M.process_write_full M.wrapper_callbacks cfg !st req (mz_of_string (string_of_int !off)) (n_of_string (string_of_int (1000 + !off))) in
    st := st'; r in
  let run step = match String.split_on_char ':' step with
    | ["E"; b] -> st := M.enable_notifications !st (b = "1"); "ok"
    | ["T"; p] -> let p = bytes_of_hex p in tact (M.TAdd (p, highest p)); "ok"
    | ["K"; n] -> tact (M.TClose (nat_of_int (int_of_string n))); "ok"
    | "Q" :: p :: ds :: [] | "QO" :: p :: ds :: _ :: [] ->
      let p = bytes_of_hex p in
      let put = { M.p_key = p; M.p_value = bytes_of_hex "76"; M.p_expected = None; M.p_session = None; M.p_identity = None;
                  M.p_partition = Some (bytes_of_hex "706b"); M.p_deltas = List.map n_of_string (String.split_on_char '+' ds); M.p_indexes = [] } in
      let pre = (match String.split_on_char ':' step with
        | ["QO"; _; _; k] -> [{ M.p_key = bytes_of_hex k; M.p_value = bytes_of_hex "6f"; M.p_expected = None; M.p_session = None; M.p_identity = None;
                                M.p_partition = None; M.p_deltas = []; M.p_indexes = [] }]
        | _ -> []) in
      (match write { M.w_puts = pre @ [put]; M.w_dels = []; M.w_ranges = [] } with
       | M.Err _ -> "err"
       | M.Ok resp -> (match List.rev resp.M.wr_puts with
           | r :: _ -> (match r.M.pr_key with Some k -> tact (M.TUpdate (p, k)); hex_of_bytes k | None -> status_s r.M.pr_status)
           | _ -> "?"))
    | ["X"; k] -> ignore (write { M.w_puts = []; M.w_dels = [{ M.d_key = bytes_of_hex k; M.d_expected = None }]; M.w_ranges = [] }); "ok"
    | ["R"; n] ->
      let n = int_of_string n in
      (match sub_of n with
       | Some s when s.M.sb_open -> (match recv1 n with Some v -> hex_of_bytes v | None -> "-")
       | _ -> "closed")
    | ["D"] ->
      let opens = List.filter (fun s -> s.M.sb_open) (!tr).M.t_subs in
      join "|" (List.map (fun s ->
        let n = c16_int_of_nat s.M.sb_h in
        let rec go acc = match recv1 n with Some v -> go (hex_of_bytes v :: acc) | None -> List.rev acc in
        string_of_int n ^ "=" ^ join "," (go [])) opens)
    | _ -> failwith ("bad msub step " ^ step) in
  Printf.printf "%s %s\n" id (String.concat ";" (List.map run (String.split_on_char ';' steps)))
(* ---- C16 end ---- *)
(* ---- C17 begin ---- notification stream (Db/NotifStream.v); grammar in harness/cmd/db/c17_notif.go and harness/cmd/notif/main.go
     nseq <id> <shard> <thr> <op>;...    the ops of "seq" plus
        X:<now>:<retention>        one trimming round                       -> trimmed | nothing | err
        XW:<now>:<retention>:<offset>:<ts>:<puts>:<dels>:<ranges>   the round, with the request committing while it runs
                                                                            -> <trimmed|nothing|err>|<W result>
        Q:<from>                   dispatch loop on the quiescent DB         -> <batch>,...|wait:<o>  (spin:<o> | err:<kind> | fuel)
        GN:<start|n>:<qc>          one GetNotifications call on the quiescent DB (qc = the leader's commit offset)
                                   -> <batch>,...  (dummy batch first when there is no start offset) | err:<kind>
        CC<i>:<k>:<qc>             subscriber i (re)connects, receives at most k batches, the stream breaks
                                   -> req=<n|offset>|ev=<key~kind&...>|last=<lastOffsetReceived>
        CL<i>:<qc>                 subscriber i, still connected, receives what was committed meanwhile -> ev=...|last=...
        L:<0|1>                    a new leader (term options: notifications enabled?) replays the log (all W ops so far)
                                   into an empty store -> ok *)
let c17_stop_s = function
  | M.DWait o -> "wait:" ^ string_of_mz o | M.DSpin o -> "spin:" ^ string_of_mz o
  | M.DErr e -> err_out e | M.DFuel -> "fuel"
let c17_stream_s (bs, stop) = join "," (List.map batch_s bs) ^ "|" ^ c17_stop_s stop
let rec c17_firstn n l = if n <= 0 then [] else match l with [] -> [] | x :: tl -> x :: c17_firstn (n - 1) tl
let c17_events evs = join "&" (List.sort compare (List.concat_map (fun (_, ns) -> List.map notif_s ns) evs))
let c17_nseq id shard thr ops =
  let cfg = { M.cfg_shard = mz_of_string shard; M.cfg_threshold = nat_of_int (int_of_string thr) } in
  let st = ref M.init_state and log = ref [] in
  let clients = Hashtbl.create 8 in
  let client i = match Hashtbl.find_opt clients i with Some c -> c | None -> M.client_new in
  let suffix s = String.sub s 2 (String.length s - 2) in
  let run op = match String.split_on_char ':' op with
    | ["X"; now; ret] ->
      (match M.trim !st (mz_of_string now) (mz_of_string ret) with
       | M.TrNothing -> "nothing" | M.TrErr _ -> "err" | M.TrTrimmed (_, st') -> st := st'; "trimmed")
    | ["XW"; now; ret; off; ts; puts; dels; ranges] ->
      (* the request commits while the round runs: the round decides on the state it found (first/last, timestamps are read
         before), its range tombstone [first, trimOffset+1) cannot reach the new offset, so: the round, then the request *)
      let xr = (match M.trim !st (mz_of_string now) (mz_of_string ret) with
        | M.TrNothing -> "nothing" | M.TrErr _ -> "err" | M.TrTrimmed (_, st') -> st := st'; "trimmed") in
      let req = { M.w_puts = List.map put_of (list_of '|' puts); M.w_dels = List.map del_of (list_of '|' dels);
                  M.w_ranges = List.map range_of (list_of '|' ranges) } in
      log := (req, mz_of_string off, n_of_string ts) :: !log;
      let (st', r) = run_op false cfg !st (String.concat ":" ["W"; off; ts; puts; dels; ranges]) in
      st := st'; xr ^ "|" ^ r
    | ["Q"; from] -> c17_stream_s (M.dispatch (nat_of_int 1000) !st (mz_of_string from))
    | ["GN"; start; qc] ->
      (match M.serve cfg !st (mz_of_string qc) (opt_z start) with
       | (_, M.DErr e) -> err_out e
       | (bs, _) -> join "," (List.map batch_s bs))
    | [cc; k; qc] when String.length cc > 2 && String.sub cc 0 2 = "CC" ->
      let i = suffix cc in
      let c = client i in
      let req = M.client_request c in
      let (bs, _) = M.serve cfg !st (mz_of_string qc) req in
      let (c', evs) = M.client_recv_all c (c17_firstn (int_of_string k) bs) in
      Hashtbl.replace clients i c';
      "req=" ^ str_opt_z req ^ "|ev=" ^ c17_events evs ^ "|last=" ^ string_of_mz c'.M.cl_last
    | [cl; _qc] when String.length cl > 2 && String.sub cl 0 2 = "CL" ->
      let i = suffix cl in
      let c = client i in
      let (bs, _) = M.dispatch (nat_of_int 1000) !st c.M.cl_last in
      let (c', evs) = M.client_recv_all c bs in
      Hashtbl.replace clients i c';
      "ev=" ^ c17_events evs ^ "|last=" ^ string_of_mz c'.M.cl_last
    | ["L"; en] ->
      let s = ref (M.enable_notifications M.init_state (en = "1")) in
      List.iter (fun (req, off, ts) -> let ((s', _), _) = M.process_write_full M.wrapper_callbacks cfg !s req off ts in s := s') (List.rev !log);
      st := !s; "ok"
    | _ ->
      (match String.split_on_char ':' op with
       | ["W"; off; ts; puts; dels; ranges] ->
         let req = { M.w_puts = List.map put_of (list_of '|' puts); M.w_dels = List.map del_of (list_of '|' dels);
                     M.w_ranges = List.map range_of (list_of '|' ranges) } in
         log := (req, mz_of_string off, n_of_string ts) :: !log
       | _ -> ());
      let (st', r) = run_op false cfg !st op in st := st'; r in
  Printf.printf "%s %s\n" id (String.concat ";" (List.map run (String.split_on_char ';' ops)))
(* ---- C17 end ---- *)
let cmp_s = function M.Lt -> "-1" | M.Eq -> "0" | M.Gt -> "1"
let () = read_lines (fun line ->
  match String.split_on_char ' ' line with
  | ["seq"; id; shard; thr; ops] -> run_seq false id shard thr ops
  | ["hseq"; id; shard; thr; ops] -> run_seq true id shard thr ops
  | ["pure"; id; "esc"; a] -> Printf.printf "%s %s\n" id (hex_of_bytes (M.path_escape (bytes_of_hex a)))
  | ["pure"; id; "unesc"; a] ->
    Printf.printf "%s %s\n" id (match M.path_unescape (bytes_of_hex a) with Some b -> hex_of_bytes b | None -> "err")
  | ["pure"; id; "hex16"; a] -> Printf.printf "%s %s\n" id (hex_of_bytes (M.hex16 (mz_of_string a)))
  | ["pure"; id; "pad20"; a] -> Printf.printf "%s %s\n" id (hex_of_bytes (M.pad20 (n_of_string a)))
  | ["pure"; id; "dec"; a] -> Printf.printf "%s %s\n" id (hex_of_bytes (M.ascii_of_Z (mz_of_string a)))
  | ["pure"; id; "scan20"; a] ->
    Printf.printf "%s %s\n" id (match M.scan20 (bytes_of_hex a) with Some n -> string_of_n n | None -> "err")
  | ["pure"; id; "scanint"; a] ->
    Printf.printf "%s %s\n" id (match M.scan_int64 (bytes_of_hex a) with Some z -> string_of_mz z | None -> "err")
  | ["pure"; id; "cmp"; a; b] -> Printf.printf "%s %s\n" id (cmp_s (M.cmp_slash (bytes_of_hex a) (bytes_of_hex b)))
  | ["snapsend"; id; n; files] -> c06_snapsend id n files
  | ["snapload"; id; msgs] -> c06_snapload id msgs
  | ["val"; id; op] -> c13_val id op
  | ["lseq"; id; shard; thr; ops] -> c13_lseq id shard thr ops
  | ["sub"; id; shard; thr; prefix; steps] -> c16_sub id shard thr prefix steps
  | ["msub"; id; shard; thr; steps] -> c16_msub id shard thr steps
  | ["nseq"; id; shard; thr; ops] -> c17_nseq id shard thr ops
  | [] | [""] -> ()
  | _ -> Printf.printf "?? bad line: %.200s\n" line)
