(* driver for the Client model: one case per line on stdin, one canonical result line per case.

   batch  <id> <w|r>:<linger 0|1>:<maxRequests>:<maxBytes> <script> <events>
          script  = comma list of entries  [p<k>+]...<final>,  final = ok | e<code> | s<P|D|R|G><d> | l<P|D|R|G><d>   ("-" = empty)
                    p<k>: an attempt whose stream delivers the first k answers and then fails with a retriable status; y = p0+ok
          events  = comma list of  C<id>:<p|d|r|g>:<size> | T | X
          ->  per event (";"-separated) the observations in order ("," separated, "-" = none):
              S<n>:P<ids>:D<ids>:R<ids>:G<ids> | D<id>=ok<payload>|err<e>|shut | PANIC       (ids "."-separated, "-" = none)
   stream <id> <guard 0|1> <events>      events = s<f>:<0|1> | r<payload> | e | x | c<f>  (c: the context of Send(f) is done)
          ->  PANIC, or per sent future (sorted by id, "," separated): <f>=ok<r>|errsend|eof|errctx|pending
   merge | scan  <id> <chan>|<chan>|...   (scan: the same merge reached through clientImpl.RangeScan)
   merge  <id> <chan>|<chan>|...          chan = comma list of k<hexkey>:<payload> | E<e>      ("-" = empty channel)
          ->  the merged sequence in the same item syntax; runs of equal keys sorted by payload
   list   <id> <chan>|<chan>|...          -> sorted multiset of all items
   listc  <id> <fixed 0|1> <chans> <events>     events = F<i> | G<i> | C      (forward / give up after cancel / cancel)
          ->  observations  <item> | closed | PANIC   (the context-error item E0 of the code as found is not shown)
   mget   <id> <fixed 0|1> <eq|floor|lower|ceil|higher> <origkeyhex> <nshards> <arrivals>
          arrivals = comma list of R<o|n|x>:<keyhex|*>:<sechex|*>:<payload> | E<e>
          ->  per arrival (";"-separated): send:<res>,close | - | PANIC       res = res:<keyhex>:<payload> | notfound | status | err<e>
*)
let kind_of_char = function
  | 'p' | 'P' -> M.KPut | 'd' | 'D' -> M.KDelete | 'r' | 'R' -> M.KDeleteRange | 'g' | 'G' -> M.KGet
  | c -> failwith (Printf.sprintf "bad kind %c" c)
let rec nat_of_int i = if i <= 0 then M.O else M.S (nat_of_int (i - 1))
let list_of s = if s = "-" || s = "" then [] else String.split_on_char ',' s
let sub_from s i = String.sub s i (String.length s - i)

let parse_cfg s =
  match String.split_on_char ':' s with
  | [k; l; mr; mb] ->
    { M.cf_kind = (if k = "w" then M.BWrite else M.BRead); M.cf_linger_pos = (l = "1");
      M.cf_max_requests = mz_of_string mr; M.cf_max_bytes = mz_of_string mb }
  | _ -> failwith ("bad cfg " ^ s)

let parse_bh s =
  if s = "ok" then M.BhOk
  else match s.[0] with
    | 'e' -> M.BhErr (n_of_string (sub_from s 1))
    | 's' -> M.BhShort (kind_of_char s.[1], nat_of_int (int_of_string (sub_from s 2)))
    | 'l' -> M.BhLong (kind_of_char s.[1], nat_of_int (int_of_string (sub_from s 2)))
    | _ -> failwith ("bad behaviour " ^ s)

(* one script entry: attempts joined by "+": p<k> (the stream delivers the first k answers, then a retriable
   error) ... and a final behaviour; "y" is short for p0+ok *)
let parse_entry s =
  if s = "y" then ([M.O], M.BhOk) else
  let parts = String.split_on_char '+' s in
  let rec go acc = function
    | [last] -> (List.rev acc, parse_bh last)
    | p :: tl when p.[0] = 'p' -> go (nat_of_int (int_of_string (sub_from p 1)) :: acc) tl
    | _ -> failwith ("bad script entry " ^ s) in
  go [] parts

let parse_event s =
  if s = "T" then M.Tick else if s = "X" then M.Close
  else match String.split_on_char ':' (sub_from s 1) with
    | [id; k; sz] -> M.Call { M.c_id = n_of_string id; M.c_kind = kind_of_char k.[0]; M.c_size = n_of_string sz }
    | _ -> failwith ("bad event " ^ s)

let ids l = if l = [] then "-" else String.concat "." (List.map (fun c -> string_of_n c.M.c_id) l)
let string_of_result = function
  | M.ROk p -> "ok" ^ string_of_n p
  | M.RErr e -> "err" ^ string_of_n e
  | M.RShutdown -> "shut"
let string_of_obs = function
  | M.Sent (n, q) -> Printf.sprintf "S%s:P%s:D%s:R%s:G%s" (string_of_n n) (ids q.M.q_puts) (ids q.M.q_dels) (ids q.M.q_ranges) (ids q.M.q_gets)
  | M.Done (c, r) -> Printf.sprintf "D%s=%s" (string_of_n c.M.c_id) (string_of_result r)
  | M.Panicked -> "PANIC"
let join_or_dash sep l = if l = [] then "-" else String.concat sep l

(* ---- stream ---- *)
let parse_sevent s =
  match s.[0] with
  | 's' -> (match String.split_on_char ':' (sub_from s 1) with
      | [f; ok] -> M.SSend (n_of_string f, ok = "1")
      | _ -> failwith ("bad stream event " ^ s))
  | 'r' -> M.SRecvOk (n_of_string (sub_from s 1))
  | 'e' -> M.SRecvErr
  | 'x' -> M.SCtxDone
  | 'c' -> M.SWaitCancel (n_of_string (sub_from s 1))
  | _ -> failwith ("bad stream event " ^ s)

(* ---- items ---- *)
let parse_item s =
  if s.[0] = 'E' then M.IErr (n_of_string (sub_from s 1))
  else match String.split_on_char ':' (sub_from s 1) with
    | [k; p] -> M.IOk (bytes_of_hex k, n_of_string p)
    | _ -> failwith ("bad item " ^ s)
let string_of_item = function
  | M.IOk (k, p) -> Printf.sprintf "k%s:%s" (hex_of_bytes k) (string_of_n p)
  | M.IErr e -> "E" ^ string_of_n e
let parse_chans s = List.map (fun c -> List.map parse_item (list_of c)) (String.split_on_char '|' s)
let item_sort_key = function
  | M.IOk (k, p) -> (0, hex_of_bytes k, z_of_n p)
  | M.IErr e -> (1, "", z_of_n e)
(* runs of records with the same key: order by payload (the heap's choice among equal keys is not specified) *)
let canon_runs l =
  let same a b = match a, b with M.IOk (k1, _), M.IOk (k2, _) -> k1 = k2 | _ -> false in
  let rec groups cur acc = function
    | [] -> List.rev (match cur with [] -> acc | _ -> List.rev cur :: acc)
    | x :: tl ->
      (match cur with
       | y :: _ when same x y -> groups (x :: cur) acc tl
       | [] -> groups [x] acc tl
       | _ -> groups [x] (List.rev cur :: acc) tl) in
  List.concat (List.map (List.sort (fun a b -> compare (item_sort_key a) (item_sort_key b))) (groups [] [] l))

(* ---- multi get ---- *)
let parse_kc = function
  | "eq" -> M.CEqual | "floor" -> M.CFloor | "lower" -> M.CLower | "ceil" -> M.CCeiling | "higher" -> M.CHigher
  | s -> failwith ("bad comparison " ^ s)
let opt_bytes s = if s = "*" then None else Some (bytes_of_hex s)
let parse_arrival s =
  if s.[0] = 'E' then M.AErr (n_of_string (sub_from s 1))
  else match String.split_on_char ':' (sub_from s 1) with
    | [st; k; sec; p] ->
      M.AResp { M.g_status = (match st with "o" -> M.GOk | "n" -> M.GNotFound | _ -> M.GOther);
                M.g_key = opt_bytes k; M.g_sec = opt_bytes sec; M.g_payload = n_of_string p }
    | _ -> failwith ("bad arrival " ^ s)
let string_of_gres = function
  | M.GResult (k, p) -> Printf.sprintf "res:%s:%s" (hex_of_bytes k) (string_of_n p)
  | M.GErrNotFound -> "notfound"
  | M.GErrStatus -> "status"
  | M.GErr e -> "err" ^ string_of_n e
let string_of_gobs = function
  | M.GSend r -> "send:" ^ string_of_gres r
  | M.GClose -> "close"
  | M.GPanicked -> "PANIC"

let () = read_lines (fun line ->
  try
    match String.split_on_char ' ' line with
    | ["batch"; id; cfg; script; evs] ->
      let cfg = parse_cfg cfg in
      let exec = M.scripted_exec (List.map parse_entry (list_of script)) in
      let tr = M.run_trace exec cfg M.init_state (List.map parse_event (list_of evs)) in
      Printf.printf "%s %s\n" id
        (String.concat ";" (List.map (fun o -> join_or_dash "," (List.map string_of_obs o)) tr))
    | ["stream"; id; guard; evs] | ["wdb"; id; guard; evs; _] ->
      let evs = List.map parse_sevent (list_of evs) in
      let (_, tr) = M.stream_run (guard = "1") evs in
      if List.mem M.SPanicked tr then Printf.printf "%s PANIC\n" id
      else begin
        let sent = List.filter_map (function M.SSend (f, _) -> Some f | _ -> None) evs in
        let res f =
          let rs = List.filter_map (function M.SDone (g, r) when g = f -> Some r | _ -> None) tr in
          match rs with
          | [] -> "pending"
          | [M.SOk r] -> "ok" ^ string_of_n r
          | [M.SErrSend] -> "errsend"
          | [M.SEOF] -> "eof"
          | [M.SErrCtx] -> "errctx"
          | _ -> "TWICE" in
        let l = List.sort (fun (a, _) (b, _) -> Z.compare a b) (List.map (fun f -> (z_of_n f, res f)) sent) in
        Printf.printf "%s %s\n" id (join_or_dash "," (List.map (fun (f, r) -> Z.to_string f ^ "=" ^ r) l))
      end
    | ["merge"; id; chans] | ["scan"; id; chans] ->
      let out = M.merge_slash (parse_chans chans) in
      Printf.printf "%s %s\n" id (join_or_dash "," (List.map string_of_item (canon_runs out)))
    | ["list"; id; chans] ->
      let chans = parse_chans chans in
      let total = List.fold_left (fun a c -> a + List.length c) 0 chans in
      let k = List.length chans in
      (* round-robin schedule long enough to drain every channel *)
      let sched = List.init (total * (max k 1)) (fun i -> nat_of_int (i mod (max k 1))) in
      let out = M.list_union sched chans in
      let out = List.sort (fun a b -> compare (item_sort_key a) (item_sort_key b)) out in
      Printf.printf "%s %s\n" id (join_or_dash "," (List.map string_of_item out))
    | ["listc"; id; fixed; chans; evs] ->
      let ev s = match s.[0] with
        | 'F' -> M.LFwd (nat_of_int (int_of_string (sub_from s 1)))
        | 'G' -> M.LGiveUp (nat_of_int (int_of_string (sub_from s 1)))
        | _ -> M.LCancel in
      let obs = M.list_run (fixed = "1") (parse_chans chans) (List.map ev (list_of evs)) in
      let str = function
        | M.LItem (M.IErr e) when string_of_n e = "0" -> None
        | M.LItem x -> Some (string_of_item x)
        | M.LClosed -> Some "closed"
        | M.LPanicked -> Some "PANIC" in
      let l = List.filter_map str obs in
      (* a crash loses what the child had observed so far *)
      let l = if List.mem "PANIC" l then ["PANIC"] else l in
      Printf.printf "%s %s\n" id (join_or_dash "," l)
    | ["mget"; id; fixed; kc; orig; n; arr] ->
      (* observations arrival by arrival: what the run over the first i+1 arrivals adds to the run over the first i *)
      let arr = List.map parse_arrival (list_of arr) in
      let run l = snd (M.multi_get_slash (fixed = "1") (parse_kc kc) (bytes_of_hex orig) (nat_of_int (int_of_string n)) l) in
      let rec prefixes acc = function [] -> [] | x :: tl -> let p = acc @ [x] in p :: prefixes p tl in
      let rec drop k l = if k = 0 then l else match l with [] -> [] | _ :: tl -> drop (k - 1) tl in
      let (_, steps) = List.fold_left (fun (seen, out) p ->
          let o = run p in (List.length o, out @ [drop seen o])) (0, []) (prefixes [] arr) in
      Printf.printf "%s %s\n" id
        (join_or_dash ";" (List.map (fun o -> join_or_dash "," (List.map string_of_gobs o)) steps))
    | ["wsend"; id; reqs] ->
      (* one request per ";": its attempts joined by "+":  c<code> connection fails | s<code> stream.Send fails |
         a<payload> sent and answered | f<code> sent, then the stream breaks with that status
         -> per request: S for every stream.Send that returned nil, then ok<payload> | err<code> | erreof *)
      let att s = match s.[0] with
        | 'c' -> M.WConnFail (n_of_string (sub_from s 1))
        | 's' -> M.WSendFail (n_of_string (sub_from s 1))
        | 'a' -> M.WAnswered (n_of_string (sub_from s 1))
        | _ -> M.WStreamFailed (n_of_string (sub_from s 1)) in
      let one r =
        let o = M.write_path true (List.map att (String.split_on_char '+' r)) in
        join_or_dash "," (List.map (function
            | M.WSent -> "S"
            | M.WDone (M.WOk p) -> "ok" ^ string_of_n p
            | M.WDone (M.WErrCode c) -> "err" ^ string_of_n c
            | M.WDone M.WErrEOF -> "erreof") o) in
      Printf.printf "%s %s\n" id (String.concat ";" (List.map one (String.split_on_char ';' reqs)))
    | ["shutdown"; id; l; mx; k; closeat; late; after; recvs] ->
      (* the schedule the harness forces, then Run receives <recvs> calls, takes the close branch and drains *)
      let i = int_of_string in
      let cfg = { M.sd_cap = nat_of_int (i k); M.sd_linger_pos = (l = "1"); M.sd_max = nat_of_int (i mx);
                  M.sd_rule = M.RuleFinalDrain } in
      let next = ref 0 in
      let fresh () = let c = !next in incr next; n_of_int c in
      let evs = ref [] in
      let push e = evs := e :: !evs in
      (* one Add as far as it gets: an inapplicable step is a no-op (a parked sender finishes after it is received) *)
      let add () = let c = fresh () in
        List.iter push [M.EAddStart c; M.EAddCheck c; M.EAddSend c; M.EAddFinish c; M.EAddFail c] in
      let finish_all () = for c = 0 to !next - 1 do push (M.EAddFinish (n_of_int c)) done in
      let pre = if l = "1" then i mx else 1 in
      for _ = 1 to pre do add (); push M.ERunRecv done;
      if i closeat = 0 then push M.EClose;
      for _ = 1 to i k do add () done;
      if i closeat = 1 then push M.EClose;
      for _ = 1 to i late do add () done;
      if i closeat = 2 then push M.EClose;
      for _ = 1 to i after do add () done;
      push M.EClose;
      for _ = 1 to i recvs do push M.ERunRecv done;
      push M.ERunClose;
      for _ = 1 to (i k + i late + 2) do push M.EDrainOne done;
      push M.EDrainDefault; push M.EDrainCheck;   (* adding <> 0 while parked senders have not decremented: back to the loop *)
      finish_all ();
      for _ = 1 to (i late + 2) do push M.EDrainOne done;
      push M.EDrainDefault; push M.EDrainCheck;   (* adding = 0: the final drain *)
      for _ = 1 to (i late + 2) do push M.EDrainOne done;
      push M.EDrainDefault;
      let (st, o) = M.sd_run cfg M.sd_init (List.rev !evs) in
      let count c = List.length (List.filter (fun (x, _) -> x = c) o) in
      let tail = if st.M.sd_run_done then "" else ",RUN-NOT-DONE" in
      Printf.printf "%s %s%s\n" id (join_or_dash "," (List.init !next (fun c -> string_of_int (count (n_of_int c))))) tail
    | [] | [""] -> ()
    | _ -> Printf.printf "?? bad line: %s\n" line
  with e -> Printf.printf "?? %s on line: %s\n" (Printexc.to_string e) line)
