(* driver for the Node model: one case per line on stdin, one canonical result line per case.
   sched <id> <fixed|old> <a1;a2;...> [<leader logs, ignored>]  -> <id> <out1;out2;...> #wal=<t:o:p,...>
        each out = <result>|<acks sid:off,...>|<writes off+/-,...>|<role,term,status,head,commit>
   trunc <id> <leader terms> <lt:lo> <ft:fo>                    -> <id> none:<t>:<o> | invalid | trunc:<t>:<o> *)
let rec nat_of_int i = if i <= 0 then M.O else M.S (nat_of_int (i - 1))
let rec int_of_nat = function M.O -> 0 | M.S n -> 1 + int_of_nat n
let z = mz_of_string
let sz = string_of_mz
let action_of_string s =
  match String.split_on_char ':' s with
  | ["NT"; t] -> M.NewTermReq (z t)
  | ["TR"; t; ht; ho] -> M.TruncateReq (z t, (z ht, z ho))
  | ["RO"; sid; t] -> M.ReplicateOpen (nat_of_int (int_of_string sid), z t)
  | ["AP"; sid; t; o; p; c] -> M.FollowerAppend (nat_of_int (int_of_string sid), { M.e_term = z t; M.e_off = z o; M.e_pay = z p }, z c)
  | ["SB"; sid] -> M.SyncBegin (nat_of_int (int_of_string sid))
  | ["SE"; sid] -> M.SyncEnd (nat_of_int (int_of_string sid))
  | ["BR"; sid] -> M.StreamBreak (nat_of_int (int_of_string sid))
  | ["SN"; sid; t; c] -> M.SnapshotInstall (nat_of_int (int_of_string sid), z t, z c, M.O)
  | ["SN"; sid; t; c; f] -> M.SnapshotInstall (nat_of_int (int_of_string sid), z t, z c, nat_of_int (int_of_string f))
  | ["CR"; k] -> M.CrashRestart (nat_of_int (int_of_string k))
  | ["BL"; t] -> M.BecomeLeaderReq (z t)
  | ["CW"; p] -> M.ClientWrite (z p)
  | ["LS"] -> M.LeaderSyncDone
  | ["DS"; t] -> M.DeleteShardReq (z t)
  | _ -> failwith ("bad action " ^ s)
let string_of_err = function
  | M.EInvalidTerm -> "term" | M.EInvalidStatus -> "status" | M.EAlreadyConnected -> "connected"
  | M.EInvalidNextOffset -> "nextoffset" | M.EOutOfBounds -> "bounds" | M.ENotLeader -> "notleader"
  | M.ENotFound -> "notfound" | M.EWalRead -> "walread" | M.EClosed -> "closed" | M.ENoSuchStream -> "nostream" | M.EStream -> "stream" | M.EPanic -> "panic"
let string_of_result = function
  | M.ROk -> "ok"
  | M.RHead (t, o) -> "head:" ^ sz t ^ ":" ^ sz o
  | M.RErr e -> "err:" ^ string_of_err e
  | M.RSnap c -> "snap:" ^ sz c
  | M.RImpossible -> "imp"
let dash l = if l = [] then "-" else String.concat "," l
let string_of_status = function M.NotMember -> "notmember" | M.Fenced -> "fenced" | M.Follower -> "follower" | M.Leader -> "leader"
let string_of_view n =
  let ((((r, t), st), hd), cm) = M.status_view n in
  match r with
  | M.RNone -> "N,?"
  | M.RFollower -> "F," ^ sz t ^ "," ^ string_of_status st ^ "," ^ sz hd ^ "," ^ sz cm
  | M.RLeader -> "L," ^ sz t ^ "," ^ string_of_status st ^ "," ^ sz hd ^ "," ^ sz cm
let string_of_output (o : M.output) n =
  string_of_result o.M.o_res ^ "|"
  ^ dash (List.map (fun (sid, off) -> string_of_int (int_of_nat sid) ^ ":" ^ sz off) o.M.o_acks) ^ "|"
  ^ dash (List.map (fun (off, ok) -> sz off ^ (if ok then "+" else "-")) o.M.o_writes) ^ "|"
  ^ string_of_view n
let string_of_entry e = sz e.M.e_term ^ ":" ^ sz e.M.e_off ^ ":" ^ sz e.M.e_pay
let () = read_lines (fun line ->
  match String.split_on_char ' ' line with
  | "sched" :: id :: variant :: acts :: _ ->
    let c = if variant = "old" then M.cfg_old else M.cfg_fixed in
    let acts = List.map action_of_string (List.filter (fun s -> s <> "") (String.split_on_char ';' acts)) in
    let (n, outs) = List.fold_left (fun (n, acc) a ->
        let (n', o) = M.step c n a in (n', string_of_output o n' :: acc)) (M.init, []) acts in
    Printf.printf "%s %s #wal=%s\n" id (String.concat ";" (List.rev outs)) (dash (List.map string_of_entry n.M.n_wal))
  | ["trunc"; id; terms; lh; fh] ->
    let terms = if terms = "-" then [] else List.map z (String.split_on_char ',' terms) in
    let w = List.mapi (fun i t -> { M.e_term = t; M.e_off = mz_of_z (Z.of_int i); M.e_pay = mz_of_z (Z.of_int i) }) terms in
    let pair s = match String.split_on_char ':' s with [a; b] -> (z a, z b) | _ -> failwith "bad eid" in
    (match M.truncate_follower_if_needed w (nat_of_int (List.length w)) (pair lh) (pair fh) with
     | M.TNoTrunc (t, o) -> Printf.printf "%s none:%s:%s\n" id (sz t) (sz o)
     | M.TInvalid -> Printf.printf "%s invalid\n" id
     | M.TTrunc (t, o) -> Printf.printf "%s trunc:%s:%s\n" id (sz t) (sz o))
  | "spec" :: id :: _ -> Printf.printf "%s spec-only\n" id   (* scenarios judged by the specification monitors alone *)
  | [] | [""] -> ()
  | _ -> Printf.printf "?? bad line: %s\n" line)
