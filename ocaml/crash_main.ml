(* driver for the Crash model (correspondence leg "trace"): one schedule per line,
     trace <id> <macro> <macro> ...
   macros:  SL (start/re-elect leader)  SF (start follower)  W (leader write)  S:<upto>:<q>:<s> (s WAL entries durable, sync
   completions up to offset <upto>, quorum commit count q afterwards)  C:<q>  F (flush)  X:<keep>:<k> (crash)  A:<a> (follower
   append, advertised commit count a)  Y (follower sync + apply round)  Z (follower NewTerm: WAL sync + DB flush)
   result: for every macro  <commit offset>/<applied offsets, comma separated or ->  joined by spaces;
   "refused" where the model does not admit the step. Natural numbers are Coq nat (unary): sizes are tiny. *)
let rec nat_of_int i = if i <= 0 then M.O else M.S (nat_of_int (i - 1))
let rec int_of_nat = function M.O -> 0 | M.S n -> 1 + int_of_nat n
let macro_of_string s =
  match String.split_on_char ':' s with
  | ["SL"] -> M.MStartLeader
  | ["SF"] -> M.MStartFollower
  | ["W"] -> M.MWrite
  | ["S"; u; q; sy] -> M.MSyncDone (nat_of_int (int_of_string u), nat_of_int (int_of_string q), nat_of_int (int_of_string sy))
  | ["C"; q] -> M.MCommit (nat_of_int (int_of_string q))
  | ["F"] -> M.MFlush
  | ["X"; keep; k] -> M.MCrash (nat_of_int (int_of_string keep), nat_of_int (int_of_string k))
  | ["A"; a] -> M.MAppend (nat_of_int (int_of_string a))
  | ["Y"] -> M.MFollowerSync
  | ["Z"] -> M.MNewTerm
  | _ -> failwith ("bad macro " ^ s)
let string_of_obs = function
  | None -> "refused"
  | Some (c, os) ->
    let l = List.map (fun o -> string_of_int (int_of_nat o)) os in
    Printf.sprintf "%d/%s" (int_of_nat c - 1) (if l = [] then "-" else String.concat "," l)
let () = read_lines (fun line ->
  match List.filter (fun s -> s <> "") (String.split_on_char ' ' line) with
  | "trace" :: id :: ms ->
    let r = M.run_trace (List.map macro_of_string ms) in
    Printf.printf "%s %s\n" id (String.concat " " (List.map string_of_obs r))
  | [] -> ()
  | _ :: id :: _ -> Printf.printf "%s spec-leg\n" id   (* cases of the legs without a model: direct spec verdicts only *)
  | _ -> ())
