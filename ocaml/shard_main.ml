(* driver for the Shard model: one case per line on stdin, one canonical result line per case.
   gen <id> <base> <n>                       -> <id> panic | <id> sid:min:max,...
   route <id> <hash> <sid:min:max,...>       -> <id> sid,sid,...   (ids of matching shards, sorted)
   update <id> <map> <upd>;<upd>;...         -> <id> sid:min:max,... sorted by sid   (each <upd>, <map> a shard list, "-" = empty)
*)
let shard_of_string s =
  match String.split_on_char ':' s with
  | [a; b; c] -> { M.sid = mz_of_string a; M.smin = n_of_string b; M.smax = n_of_string c }
  | _ -> failwith ("bad shard " ^ s)
let shards_of_string s = if s = "-" then [] else List.map shard_of_string (String.split_on_char ',' s)
let string_of_shard s = string_of_mz s.M.sid ^ ":" ^ string_of_n s.M.smin ^ ":" ^ string_of_n s.M.smax
let string_of_shards l = if l = [] then "-" else String.concat "," (List.map string_of_shard l)
let sort_by_id l = List.sort (fun a b -> Z.compare (z_of_mz a.M.sid) (z_of_mz b.M.sid)) l
let () = read_lines (fun line ->
  match String.split_on_char ' ' line with
  | ["gen"; id; base; n] ->
    (match M.generate_shards (mz_of_string base) (n_of_string n) with
     | None -> Printf.printf "%s panic\n" id
     | Some l -> Printf.printf "%s %s\n" id (string_of_shards l))
  | ["route"; id; h; m] ->
    let r = sort_by_id (M.route (shards_of_string m) (n_of_string h)) in
    Printf.printf "%s %s\n" id (if r = [] then "-" else String.concat "," (List.map (fun s -> string_of_mz s.M.sid) r))
  | ["update"; id; m; us] ->
    let us = if us = "-" then [] else List.map shards_of_string (String.split_on_char ';' us) in
    let r = List.fold_left (fun m u -> M.client_update m u) (shards_of_string m) us in
    Printf.printf "%s %s\n" id (string_of_shards (sort_by_id r))
  | [] | [""] -> ()
  | _ -> Printf.printf "?? bad line: %s\n" line)
