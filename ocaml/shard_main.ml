(* driver for the Shard model: one case per line on stdin, one canonical result line per case.
   gen <id> <base> <n>                       -> <id> panic | <id> sid:min:max,...
   route <id> <hash> <sid:min:max,...>       -> <id> sid,sid,...   (ids of matching shards, sorted)
   update <id> <map> <upd>;<upd>;...         -> <id> sid:min:max,... sorted by sid   (each <upd>, <map> a shard list, "-" = empty)
   status <id> <idgen0> <sidx0> <script> <op>;<op>;...
        script: F | S | E<srv>+<srv>.. joined by ","   ("-" = empty)
        op: A<name>:<count>:<rf>+...|<srv>+<srv>..   D<name>:<id>   M<name>:<id>:<st>:<term>:<leader>:<ens>:<min>:<max>
     -> <id> <result>;<result>;...   one per op:
        [ok{add:<id>=<ns>,..}{del:<id>,..}{calls:<ns>/<sidx>/<idgen>/<#ns>,..} | panic{calls:..}]{<status>}{pub:<published>}
   coord <id> <idgen0> <sidx0> <script> <op>;...     same ops plus R<config> (coordinator restart = apply on the stored status),
        X<config> (ConfigChanged of the live coordinator) and C<config> (a lost attempt of its compare-and-set loop);
        the real selector and the shard controllers run in the implementation, so ensembles, shard status (other than
        Deleting), term, leader and the supplier call log are left out of the result:
        [ok{add}{del} | restart | panic]{<idgen>,<sidx>|<ns>~<rf>~<id>:<D|L>:<min>:<max>,..}{pub:<ns>~<id>:<min>:<max>,..}
*)
let shard_of_string s =
  match String.split_on_char ':' s with
  | [a; b; c] -> { M.sid = mz_of_string a; M.smin = n_of_string b; M.smax = n_of_string c }
  | _ -> failwith ("bad shard " ^ s)
let shards_of_string s = if s = "-" then [] else List.map shard_of_string (String.split_on_char ',' s)
let string_of_shard s = string_of_mz s.M.sid ^ ":" ^ string_of_n s.M.smin ^ ":" ^ string_of_n s.M.smax
let string_of_shards l = if l = [] then "-" else String.concat "," (List.map string_of_shard l)
let sort_by_id l = List.sort (fun a b -> Z.compare (z_of_mz a.M.sid) (z_of_mz b.M.sid)) l
(* ---- status histories ---- *)
let ints_of_plus s = if s = "-" || s = "" then [] else List.map n_of_string (String.split_on_char '+' s)
let plus_of_ints l = if l = [] then "-" else String.concat "+" (List.map string_of_n l)
let zcmp a b = Z.compare (z_of_mz a) (z_of_mz b)
let ncmp a b = Z.compare (z_of_n a) (z_of_n b)
let st_of_int = function 0 -> M.SUnknown | 1 -> M.SSteady | 2 -> M.SElection | _ -> M.SDeleting
let int_of_st = function M.SUnknown -> 0 | M.SSteady -> 1 | M.SElection -> 2 | M.SDeleting -> 3
let opt_n s = if s = "-" then None else Some (n_of_string s)
let string_of_opt_n = function None -> "-" | Some n -> string_of_n n
let join_or_dash sep l = if l = [] then "-" else String.concat sep l
let string_of_meta m =
  Printf.sprintf "%s:%d:%s:%s:%s:%s:%s" (string_of_mz m.M.m_id) (int_of_st m.M.m_st) (string_of_mz m.M.m_term)
    (string_of_opt_n m.M.m_leader) (plus_of_ints m.M.m_ens) (string_of_n m.M.m_min) (string_of_n m.M.m_max)
let string_of_meta_masked m =
  Printf.sprintf "%s:%s:%s:%s" (string_of_mz m.M.m_id) (if m.M.m_st = M.SDeleting then "D" else "L")
    (string_of_n m.M.m_min) (string_of_n m.M.m_max)
let string_of_status_gen fmeta st =
  let nss = List.sort (fun (a, _) (b, _) -> ncmp a b) st.M.st_ns in
  let one (name, ns) =
    let sh = List.sort (fun a b -> zcmp a.M.m_id b.M.m_id) ns.M.ns_shards in
    Printf.sprintf "|%s~%s~%s" (string_of_n name) (string_of_n ns.M.ns_rf) (join_or_dash "," (List.map fmeta sh)) in
  Printf.sprintf "%s,%s%s" (string_of_mz st.M.st_idgen) (string_of_n st.M.st_sidx)
    (if nss = [] then "|-" else String.concat "" (List.map one nss))
let string_of_pub_masked st =
  let pub = List.sort (fun (a, _) (b, _) -> ncmp a b) (M.compute_assignments st) in
  let one (name, l) =
    let l = List.sort (fun (a, _) (b, _) -> zcmp a.M.sid b.M.sid) l in
    Printf.sprintf "%s~%s" (string_of_n name)
      (join_or_dash "," (List.map (fun (s, _) -> Printf.sprintf "%s:%s:%s" (string_of_mz s.M.sid)
                                       (string_of_n s.M.smin) (string_of_n s.M.smax)) l)) in
  join_or_dash "|" (List.map one pub)
let string_of_status st =
  let nss = List.sort (fun (a, _) (b, _) -> ncmp a b) st.M.st_ns in
  let one (name, ns) =
    let sh = List.sort (fun a b -> zcmp a.M.m_id b.M.m_id) ns.M.ns_shards in
    Printf.sprintf "|%s~%s~%s" (string_of_n name) (string_of_n ns.M.ns_rf) (join_or_dash "," (List.map string_of_meta sh)) in
  Printf.sprintf "%s,%s%s" (string_of_mz st.M.st_idgen) (string_of_n st.M.st_sidx)
    (if nss = [] then "|-" else String.concat "" (List.map one nss))
let string_of_pub st =
  let pub = List.sort (fun (a, _) (b, _) -> ncmp a b) (M.compute_assignments st) in
  let one (name, l) =
    let l = List.sort (fun (a, _) (b, _) -> zcmp a.M.sid b.M.sid) l in
    Printf.sprintf "%s~%s" (string_of_n name)
      (join_or_dash "," (List.map (fun (s, ld) -> Printf.sprintf "%s:%s:%s:%s" (string_of_mz s.M.sid) (string_of_opt_n ld)
                                       (string_of_n s.M.smin) (string_of_n s.M.smax)) l)) in
  join_or_dash "|" (List.map one pub)
let script_of_string s =
  if s = "-" then [] else
  List.map (fun e -> match e.[0] with
    | 'F' -> M.SFail
    | 'E' -> M.SExplicit (ints_of_plus (String.sub e 1 (String.length e - 1)))
    | _ -> M.SSimple) (String.split_on_char ',' s)
let run_status ?(masked=false) g0 x0 script ops =
  let st = ref { M.st_ns = []; M.st_idgen = mz_of_string g0; M.st_sidx = n_of_string x0 } in
  let script = ref (script_of_string script) in
  let one o =
    let body = String.sub o 1 (String.length o - 1) in
    let head = match o.[0] with
    | 'A' | 'R' | 'X' | 'C' ->
      let restart = o.[0] = 'R' in
      let (nss, srvs) = match String.split_on_char '|' body with [a; b] -> (a, b) | _ -> failwith "bad A op" in
      let ncs = if nss = "-" then [] else List.map (fun p -> match String.split_on_char ':' p with
        | [a; b; c] -> { M.nc_name = n_of_string a; M.nc_count = n_of_string b; M.nc_rf = n_of_string c }
        | _ -> failwith "bad ns") (String.split_on_char '+' nss) in
      let cfg = { M.cfg_ns = ncs; M.cfg_servers = ints_of_plus srvs } in
      let sup = { M.sup_servers = cfg.M.cfg_servers; M.sup_script = !script; M.sup_log = [] } in
      let (r, sup') = M.apply_scripted cfg !st sup in
      script := sup'.M.sup_script;
      let calls = join_or_dash "," (List.map (fun (((a, b), c), d) ->
        Printf.sprintf "%s/%s/%s/%s" (string_of_n a) (string_of_n b) (string_of_mz c) (string_of_n d)) (List.rev sup'.M.sup_log)) in
      (match r with
       | None -> if masked then "panic" else "panic{calls:" ^ calls ^ "}"
       | Some _ when o.[0] = 'C' -> "lost"          (* a lost compare-and-set attempt: nothing stored *)
       | Some ((st', _), _) when restart -> st := st'; "restart"
       | Some ((st', _), _) when o.[0] = 'X' -> st := st'; "changed"   (* ConfigChanged of the live coordinator *)
       | Some ((st', toadd), todel) ->
         st := st';
         (* the Go map keeps the last name stored for an id *)
         let tbl = Hashtbl.create 16 in
         List.iter (fun (id, name) -> Hashtbl.replace tbl (string_of_mz id) (id, name)) toadd;
         let adds = List.sort (fun (a, _) (b, _) -> zcmp a b) (Hashtbl.fold (fun _ v acc -> v :: acc) tbl []) in
         let dels = List.sort zcmp todel in
         let a = join_or_dash "," (List.map (fun (id, name) -> string_of_mz id ^ "=" ^ string_of_n name) adds)
         and d = join_or_dash "," (List.map string_of_mz dels) in
         if masked then Printf.sprintf "ok{add:%s}{del:%s}" a d
         else Printf.sprintf "ok{add:%s}{del:%s}{calls:%s}" a d calls)
    | 'D' ->
      (match String.split_on_char ':' body with
       | [a; b] -> st := M.delete_shard_metadata (n_of_string a) (mz_of_string b) !st; ""
       | _ -> failwith "bad D op")
    | _ ->
      (match String.split_on_char ':' body with
       | [a; b; c; d; e; f; g; h] ->
         let m = { M.m_id = mz_of_string b; M.m_st = st_of_int (int_of_string c); M.m_term = mz_of_string d;
                   M.m_leader = opt_n e; M.m_ens = ints_of_plus f; M.m_min = n_of_string g; M.m_max = n_of_string h } in
         st := M.update_shard_metadata (n_of_string a) m !st; ""
       | _ -> failwith "bad M op") in
    if masked then head ^ "{" ^ string_of_status_gen string_of_meta_masked !st ^ "}{pub:" ^ string_of_pub_masked !st ^ "}"
    else head ^ "{" ^ string_of_status !st ^ "}{pub:" ^ string_of_pub !st ^ "}" in
  String.concat ";" (List.map one (String.split_on_char ';' ops))

(* ---- dispatcher schedules ----
   disp <id> <action>;<action>;...    P<pub> | G<cid>/<ns> | S<cid> | F<cid> | L<cid>     pub = ns~sid:min:max,..|ns~..  ("-" = no namespace)
     -> after every action all clients sorted by id, "&"-joined ("-" = none): cid/<s|w|e>/<#received>/<last>/<pending>,
        last, pending = n (none) or =<pub> *)
let assignment_of_string s : (M.n * M.shard list) list =
  if s = "-" then [] else
  List.map (fun p -> match String.split_on_char '~' p with
    | [ns; l] -> (n_of_string ns, shards_of_string l)
    | _ -> failwith ("bad pub " ^ p)) (String.split_on_char '|' s)
let string_of_assignment (a : (M.n * M.shard list) list) =
  let a = List.sort (fun (x, _) (y, _) -> ncmp x y) a in
  join_or_dash "|" (List.map (fun (ns, l) -> string_of_n ns ^ "~" ^ string_of_shards (sort_by_id l)) a)
let run_disp acts =
  let st = ref M.dinit in
  let one a =
    let body = String.sub a 1 (String.length a - 1) in
    let act = match a.[0] with
      | 'P' -> M.DPush (assignment_of_string body)
      | 'G' -> (match String.split_on_char '/' body with
                | [c; ns] -> M.DRegister (n_of_string c, n_of_string ns) | _ -> failwith "bad G")
      | 'S' -> M.DSendOk (n_of_string body)
      | 'F' -> M.DSendFail (n_of_string body)
      | _ -> M.DLeave (n_of_string body) in
    st := M.dstep !st act;
    let cs = List.sort (fun x y -> ncmp x.M.dc_id y.M.dc_id) !st.M.d_clients in
    join_or_dash "&" (List.map (fun c ->
      let (ph, pending) = match c.M.dc_phase with
        | M.Sending m -> ("s", "=" ^ string_of_assignment m) | M.Waiting -> ("w", "n") | M.Ended -> ("e", "n") in
      let last = match c.M.dc_recv with [] -> "n" | m :: _ -> "=" ^ string_of_assignment m in
      Printf.sprintf "%s/%s/%d/%s/%s" (string_of_n c.M.dc_id) ph (List.length c.M.dc_recv) last pending) cs) in
  String.concat ";" (List.map one (String.split_on_char ';' acts))

let () = read_lines (fun line ->
  match String.split_on_char ' ' line with
  | ["gen"; id; base; n] ->
    (match M.generate_shards (mz_of_string base) (n_of_string n) with
     | None -> Printf.printf "%s panic\n" id
     | Some l -> Printf.printf "%s %s\n" id (string_of_shards l))
  | ["route"; id; h; m] ->
    let r = sort_by_id (M.route (shards_of_string m) (n_of_string h)) in
    Printf.printf "%s %s\n" id (if r = [] then "-" else String.concat "," (List.map (fun s -> string_of_mz s.M.sid) r))
  | ["update"; id; m; us] ->
    let us = if us = "-" then [] else List.map shards_of_string (String.split_on_char ';' us) in
    let r = List.fold_left (fun m u -> M.client_update m u) (shards_of_string m) us in
    Printf.printf "%s %s\n" id (string_of_shards (sort_by_id r))
  | ["status"; id; g0; x0; script; ops] ->
    Printf.printf "%s %s\n" id (run_status g0 x0 script ops)
  | ["coord"; id; g0; x0; script; ops] ->
    Printf.printf "%s %s\n" id (run_status ~masked:true g0 x0 script ops)
  | ["disp"; id; acts] ->
    Printf.printf "%s %s\n" id (run_disp acts)
  | [] | [""] -> ()
  | _ -> Printf.printf "?? bad line: %s\n" line)
