"""Shared machinery of ./check (see DESIGN.md section 1.3 and 4).

A property module (lib/props/Cxx.py) declares
    ID, TITLE, PROPERTY_FILE (relative to coq/theories), LEGS, LEVEL_TEXT, LEVEL_NOTE, TECHNIQUE, DESIGN_REF
and optionally run(ctx) to customise; the default is Ctx.standard_run().

A *leg* is one correspondence run:
    {"name": "shard", "harness": "shard", "model": "shard" | None,
     "n_quick": 120, "n_thorough": 4000, "args": [...], "timeout": 600, "corpus": "corpus/shard"}
The harness binary (Go, built from /repo's working tree with -tags verif) writes cases.txt, impl.txt,
specviol.txt and stats.json into its -out directory; the extracted Coq model (ocaml/build/<model>_model)
maps cases.txt to the model's observables; the two are compared line by line.
"""
import hashlib
import json
import os
import re
import shutil
import subprocess
import sys
import time

ROOT = os.path.dirname(os.path.dirname(os.path.abspath(__file__)))
REPO = os.environ.get("VERIF_REPO", "/repo")
GOENV = dict(os.environ, GOFLAGS="-mod=mod", GOPROXY="off")
for _k in ("GOTOOLCHAIN", "GOSUMDB"):
    GOENV.pop(_k, None)

FORBIDDEN = re.compile(
    r"\b(Admitted|admit|Axiom|Axioms|Parameter|Parameters|Conjecture|Conjectures|Abort All|"
    r"Unset\s+Guard\s+Checking|Unset\s+Positivity\s+Checking|Unset\s+Universe\s+Checking|"
    r"bypass_check|Admit\s+Obligations|native_compute)\b|type-in-type|impredicative-set")


def sh(cmd, cwd=None, env=None, timeout=None, stdin=None, stdout_path=None):
    """Run a command, return (rc, combined output). rc 124 = timeout."""
    t0 = time.time()
    try:
        if stdout_path:
            with open(stdout_path, "wb") as so:
                p = subprocess.run(cmd, cwd=cwd, env=env, timeout=timeout, stdin=stdin, stdout=so,
                                   stderr=subprocess.PIPE)
            out = p.stderr.decode("utf-8", "replace")
        else:
            p = subprocess.run(cmd, cwd=cwd, env=env, timeout=timeout, stdin=stdin, stdout=subprocess.PIPE,
                               stderr=subprocess.STDOUT)
            out = p.stdout.decode("utf-8", "replace")
        return p.returncode, out, time.time() - t0
    except subprocess.TimeoutExpired as e:
        out = (e.stdout or b"").decode("utf-8", "replace") if not stdout_path else ""
        return 124, out + "\n[timeout after %ss]" % timeout, time.time() - t0


class Ctx:
    def __init__(self, mod, tier, seed, replay=None):
        self.mod = mod
        self.pid = mod.ID
        self.tier = tier
        self.seed = seed
        self.replay = replay
        self.t0 = time.time()
        self.tmp = os.environ.get("VERIF_TMP") or "/var/tmp/verif-%d" % os.getpid()
        os.makedirs(self.tmp, exist_ok=True)
        self.violations = []      # (signature, detail, replay_path)
        self.known_hits = []      # (signature, what)
        self.legs_done = []
        self.proof = {}
        self.assumptions = []
        self.notes = []
        self.findings = load_known_findings()

    # ---------------------------------------------------------------- proof side
    def coq_build(self, relfile=None):
        """Build the property file and everything it depends on (not unrelated components)."""
        cmd = [os.path.join(ROOT, "bin", "coqbuild")]
        if relfile:
            cmd.append("theories/" + relfile[:-2] + ".vo")
        rc, out, dt = sh(cmd, timeout=3300)
        self.proof["build_rc"] = rc
        self.proof["build_s"] = round(dt, 1)
        if rc != 0:
            self.proof["build_log_tail"] = out[-3000:]
        return rc == 0, out

    def gate(self, relfile=None):
        bad = []
        files = []
        if relfile:
            files = [os.path.join(ROOT, "coq", "theories", f) for f in self.cone(relfile)]
            ed = os.path.join(ROOT, "coq", "extract")
            files += [os.path.join(ed, f) for f in os.listdir(ed) if f.endswith(".v")] if os.path.isdir(ed) else []
        else:
            for base in ("coq/theories", "coq/extract"):
                for dp, _, fns in os.walk(os.path.join(ROOT, base)):
                    files += [os.path.join(dp, fn) for fn in fns if fn.endswith(".v")]
        for p in files:
            src = strip_coq_comments(open(p, encoding="utf-8").read())
            for m in FORBIDDEN.finditer(src):
                bad.append("%s: %s" % (os.path.relpath(p, ROOT), m.group(0)))
        flags = open(os.path.join(ROOT, "coq", "_CoqProject")).read() if os.path.exists(
            os.path.join(ROOT, "coq", "_CoqProject")) else ""
        for m in FORBIDDEN.finditer(flags):
            bad.append("_CoqProject: " + m.group(0))
        self.proof["gate_hits"] = bad
        return bad

    def cone(self, relfile):
        """Files of the development the property file transitively Requires (incl. itself)."""
        seen, todo = [], [relfile]
        while todo:
            f = todo.pop()
            if f in seen:
                continue
            p = os.path.join(ROOT, "coq", "theories", f)
            if not os.path.exists(p):
                continue
            seen.append(f)
            src = strip_coq_comments(open(p, encoding="utf-8").read())
            for sent in re.split(r"\.\s", src):
                sent = " ".join(sent.split())
                m = re.match(r"From Oxia(?:\.([\w.]+))? Require (?:Import |Export )?(.*)$", sent)
                if m:
                    prefix = (m.group(1) or "").replace(".", "/")
                    for name in m.group(2).split():
                        todo.append((prefix + "/" if prefix else "") + name.replace(".", "/") + ".v")
                    continue
                m = re.match(r"Require (?:Import |Export )?(.*)$", sent)
                if m:
                    for name in m.group(1).split():
                        if name.startswith("Oxia."):
                            todo.append(name[len("Oxia."):].replace(".", "/") + ".v")
        return sorted(seen)

    def proof_obligations(self, relfile):
        files = self.cone(relfile)
        n_qed = n_stmt = 0
        for f in files:
            src = strip_coq_comments(open(os.path.join(ROOT, "coq", "theories", f), encoding="utf-8").read())
            n_qed += len(re.findall(r"\b(Qed|Defined)\s*\.", src))
            n_stmt += len(re.findall(r"^\s*(?:Local\s+|Global\s+|#\[[^\]]*\]\s*)?(Theorem|Lemma|Corollary|Proposition|Fact|Remark|Example)\s", src, re.M))
        self.proof["cone_files"] = files
        self.proof["statements"] = n_stmt
        self.proof["qed"] = n_qed
        return n_stmt, n_qed

    def print_assumptions(self, relfile):
        """Re-run coqc on the property file (its dependencies are compiled) and pair every
        Print Assumptions output with the theorem above it."""
        p = os.path.join(ROOT, "coq", "theories", relfile)
        src = strip_coq_comments(open(p, encoding="utf-8").read())
        names = re.findall(r"Print\s+Assumptions\s+([\w']+)\s*\.", src)
        thms = re.findall(r"^\s*(?:Theorem|Lemma|Corollary)\s+([\w']+)", src, re.M)
        lockf = open(os.path.join(ROOT, "coq", ".build.lock"), "w")
        import fcntl
        fcntl.flock(lockf, fcntl.LOCK_EX)
        try:
            rc, out, dt = sh(["coqc", "-Q", "theories", "Oxia", "-w", "-all", os.path.join("theories", relfile)],
                             cwd=os.path.join(ROOT, "coq"), timeout=900)
        finally:
            fcntl.flock(lockf, fcntl.LOCK_UN)
            lockf.close()
        blocks = re.split(r"(?m)^(?=Closed under the global context|Axioms:)", out)
        blocks = [b.strip() for b in blocks if b.startswith("Closed under") or b.startswith("Axioms:")]
        res = []
        for i, n in enumerate(names):
            b = blocks[i] if i < len(blocks) else "<missing>"
            res.append({"theorem": n, "assumptions": "none (closed under the global context)" if b.startswith("Closed") else b})
        self.assumptions = res
        self.proof["property_theorems"] = thms
        self.proof["assumptions_rc"] = rc
        missing = [t for t in thms if t not in names]
        self.proof["theorems_without_print_assumptions"] = missing
        if rc != 0:
            self.proof["assumptions_log_tail"] = out[-2000:]
        return rc == 0 and len(blocks) == len(names)

    def coqchk(self, relfile):
        mod = "Oxia." + relfile[:-2].replace("/", ".")
        rc, out, dt = sh(["coqchk", "-silent", "-o", "-Q", "theories", "Oxia", mod], cwd=os.path.join(ROOT, "coq"),
                         timeout=3000)
        self.proof["coqchk_rc"] = rc
        self.proof["coqchk_s"] = round(dt, 1)
        self.proof["coqchk_tail"] = out[-1500:]
        return rc == 0

    # ---------------------------------------------------------------- implementation side
    def go_build(self, cmd):
        """Build harness/cmd/<cmd> against /repo's working tree (hooks on)."""
        hdir = os.path.join(ROOT, "harness")
        # a private go.mod/go.sum pair pointing at the tree under test (default /repo), so that the
        # same harness sources can also be built against a scratch worktree (VERIF_REPO=/tmp/wt)
        modf = os.path.join(self.tmp, "go.mod")
        gm = open(os.path.join(hdir, "go.mod")).read().replace("=> /repo", "=> " + REPO)
        open(modf, "w").write(gm)
        try:
            shutil.copyfile(os.path.join(REPO, "go.sum"), os.path.join(self.tmp, "go.sum"))
        except OSError:
            pass
        out_bin = os.path.join(self.tmp, "h_" + cmd)
        rc, out, dt = sh(["go", "build", "-modfile", modf, "-tags", "verif", "-o", out_bin, "./cmd/" + cmd],
                         cwd=hdir, env=GOENV, timeout=1500)
        return (out_bin if rc == 0 else None), out, dt

    def build_model(self, comp):
        rc, out, dt = sh([os.path.join(ROOT, "bin", "build-model"), comp], timeout=1500)
        return rc == 0, out

    def run_leg(self, leg):
        name = leg["name"]
        info = {"leg": name, "harness": leg["harness"], "model": leg.get("model")}
        self.legs_done.append(info)
        binp, out, dt = self.go_build(leg["harness"])
        info["go_build_s"] = round(dt, 1)
        if not binp:
            info["error"] = "harness does not build against /repo"
            rp = self.write_replay({"broken": "correspondence %s: harness no longer builds against the working tree" % name,
                                    "log": out[-4000:]})
            self.violations.append(("correspondence:%s:build" % name, out[-600:], rp, True))
            return info
        outdir = os.path.join(self.tmp, "leg_" + name)
        shutil.rmtree(outdir, ignore_errors=True)
        n = leg.get("n_thorough" if self.tier == "thorough" else "n_quick", 100)
        args = [binp, "-seed", str(self.seed), "-n", str(n), "-out", outdir, "-tier", self.tier]
        corpus = leg.get("corpus")
        if corpus and os.path.isdir(os.path.join(ROOT, corpus)):
            args += ["-corpus", os.path.join(ROOT, corpus)]
        if self.replay and self.replay.get("leg") == name and self.replay.get("case_lines"):
            rf = os.path.join(self.tmp, "replay_lines.txt")
            open(rf, "w").write("\n".join(self.replay["case_lines"]) + "\n")
            args += ["-replay", rf]
        args += leg.get("args", [])
        tmo = leg.get("timeout_thorough" if self.tier == "thorough" else "timeout", 900)
        rc, hout, dt = sh(args, cwd=os.path.join(ROOT, "harness"), env=dict(GOENV, VERIF_TMP=self.tmp), timeout=tmo)
        info["harness_s"] = round(dt, 1)
        info["harness_rc"] = rc
        if rc != 0:
            info["error"] = "harness failed"
            # concrete violations already written before the crash are reported first
            svp0 = os.path.join(outdir, "specviol.txt")
            found = False
            if os.path.exists(svp0):
                seen0 = set()
                for l in open(svp0, encoding="utf-8", errors="replace"):
                    sig, _, det = l.rstrip("\n").partition("\t")
                    if not sig or sig in seen0:
                        continue
                    seen0.add(sig)
                    kf = self.match_known(sig)
                    if kf:
                        self.known_hits.append((sig, kf.get("what", det)))
                        continue
                    rp0 = self.write_replay({"leg": name, "seed": self.seed, "signature": sig, "failing_input": det,
                                             "spec_verdict": "the implementation's observable contradicts the specification"})
                    self.violations.append((sig, det, rp0, False))
                    found = True
            rp = self.write_replay({"broken": "correspondence %s: harness exited %d" % (name, rc), "leg": name,
                                    "seed": self.seed, "log": hout[-6000:]})
            self.violations.append(("correspondence:%s:harness-crash" % name, hout[-800:].replace("\n", " | "), rp, not found))
            return info
        try:
            stats = json.load(open(os.path.join(outdir, "stats.json")))
        except Exception as e:  # noqa
            stats = {"cases": 0, "distinct_nontrivial": 0, "distribution": {}, "samples": []}
        info["stats"] = stats
        # --- model side
        mism = []
        if leg.get("model"):
            ok, mout = self.build_model(leg["model"])
            if not ok:
                info["error"] = "model does not build"
                rp = self.write_replay({"broken": "extraction/build of model %s" % leg["model"], "log": mout[-4000:]})
                self.violations.append(("model:%s:build" % leg["model"], mout[-600:], rp, True))
                return info
            mbin = os.path.join(ROOT, "ocaml", "build", leg["model"] + "_model")
            mpath = os.path.join(outdir, "model.txt")
            with open(os.path.join(outdir, "cases.txt"), "rb") as si:
                rc, mo, dt = sh([mbin], stdin=si, stdout_path=mpath, timeout=tmo)
            info["model_s"] = round(dt, 1)
            if rc != 0:
                rp = self.write_replay({"broken": "model %s crashed (rc %d)" % (leg["model"], rc), "log": mo[-3000:]})
                self.violations.append(("model:%s:crash" % leg["model"], mo[-600:], rp, True))
                return info
            mism = diff_results(os.path.join(outdir, "cases.txt"), os.path.join(outdir, "impl.txt"), mpath,
                                leg.get("compare"))
            info["compared"] = stats.get("cases", 0)
            info["mismatches"] = len(mism)
        # --- direct spec verdicts on the implementation's observables
        sv = []
        svp = os.path.join(outdir, "specviol.txt")
        if os.path.exists(svp):
            for l in open(svp, encoding="utf-8", errors="replace"):
                l = l.rstrip("\n")
                if l:
                    sig, _, det = l.partition("\t")
                    sv.append((sig, det))
        info["spec_violations"] = len(sv)
        seen_sig = set()
        for sig, det in sv:
            if sig in seen_sig:
                continue
            seen_sig.add(sig)
            kf = self.match_known(sig)
            if kf:
                self.known_hits.append((sig, kf.get("what", det)))
                continue
            rp = self.write_replay({"leg": name, "seed": self.seed, "signature": sig, "failing_input": det,
                                    "spec_verdict": "the implementation's observable contradicts the specification"})
            self.violations.append((sig, det, rp, False))
        if mism:
            # correspondence broken: is there a concrete failing input?  (spec verdicts above); if none of the
            # disagreeing cases contradicts the spec, report it all the same, as required.
            lines = []
            for (cid, case, impl, model) in mism[:20]:
                lines.append({"case": case[:2000], "impl": impl[:2000], "model": model[:2000]})
            fresh = [v for v in self.violations if not v[3]]
            rp = self.write_replay({"leg": name, "seed": self.seed,
                                    "broken": "correspondence %s (model %s vs implementation): %d of %d cases differ"
                                              % (name, leg.get("model"), len(mism), stats.get("cases", 0)),
                                    "case_lines": [m[1] for m in mism[:50]], "disagreements": lines})
            if not fresh:
                self.violations.append(("correspondence:%s" % name, "%d cases differ, first: %s" % (
                    len(mism), json.dumps(lines[0])[:600]), rp, True))
            else:
                self.notes.append("correspondence %s also differs on %d cases (%s)" % (name, len(mism), rp))
        shutil.rmtree(outdir, ignore_errors=True) if not os.environ.get("VERIF_KEEP") else None
        return info

    # ---------------------------------------------------------------- findings / replay / evidence
    def match_known(self, sig):
        for f in self.findings:
            if f.get("property") == self.pid and f.get("status") == "open":
                pat = f.get("signature", "")
                if sig == pat or (pat.endswith("*") and sig.startswith(pat[:-1])):
                    return f
        return None

    def write_replay(self, obj):
        d = os.path.join(ROOT, "replays")
        os.makedirs(d, exist_ok=True)
        obj = dict(obj, property=self.pid, tier=self.tier)
        h = hashlib.sha1(json.dumps(obj, sort_keys=True).encode()).hexdigest()[:10]
        p = os.path.join(d, "%s-%s.json" % (self.pid, h))
        with open(p, "w") as f:
            json.dump(obj, f, indent=1)
        return p

    def standard_run(self):
        mod = self.mod
        ok_build, log = self.coq_build(mod.PROPERTY_FILE)
        gate = self.gate(mod.PROPERTY_FILE)
        stmts, qed = self.proof_obligations(mod.PROPERTY_FILE)
        ok_pa = self.print_assumptions(mod.PROPERTY_FILE) if ok_build else False
        if not ok_build or gate or not ok_pa:
            broken = "Coq build" if not ok_build else ("gate: " + "; ".join(gate) if gate else "Print Assumptions of " + mod.PROPERTY_FILE)
            rp = self.write_replay({"broken": "proof obligation: " + broken, "log": log[-4000:]})
            self.violations.append(("proof:" + broken[:80], log[-400:].replace("\n", " | "), rp, True))
        if self.tier == "thorough" and ok_build and not os.environ.get("VERIF_SKIP_COQCHK"):
            if not self.coqchk(mod.PROPERTY_FILE):
                rp = self.write_replay({"broken": "coqchk rejects " + mod.PROPERTY_FILE, "log": self.proof.get("coqchk_tail")})
                self.violations.append(("proof:coqchk", "coqchk failed", rp, True))
        for leg in mod.LEGS:
            if self.replay and self.replay.get("leg") and self.replay["leg"] != leg["name"]:
                continue
            self.run_leg(leg)
        return self.finish()

    def finish(self):
        mod = self.mod
        wall = time.time() - self.t0
        evals = sum(l.get("stats", {}).get("cases", 0) for l in self.legs_done)
        distinct = sum(l.get("stats", {}).get("distinct_nontrivial", 0) for l in self.legs_done)
        samples = []
        dist = {}
        for l in self.legs_done:
            samples += [("%s: %s" % (l["leg"], s)) for s in l.get("stats", {}).get("samples", [])[:6]]
            dist[l["leg"]] = l.get("stats", {}).get("distribution", {})
        stmts, qed = self.proof.get("statements", 0), self.proof.get("qed", 0)
        build_ok = self.proof.get("build_rc") == 0 and not self.proof.get("gate_hits")
        tb = [
            "Coq 8.16.1 kernel (coqc, full .vo build; vm_compute in finite sweeps/witnesses; no native_compute)",
            "axioms: none declared in the development; Print Assumptions per property theorem: " + "; ".join(
                "%s: %s" % (a["theorem"], a["assumptions"]) for a in self.assumptions),
            "extraction: ExtrOcamlBasic only (N/Z/positive stay inductive), OCaml 4.13.1 + zarith for decimal I/O in the driver",
            "correspondence harness /verif/harness (Go, -tags verif) built from /repo's working tree; canonicalisation of observables",
        ] + list(getattr(mod, "TRUSTED", []))
        ev = {
            "property_id": self.pid,
            "tier": self.tier,
            "seed": self.seed,
            "level": "proof",
            "coverage": {
                "obligations": max(stmts, 1),
                "discharged": (qed if build_ok else 0) if qed <= stmts or not build_ok else stmts,
                "qed_or_defined_in_cone": qed,
                "checker_cmd": "bin/coqbuild (coq_makefile + make, coqc 8.16.1) ; coqc theories/%s (Print Assumptions)%s" % (
                    mod.PROPERTY_FILE, " ; coqchk -silent -o" if self.tier == "thorough" else ""),
                "trusted_base": tb,
                "evaluations": evals,
                "distinct_nontrivial": distinct,
                "traces_validated_against_impl": sum(l.get("compared", 0) for l in self.legs_done),
                "rule": getattr(mod, "RULE", "cases generated from the seed by the Go harness; non-trivial/distinct as keyed by the harness (see distribution)"),
                "samples": samples[:20] or ["(no cases)"],
                "distribution": dist,
                "legs": self.legs_done,
                "proof": self.proof,
                "assumptions": self.assumptions,
                "known_findings_hit": [{"signature": s, "what": w} for s, w in self.known_hits],
                "notes": self.notes,
            },
            "assumptions": list(getattr(mod, "ASSUMES", [])),
            "wall_s": round(wall, 2),
            "violations": len(self.violations),
        }
        os.makedirs(os.path.join(ROOT, "evidence"), exist_ok=True)
        with open(os.path.join(ROOT, "evidence", self.pid + ".json"), "w") as f:
            json.dump(ev, f, indent=1)
        seen = set()
        for sig, what in self.known_hits:
            if sig in seen:
                continue
            seen.add(sig)
            print("KNOWN-FINDING: property=%s %s — %s" % (self.pid, sig, what))
        for sig, det, rp, nofail in self.violations:
            print("  detail: %s: %s" % (sig, det[:500]))
            print("VIOLATION property=%s replay=%s%s" % (self.pid, rp, " no-failing-input-found" if nofail else ""))
        if not self.violations:
            print("OK property=%s tier=%s seed=%d evaluations=%d obligations=%d wall=%.1fs" % (
                self.pid, self.tier, self.seed, evals, stmts, wall))
        if not os.environ.get("VERIF_KEEP"):
            shutil.rmtree(self.tmp, ignore_errors=True)
        return 1 if self.violations else 0


def strip_coq_comments(src):
    out, depth, i, n = [], 0, 0, len(src)
    in_str = False
    while i < n:
        c = src[i]
        if depth == 0 and c == '"':
            in_str = not in_str
            out.append(c)
            i += 1
            continue
        if not in_str and src.startswith("(*", i):
            depth += 1
            i += 2
            continue
        if not in_str and depth > 0 and src.startswith("*)", i):
            depth -= 1
            i += 2
            continue
        if depth == 0:
            out.append(c)
        i += 1
    return "".join(out)


def diff_results(cases_path, impl_path, model_path, compare=None):
    """Line-by-line comparison; returns [(id, case line, impl result, model result)]."""
    def load(p):
        d = {}
        for l in open(p, encoding="utf-8", errors="replace"):
            l = l.rstrip("\n")
            if not l:
                continue
            k, _, v = l.partition(" ")
            d[k] = v
        return d
    impl, model = load(impl_path), load(model_path)
    cases = {}
    for l in open(cases_path, encoding="utf-8", errors="replace"):
        t = l.rstrip("\n").split(" ", 2)
        if len(t) >= 2:
            cases[t[1]] = l.rstrip("\n")
    res = []
    for k, v in impl.items():
        mv = model.get(k, "<no model output>")
        same = compare(v, mv) if compare else (v == mv)
        if not same:
            res.append((k, cases.get(k, "?"), v, mv))
    for k in model:
        if k not in impl and k != "??":
            res.append((k, cases.get(k, "?"), "<no impl output>", model[k]))
    return res


def load_known_findings():
    res = []
    p = os.path.join(ROOT, "known_findings.json")
    if os.path.exists(p):
        res += json.load(open(p)).get("findings", [])
    d = os.path.join(ROOT, "known_findings")
    if os.path.isdir(d):
        for fn in sorted(os.listdir(d)):
            if fn.endswith(".json"):
                res += json.load(open(os.path.join(d, fn))).get("findings", [])
    return res
