ID = "C01"
PROPERTY_FILE = "Properties/C01.v"
DESIGN_REF = "DESIGN.md §5 C01 (and §5.0; §6 O-22, O-3, O-4, O-5)"
REGISTERED = True
TECHNIQUE = ("Coq proof (17 invariants by induction over all executions of the replication protocol's transition system => leader "
             "completeness => acknowledged writes survive) + trace validation: a REAL in-process oxia cluster (real ShardsDirector/"
             "Leader/FollowerControllers on real WALs and on-disk Pebble, the real coordinator ShardController) is driven through seeded "
             "fault schedules and every observed execution is replayed through the extracted model; the property is also evaluated "
             "directly on the real cluster after every event")
LEVEL_TEXT = ("Theorems in Coq over the World model (Cluster/Model.v, one action per controller critical section / message delivery; any number "
              "of nodes, terms, log lengths and steps; messages lost, duplicated, reordered; crashes and restarts at any point; elections "
              "repeated, abandoned, overlapping): for a fixed ensemble every write acknowledged to a client in term t is at its offset in the "
              "log of every node that is LEADER in a term >= t -- for the repaired protocol unconditionally, and for the protocol as the code "
              "runs it (CodeModel.step_code: one Truncate round per attach) for every execution whose attaches leave the follower consistent "
              "(decidable predicate attach_consistent, evaluated on every real trace). The side condition and the fixed ensemble cannot be "
              "dropped: machine-checked counter-executions (single truncate round, 5 nodes; node swap, O-22), both REPRODUCED on the real "
              "cluster by scripted schedules that run first on every check (known findings). The model is tied to the code on every run: "
              "3-5 real nodes + real coordinator execute 60-150 scheduler decisions per trace (message deliveries, RPC gates, client "
              "operations, crashes/restarts, link cuts, elections, swaps, coordinator restarts), the event log is translated into model "
              "actions with per-step checkpoints of every node's (term, status, log) and replayed by the extracted step function; "
              "independently, monitors check on the real cluster that no acknowledged write is missing from any leader of its term or later, "
              "that followers acknowledge only prefixes of their leader's log, that commit offsets rest on a quorum, that elected leaders "
              "have a maximal head and are unique per term, and that a new leader's database equals the replay of its log.")
LEVEL_NOTE = ("Partial: a node whose applied entries were rolled back by a later leader (figure 8) keeps its database commit offset; when it is elected again BecomeLeader builds the quorum tracker from that offset, beyond its log head, and writes up to that offset are acknowledged with no copy on any follower and can be lost (open finding figure8:database-commit-offset-beyond-log-head, scripted: corpus/cluster/10-stale-commit-offset-after-rollback.case; the loss of such a write is attributed to it); "
              "(0) the positive theorems are for executions in which EVERY node keeps its disk (c01_all_disks_kept_is_run_code: the "
              "disk-loss-free executions of DiskLoss.xrun are exactly those of run_code); the property's weaker clause 'a majority of the ensemble "
              "keeps its disk' is REFUTED for the protocol as implemented (c01_refuted_minority_disk_loss: a node that lost its disk answers NewTerm "
              "like a node that never held anything and counts for the election's majority) and REPRODUCED on the real cluster "
              "(signature diskloss:acked-write-lost-after-minority-disk-loss, corpus/cluster/08-minority-disk-loss.case, open finding); traces with "
              "a disk loss are validated against DiskLoss.xstep, a loss of data is attributed to a disk loss only when a node that lost its disk "
              "held the lost entry, and no verdict is given when a majority lost disks; "
              "(1) ensemble changes are outside the proved theorem (refuted: O-22); (2) the code-level theorem carries the side "
              "condition consistent_run (refuted without it: O-3b); (3) the model treats a node's log as one list: a prefix installed as a DB "
              "snapshot is invisible to the code paths that read the WAL (NewTerm head report, truncateFollowerIfNeeded, duplicate detection) -- "
              "three further open findings found by the monitors; model validation of a trace stops at the first of them, the monitors go on; "
              "(4) append+sync of a follower (reported when it acknowledges) and of a leader are single actions of the model: logs are durable logs. "
              "The real WALs run with real syncs (SyncData) and two kinds of crash are exercised: `crash` is the death of the process (the files stay as "
              "they are: the memory-mapped WAL and the flushed Pebble files survive, an unsynced tail included) and `powerloss` brings the node back with "
              "its database as it is and its WAL as it was when the last COMPLETED flush started (image taken at the start of every msync; flushes can be "
              "held by the schedule so that appends land while one is in flight). Both map to the model's Crash (entries of the unsynced tail that are in "
              "the recovered WAL are reported as appended just before it): this is sound exactly as long as an acknowledgement implies durability, which "
              "the monitor ack:follower-acked-unsynced-entry checks at every ack a follower sends (the follower's wal.LastOffset() at the moment of the "
              "send must cover the acknowledged offset; scripted corpus/cluster/13-ack-before-sync-then-power-loss.case) and "
              "restart:log-differs-from-synced-prefix checks at every restart. "
              "Trusted: Coq kernel, extraction, the Go harness (in-memory replication streams with gRPC semantics, RPC gates, canonical event "
              "order after quiescence). Not reproducible from the seed: selectNewLeader's pick among equal heads (Go map iteration order) "
              "and the 100 ms grace timer of newTermQuorum; the event log records what happened and the verdict does not depend on it.")
TRUSTED = ["in-process replacement of gRPC between servers and from the coordinator (FIFO loss-free streams that break as a whole; "
           "unary calls that are delivered, failed or left pending by the scheduler)",
           "Pebble and the WAL as durable stores across a clean process stop (C07/C09/C10 cover crashes inside them)"]
ASSUMES = ["fixed ensemble (no_swap) and consistent_run for the proved theorem; both side conditions are refuted without them (open findings)",
           "every node keeps its disk, for the positive theorems (the clause 'a majority keeps its disk' is refuted: c01_refuted_minority_disk_loss, "
           "reproduced as diskloss:acked-write-lost-after-minority-disk-loss); disk losses occur only in the dedicated trace profile and the scripted schedule"]
RULE = ("trace: seeded schedules over {deliver append/ack, open stream, snapshot, truncate, NewTerm ok/fail, grace expiry, BecomeLeader, "
        "AddFollower, DeleteShard, catch-up, client put/cput/delete/delete-range/get/list/scan on leaders and deposed leaders, crash, restart, "
        "cut/heal link, node failure notification, swap, coordinator restart, client context cancellation, Truncate redelivery, disk loss (own profile)} on 3 nodes rf 3, 4 nodes rf 3 (swaps), 5 nodes rf 3/5; "
        "distinct by the whole action list; scripted corpus (basic, O-22 swap, figure 8, O-3b single truncate round, snapshot-node empty head, skipped-term follower, cancelled write, redelivered Truncate, minority disk loss, stale commit offset after a rollback) first")
LEGS = [
    {"name": "cluster", "harness": "cluster", "model": "cluster", "n_quick": 60, "n_thorough": 4000,
     "corpus": "corpus/cluster", "timeout": 900, "timeout_thorough": 6000, "args": ["-mode", "c01"]},
]
