ID = "C17"
PROPERTY_FILE = "Properties/C17.v"
DESIGN_REF = "DESIGN.md §5.1 (shared DB model) and §5 C17; row O-17 of §6"
TECHNIQUE = ("Coq proof: an invariant over ALL histories of one shard's store (log entries applied at offsets 0,1,2,..., trimming rounds with any clock "
             "reading, re-opens by a restarted node / new leader) carried along the transcribed kv.DB write path (Db/*.v) and the transcribed "
             "notification machinery (Db/NotifStream.v: notificationsTrimmer with its binary search, LeaderController.GetNotifications' dispatch loop, "
             "the client's resume logic); the content of a batch is proved equal to `changes`, defined on the sequential specification of C12; "
             "key-layout lemmas (%016x is order preserving and parses back) tie range scans to offsets. Differential correspondence of the extracted "
             "model against the real kv.DB (batch per request, dispatch loop, trimming rounds) and against REAL controllers: LeaderController."
             "GetNotifications with every start offset, the real client-side shardNotificationsManager over in-process streams the harness breaks at "
             "every position, leader changes to a second real node replaying the log, trimming with an injected clock, an rf=2 leader whose follower "
             "withholds acknowledgements; independent Go reference of `changes` and direct spec verdicts.")
LEVEL_TEXT = ("Theorems in Coq (Properties/C17.v), for every history of user requests (fewer than 2^62 entries): the stored batches correspond one to one, "
              "in offset order, to the applied requests; a batch carries shard, offset, timestamp and exactly `changes` of its request - the user keys it "
              "created (key held no record; sequence puts always create) / modified / deleted / range-deleted (non-empty ranges, under the start key) "
              "with the resulting version ids, the last operation on a key being the one reported - and never a key under '__oxia/' (this last part for "
              "EVERY request and callback set); a failed application leaves no batch (c17_one_batch_per_committed_request, c17_batch_describes_changes, "
              "c17_no_internal_key_any_request, c17_failed_application_leaves_gap). The dispatch loop started at `from` delivers exactly the retained "
              "batches above `from`: strictly increasing offsets, each once, none above the DB's commit offset, no offset skipped unless its application "
              "failed, then waits (c17_stream_strictly_increasing_no_gap_no_dup); over a read that enforces a limit of any number >= 1 of batches per call the loop, "
              "started at ANY offset - behind trimmed runs, across offsets without batches - still delivers exactly the stored batches above it, in order, each "
              "once (c17_chunked_reads_cover_everything), whereas limiting the scan to a window of offsets does not (c17_offset_window_read_refuted). A subscriber that reconnects with the last offset it saw - to the same "
              "store or any later state of it (more requests, trimming rounds, re-opened by a restarted node or a new leader) - receives exactly the rest: "
              "seen ++ received = all committed batches above its start, in order, none twice (c17_resume), and the same through the client's own "
              "request/handshake logic incl. the empty-shard start at offset -1 (c17_client_resume). A trimming round removes a whole prefix of the "
              "stored batches and, with timestamps non-decreasing in the offset, only batches at or before now-retention; a batch is below the trimming "
              "mark only if some round found it expired (c17_trim_whole_prefix_only_expired, c17_retained_until_expired). Refuted and confirmed on the "
              "real code: the client as found skipped everything committed between an early reconnect on an empty shard and the reconnect "
              "(c17_resume_empty_shard_refuted, O-17, repaired in /repo); without monotone timestamps a batch inside the retention can be trimmed "
              "(c17_trim_nonmonotone_refuted, hypothesis documented). Two further defects found by the harness and repaired in /repo: an empty or "
              "same-start delete-range replaced what the batch said about its start key (O-17b, c17_range_overwrite_refuted), the trimmer decoded batches "
              "with a UTF-8-validating decoder and stopped trimming for good after one non-UTF-8 key (O-17c), the tracker updated its offset outside "
              "the lock its waiters check it under, so a waiting subscriber could miss the wake-up of its own commit and get the batch only with the "
              "next one (O-17d).")
LEVEL_NOTE = ("Partial in these respects. (1) What is proved is the model; the real code is tied to it by differential runs (kv.DB, LeaderController, client manager). "
              "(2) Histories in the theorems: requests on user keys (C12's user_request), notifications enabled throughout; session-manager requests and "
              "notification switching by term options are covered by the harness only (plus c17_no_internal_key_any_request). (3) Streams are analysed "
              "against quiescent stores: a long-lived stream is the composition of dispatch iterations, each of which is a resume (c17_resume); the Go "
              "scheduler inside one iteration is not modelled. (4) 'To a new leader' is a re-open of a store holding the same log (replica equality is C06); "
              "each node trims by its own clock, which the theorems allow (any trimming rounds in between). (5) Uncommitted entries: that effects (and hence "
              "batches) are applied only after quorum commit is C08's subject; here a real rf=2 leader with withheld acknowledgements is checked. "
              "(6) Within one batch the notifications are an unordered map: a put followed, in the same request, by a delete-range that sweeps it appears as "
              "CREATED plus RANGE_DELETED; the documented order (puts, deletes, ranges) disambiguates. Observations recorded, outside the property: "
              "ReadNextNotifications never increments its loop counter (maxNotificationBatchSize limits nothing); when the store holds no batch above the "
              "start offset although lastOffset is higher (everything trimmed, or the last entries had notifications disabled) the dispatch loop re-reads "
              "without waiting (busy loop until the next write; DSpin in the model); a gap in the stored offsets (failed application, disabled term) makes "
              "the trimmer's binary search fail with 'key not found' until more entries arrive; with rf=1 the quorum tracker's commit offset stays at the "
              "DB's pre-election value until the first write, so the dummy batch of a new subscriber can be older than the commit offset (no loss).")
TRUSTED = ["modelled not verified: Pebble (ordered map, range tombstones, atomic batches), protobuf/vtprotobuf (batches are structured values), fmt %016x / Sscanf "
           "(transcribed; the round trip is a theorem, the transcription is compared on generated offsets), time.Time arithmetic on whole milliseconds",
           "harness-side in-process gRPC stand-ins (client pool, streams) for the notification RPC; gRPC itself is not exercised"]
ASSUMES = ["request keys and ranges outside '__oxia/' (user_request) and notifications enabled, for the history theorems",
           "resume on ANOTHER node (c17_resume_on_replica): the new leader's store logged the same batches as the old leader's for the committed prefix "
           "(h_log hB = h_log hA ++ nw) - an explicit hypothesis of the theorem, discharged by replica determinism (C06) and checked on real controllers "
           "by the notif leg's replicated scenarios: a FollowerController created on an EMPTY directory (no term), NewTerm with the scenario's options, "
           "entries replicated by a real rf=2 leader, Close + NewLeaderController on the same WAL/store + BecomeLeader (verdict notif:replica-batch-missing)",
           "fewer than 2^62 log entries and 2^63 put operations on a shard (int64 offsets / version ids; (first+last)/2 in the trimmer's binary search)",
           "batch timestamps non-decreasing in the offset, for 'only batches older than the retention are trimmed' (refuted without it)",
           "the quorum commit offset handed to a new subscriber's dummy batch is an input of the model (C08 owns it)"]
RULE = ("scale (both legs, every run): 150-400 and 1100 small writes, a trimming round removing a long prefix, a stretch of 99/100/101/130 writes with "
        "notifications disabled, the dispatch loop / real streams / client managers resuming so that 99/100/101/hundreds of offsets without a batch lie in front "
        "of retained ones, backlogs > 100 and > 1000, a later commit. db leg (nseq): one case = 12-42 requests against a fresh real kv.DB (plain/conditional/session/indexed/sequence puts, deletes, delete-ranges incl. "
        "colliding start keys, session create/close, failing requests), notifications toggled by UpdateTerm+EnableNotifications, trimming rounds at cut-offs "
        "around stored timestamps, trimming rounds of a shard idle beyond the retention during which a request commits (XW: fired when the trimmer creates "
        "its write batch), the dispatch loop from every kind of start offset, re-opens; 12% with non-monotone timestamps; the stored batch of every "
        "request is compared with an independent reference and with the model, every changed record must be covered by its batch. leader leg (nseq): one case "
        "= 10-28 steps on a real LeaderController (writes, raw GetNotifications from every start offset, real client managers connecting / receiving k "
        "batches / breaking / continuing, leader changes to a node replaying the log, trimming, a write committing inside a trimming round, a subscriber "
        "behind a fully trimmed range that stays connected during 40 commits; gated dispatch loops with commits at chosen points; every 6th scenario: rf=2 "
        "leader + real follower on an empty directory, later promoted, resume from every offset, every 5th of those with notifications disabled by the term "
        "options), timestamps as assigned by the leader; distinct by generator "
        "sub-seed. uncommitted leg: rf=2, 1-4 entries appended but not acknowledged, then 30000 single writes under one waiting subscriber (every batch must "
        "arrive before the next write). realclient leg: newNotifications with its retry loop on the O-17 scenario.")
LEGS = [
    {"name": "db", "harness": "db", "model": "db", "args": ["-mode", "c17"], "n_quick": 600, "n_thorough": 30000,
     "corpus": "corpus/db17", "timeout": 900, "timeout_thorough": 3000},
    {"name": "leader", "harness": "notif", "model": "db", "n_quick": 240, "n_thorough": 12000, "timeout": 900, "timeout_thorough": 3000},
    {"name": "uncommitted", "harness": "notif", "model": None, "args": ["-mode", "uncommitted"], "n_quick": 25, "n_thorough": 500, "timeout": 600},
    {"name": "realclient", "harness": "notif", "model": None, "args": ["-mode", "real-client"], "n_quick": 1, "n_thorough": 1, "timeout": 600},
]
REGISTERED = True


