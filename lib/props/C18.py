ID = "C18"
PROPERTY_FILE = "Properties/C18.v"
DESIGN_REF = "DESIGN.md §5 C18"
TECHNIQUE = "Coq proof (algebraic, uint32 wrap explicit) + differential correspondence of the extracted model against GenerateShards / client shard map"
LEVEL_TEXT = ("Theorems in Coq: GenerateShards partitions [0,2^32) with consecutive ids for every base id and every "
              "shard count 1..65536 (bound sharp, 65537 refuted); on a partition every hash code routes to exactly one shard. "
              "The model is tied to the Go code by running both on generated shard counts, hash codes and "
              "assignment-update histories and comparing all outputs; the partition/unique-route predicates are "
              "also evaluated directly on the implementation's outputs.")
LEVEL_NOTE = ("Trusted: Coq kernel, extraction (ExtrOcamlBasic), the Go harness and its canonicalisation. "
              "Modelled, not verified: xxh3 (hash codes are inputs), gRPC delivery of assignments. "
              "Shard counts 0 and > 65536 are outside the proved domain (configuration is never validated; recorded in DESIGN.md §6 O-18).")
TRUSTED = ["modelled not verified: xxh3 hash (codes are inputs of the model), gRPC transport of ShardAssignments"]
ASSUMES = ["initialShardCount in 1..65536 for the partition theorem (sharp)"]
RULE = ("gen: shard counts from {0..300, 2^k, 2^k±1, 65535..65537, random}; non-trivial = n>=2, distinct by n; "
        "route: hash codes at/around range boundaries, distinct by (hash, map size); update: assignment histories, distinct by content")
LEGS = [
    {"name": "shard", "harness": "shard", "model": "shard", "n_quick": 120, "n_thorough": 6000,
     "corpus": "corpus/shard", "timeout": 600, "timeout_thorough": 3000},
]
