ID = "C18"
PROPERTY_FILE = "Properties/C18.v"
DESIGN_REF = "DESIGN.md §5 C18"
TECHNIQUE = ("Coq proof (algebraic for GenerateShards with the uint32 wrap explicit; invariant by induction over every history of "
             "config changes / deletion completions / metadata updates for the cluster status; refinement argument for the "
             "client map) + differential correspondence of the extracted model against GenerateShards, ApplyClusterChanges, the "
             "status resource, computeNewAssignments and the client shard map")
LEVEL_TEXT = ("Theorems in Coq: GenerateShards partitions [0,2^32) with consecutive ids for every base id and every "
              "shard count 1..65536 (bound sharp, 65537 refuted); on a partition every hash code routes to exactly one shard. "
              "Cluster status, for EVERY sequence of config changes and coordinator restarts (any namespaces / shard counts 1..65536 / server lists, any "
              "ensemble supplier, failing or not), shard-deletion completions and controller metadata updates: shard ids are "
              "unique over the whole status, below ShardIdGenerator, the generator never decreases and an id that disappeared never "
              "comes back; a live id keeps its namespace and range; every stored namespace is published as nothing (being deleted) "
              "or as a partition of the hash space. Client: after an update that is a partition the client's map is exactly that "
              "partition (stale shards fall to the overlap rule), and along every history the client routes each hash code to the "
              "one shard the published list - which servers forward unchanged - names. "
              "Server-side assignment dispatcher, for every interleaving of client registrations, coordinator pushes, Send completions / "
              "failures and disconnects: a client that waits for updates is registered and its last update is the current assignment of "
              "its namespace (c18_dispatcher_last_update_is_current). "
              "Refuted and kept as known finding O-18(b): a namespace re-added while its old shards are still Deleting is published "
              "with zero shards (c18_readded_namespace_refuted; c18_configured_namespaces_partitioned_partial states what holds). "
              "O-18(a) (namespace stored with a hole when the ensemble selection fails) was confirmed and is fixed in the tree. "
              "The model is tied to the Go code by running both on generated shard counts, hash codes, assignment-update "
              "histories and config histories with a scripted, sometimes failing supplier (full status, shardsToAdd/Delete, supplier "
              "call log and published assignments compared after every step); the spec predicates are also evaluated directly "
              "on the implementation's outputs.")
LEVEL_NOTE = ("Partial: proof about a hand-written model, tied to the code by differential testing. "
              "Trusted: Coq kernel, extraction (ExtrOcamlBasic), the Go harness and its canonicalisation. "
              "Modelled, not verified: xxh3 (hash codes are inputs), gRPC delivery of assignments, the real ensemble selector "
              "(C19; here any function), the goroutine interleaving inside the coordinator (steps are the critical sections "
              "under the coordinator / status-resource locks). Coordinator restarts are driven through the real NewCoordinator "
              "(memory metadata provider holding the status of the history so far, stub rpc.Provider: nodes healthy, replication "
              "RPCs block) at arbitrary points of a history, OpRestart in the model = ApplyClusterChanges on the STORED status; "
              "that kind compares ids, ranges, Deleting marks, rf, ShardIdGenerator and ServerIdx (the real selector and the "
              "shard controllers run, so ensembles / status / term / leader are left out). ConfigChanged of a live coordinator (stub rpc: nodes healthy, elections succeed, DeleteShard of "
              "the scenario's Deleting shards held back) is driven with deletions of Deleting shards completing exactly between its "
              "LoadWithVersion and its Swap, 1..3 times in a row (the harness is called from the one log call of that window: every "
              "such config change carries a namespace with more replicas than servers), then the namespace is re-added, others "
              "added, the coordinator restarted; model: OpCasLost (a lost attempt stores nothing) / OpDeleted / OpApply, i.e. the "
              "attempt whose Swap succeeds is an atomic apply on the latest status - that linearization is checked by "
              "correspondence, the compare-and-set loop itself is not modelled below that granularity; concurrent "
              "UpdateShardMetadata writes of running elections and balancer swaps also hit the window but only change masked fields. "
              "The status legs otherwise compose the calls ConfigChanged makes: ApplyClusterChanges, "
              "StatusResource.Update / DeleteShardMetadata / UpdateShardMetadata on the real resource, computeNewAssignments on a bare "
              "coordinator. The dispatcher model's atomic actions are the critical sections of the dispatcher mutex and the "
              "completions of a client stream's Send; the harness owns the fake client streams' Send as a gate and the coordinator "
              "stream's Recv, and waits (goroutine dump) until a released client sits in the dispatcher's select before the next "
              "action, so that the real code runs exactly the scheduled interleaving; the window between a Send returning and the "
              "select (in which the real dispatcher cuts the client off instead of forwarding) is not scheduled. "
              "Outside the proved domain, configuration is never validated: shard count 0 and an empty server list "
              "with a succeeding supplier make ApplyClusterChanges panic (division by zero, modelled as Panic, nothing stored); "
              "counts > 65536 wrap the uint32 bounds; ShardIdGenerator wraps after 2^63 requested shards; duplicate namespace names "
              "in one config hand shardsToAdd ids that the status does not hold. Modelled restriction: a shard controller's "
              "UpdateShardMetadata is assumed not to hit a shard the status already marks Deleting (the real controller can do "
              "that while an election is still running when its namespace is removed, which republishes the shard until its "
              "deletion completes).")
TRUSTED = ["modelled not verified: xxh3 hash (codes are inputs of the model), gRPC transport of ShardAssignments, "
           "the ensemble selector (an arbitrary stateful function in the theorems)"]
ASSUMES = ["initialShardCount in 1..65536 for every namespace of every configuration (sharp)",
           "fewer than 2^63 shards requested over the whole history (int64 ShardIdGenerator)",
           "DeleteShardMetadata only for shards marked Deleting; UpdateShardMetadata keeps the range and does not hit a Deleting shard"]
RULE = ("gen: shard counts from {0..300, 2^k, 2^k±1, 65535..65537, random}; non-trivial = n>=2, distinct by n; "
        "route: hash codes at/around range boundaries, distinct by (hash, map size); update: assignment histories from "
        "GenerateShards, from the status histories, and from arbitrary cut points moved by ±1, distinct by content; "
        "status: config histories (add/remove/re-add namespaces, server lists incl. empty, shard counts from the interesting "
        "set incl. 0) with scripted supplier (fail / round-robin / explicit), deletion completions, metadata writes; "
        "non-trivial = more than one step, distinct by content; coord: histories of config changes, deletion completions and "
        "restarts of the real coordinator (incl. restarts with every namespace removed and fully deleted), generated op by "
        "op against the running implementation, distinct by content; cas (emitted as coord cases): a namespace of 1..3 "
        "shards being deleted, 0..n-1 deletions before and 1..3 inside the compare-and-set window of a ConfigChanged of the "
        "live coordinator (incl. the last one, which drops the namespace), re-add of the namespace, restart; disp: schedules of the assignment dispatcher "
        "(registrations of up to 6 clients of 2 namespaces incl. before the first push and for unknown namespaces, pushes that "
        "remove / re-create namespaces with 1..4 shards and fresh ids while first and later Sends are parked, Send completions "
        "and failures, disconnects), distinct by content")
LEGS = [
    {"name": "shard", "harness": "shard", "model": "shard", "n_quick": 120, "n_thorough": 4000,
     "corpus": "corpus/shard", "timeout": 600, "timeout_thorough": 3000},
    # client routing consistency (harness owned by C20): the whole clientImpl over a recording fake executor, 2..8 shards;
    # every kind of operation with the same partition key (incl. "" and a record key) must reach shardManager.Get(pk)
    {"name": "client-routing", "harness": "client", "model": None, "n_quick": 150, "n_thorough": 5000,
     "args": ["-mode", "routing"], "timeout": 600, "timeout_thorough": 3000},
]
