ID = "C07"
PROPERTY_FILE = "Properties/C07.v"
DESIGN_REF = "DESIGN.md §5 C07 (+ §5.0 node model, §6 O-1/O-5; own findings O-30, O-31)"
TECHNIQUE = ("Coq proof (invariant over all action sequences of a labelled transition system of one node: WAL with durable "
             "prefix, Pebble without its own WAL as flushed state + unflushed batches, leader write pipeline, follower "
             "append/sync/apply rounds, flush, crash, restart in either role, truncate, snapshot install; generic over the "
             "state machine) + real kv.DB / LeaderController / FollowerController on vfs.NewStrictMem crashed at filesystem / "
             "WAL operation indexes, restarted and compared with the fold of the surviving log; differential trace leg "
             "against the extracted model")
LEVEL_TEXT = ("Theorems in Coq, for every action sequence (no bound on lengths, number of in-flight writes, crashes): in every "
              "reachable state the database equals fold(apply, log[0..c]) where c is the commit offset stored in that same "
              "database content - for the current content, the flushed content and every unflushed batch boundary (what any "
              "crash can leave); every batch applies exactly one entry, the next one; c <= durable log head and the physical WAL "
              "starts at or below c+1 (right above c after a snapshot); replay (BecomeLeader) hands to ProcessWrite exactly "
              "c+1..head in order and ends with the fold of the whole log, a follower reads from exactly c+1; every action of "
              "the leader pipeline / follower rounds hands c+1, c+2, ... in order, with any number of writes in flight and any "
              "behaviour of the quorum commit offset; nothing is applied beyond what the node was told to be committed. "
              "Two refutations (vm_compute witnesses) for the code as it was: an application in flight across NewTerm + "
              "BecomeLeader (O-30, repaired by the WAL sync in NewTerm) and an apply round racing a snapshot installation "
              "(O-31, repaired by a mutex); both reproduced on the real controllers through forced schedules. "
              "Correspondence: the real controllers run generated workloads (puts, conditional/ephemeral/indexed/sequence puts, "
              "deletes, range deletes, multi-op batches, sessions; up to 6 writes in flight, gated sync completions and acks) "
              "and are crashed at sampled (thorough: all) indexes of the DB's filesystem operations and the WAL operations, "
              "power-loss (unsynced data dropped) and kill images, WAL cut anywhere between synced and appended head; after the "
              "restart the specification is evaluated directly (dump == dump of a fresh DB that applied WAL entries 0..c; "
              "c <= head; replay exactly c+1..head; applications at commit+1 only; follower never beyond the advertised "
              "commit), and the schedule is replayed by the extracted model (commit offsets and applied offsets per step).")
LEVEL_NOTE = ("Trusted: Coq kernel, extraction, the Go harness (gates, crash clock, canonical dump). Modelled, not verified: Pebble "
              "applies a batch atomically and a crash keeps a prefix of the committed batches (exercised on StrictMem, not proved); "
              "mmap/msync durability of the WAL (crash images are cut at entry granularity; torn pages are C10's); "
              "ProcessWrite is total (failing applications are C13's: the leader goes on after a failed apply); the quorum "
              "commit value is an input (C08); truncation never cuts committed entries (C03); WAL front trimming is not "
              "modelled; the snapshot loader bypasses Pebble's vfs (no fsync of received files: power loss during/after a "
              "snapshot installation is not covered, only process kill); a node whose WAL was cleared for a snapshot is "
              "not made leader before it receives an entry (it reports an empty log: C04/C05). Parent directories of the "
              "DB are assumed durable.")
TRUSTED = ["modelled not verified: Pebble batch atomicity + flush/DisableWAL crash semantics as implemented by vfs.NewStrictMem",
           "modelled not verified: WAL entries become durable only through segment.Flush (msync); crash images keep whole entries",
           "assumed from other properties: ProcessWrite total on logged requests (C13), quorum commit offset (C08), "
           "truncation above the commit offset (C03), WAL synced before the head is reported (O-5 repair, C04)"]
ASSUMES = ["apply is a total deterministic function of (state, entry) (C06/C13)",
           "the leader appends to the WAL at allocation time under the controller lock (O-1 repair; C08 c08_distinct_contiguous_offsets_wal_in_order)",
           "NewTerm syncs the WAL under the controller lock after closing the tracker (O-5 repair) - C07 needs it to drain the application in flight (O-30)",
           "apply rounds and snapshot installation exclude each other (O-31 repair in follower_controller.go)"]
RULE = ("one case = one workload (seeded: 4-15 writes, rf 1/3/5, schedule of writes / sync completions / acks / flushes / term changes) "
        "run up to one crash instant (index into the DB's filesystem + WAL operations; mode power-loss|kill; WAL cut 0..100% between "
        "synced and appended head) and restarted as leader or follower; non-trivial = a crash instant was used, distinct by "
        "(workload, instant, mode, cut, restart role); trace cases: distinct by macro sequence")
LEGS = [
    {"name": "crash", "harness": "crash", "model": "crash", "n_quick": 400, "n_thorough": 28000,
     "corpus": "corpus/crash", "timeout": 600, "timeout_thorough": 6000,
     "compare": (lambda impl, model: model == "spec-leg" or impl == model)},
]
# Thorough tier: the crash leg is split into parts, one harness process each. A process of the harness never lives
# longer than 4 minutes (it stops generating by itself): shorter than any session timer of the code under test
# (max 5 min), so that a timer left behind by a controller the harness has closed can never fire in it (a session
# that oxia registers after its session manager was closed lists keys through the closed controller when it
# expires: nil dereference in a goroutine of its own = the process dies; observation outside C07).
THOROUGH_PARTS = 7


def run(ctx):
    if ctx.tier == "thorough":
        base = LEGS[0]
        ctx.mod.LEGS = [dict(base, name="crash-p%d" % i, n_thorough=base["n_thorough"] // THOROUGH_PARTS,
                             args=["-part", str(i)], timeout_thorough=900) for i in range(THOROUGH_PARTS)]
    return ctx.standard_run()


REGISTERED = True
