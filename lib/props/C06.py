ID = "C06"
PROPERTY_FILE = "Properties/C06.v"
DESIGN_REF = "DESIGN.md §5.1 (shared DB model) and §5 C06"
REGISTERED = True
TECHNIQUE = ("Coq proof: determinism of log application stated over an abstract apply function (it is a function of stored map, version counter, "
             "notifications switch, request, offset, timestamp; a committed request stores the counters it leaves in memory), instantiated with the "
             "transcribed ProcessWrite; induction over the log for every split point and every restart schedule; algebraic proof of the snapshot "
             "chunking / reassembly state machines for every chunk size and file list; refutation witnesses by vm_compute. Differential correspondence: "
             "the same committed log is taken to the same offset by several REAL replicas on different routes (live, close/reopen, crash to the last "
             "flush on vfs.StrictMem + replay, real Snapshot() shipped in small chunks + replay; real FollowerController over Replicate / SendSnapshot, "
             "with restart; follower elected leader applying its tail; real LeaderController vs its own WAL replayed), dumps compared across routes and with the extracted model")
LEVEL_TEXT = ("Theorems in Coq (Properties/C06.v). c06_replay_equiv / c06_replay_equiv_reopen: for every state whose in-memory version counter is the stored one "
              "(true of an empty DB, after NewDB, kept by every successful ProcessWrite), every committed log all of whose applications succeed and EVERY split es1 ++ es2: "
              "applying the log live, and applying es1, re-creating the replica from what is stored (restart after close or crash-to-flushed-state, or the stored map shipped as a snapshot) "
              "and replaying es2, give the same stored map, version counter and notifications switch, the same responses (version ids, generated sequence keys, statuses) for the replayed entries, "
              "and the replay succeeds too; c06_any_restart_schedule: the same for any number of re-creations at any points; c06_user_visible_state_equal: records (values, version ids, "
              "modification counts, timestamps, ephemeral owner, identity, index list), session/shadow keys, secondary-index entries, notification batches and every read (Get x5, List, RangeScan, "
              "secondary-index reads, notification batches) coincide; c06_apply_depends_only_on: ProcessWrite (any callback chain) reads nothing but (map, counter, switch, request, offset, timestamp); "
              "c06_commit_stores_counters; c06_chunks_roundtrip: for every chunk size n > 0 the chunks of a file concatenate to the file, none exceeds n, their number is the advertised count, the sender's "
              "Valid/Chunk/Next walk emits exactly the labelled stream and the loader's AddChunk rebuilds every file exactly, no file left open, for every file list with distinct names; "
              "c06_snapshot_install: after installation (NewDB, UpdateTerm, EnableNotifications) the replica is consistent, has the sender's counter and switch and the sender's map except the two term keys; "
              "c06_new_term_switch_read_back; c06_reads_do_not_change_state: for every schedule interleaving log entries with reads of any kind served by one replica only, that replica ends in exactly the state of a replica that applied the log alone, answers the writes alike, and answers every read from the log prefix applied so far. REFUTED without the success hypothesis (c06_refuted_after_failed_batch): a batch failing after one of its puts took a version id leaves the live replica's "
              "counter ahead (next put: version 2 live, 1 on a re-created replica) - confirmed on the real kv.DB and, for ErrMissingSequenceDeltas, through the real leader (known finding, root cause C13); "
              "c06_failed_entry_leaves_no_trace_partial states what holds with failures. Two defects found and repaired in the tree: O-40 (handleSnapshot did not restore the notifications switch: "
              "c06_snapshot_install_before_O40_refuted) and O-41 (BecomeLeader decoded log entries with reflection-based proto.Unmarshal, refusing non-UTF-8 strings that every other path accepts).")
LEVEL_NOTE = ("Partial: proof about a hand-written model tied to the code by differential testing. Trusted: Coq kernel, extraction (ExtrOcamlBasic), the Go harness and its canonicalisation. "
              "Modelled, not verified: Pebble as an ordered map with atomic batches whose crash state is a prefix of the committed batches (exercised on vfs.StrictMem), Pebble's checkpoint as 'the stored map' "
              "(its file format is opaque bytes: only chunking/reassembly is modelled), protobuf. Not in the model, checked by the harness only: that leader write path, follower apply loop, leader log replay and "
              "snapshot install use the same decoder and callback chain (routes follower / elected-leader / leader), and the follower's rewrite of the two term keys after a snapshot (values equal, wall-clock fields masked). "
              "The model applies the entry timestamp as it is (no in-memory clamp or other hidden instance state: state = stored map + version counter + switch, all rebuilt by NewDB); an instance-lifetime dependence in the code shows as a route difference or, on one instance, as a model mismatch on the stored timestamps (timestamps are compared, only the two term keys are masked). "
              "Object lifetime is outside the model (the model has no pools or caches: apply is a function of the log by construction, c06_apply_depends_only_on / c06_reads_do_not_change_state): that process-global state shared between shards and between the read and write paths (vtprotobuf object pools, block cache) does not leak into a replica is covered only by the harness routes busy-node (other activity of the process runs from inside applyPut/applyDelete/applyDeleteRange; two consecutive StorageEntryFromVTPool() must be distinct objects) and reads-interleaved. "
              "st_notif_last (whether a notification read waits) is outside the compared state. Chunk counts/indexes are nat (Go int32: files of 2^31 chunks or more excluded).")
TRUSTED = ["modelled not verified: Pebble v1.1.2 (ordered map, atomic batch, flush/crash semantics of vfs.StrictMem, Checkpoint), protobuf/vtprotobuf, the os file API used by the snapshot sender/loader"]
ASSUMES = ["every application of the committed prefix succeeds (c06_refuted_after_failed_batch shows the hypothesis is needed; C13 is the property that makes it true)",
           "offsets and version ids are int64 values (as in Go)",
           "snapshot files have distinct names (a directory listing) and fewer than 2^31 chunks"]
RULE = ("routes: one case = one committed log of 5-30 write requests of the C12 valid stream (in 65% of the logs the entry timestamps are adversarial - going back by 1 or by a lot, equal runs, 0, values near 2^63 and 2^64 - and every route re-creates its instance right after the highest timestamp so far; plain/conditional/session/indexed/sequence puts, deletes, delete-ranges, session create/close batches, "
        "bulk ranges around DeleteRangeThreshold; 30% with notifications disabled) applied live (compared with the model) and on three more real kv.DB instances: close/reopen at random points, "
        "StrictMem crash to the last flush + replay from the stored commit offset, real Snapshot() shipped with chunk size in {3,7,64,1000,4096,1 MiB} + replay, and a replica that between any two entries also answers 0-5 reads of every kind (Get x5 comparison types with/without value, index Get/List/RangeScan, List, RangeScan, notification reads, ReadCommitOffset; sequence waiters, snapshots) compared after every entry with a replica that applied the log alone (reads-interleaved; every read answer compared with the model); and a replica on a 'busy node' whose UpdateOperationCallback hooks (before/after OnPut/OnDelete/OnDeleteWithEntry/OnDeleteRange) apply puts/overwrites/deletes on a second kv.DB and run metadata-only/full gets on both DBs and lists, followed by 4 overwrites in a row, compared after every entry with a quiet replica, with sampled pool-aliasing checks (busy-node); plus 4 sender and ~7 loader cases per log on generated "
        "directories (empty files, exact multiples, damaged streams) compared with Db/Snapshot.v. controllers: one case = one log fed to a real FollowerController (optionally restarted), to a fresh follower through "
        "SendSnapshot + Replicate, to a follower that is then elected leader, a request stream through a real LeaderController whose WAL is replayed on a fresh DB, and a replication-factor-2 leader whose follower acks are held by the harness while the callers of ~40% of the writes are cancelled between WAL sync and commit (leader DB vs its log replayed vs a real follower); distinct by generator sub-seed")
LEGS = [
    {"name": "routes", "harness": "db", "model": "db", "args": ["-mode", "c06"], "n_quick": 100, "n_thorough": 6000,
     "corpus": "corpus/db06", "timeout": 900, "timeout_thorough": 3000},
    {"name": "controllers", "harness": "db", "model": "db", "args": ["-mode", "c06ctl"], "n_quick": 30, "n_thorough": 2000,
     "corpus": "corpus/db06/ctl", "timeout": 900, "timeout_thorough": 3000},
]


