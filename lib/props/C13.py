ID = "C13"
PROPERTY_FILE = "Properties/C13.v"
DESIGN_REF = "DESIGN.md §5.1 (shared DB model), §5 C13, §6 O-10"
TECHNIQUE = ("Coq proof: totality of the transcribed apply function (ProcessWrite with the session + secondary-index callback chain) on every "
             "request accepted by the transcribed leader-side validation, in every state reachable by any history (invariant of C12), refutation "
             "witnesses per error class for the unrestricted statement, and a fixed-point argument on a replay model of the two controllers' apply "
             "loops (a failing logged entry stops every restart+replay in the same stored state); differential correspondence of the extracted model "
             "against the real kv.DB (hostile request stream, class level), against server.validateWriteRequest, and against a real rf=1 "
             "LeaderController with restarts and a real FollowerController fed the leader's log")
LEVEL_TEXT = ("Theorems in Coq (Properties/C13.v). Refuted as stated for the DB's apply function: c13_total_refuted_* give, per error class, a reachable state "
              "and a request for which ProcessWrite returns an infrastructure error (missing partition key, first delta zero, delete-range sweeping "
              "'__oxia/' values, put/delete on a stored notification batch; c13_total_old_refuted_scan: a non-numeric suffix, on the code as it was), and "
              "c13_apply_log_stops / c13_poison_blocks_replay / c13_poison_commit_offset_stuck show that once such an entry is in the log every restart + replay "
              "(BecomeLeader's applyAllEntriesIntoDB, the follower's processCommittedEntries) ends at that entry with the same error and never moves the commit "
              "offset past it. All classes were confirmed on the real code through LeaderController.WriteBlock (error returned AFTER the entry is in the WAL, "
              "BecomeLeader of the restarted controller fails, a follower's apply loop ends) and repaired in the tree (O-10): content-only classes, every "
              "'__oxia/' key, ranges that can contain an internal key and the default-valued (\"\",\"\") range are refused by validateWriteRequest before an offset "
              "is assigned (InvalidArgument, nothing logged); a non-numeric suffix and an exhausted sequence answer the per-operation status UNEXPECTED_VERSION_ID. "
              "Proved after the repair: c13_validate_user_request (accepted requests stay outside the internal key space), c13_total_validated_partial (in every "
              "reachable state an accepted request yields per-operation statuses or fails with EMissingSequenceDeltas), c13_total_validated_no_sequence (total "
              "without sequence puts), c13_leader_rejected_not_logged, c13_leader_failure_class (an entry the leader logs can only fail with that class). "
              "PARTIAL: the remaining class (a sequence put with fewer deltas than the current last key has suffixes; c13_missing_deltas_refuted) depends on "
              "the state, so it cannot be validated, and the suite (TestDB_SequentialKeys) pins it as an error of ProcessWrite: known finding.")
LEVEL_NOTE = ("Partial: proof about a hand-written model, tied to the code by differential testing at the level of classes ok|status|err|panic|rejected|blocked "
              "(what a mis-typed Deserialize yields byte for byte is out of scope). Trusted: Coq kernel, extraction (ExtrOcamlBasic), the Go harness and its "
              "canonicalisation. Modelled, not verified: Pebble as an ordered map with atomic indexed batches, protobuf, the WAL as the list of appended entries, "
              "rf=1 (an appended entry is committed at once). The replay theorem is stated for a state a restart reproduces (the empty DB, or any state right "
              "after a committed entry with int64 offsets/version ids). The session manager's own requests (createSession, session.delete) use the unexported "
              "writeBlock and are not validated: they are built by the server. Entries already in existing logs are not re-validated (an old log holding a poison "
              "entry still blocks, which c13_poison_blocks_replay states). Not modelled: a delete-range with both bounds empty at the DB level (Pebble keeps or drops "
              "the bounds depending on a pooled buffer: observed as no-op / wipe of the shard / Deserialize error on the real DB); it is refused by the validation.")
TRUSTED = ["modelled not verified: Pebble v1.1.2 (ordered map, atomic indexed batch), protobuf/vtprotobuf (de)serialisation, the WAL (list of entries), gRPC (not involved: rf=1, in-process follower stream)"]
ASSUMES = ["c13_poison_blocks_replay: the state before the failing entry is reproduced by a restart (empty DB, or right after a committed entry with offset and version id in int64)",
           "client requests enter through LeaderController.Write / WriteBlock (the public RPC server does); the session manager's internal requests are well formed by construction"]
RULE = ("direct: one case = 20-50 requests against a fresh real DB drawn from three levels (any field value: empty/internal-prefix keys, inverted and sweeping ranges, "
        "0-3 deltas from {0,1,2,3,2^63,10^19,2^64-2,2^64-1}, missing partition key, expected version with deltas, dead sessions, \\x01 and '/' in index names; "
        "well-formed requests that meet state-dependent behaviour; plain user requests), classes compared, plus validateWriteRequest alone on further requests "
        "(both-empty ranges included); leader: 10-30 such requests through WriteBlock of a real rf=1 leader, restarts (preferably right after a failed write), "
        "final restart or follower replay; 10% of the direct cases and 30% of the leader cases run with notifications disabled (E:0; in the leader leg every NewTerm of the case - start, "
        "restarts, the follower's - carries NewTermOptions{EnableNotifications:false}); distinct by generator sub-seed / request text")
LEGS = [
    {"name": "direct", "harness": "db", "model": "db", "n_quick": 500, "n_thorough": 30000, "args": ["-mode", "c13db"],
     "corpus": "corpus/db13/direct", "timeout": 900, "timeout_thorough": 3000},
    {"name": "leader", "harness": "db", "model": "db", "n_quick": 250, "n_thorough": 8000, "args": ["-mode", "c13leader"],
     "corpus": "corpus/db13/leader", "timeout": 900, "timeout_thorough": 3000},
]
REGISTERED = True


