ID = "C03"
PROPERTY_FILE = "Properties/C03.v"
DESIGN_REF = "DESIGN.md §5 C03 (+ §5.0 node model, §6 O-3, O-4, O-5)"
TECHNIQUE = ("Coq proof (invariant over all schedules of a two-party model: the follower node + the log of each term's leader, "
             "leader-side obligations as explicit hypotheses) and differential correspondence of the extracted follower model against the "
             "real FollowerController driven through forced schedules, with leader and follower logs compared entry by entry at every Ack")
LEVEL_TEXT = ("Theorem in Coq: for every schedule of appends (in order, duplicated, re-delivered after reconnect), sync rounds, stream failures, "
              "new-term requests, truncations, snapshot installs, crashes and restarts in which the leaders meet their obligations (an Append carries the "
              "leader's entry for its offset; a stream is opened by a leader whose log contains the follower's log up to the head it reported; a Truncate "
              "leaves only entries of the leader's log), every Ack(o) the follower sends on a stream of term T implies that each entry it holds at an offset <= o "
              "is the entry of that leader's log at that offset and lies in the synced prefix of its WAL; hence replicas agree below acknowledged offsets. "
              "PARTIAL: the Truncate obligation is proved from log matching only when the follower holds an entry of the requested term "
              "(c03_truncate_contract_partial); in general one round of truncation by entry id can leave lower-term entries the leader does not have "
              "(c03_truncate_one_round_refuted, open known finding). Refuted on the model of the pinned code, replayed on the real code and repaired: "
              "O-3 truncation by offset, O-4 duplicate acked before its first copy is synced, O-5/O-5b head report + in-flight sync round acknowledging the new "
              "leader's entries to the old leader. The model is tied to the Go code on every run by executing seeded schedules on the real controllers and "
              "comparing every result, ack and the final WAL; at every Ack the follower's WAL is compared with the sending leader's log and with the synced offset.")
LEVEL_NOTE = ("Kill images (the node abandoned without closing anything and restarted on a copy of its directories taken right after an answer; for the WAL also the content at the start of the last completed flush) are judged by specification verdicts only (restart:term-regressed-after-kill, restart:acked-entry-missing-after-kill, restart:log-differs-from-synced-prefix and the fence monitors across the kill): the model's crash step keeps the stored term and a cut of the log covering the synced prefix, which is what they enforce. The applied state is judged by a specification monitor only (not by a theorem): in spec-only scenarios that advertise commit offsets the node's DB, read through its KV handle, must be the fold of the leader's log up to the reported commit offset (apply:db-not-fold-of-log-prefix); restarts must bring back a cut of the pre-stop log covering the synced prefix (restart:*). The same monitor runs on the LEADER's DB: a real LeaderController at replication factor 2 and 3 whose followers are replicate streams held by the harness (every Ack delivered when the schedule says so), client writes whose context is cancelled before the call / after the entry reached the leader's log and before the acknowledgement that commits it / after the answer, and a restart that leads alone; after every step the leader's DB must be the fold of its own log up to the commit offset stored in the DB, that offset must not pass the commit offset it reports and must have reached it once the write callbacks have run (fixed and seeded schedules, spec verdict only). Trusted: Coq kernel, extraction, the Go harness (gating WAL wrapper, stream mock, generated leader logs). "
              "Modelled, not verified: WAL as a list with a synced prefix (C09/C10), gRPC stream life cycle as explicit actions. "
              "Not modelled: the follower's apply loop and the applied state (equal applied state follows from equal entries by C06); the leader's side "
              "(cursor, quorum tracker: C08) appears only as obligations. Known finding (open): truncate:kept-lower-term-entries-not-in-leader-log.")
TRUSTED = ["modelled not verified: WAL = list + synced prefix (C09/C10), gRPC stream termination as an explicit action",
           "the leader-side obligations env_ok are hypotheses of the C03 theorem (discharged by C01/C05 at cluster level, except the open finding)"]
ASSUMES = ["leader-side obligations env_ok (Append authenticity, attach only when the reported head is in the leader's log, Truncate leaves a sub-log of the leader)",
           "the node under study stays a follower (no BecomeLeader / client write in C03 schedules)",
           "terms/offsets stay below 2^63"]
RULE = ("as C04, generator biased to replication: leader logs are generated per election from the follower's real log (common prefix + dead-term entries), "
        "the honest truncate decision is computed and sent, plus truncations with arbitrary ids; the ack monitors are armed only for terms whose leader obligations hold")
LEGS = [
    {"name": "node-c03", "harness": "node", "model": "node", "n_quick": 50, "n_thorough": 4000, "args": ["-focus", "c03"],
     "corpus": "corpus/node", "timeout": 600, "timeout_thorough": 3000},
]
