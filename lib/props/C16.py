ID = "C16"
PROPERTY_FILE = "Properties/C16.v"
DESIGN_REF = "DESIGN.md §5.1 (shared DB model), §5 C16, §6 O-15 and O-16"
TECHNIQUE = ("Coq proof: the transcribed key generation (FindLower + prefix test + Split + Sscanf + uint64 addition written out + %020d, with the "
             "repaired overflow / order checks) is shown fresh and order-preserving on every sorted map (CompareWithSlash reduced to bytes.Compare on "
             "slash-free remainders, a betweenness lemma for the key order, a characterisation of the greatest-key-below lookup), exact on maps whose "
             "keys of the prefix were generated (an invariant proved by induction over all histories that keep other writes away from the prefix), "
             "with %020d/Sscanf round trip and order proved on the digit level; the override channel and the DB + wait-tracker protocol are a labelled "
             "transition system whose invariant is proved for every schedule; refutation witnesses for the code as it was; differential "
             "correspondence of the extracted model against the real kv.DB (responses, generated keys, digests of the full dump) and against forced "
             "schedules of writer / GetSequenceUpdates / receiver on the real DB (gates in OnPut, in the reverse iterator and at batch.Commit)")
LEVEL_TEXT = ("Theorems in Coq (Properties/C16.v). For EVERY well-formed state and every sequence put (any deltas, any keys under the prefix, every put of a batch "
              "on the batch as the earlier ones left it): answered with a key, that key was absent, now holds the new record (a creation), is greater than every key of "
              "the prefix below prefix-%020d(2^64-1), and is what the waiters are told after the commit; answered without a key, nothing a user sees changed "
              "(c16_fresh_and_greater, c16_generated_key_absent). Where every key with the prefix was generated from the sequence - an invariant of every history "
              "whose other writes stay away from the prefix, deletes unrestricted (c16_seq_wf_invariant) - the new key is exactly prefix ++ '-%020d'(cur_i + delta_i), "
              "cur = the numbers of the highest key of the prefix, 0 where absent, when no component leaves uint64 (first component below 2^64-1), and the put is refused "
              "with UNEXPECTED_VERSION_ID otherwise (c16_exact, c16_exact_put, c16_last_vals_exists). Determinism across replicas is C06. Subscriber: after any interleaving "
              "of WriteLast and Receive the receiver ends with the last value written (c16_latest_observed_cell); for every schedule of writer, GetSequenceUpdates and "
              "receiver, once nothing is in progress the receiver ends with the highest committed key of the prefix and never saw anything but committed keys "
              "(c16_latest_observed); with any number of subscribers on any prefixes subscribing, closing, receiving and being published to in any order, every open subscriber "
              "ends with its initial value or the last key published for its prefix since it subscribed, and a closed one is out of the tracker's map "
              "(c16_latest_observed_all_waiters, c16_closed_waiter_unregistered: waiter ids come from a tracker-wide counter; refuted for ids that are only unique among the "
              "waiters currently registered, c16_latest_observed_len_ids_refuted); the waiters are told exactly the keys reported by a committed batch and nothing by a failed one (c16_events_committed, "
              "c16_events_none_on_failure). Refuted for the code as it was and repaired in the tree: O-15 uint64 wrap-around - new key not greater, existing record silently "
              "replaced, a 2^64-1 suffix invisible to FindLower (c16_overflow_old_refuted_*); a plain key under the prefix (e.g. 's-0x') made two puts generate the same key "
              "(now refused: the new key must sort after the current last key); O-16 - SequenceUpdated before Commit and with \"\" on failure, registration not atomic with the "
              "initial read, initial read bounded by MaxInt64 (c16_latest_observed_old_refuted_stale / _uncommitted / _empty_key). All confirmed on the real DB first.")
LEVEL_NOTE = ("Partial: proof about a hand-written model, tied to the code by differential testing. Trusted: Coq kernel, extraction (ExtrOcamlBasic), the Go harness, its gates "
              "and its canonicalisation. Modelled, not verified: Pebble as an ordered map (FindLower = greatest key below; reverse iterators are snapshots taken at creation), "
              "Go channels and sync.RWMutex (a buffered channel of capacity 1; the tracker's write lock excludes SequenceUpdated), fmt.Sscanf on single-byte white space. "
              "'Eventually observes' is stated as: in every schedule, once no request and no subscription is in progress, the receiver that takes what is buffered holds the "
              "latest key - not as a real-time bound. The schedule model (step_new) has one subscriber and one writer (the controllers apply one request at a time); that waiters are independent of one another, "
              "whatever the order of subscriptions and closes, is the separate theorem c16_latest_observed_all_waiters over the tracker's map (tstep), whose steps are atomic "
              "(each runs under the tracker's lock); "
              "a batch with several sequence puts of one prefix publishes their keys in order and is modelled by its last key. 'Greater than every existing key of the prefix' "
              "is claimed for the keys below prefix-%020d(2^64-1) (all keys of the prefix in seq_wf states); a plain key such as 's-9' above that bound is never looked at. "
              "Deleting the key a batch itself generated (same request) still tells the waiters that key. "
              "WriteLast against a CONCURRENT reader is modelled at the granularity of its channel operations (ch_step): c16_write_last_never_blocks (every writer step is enabled, "
              "at most three of its own steps whatever the reader does), c16_write_last_leaves_latest, and c16_write_last_blocking_variant_refuted for a blocking drain; what the Go "
              "scheduler really interleaves cannot be forced from outside the function, so the 'chan' leg is a stress test of the real channel.OverrideChannel and of kv.DB.ProcessWrite "
              "against a polling reader (450k WriteLast calls in bursts of 1/2/64 and 550 requests of 64/2 sequence puts per quick run, each dispatch under a 2 s watchdog): a "
              "blocking drain was hit in 10 of 10 runs, typically in the first case; a variant with a narrower window could be missed by it - the theorem, not the leg, carries that clause. "
              "The public RPC (publicRpcServer.GetSequenceUpdates) forwards every value of the waiter's channel to the client's stream unchanged (the identity), so "
              "c16_latest_observed composes with it without a further model; that loop is exercised by the 'rpc' leg (real rf=1 LeaderController, in-memory stream), where the "
              "specification is evaluated directly: after a subscription and after every sequence put the stream's last value must become the key to observe (bounded wait of 3 s; "
              "microseconds in practice), also when deletes of the highest key make later generated keys smaller than keys the subscriber saw before.")
TRUSTED = ["modelled not verified: Pebble v1.1.2 (ordered map, FindLower, snapshot iterators, atomic batch commit), Go channel / RWMutex semantics, fmt.Sprintf/Sscanf (transcribed and compared on generated inputs)"]
ASSUMES = ["c16_exact: the deltas are uint64 values, the first one non-zero, the request has a partition key and no expected version, and it has at least as many deltas as the last key has suffixes (otherwise ErrMissingSequenceDeltas: C13's known finding)",
           "c16_seq_wf_invariant: the prefix is not comparable with '__oxia/' and nothing but sequence puts of that prefix creates keys that start with it",
           "c16_latest_observed: one writer at a time (the controllers serialise ProcessWrite), generated keys increase (c16_fresh_and_greater)"]
RULE = ("seq: one case = 15-40 requests against a fresh real DB, 1-3 puts each, 75% sequence puts on prefixes {s, q/x, s-0, t-, a/b-c, m/n/o, z} with 1-3 deltas from "
        "{1,2,3,10^19,2^63,2^64-2,2^64-1,0 (not first),random}, arity sometimes growing, other writes elsewhere, deletes of generated keys, in 20% of the cases plain keys "
        "written under the prefixes, and in 35% of the requests 1-3 ordinary puts BEFORE (and one after) the sequence puts of the same request with comparer-stressing keys "
        "(first segments of 8-11 bytes with a later '/', equal 8-byte prefixes with and without '/', neighbours below '/'; prefixes {orders-seq, /orders/seq, zz, A} on either "
        "side of them in the slash order and in the bytewise order of the first 8 bytes); every response and dump digest compared with the model, every sequence put checked against the big-integer reference; "
        "sub: one case = a forced schedule of 4-12 steps (writes held between key generation and commit, failing batches, subscriptions before / during / after writes, "
        "commits placed between the subscriber's read and its initial write, receives) compared with the transition system; "
        "msub (in the sub leg): several subscribers on two prefixes subscribing / closing / receiving between sequence puts in every order, incl. the scripted "
        "'A,B subscribe; A closes; C subscribes; puts; B closes; puts', compared with the tracker model (tstep) and checked directly; "
        "30% of the sub / msub / rpc cases run on a shard with notifications disabled (E:0: db.EnableNotifications(false), resp. NewTermOptions{EnableNotifications:false}): "
        "what subscribers observe must not depend on that switch (c16_latest_observed_notifications_disabled); "
        "chan: real override channel / real DB with a polling reader goroutine, bursts of WriteLast / requests of many sequence puts of one prefix, watchdog per dispatch; "
        "rpc: one case = 8-20 steps through WriteBlock of a real rf=1 leader (sequence puts, deletes of the highest / of middle generated keys, other puts) with subscribers attached "
        "through publicRpcServer.GetSequenceUpdates before / between / after the writes, on the prefix and on another one, and leaving (stream context cancelled) in any order; distinct by generator sub-seed")
LEGS = [
    {"name": "seq", "harness": "db", "model": "db", "n_quick": 300, "n_thorough": 20000, "args": ["-mode", "c16seq"],
     "corpus": "corpus/db16/seq", "timeout": 900, "timeout_thorough": 3000},
    {"name": "sub", "harness": "db", "model": "db", "n_quick": 1500, "n_thorough": 60000, "args": ["-mode", "c16sub"],
     "corpus": "corpus/db16/sub", "timeout": 900, "timeout_thorough": 3000},
    {"name": "rpc", "harness": "db", "model": None, "n_quick": 200, "n_thorough": 20000, "args": ["-mode", "c16rpc"],
     "corpus": "corpus/db16/rpc", "timeout": 900, "timeout_thorough": 3000},
    {"name": "chan", "harness": "db", "model": None, "n_quick": 100, "n_thorough": 3000, "args": ["-mode", "c16chan"],
     "timeout": 900, "timeout_thorough": 3000},
]
REGISTERED = True


