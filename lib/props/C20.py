ID = "C20"
PROPERTY_FILE = "Properties/C20.v"
DESIGN_REF = "DESIGN.md §5 C20"
TECHNIQUE = ("Coq proof (invariants by induction over all event sequences / arrival orders; heap merge as repeated "
             "minimum extraction) + differential correspondence of the extracted model against the real batcher, "
             "write/read batches, write-stream wrapper, range-scan merge and multi-shard get on scripted executors, "
             "streams and arrival orders; specification verdicts on the real client end to end")
LEVEL_TEXT = ("Theorems in Coq, for every event sequence / configuration / executor / arrival order (no bound on lengths): "
              "(1) batcher + write/read batch: with an executor that answers with an error or with at least one answer per "
              "call, nothing panics, submitted calls = completed calls + calls in the open batch as multisets (nobody lost, "
              "nobody called twice), every callback gets ErrShuttingDown, the error of the request its call travelled in, or "
              "the executor's answer at its call's own position in that request; nothing is left waiting after Close or with "
              "linger 0. the same holds with the retry loop of doRequestWithRetries explicit, for every attempt script (any number of "
              "attempts, any chunking of a read stream, partial delivery before a retriable failure): the answer is that of the "
              "last attempt only. batcher shutdown at goroutine granularity (Add = increment of the adding counter, closed-check, channel send or failCall, "
              "decrement; Run's receive / timer / close branch with its drain loop; Close; any queue capacity): under every "
              "interleaving nobody completes twice, and -- with the drain rule of the fixed code (after finding the queue empty Run reads "
              "adding; at 0 it drains the queue once more) -- every call whose Add started has completed exactly once when Run and every Add have returned, with no "
              "hypothesis on the interleaving; refuted by witness for the drain rule of the code as found (lost call, reproduced) and for "
              "the first repair cb6e33f (counter read after the emptiness test, without a final drain: residual loss, reproduced by the "
              "stress), the no-overlap version kept as partial. (2) write stream: every successful completion pairs the "
              "i-th successfully sent request with the i-th response received, for one i -- also when callers abandon "
              "requests that are on the wire (per-request timeout or cancellation: the future keeps its place in the FIFO "
              "and swallows its own late response); every Send returns exactly once; no panic (after the fix; refuted for "
              "the code as found). "
              "(3) k-way merge: output + unread rest is a permutation of the per-shard streams for any comparison, cut after "
              "the first error; sorted by CompareWithSlash when every per-shard stream is (uses C11's total-order theorems); "
              "List is the plain union for every schedule: without cancellation the consumer receives exactly what every "
              "shard streamed up to and including its first failure (the union when every stream ended with EOF, an error item "
              "when some stream failed with whatever status after however many items), and with the caller's context (after the fix; refuted for the code "
              "as found) never sends on the closed result channel, closes it once and last, for every schedule and every "
              "moment of cancellation. (4) multi-shard comparison get: exactly one value and one close "
              "for every arrival order and every placement of errors (O-21 refuted for the code as found, fixed, old model "
              "kept), and the value is the extremum of the per-shard OK answers in (secondary key, key) order. "
              "The model is tied to the Go code by driving the real batch.Batcher (own goroutine, timers), the real "
              "write/read batches, streamWrapper, aggregateAndSortRangeScanAcrossShards and doMultiShardGet through the "
              "same event lists with channel handshakes and comparing every observation; a second leg runs the whole "
              "client (managers, batcher factory, fan-out) over a fake executor and judges only order-insensitive outcomes.")
LEVEL_NOTE = ("Trusted: Coq kernel, extraction (ExtrOcamlBasic), the Go harness (handshake wrappers around the real batches, "
              "in-memory gRPC stream fakes) and its canonicalisation. Modelled, not verified: the Go scheduler and timers "
              "(which select case fires is an input event; in the event model Add and Run's handling of the call are one atomic event; "
              "the shutdown model splits them), gRPC (assumed: a failed or closed stream keeps failing sends), "
              "the backoff timing of doRequestWithRetries (the attempts and their outcomes are inputs; a request timeout is the end of the attempt list), protobuf. "
              "Secondary-index range scans are merged by primary key while each shard streams in index order: the "
              "permutation theorem covers them, the sortedness theorem's hypothesis does not hold for them (recorded, "
              "API documents no cross-shard order). Runs in which the linger timer fires where the case has no Tick "
              "are detected and repeated.")
TRUSTED = ["modelled not verified: goroutine scheduling inside Batcher.Run beyond the event order, time.Timer, gRPC streams "
           "(in-memory fakes in the harness), backoff timing, protobuf"]
ASSUMES = ["executor answers: an error or a response with at least one entry per call (otherwise the Go code indexes past the end: modelled Panic, reproduced)",
           "Close() of a batcher is called at most once (batch.Manager removes the batcher before closing it)",
           "calls have the Go type of the batcher they are routed to (clientImpl routes Put/Delete/DeleteRange to write, Get to read batchers)",
           "gRPC: once stream.Send has failed or the stream context is done, later stream.Send calls fail",
           "comparison get: all per-shard answers of one query carry a secondary key or none does"]
RULE = ("batch: calls without key material (Delete(\"\"), Put(\"\", nil), DeleteRange(\"\", \"\"), Get(\"\"): size 0) alone / first / last / only among themselves in a batch, count limit 1, calls above the byte limit; event lists (Call/Tick/Close) x configurations (write/read, linger 0|>0, count limit incl. 0/-1, byte limit with "
        "exact fits) x executor scripts (per request: attempts that stream k answers and fail with a retriable status, then ok / error / short / long), distinct by content; stream: interleavings of "
        "sends (ok/failed), responses, receive errors, per-request context cancellations, closure; merge: 0..8 per-shard streams over a '/'-rich key alphabet, "
        "errors anywhere, duplicates, unsorted streams, non-trivial = 2+ streams; mget: 1..6 shards, all comparison types, "
        "errors/not-found/OK mixes, secondary-index gets (answers carry primary and secondary key), comparer-stressing keys (same-depth candidates whose non-final segment is a prefix of the other's followed by a byte below '/'), answers whose primary or secondary key equals the search key, partial arrivals, every arrival order of one answer set for <= 4 shards, random callback order, observations per arrival, non-trivial = 2+ shards; "
        "shutdown: real batcher with a parked executor, queue filled to capacity, late Adds parked in the send (seen in the "
        "goroutine dump), Close before / after the fill / after the parking, Adds after Close; the same through the real client in a "
        "child process; an unforced stress of 8 and of 32 Adds racing Close (12000 + 2000 iterations per quick run; a call without completion after every Add has returned and Run's goroutine is gone, or completed twice, is a verdict; the window between Add's check and its send cannot be forced from outside); "
        "list / scan (through clientImpl.List / RangeScan): 1..5 shards whose streams end with EOF, an opaque error or any "
        "gRPC status (Canceled, Unknown, DeadlineExceeded, Internal, Unavailable, oxia codes 100..108) after 0..k items, keys from "
        "the comparer-stressing alphabet; wsend: write batch retry loop over the real executor (ExecuteWrite / writeStream, verif hook) over the real stream wrapper over streams from a fake connection pool, a real kv.DB applying what reaches it; attempts = connection "
        "failure / send failure / answered / stream broken in flight with every status code; listc (child process each): 1..4 gated shard streams, forwards, cancellation, "
        "give-ups; e2e: 30-120 operations per scenario over 1..4 shards, 3 lingers, 4 count limits, "
        "3 byte limits, injected request failures, close under load")
LEGS = [
    {"name": "client", "harness": "client", "model": "client", "n_quick": 500, "n_thorough": 20000,
     "corpus": "corpus/client", "timeout": 600, "timeout_thorough": 3000},
    {"name": "client-e2e", "harness": "client", "model": None, "n_quick": 100, "n_thorough": 3000,
     "args": ["-mode", "e2e"], "timeout": 600, "timeout_thorough": 3000},
]
REGISTERED = True

