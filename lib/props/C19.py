ID = "C19"
PROPERTY_FILE = "Properties/C19.v"
DESIGN_REF = "DESIGN.md §5 C19 (§6 O-19, O-20)"
TECHNIQUE = ("Coq proof over an executable model of the selector chain, ensemble selection, balancer swap proposal, "
             "rebalance rounds and swapNode (map-order nondeterminism = set of admissible outcomes) + differential "
             "correspondence of the extracted model against the real selectors / balancer / swapNode list handling")
LEVEL_TEXT = ("Theorems in Coq, for every cluster, label assignment, policy list, load ranking, ServerIdx, replication factor and "
              "Go map iteration order: ensemble selection refuses or returns rf pairwise-distinct candidates with no two sharing a "
              "value of a label of a Strict rule, and never panics (c19_ensemble_ok, c19_no_panic*); a proposed swap names a cluster "
              "server that is not a member and replaces exactly one member, preserving strict anti-affinity "
              "(c19_swap_one_at_a_time, c19_swap_keeps_anti_affinity); whole rebalance rounds computed from one status snapshot and "
              "any stream of swap actions keep ensembles duplicate-free and of constant size (c19_round, c19_round_any_actions). "
              "The code as found is refuted on three witnesses (first-rule label union, selector panic, duplicate member after a "
              "round) which were replayed on the real code and fixed (fixes/O-19-*.diff, fixes/O-20-*.diff). "
              "The model is tied to the Go code by running the real ensemble/single selectors, nodeBasedBalancer.swapShard / "
              "rebalanceEnsemble and swapNode's metadata step on generated clusters, several runs per case to sample map orders; "
              "every implementation result must be in the model's admissible set; the specification predicates are also evaluated "
              "directly on the implementation's outputs. The shard-creation glue is driven through the real coordinator.NewCoordinator "
              "(initial assignment, start-up on a stored status, ConfigChanged via the config notification channel, restart with a "
              "changed config, balancer swaps that follow): after every step every ensemble of the stored cluster status is judged "
              "(status:* signatures) and every created-or-refused namespace must be in the model's admissible set (kind place). "
              "The balancer as a concurrent system: several rounds composed through the round barrier keep the same per-shard "
              "guarantees (c19_rounds_with_barrier; without the barrier refuted, c19_rounds_without_barrier_refuted); the harness "
              "runs real rebalance rounds against a harness-owned action worker (FIFO, one action at a time through the real "
              "swapNodeInMetadata, one slow swap with the others queued behind it) and judges the stored status after every "
              "application (kind pipe; every application is also a swapnode case for the model). swapNode as a whole (refused / election "
              "failed / swapped) leaves the controller's memory equal to the status (c19_swap_memory_equals_status; an in-memory "
              "roll-back after a failed election is refuted, c19_swap_rollback_refuted); the harness applies balancer swaps through "
              "real shard controllers with a scripted rpc provider whose swap election misses its quorum, then lets further members "
              "leave the cluster, and judges the stored status and its agreement with what the controller stores next (kind elect; "
              "every SwapNode is a swapctl case for the model).")
LEVEL_NOTE = ("Trusted: Coq kernel, extraction (ExtrOcamlBasic), the Go harness and its canonicalisation. Modelled, not verified: "
              "the float load-ratio arithmetic of DefaultShardsRank / balanceHighestNode (the node ranking and the list of (shard, from) "
              "requests of a round are inputs of the model, observed from the real run); gods linkedhashset as an insertion-ordered set "
              "whose Difference/Intersection order is unspecified; election/catch-up after swapNode's metadata step. "
              "The queue between proposal and application (balancer action channel, coordinator action worker) is modelled by its "
              "guarantee only: round_loop computes every proposal of a round from the snapshot and rounds_from composes rounds "
              "through the barrier (next snapshot = metadata left by the previous round); that the real balancer keeps this barrier "
              "is checked by spec verdicts of the pipe leg (status:ensemble-violates-strict-anti-affinity, "
              "swap:two-members-replaced-from-one-snapshot), not by a model of goroutines. "
              "c19_round assumes the live shard metadata equals the status snapshot at the start of the round (c19_round_any_actions "
              "covers stale snapshots for distinctness and size). Not claimed: liveness of the balancer (balanceHighestNode retries a "
              "failing swapShard forever; seen in generated rounds, the harness breaks the loop).")
TRUSTED = ["modelled not verified: float load ratios (ranking and per-round request list are model inputs observed from the implementation)",
           "modelled not verified: gods linkedhashset (insertion-ordered set; map-ordered Difference/Intersection)"]
ASSUMES = ["server identifiers are non-empty strings (the chain treats \"\" as 'no result')",
           "c19_round: live shard metadata = status snapshot at the start of the round"]
RULE = ("clusters of 3-9 servers (ids 1..12, random insertion order), 0-3 labels with 1-4 values, missing labels / missing metadata, "
        "rf 0-5, 0-3 rules of 0-2 labels (Strict/Relaxed/unknown mode), ranking full/partial/empty/nil, ServerIdx small/large/nil status; "
        "swap: existing placements incl. servers removed from the cluster; round: 2-7 live + 0-3 removed servers, 1-10 shards; "
        "pipe: skewed-load clusters (old servers loaded, new empty servers sharing a zone, strict zone namespace + rf-1 namespace) and "
        "round-leg clusters with removed servers, 2-3 rounds, slow swap at position 0 (75%) or 1-2, hold 30 ms; "
        "elect: 5-7 servers in 3-5 zones, 1-3 strict-zone rf-3 shards + rf-1 shards, a member leaves, first swap election fails (85%), "
        "optional probe election, another member leaves, two more rounds, probe; "
        "place: real coordinator on 2-6 servers, 0-2 labels (one value per server / about as many values as servers / 1-3 values), "
        "namespaces with rf <, =, > cluster size and Strict/Relaxed/two-label/two-rule policies, steps I/E/C/R with servers added or "
        "removed and labels changed; "
        "non-trivial = rf>=2 or rules present (ens), all single/swap/swapnode/round/place cases; distinct by full case content")


def _subset(impl, model):
    """impl: the distinct results over the sampled map orders; model: all admissible results."""
    return set(impl.split("|")) <= set(model.split("|"))


LEGS = [
    {"name": "selector", "harness": "selector", "model": "selector", "n_quick": 1500, "n_thorough": 25000,
     "corpus": "corpus/selector", "timeout": 600, "timeout_thorough": 3000, "compare": _subset},
]
REGISTERED = True


