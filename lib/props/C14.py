ID = "C14"
PROPERTY_FILE = "Properties/C14.v"
DESIGN_REF = "DESIGN.md §5.1 (shared DB model), §5 C14, §6 O-12"
TECHNIQUE = ("Coq proof: an inductive invariant of the transcribed DB write path (shadow index = ownership relation, shape of the keys below a "
             "session key) over all histories of requests, session closes, term updates and restarts; exact characterisation of the range "
             "[p/, p//) of CompareWithSlash; a labelled transition system of the session manager (create / heartbeat / tick / close / "
             "two-step cleanup / client writes / leader change) with refutation witnesses by vm_compute; differential correspondence of the "
             "extracted DB model against the real kv.DB on session-heavy request streams, and forced schedules on the real leaderController + "
             "sessionManager (gate on the end of the cleanup's List) with real 60-250 ms timers")
LEVEL_TEXT = ("Theorems in Coq (Properties/C14.v). In every state reachable from an empty DB by any sequence of client requests on user keys "
              "(plain / conditional / session / indexed / sequence puts, deletes, delete-ranges with either strategy, several operations per key in one batch, "
              "failed requests), session creations, ATOMIC session ends, term updates and restarts, ShadowKey(s,k) is stored iff k holds a record "
              "whose session is s (c14_shadow_mirror, c14_invariant_reachable/_preserved); a put naming a session that does not exist is rejected "
              "and changes no record, session or shadow key, in every well-formed state (c14_dead_session_rejected); a successful put makes its "
              "session (or none) the owner, moves the key's single shadow entry and touches no other key (c14_takeover); the cleanup's ListBlock "
              "returns exactly the keys the session owns (c14_cleanup_lists_owned_keys). PARTIAL: when the cleanup's write is applied to a state in "
              "which the session owns the same keys as when they were listed, exactly those records disappear in one request together with the "
              "session key and nothing else changes (c14_cleanup_exact_partial). REFUTED for the code as it is (O-12, session.delete() lists and "
              "deletes in two steps with unconditional deletes): a record not owned by the dying session is deleted "
              "(c14_cleanup_exact_refuted_deleted_not_owned), a record written under the dying session survives it without shadow key "
              "(c14_cleanup_exact_refuted_orphan), and an ephemeral record under the empty key always survives (c14_empty_key_orphan_refuted); all "
              "three are reproduced on the real code on every run and recorded as open findings. Timers, on the model: a session's deadline is the "
              "time of its last arming event (creation, accepted heartbeat, the leader change that re-read it from the DB) plus its timeout, "
              "nothing else moves it, a tick expires a session only at or after that deadline and keeps every other session "
              "(c14_timeout_only_after_full_period, c14_tick_keeps_unexpired); a leader change leaves records, sessions and shadow keys as they "
              "were and arms every session it finds with a full timeout (c14_leader_change_keeps_db); KeyToId inverts SessionKey on every "
              "offset-valued id and, PARTIAL, Initialize finds every session whose key holds decodable metadata "
              "(c14_key_to_id_session_key, c14_leader_init_finds_session_partial); the sessions a new leader holds are read from the DB reached by its WHOLE log, whatever prefix it had applied as a "
              "follower (c14_sessions_after_leader_change), each with the metadata decoded from its own key (c14_leader_init_own_metadata); the end of a session is a single request "
              "(c14_cleanup_write_is_one_request), which the sessions leg checks on the real leader's log.")
LEVEL_NOTE = ("Trusted: Coq kernel, extraction (ExtrOcamlBasic), the Go harnesses (gating kv.Factory wrapper, canonicalisation). Partial where the "
              "property lives in the runtime: real timers and goroutine scheduling are not modelled (time.Timer never fires early is assumed); the "
              "sessions leg checks expiry times against the START of the last arming call with a 0.6 x timeout bound only. SessionMetadata "
              "(de)serialisation and KeyToId are abstracted (Section variables / hex digits without sign). c14_leader_init_finds_session_partial assumes that "
              "Initialize does not fail on another key and that no other listed key parses to the same id (true of DBs written through "
              "createSession, exercised on the real code by the leader-change scenarios, not part of the proved invariant). Sequence puts are inside "
              "c14_request since the repair of O-15 (the generated key is fresh: C16_Gen.generate_key_fresh); ephemeral sequential keys are "
              "generated in their own db14 cases (atomic session ends only) and their verdicts carry the suffix ':sequence-put'. The client's heartbeat cadence "
              "(oxia/sessions.go: max(timeout/10, 2 s)) is not part of the claim.")
TRUSTED = ["modelled not verified: Pebble (ordered map, atomic batches, snapshot iterators), protobuf, time.Timer / channels of the session goroutine",
           "url.PathEscape / %016x transcribed in Coq and compared with the Go functions on generated inputs (db leg of C12)"]
ASSUMES = ["client requests stay on user keys (outside '__oxia/'), session puts name non-empty keys (c14_request)",
           "a time.Timer fires no earlier than its duration after (re)arming"]
RULE = ("db14: one case = a fresh real DB driven through 15-45 steps (session creations, session-heavy requests on a 3-7 key set, atomic and "
        "two-step session ends with 1-3 interleaved requests of other clients, term updates, bulk delete-ranges over 99/100/101/130 keys with "
        "ephemeral records; a third of the cases: sequence puts under sessions with plain / ephemeral records sitting at the prefix keys), every response and dump digest compared with the extracted model, C14 verdicts evaluated on the full dump after "
        "every write; distinct by generator sub-seed; the three refutation witnesses run first. sessions: real leaderController + "
        "sessionManager per scenario (expiry without heartbeats, heartbeats then silence, leader change over the same WAL/DB, writes under "
        "dead sessions, takeovers, and session.delete() parked between its List and its Write on the CloseSession and the expiry path with 5 "
        "kinds of interleaved traffic, sessions owning 0/1/999/1000/1001/1500 records ended by CloseSession and by expiry, and 12 leader changes per run "
        "on a node whose DB lags its log: a real follower controller fed a generated log of creations / ephemeral puts / takeovers / closes "
        "through Replicate with commit offsets -1..n-2, then NewTerm + BecomeLeader with rf 1 and rf 2 (acking in-process follower), checked "
        "against the fold of the whole log: KeepAlive, expiry with records, no resurrection; 6 leader changes per run with four live sessions "
        "of 200 ms / 600 ms / 3 s / 30 s and distinct identities created in varying order, on both leader-change paths: restored metadata per "
        "session (hook VerifSessionInfo), each session expiring by its own timeout, upper bound skipped when a calibration timer shows the "
        "machine late; 4 runs of a second end of a session (duplicate CloseSession / its expiry timer) while the first clean-up entry is in "
        "flight on an rf-2 leader with held follower acks and a third party re-creating the key in between: at most one clean-up entry per "
        "session end, the third party's record stays); every session "
        "end is monitored on the leader's WAL (one log entry deleting all owned records, the session key and the shadow range) and a real new "
        "leader is started from the log prefix ending at each entry of the cleanup (alive => all records, gone => none); distinct by scenario "
        "parameters")
LEGS = [
    {"name": "db14", "harness": "db", "model": "db", "n_quick": 600, "n_thorough": 20000, "args": ["-mode", "c14"],
     "corpus": "corpus/db14", "timeout": 600, "timeout_thorough": 3000},
    {"name": "sessions", "harness": "sessions", "model": None, "n_quick": 16, "n_thorough": 300, "timeout": 300, "timeout_thorough": 3000},
]
REGISTERED = True


