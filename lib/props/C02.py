ID = "C02"
PROPERTY_FILE = "Properties/C02.v"
DESIGN_REF = "DESIGN.md §5 C02 (and §5.0; §6 O-3, O-22)"
REGISTERED = True
TECHNIQUE = ("Coq proof (witness conditions => linearizable, for any sequential object; acknowledged writes never rolled back, from the "
             "World model's invariants) + witness-based history checking on a REAL in-process oxia cluster under seeded fault schedules "
             "(the linearization is read off the WALs), and trace validation of every execution against the extracted protocol model")
LEVEL_TEXT = ("Theorems in Coq: (1) for any sequential object, if the committed log L and the completed operations H satisfy the witness "
              "conditions (every completed write returned the response of its log position; positions respect real time; every read "
              "returned the state after a prefix containing every write completed before it started; reads monotone) then H is linearizable, "
              "and log entries whose client never learned the outcome take effect exactly once at their position; (2) in the World model of "
              "the replication protocol (all executions, no bound on nodes/terms/steps) no acknowledged write is ever missing from a later "
              "leader (same side conditions as C01). (3) The clause 'no read ever returns data that is later rolled back' is REFUTED for the "
              "protocol (figure-8 schedule: an old-term entry is committed by counting copies, served, then overwritten), machine-checked and "
              "REPRODUCED on the real cluster (known finding). On every run the real cluster executes client histories (put, conditional put, "
              "delete, delete-range, get, list, range-scan on current and deposed leaders) under crashes, partitions, elections, swaps and "
              "coordinator restarts; each completed write's response is compared with the sequential specification at its WAL position, each "
              "read must equal the state after a committed prefix of the serving node's log that is recent enough when served by the current "
              "leader and that stays a prefix of every later leader's log; no operation may appear twice in a log.")
LEVEL_NOTE = ("Partial: a node whose applied entries were rolled back by a later leader (figure 8) keeps its database commit offset; when it is elected again BecomeLeader builds the quorum tracker from that offset, beyond its log head, and writes up to that offset are acknowledged with no copy on any follower and can be lost (open finding figure8:database-commit-offset-beyond-log-head, scripted: corpus/cluster/10-stale-commit-offset-after-rollback.case; the loss of such a write is attributed to it); "
              "after a minority disk loss the next leader can serve reads that miss an acknowledged write (C01's open finding "
              "diskloss:acked-write-lost-after-minority-disk-loss, reproduced; the theorems are for executions in which every node keeps its disk); the rolled-back-read clause is false of the protocol as implemented (open finding, figure 8); ensemble changes and the "
              "single truncate round inherit C01's open findings, the snapshot-prefix findings as well. The sequential object used by the run-time "
              "check is the versioned key-value map of server/kv/db.go for single-key puts/conditional puts/deletes/delete-ranges and "
              "get/list/range-scan on plain keys (C12 proves the DB against its full specification); session and sequence operations are not "
              "in the histories. Deposed-leader allowance as in the property text: a read served by a node that is not the latest leader may "
              "return any committed prefix. Client side of 'at most once' (leg client-wsend, theorem c02_write_sent_at_most_once): the statement is about the whole "
              "client write path -- writeBatch's retry loop is the only place that retries, the executor (ExecuteWrite / writeStream) and the stream wrapper add none; the leg "
              "runs the real writeBatch over the REAL executorImpl (verif hook NewVerifExecutor2) over the real streamWrapper over scripted in-memory streams with a real kv.DB "
              "as server. Trusted: Coq kernel, extraction, the Go harness (see C01).")
TRUSTED = ["in-process replacement of gRPC (see C01)", "value ids carried in the put values identify log entries; version ids follow db.go's counter"]
ASSUMES = ["fixed ensemble and consistent_run for the 'acknowledged writes are never rolled back' theorem (see C01)"]
RULE = ("trace: as C01, with longer client histories; non-trivial = at least one acknowledged write and one read checked; distinct by action list; "
        "c02scan: one RangeScan/List/index List/index RangeScan over 500..4000 keys of a real rf=1 leader with atomic multi-key writes awaited inside the stream "
        "callback at records 0/999/1000/1001/N/2/N-1 (the iterator lifetime of a streamed read is outside the model and is covered by this leg); distinct by (kind, N, trigger set)")
LEGS = [
    {"name": "cluster", "harness": "cluster", "model": "cluster", "n_quick": 52, "n_thorough": 4000,
     "corpus": "corpus/cluster", "timeout": 900, "timeout_thorough": 6000, "args": ["-mode", "c02"]},
    # client write path (harness and model owned by C20; theorem c02_write_sent_at_most_once): the real write batch retry
    # loop over the real streamWrapper over scripted in-memory streams (every status code, before / after the request is
    # on the wire); compared with the extracted write_path, verdict write:resent-after-send
    {"name": "client-wsend", "harness": "client", "model": "client", "n_quick": 40, "n_thorough": 1500,
     "corpus": "corpus/client", "args": ["-mode", "wsend"], "timeout": 600, "timeout_thorough": 3000},
    # one read over many records is one atomic observation (harness/cmd/db/c02_scan.go; theorem c02_scan_is_atomic_snapshot):
    # a real rf=1 LeaderController with 500..4000 keys, RangeScan / List / index List / index RangeScan with writes awaited
    # inside the stream callback at records 0, 999, 1000, 1001, N/2, N-1; verdicts scan:not-atomic-snapshot,
    # scan:index-range-scan-not-atomic (open finding), scan:failed
    {"name": "c02scan", "harness": "db", "model": None, "n_quick": 40, "n_thorough": 1500,
     "args": ["-mode", "c02scan"], "timeout": 600, "timeout_thorough": 3000},
]
