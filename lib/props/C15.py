ID = "C15"
PROPERTY_FILE = "Properties/C15.v"
DESIGN_REF = "DESIGN.md §5.1 (shared DB model) and §5 C15; §6 O-14"
TECHNIQUE = ("Coq proof: an inductive invariant over all request histories of the transcribed write path (ProcessWrite with the session + "
             "secondary-index callback chain, both delete-range strategies) stating that the keys under '__oxia/idx/' are exactly the index keys "
             "of the (name, skey, pkey) triples declared by the records that exist; injectivity / parse / order-embedding / convexity lemmas for "
             "the key layout under CompareWithSlash; characterisation of list, range-scan and the five Get comparisons of the transcribed "
             "read side (secondaryIndexGet/doSecondaryGet as repaired for O-14, list and range-scan iterators) against the unique sorted list of "
             "an index's entries; differential correspondence of the extracted model against the real kv.DB + server/secondary_indexes.go, "
             "and an independent Go reference (sorted slice of (skey, pkey) per index) judging every query and the mirror after every write")
LEVEL_TEXT = ("Theorems in Coq (Properties/C15.v): in every state reachable from an empty DB by any history of admissible requests (puts/deletes on user keys "
              "or session keys, i.e. also session creation, close and expiry; overwrites that change or drop indexes; conditional and same-batch "
              "operations; delete-ranges below and above the threshold; term updates, notification switches, restarts), a key "
              "'__oxia/idx/<name>/<skey>\\x01<escaped pkey>' exists iff the record pkey exists and declares (name, skey), and nothing else lives under "
              "'__oxia/idx/' (c15_index_mirror, c15_mirror_preserved); the layout determines (name, skey, pkey) and the read side parses it back "
              "(c15_layout_injective, c15_layout_parse); the sorted reference of an index (by skey under the key order, then escaped pkey) exists and is "
              "unique (c15_reference_exists_unique); List and RangeScan on index n return exactly the primary keys / records of its entries with "
              "start <= skey < end in reference order (c15_list_scan_within_index); Get EQUAL/FLOOR/CEILING/LOWER/HIGHER returns the record the reference "
              "designates, KEY_NOT_FOUND if none, and that record declares the index asked (c15_get_within_index, c15_get_stays_in_index). "
              "O-14 was refuted on the code as it was (c15_get_within_index_old_refuted: CEILING past the last entry of index a returned the record of "
              "index b; also FLOOR before the first entry, HIGHER running off the DB returning a stale entry, FLOOR giving up when SeekGE finds nothing), "
              "confirmed on the real code through the harness and repaired in server/secondary_indexes.go (fixes/O-14-secondary-get-stays-in-index.diff); "
              "the positive theorems are about the repaired code. Index declarations the layout cannot represent (empty index name, '/' in the name, empty secondary key, a byte <= 0x01 in it, "
              "indexes on an empty key) were accepted by the code as found: List returned primary keys that do not exist, the list iterator panicked in the leader, "
              "entries of one index were read as entries of another, EQUAL missed an existing entry (c15_layout_*_refuted, c15_index_mirror_slash_in_name_refuted; all "
              "confirmed on the real code). Repaired by O-45 (leader-side validation refuses them, fixes/O-45-index-declarations-validated.diff); the theorems' "
              "alphabet is now exactly what the validation accepts, so they cover every input that can reach the log (c15_logged_histories_admissible). "
              "A sequence put landing on a live record (orphaned index entries) was confirmed and repaired with C16. Background activity: a trimming round of the "
              "notifications trimmer preserves the invariant and touches no index entry (c15_trim_preserves_index_mirror); the leg runs real rounds between writes "
              "and reads and checks the mirror right after each.")
LEVEL_NOTE = ("Partial: proof about a hand-written model, tied to the code by differential testing on every run. Trusted: Coq kernel, extraction "
              "(ExtrOcamlBasic), the Go harness and its canonicalisation. Modelled, not verified: Pebble as an ordered map with snapshot iterators under "
              "the oxia comparer (C11), protobuf, url.PathEscape and regexp (transcribed; compared on generated inputs). The reads are driven through "
              "secondaryIndexGet / newSecondaryIndexListIterator / newSecondaryIndexRangeScanIterator, the functions leaderController.Read/List/RangeScan "
              "call when SecondaryIndexName is set (the goroutine/stream plumbing around them is not driven). Ties among equal secondary keys are "
              "ordered by the ESCAPED primary key bytewise (what the layout gives), not by the key order on primary keys; FLOOR on an exact match returns "
              "the first entry with that secondary key, LOWER/FLOOR below return the last entry of the greatest smaller secondary key. "
              "The model treats index name, secondary key and primary key as opaque byte strings put together by the layout function; that the Go code builds "
              "exactly these bytes on every path (Sprintf formats, url escaping, bounds of list/range-scan, search key and prefix of get) is covered by this leg: "
              "index names, secondary keys, primary keys and query bounds are drawn from families that collide under any plausible mangling (printf verbs '%', '%%', "
              "'cpu%', 'a%sb'/'ab', '%s', '%[1]s'; url-escape look-alikes; '__oxia', 'idx'; prefixes of each other; 300-byte names; control bytes), several of a family "
              "in one DB, judged by the per-index reference (spec verdicts) and compared with the model. Inputs the server accepts but the layout cannot represent "
              "(name with '/', empty name or secondary key, secondary key with \\x01/\\x00) are generated in 'wild' cases and compared with the model only; what they do on "
              "the code (List returning a primary key that does not exist, a panic of the list iterator on an empty secondary key or index name) is documented by the "
              "_refuted lemmas and counted under c15:wild:*. The leader15 leg drives a real rf=1 LeaderController with representable and "
              "unrepresentable declarations (index:unrepresentable-declaration-accepted / index:representable-declaration-refused, accept/reject compared with "
              "Db/Validate.v) and reads the logged declarations back.")
TRUSTED = ["modelled not verified: Pebble v1.1.2 (ordered map, snapshot iterators, SeekGE/SeekLT/Next/Prev), protobuf/vtprotobuf, "
           "url.PathEscape/PathUnescape and the regexp secondaryIdxFormatRegex (transcribed and compared on generated inputs)"]
ASSUMES = ["the history consists of what can reach the log: client requests accepted by the leader's validation (server/write_validation.go as repaired by O-45: "
           "index name non-empty without '/', secondary key non-empty with every byte > 0x01, no indexes on a record with an empty key; "
           "c15_validation_is_the_alphabet, c15_validated_request_admissible) and the session manager's own requests (c15_logged_histories_admissible); "
           "data written before O-45 may hold declarations outside the alphabet, for which the _refuted lemmas document what happens",
           "keys are byte strings (every element < 256: a typing fact of Go strings the model's byte type does not carry)",
           "QUERY keys and bounds of Get/List/RangeScan have every byte > 0x01 (reads are not validated; a query key with a byte <= 0x01 equals no stored "
           "secondary key, but FLOOR/CEILING/LOWER/HIGHER and range bounds with such bytes are positioned by the byte layout, not by the key order)",
           "(discharged, not assumed: a sequence put generates a key that holds nothing - C16's generate_key_fresh on the repaired db_sequences.go, "
           "c15_admissible_histories_suffice)"]
RULE = ("one case = 12-36 write requests against a fresh real DB on 1-4 indexes of one name family (40%: a, a-, a0, b; 60%: a family of printf-verb / url-escape / "
        "layout-word / prefix / long / control-byte names; 12%: a second family beside it; 5%: 'wild' names and secondary keys, model comparison only), queries on the "
        "whole family incl. unused names: puts declaring 0-4 (name, skey) pairs "
        "(repeated secondary keys, duplicates, '/'-rich and escape-sensitive primary keys), overwrites, conditional puts, same-key batches, deletes, "
        "delete-ranges, bulk ranges of 60/100/101/130 indexed records, sessions with ephemeral indexed records and their closing request, sequence puts "
        "with indexes; 35% of the cases run real rounds of the notifications trimmer (kv.VerifTrimNotifications, mocked clock, cut-offs inside the history) between "
        "writes and index reads, some on disk with close+reopen around a round; 30% of the cases keep the index entries the last keys of the DB (notifications off); after every request 2-6 index queries "
        "(Get x5 / List / RangeScan) with keys at and beyond both edges of the index, on empty and unused indexes too; every response compared with the "
        "model and with the Go reference, the mirror checked on the full dump after every write; distinct by generator sub-seed")
LEGS = [
    {"name": "db15", "harness": "db", "model": "db", "n_quick": 450, "n_thorough": 40000, "args": ["-mode", "c15"],
     "corpus": "corpus/db15", "timeout": 900, "timeout_thorough": 3000},
    {"name": "leader15", "harness": "db", "model": "db", "n_quick": 60, "n_thorough": 3000, "args": ["-mode", "c15leader"],
     "timeout": 900, "timeout_thorough": 3000},
]
REGISTERED = True


