ID = "C05"
PROPERTY_FILE = "Properties/C05.v"
DESIGN_REF = "DESIGN.md §5 C05 (and §5.0; §6 O-7, O-11)"
REGISTERED = True
TECHNIQUE = ("Coq proof (invariants by induction over all traces of an election transition system: coordinator steps, coordinator "
             "crash/restart at any point, node crash/restart, late and duplicated messages) + differential correspondence of the "
             "extracted model against the real shardController driven by a scripted rpc.Provider and gated metadata providers, "
             "and against real Leader/FollowerControllers behind a real ShardsDirector on disk")
LEVEL_TEXT = ("Theorems in Coq, for every trace with no bound on length, servers, terms or offsets: selectNewLeader returns, for any map "
              "iteration order and any random tie-break, a responder with a maximal (term, offset) head and the other responses as followers; "
              "a node's durable and known term never decrease across any request order and crash/restart; under an all-or-nothing metadata "
              "Store every NewTerm/BecomeLeader carries a term already durable, every election started by any coordinator incarnation uses a "
              "term strictly above every term ever sent, and at most one node ever becomes leader in a term; every BecomeLeader of the fixed "
              "code is sent after a majority of ensemble+removed answered NewTerm in that term, to a member of the ensemble being installed whose "
              "head is maximal among the responders of that ensemble. The two defects of the shipped code (O-7 grace-loop filter, O-11 "
              "non-atomic file Store) are refuted in Coq on the old variants, were reproduced on the real code and are fixed in /repo. "
              "The three term theorems are also proved over traces that contain Coordinator.ConfigChanged's compare-and-set on the cluster "
              "status (load, swap refused on a version conflict, recomputed from the fresh status) interleaved anywhere with the election; "
              "the variant whose retry writes the stale status is refuted. "
              "The model is tied to the Go code on every run: election scripts (response order/failure/lateness, 3-5 members, 0-2 removed "
              "nodes, retries, kill points between every Store/RPC, restart from the stored metadata, memory and file providers) are played "
              "against the real controller and the Store/RPC trace is compared with the model's; node request sequences with restarts and "
              "crash images are compared likewise; a real coordinator (coordinator.NewCoordinator) is run with ConfigChanged parked between its "
              "LoadWithVersion and its Swap while an election retry stores and sends the next term, then killed and restarted from the stored "
              "status; the C05 predicates (incl. 'the stored term of a shard never decreases' on the sequence of Store payloads) are also "
              "evaluated directly on what the implementation did.")
LEVEL_NOTE = ("Trusted: Coq kernel, extraction (ExtrOcamlBasic), the Go harnesses and their canonicalisation. Assumed, not proved: Store "
              "eventually succeeds before the controller continues (status_resource swallows the error after ~15 min of retries); the shard's "
              "namespace exists in the status (UpdateShardMetadata returns silently otherwise); ensemble and removed nodes are duplicate-free "
              "and a swap target is neither member nor removed (C19); os rename/fsync behave as documented (fixed file provider); Pebble flush "
              "durability is exercised with crash images that keep everything written to files (no StrictMem: the kv FS hook belongs to C07), "
              "not with lost unsynced writes. Not modelled: the configmap provider (atomic by the API server's resourceVersion CAS), gRPC, "
              "goroutine scheduling inside newTermQuorum other than the order in which answers reach its channel (forced by the harness), "
              "real timer jitter (the 100 ms grace timer is a const; scripts keep answers clear of it). Of Coordinator.ConfigChanged only the "
              "compare-and-set on the status is modelled (ApplyClusterChanges copies existing shard entries: read off the code, exercised by the "
              "cfgrace cases, not proved); node/shard addition and removal, the balancer and swapNode's catch-up wait are not. Liveness is not claimed "
              "(e.g. selectNewLeader panics on an empty response map, reachable only when removed nodes alone form the majority).")
TRUSTED = ["modelled not verified: gRPC transport, Pebble flush (exercised through crash images of the data directory), rename(2)/fsync(2)",
           "response order into newTermQuorum's channel is forced through pprof goroutine labels (falls back to 8 ms spacing if labels disappear)",
           "swapf cases carry no model trace (model line '*'): the model has the transitions (ACoordSwap, ACoordElectionFailed from every failing "
           "step; Example swap_election_fails_after_become_leader) and c05_restart_never_reuses covers the election that follows; the cases are "
           "decided by monitors: become-leader-term-not-increasing, two-leaders-same-term, term-reused-by-a-later-election, "
           "term-issued-before-durable, shard-term-regressed",
           "sfault cases: the process boundary is the crash model (a coordinator that panics/exits during a store outage is a crash event); "
           "they carry no model trace (model line '*'), only the monitors term-issued-before-durable / term-reused-after-restart / "
           "two-leaders-same-term / shard-term-regressed on the RPC and Store log of both processes",
           "ConfigChanged is parked inside ApplyClusterChanges through the slog.Error report of an unplaceable namespace (harness slog handler); "
           "if that report disappears the cfgrace cases are not evaluated (counted), never an alarm"]
ASSUMES = ["the 'best log wins' theorems take the heads REPORTED in the NewTerm answers as inputs; that a node's reported head is its true, "
           "final log head is C04's theorem (c04_newterm_reports_true_head); the composition is checked on real nodes by the quorum cases "
           "of the nodeterm leg (real controllers in scripted states -> NewTerm -> real selectNewLeader -> actual logs read afterwards)",
           "store_atomic: the metadata provider's Store is all-or-nothing (memory, configmap; file provider after the O-11 fix)",
           "store_persists (formerly store_succeeds_before_continue, now the explicit trace hypothesis ~In ACoordStoreGiveUp): the controller "
           "does not carry on before its Store succeeded; failed attempts that are retried (ACoordStoreFail) and crashes during the outage "
           "are inside the proved traces; exercised on the real code by the sfault cases; namespace of the shard present in the cluster status",
           "NoDup(ensemble ++ removed) initially and well-formed swaps (wf_run), for the majority/max-head theorem"]
RULE = ("sel: response maps of 0..7 servers with ties, stale-term-longer-log, empty logs; distinct by content, non-trivial = >=2 responses; "
        "elect: scripts (provider, ensemble 3-5, removed 0-2, heads, per-round arrival order with ok/err and timer position, BecomeLeader outcome, "
        "refence outcomes, 1-3 incarnations with kill points s1pre/s1post/nt0-3/blpre/blpost/s2pre/s2post/end), distinct by script; "
        "fstore: file Store interrupted after k bytes; swapf: SwapNode(3->4) on the real shardController with nodes that follow the server's "
        "NewTerm/BecomeLeader rules, one RPC of the swap's election failing once at each position (NewTerm of a member / the removed / the new "
        "node, BecomeLeader applied-but-unanswered, DeleteShard of the removed node, GetStatus of the catch-up wait, AddFollower), whatever the "
        "controller does next, then a second swap as a barrier; sfault: coordinator in child processes on the real file provider behind a flaky wrapper "
        "(Store calls j..j+k-1 fail, k in 1..6, or the first Gets fail) during an election / a node swap / ConfigChanged, optional kill at "
        "BecomeLeader, then a new coordinator process on the same store with the installed leader unreachable; distinct by parameters; cfgrace: real coordinator, ConfigChanged overlapping an election retry up to a pending "
        "BecomeLeader (bl) or a completed election (full), kill, restart; distinct by (mode, initial term); quorum: three real nodes in scripted states before NewTerm (entries synced/acked, an entry appended with the sync round parked "
        "inside wal.Sync, leader stream attached / broken, restarted, leader with writes), responses fed to the real selectNewLeader, the "
        "model's candidates evaluated on the TRUE heads read from the logs afterwards, distinct by script; node: request sequences (NewTerm/BecomeLeader/Truncate with lower/equal/higher terms, "
        "clean restarts, crash images), distinct by sequence")


def _resp(s):
    return {} if s in ("-", "") else dict(p.split("=", 1) for p in s.split(","))


def _decision(leader, fm, cands, res):
    """the implementation's leader must be one of the model's admissible leaders; followers = responses minus leader"""
    if leader not in cands.split("|"):
        return False
    r = _resp(res)
    if leader not in r:
        return False
    del r[leader]
    return r == _resp(fm)


def compare(impl, model):
    if impl == model or model == "*":                                       # "*": sfault cases are decided by the monitors only
        return True
    it, mt = impl.split(" "), model.split(" ")
    if len(it) == 2 and len(mt) == 2 and it[0] != "I0":                    # sel: "<leader> <followers>" vs "<cands> <responses>"
        return _decision(it[0], it[1], mt[0], mt[1])
    if len(it) == 1 and len(mt) == 1 and "|" in model:                     # fstore: all-or-nothing, "old|new"
        return impl in model.split("|")
    if len(it) != len(mt):
        return False
    for a, b in zip(it, mt):
        if a == b:
            continue
        if a.startswith("BL:") and b.startswith("BL:"):
            x, y = a.split(":", 4), b.split(":", 4)
            if len(x) == 5 and len(y) == 5 and x[1:3] == y[1:3] and _decision(x[3], x[4], y[3], y[4]):
                continue
        return False
    return True


LEGS = [
    {"name": "coord", "harness": "coord", "model": "coord", "n_quick": 240, "n_thorough": 6000,
     "corpus": "corpus/coord", "timeout": 600, "timeout_thorough": 3000, "compare": compare},
    {"name": "nodeterm", "harness": "nodeterm", "model": "coord", "n_quick": 100, "n_thorough": 3000,
     "corpus": "corpus/coord", "timeout": 600, "timeout_thorough": 3000, "compare": compare},
]

