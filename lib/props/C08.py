ID = "C08"
PROPERTY_FILE = "Properties/C08.v"
DESIGN_REF = "DESIGN.md §5 C08 (§6 O-1, O-8)"
REGISTERED = True
TECHNIQUE = ("Coq proof: executable transcription of quorum_ack_tracker.go / util/bitset.go and an LTS of the leader write "
             "pipeline (leader_controller.go:write, WAL sync goroutine, follower acks) whose actions are the Go critical "
             "sections; invariants by induction over all call sequences / all schedules; differential correspondence of "
             "the extracted tracker model against the real tracker; forced schedules (gated WAL / follower streams) on a "
             "real LeaderController with spec predicates evaluated on its observables")
LEVEL_TEXT = ("Theorems in Coq, for every sequence of tracker calls: commit offset monotone, never above head; for every "
              "admissible schedule (a follower never skips an offset; any cross-follower order, duplicates, acks above the "
              "head, attach at any time, close): everything up to commit is acknowledged by rf/2 followers (never exceeds the "
              "true commit offset, any rf) and, for 1<=rf<=17, commit EQUALS the true commit offset in every reachable state. "
              "For every interleaving of concurrent writes, sync-goroutine steps, follower acks and cursor attaches of the "
              "pipeline: no write fails, offsets are distinct and contiguous, the WAL is appended in offset order, effects are "
              "applied in offset order once each, each caller is answered with the result of its own entry, and when the sync "
              "goroutine is idle and rf/2 followers acknowledged the log every write has been applied and answered - and such a "
              "state is reachable from every reachable state by sync steps and follower acks alone (no stuck state). "
              "The code as it was refutes three of these (O-1 wedged leader, O-8 lost early ack and commit regression): "
              "witnesses proved in Coq, reproduced on the real code, both repaired in /repo and the models follow the repaired code. "
              "The tracker model is compared with the real tracker on generated call sequences; a real LeaderController is "
              "driven with 2-16 concurrent writers under forced interleavings and checked against the specification directly.")
LEVEL_NOTE = ("Trusted: Coq kernel, extraction (ExtrOcamlBasic), the Go harness, its gates and canonicalisation. "
              "Modelled, not verified: sync.Mutex / atomics / channels (one critical section = one atomic action), the WAL as "
              "'append checks contiguity, sync goroutine runs callbacks in order' (C09 covers the WAL itself), db.ProcessWrite as an "
              "opaque deterministic apply (C12), follower behaviour as 'acks an entry only after all earlier ones'. "
              "Liveness is 'no reachable stuck state at quiescence', not a time bound. NewTerm/Close during writes, WAL I/O "
              "errors and int64 overflow of offsets are outside this property's model (C04/C09). Exactness needs rf<=17 "
              "(BitSet capacity; rf>17 panics in BitSet.Set, modelled as an explicit outcome and compared).")
TRUSTED = ["modelled not verified: Go mutexes/atomics (critical section = atomic action), WAL internals (C09), db.ProcessWrite (C12), gRPC streams (in-process followers in the harness)"]
ASSUMES = ["a follower acknowledges offset o only after every earlier offset (stream order; re-sent acks allowed)",
           "1 <= rf <= 17 for 'commit equals true commit' (safety half holds for every rf)",
           "single term, no WAL I/O error, no Close during the schedule (pipeline theorems)"]
RULE = ("quorum leg: call sequences of 5..65 ops incl. waiters parked on the head offset (real goroutines in WaitForHeadOffset) and waits with a cancelled context; 40% admissible leader-like histories (rf 1..17, acks in stream order with "
        "duplicates/re-sends/acks above head), 20% dense early-ack histories, 40% arbitrary calls (rf 0..24, head jumps, skipped "
        "acks, calls after Close, >16 cursors); distinct by content, all non-trivial. pipeline leg: per round 23 scenarios on a real "
        "leader (rf 1/2/3, SyncData on/off, 2..16 writers x 6..60 puts; WAL segments of 8-32 KiB with padded values and trimmer rounds in a share of them (roll-*), seven forced kinds (incl. rf 4,5 with one follower acking ahead of the head while the other cursors are parked in WaitForHeadOffset; follower acks processed before the cursor's Send returns with a sequential writer and the follower needed for the quorum, rf 2,3; the real follower cursor over a replication stream that breaks with pushed-but-unacked entries or their acks in flight, rf 2,3,5; and caller context cancelled at every pipeline stage, rf 1..5): writer held between allocation and append, ack before head advance, application of n held in the KV layer while n+1 is acknowledged); distinct by scenario parameters")
LEGS = [
    {"name": "quorum", "harness": "quorum", "model": "quorum", "n_quick": 8000, "n_thorough": 400000,
     "corpus": "corpus/quorum", "timeout": 600, "timeout_thorough": 3000},
    {"name": "pipeline", "harness": "pipeline", "model": None, "n_quick": 9, "n_thorough": 600,
     "timeout": 600, "timeout_thorough": 3000},
]

