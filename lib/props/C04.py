ID = "C04"
PROPERTY_FILE = "Properties/C04.v"
DESIGN_REF = "DESIGN.md §5 C04 (+ §5.0 node model, §6 O-5)"
TECHNIQUE = ("Coq proof by induction over all action schedules of a node model whose actions are the critical sections of "
             "follower_controller.go / leader_controller.go / shards_director.go (invariant + fence theorems), and differential "
             "correspondence of the extracted model against the real controllers driven through forced schedules "
             "(gated WAL Sync, in-process replicate stream)")
LEVEL_TEXT = ("Theorems in Coq over every schedule of NewTerm, Truncate, Replicate open, Append (incl. duplicates, wrong terms), "
              "sync-round begin/end, stream failure, snapshot install, crash+restart (any cut of the unsynced tail), BecomeLeader, "
              "client write and leader sync completion on one node: (1) the head in a NewTerm(T) response is the last entry of the log "
              "including entries that were appended but unsynced, and nothing is unsynced afterwards; (2) from then on the log and the term "
              "do not change along any schedule of actions carrying no term >= T; (3) once the term is >= T every Ack is on a stream of a "
              "term >= T, the log only grows by an Append of a term >= T or a client write of a term >= T, and a client write only "
              "succeeds for an entry of a term >= T. The same statements are refuted (witness schedules) for the model of the pinned code "
              "(O-5 head report, O-5b ack of the in-flight sync round, O-25 snapshot wipe, O-26 stale stream), each witness was replayed on the "
              "real controllers, the repairs are in /verif/fixes. The model is tied to the Go code on every run by executing seeded "
              "schedules on the real ShardsDirector/FollowerController/LeaderController and comparing every RPC result, head, ack, write "
              "result, GetStatus and the final WAL with the extracted model; the fence predicates are also evaluated directly on the "
              "implementation (WAL appends, acks, write completions after a NewTerm answer).")
LEVEL_NOTE = ("Kill images (the node abandoned without closing anything and restarted on a copy of its directories taken right after an answer; for the WAL also the content at the start of the last completed flush) are judged by specification verdicts only (restart:term-regressed-after-kill, restart:acked-entry-missing-after-kill, restart:log-differs-from-synced-prefix and the fence monitors across the kill): the model's crash step keeps the stored term and a cut of the log covering the synced prefix, which is what they enforce. Snapshot install is one critical section in the code (handleSnapshot holds the apply mutex and the controller lock from the first Recv to the end), so it is one model step with an outcome parameter (complete / stream fails before the first chunk / fails later / later chunk of another term); handlers parked at their WAL calls, at the snapshot stream Recv and the apply loop parked in the DB are exercised by the harness (RACE schedules, spec-only scenarios) and judged by the fence monitors. Trusted: Coq kernel, extraction (ExtrOcamlBasic), the Go harness (gating WAL wrapper, stream mock) and its canonicalisation. "
              "Modelled, not verified: the WAL as a list with a synced prefix (C09/C10), the DB as the holder of term and commit offset, "
              "gRPC stream life cycle (a stream's goroutines end at an explicit StreamBreak action), the Go scheduler inside one critical section. "
              "Not modelled: the follower's apply loop (C06/C07; schedules advertise commit offset -1), leader with followers (cursors, quorum: C08), "
              "rf is 1 for BecomeLeader. Leader half: the client-write path is one critical section (offset allocation + WAL append, O-1 repaired by C08); "
              "the harness still forces the NewTerm-vs-in-flight-write interleaving and reports an append landing after the answer.")
TRUSTED = ["modelled not verified: WAL = list + synced prefix (C09/C10), DB = term + commit offset, gRPC stream termination as an explicit action"]
ASSUMES = ["terms/offsets stay below 2^63 (Z in the model)",
           "PARTIAL: the theorems cover schedules whose snapshot installs complete or fail before their first chunk (wf_action); an install that fails later empties the DB directory and, after a restart, the stored term is gone (c04_newterm_after_failed_snapshot_refuted; open known finding newterm:older-term-accepted-after-failed-snapshot-and-restart)",
           "Replicate streams announce their term in the stream metadata (streams without a term, accepted for rollout compatibility, are outside the ack clause)",
           "snapshot chunks carry a term >= -1"]
RULE = ("schedules: 7 built-in (the O-3/O-4/O-5/O-5b/leader/role-change witnesses) + seeded random walks of 25-55 actions biased to NewTerm at every point "
        "(before/after append, between append and sync), duplicates, re-deliveries, stale streams, truncations with ids below/at/above/dead-term, "
        "snapshot installs, restarts with any cut of the unsynced tail, leader writes in flight; non-trivial = more than 3 actions, distinct by the realised action list; "
        "trunc: random leader logs / follower heads for truncateFollowerIfNeeded")
LEGS = [
    {"name": "node-c04", "harness": "node", "model": "node", "n_quick": 50, "n_thorough": 4000, "args": ["-focus", "c04"],
     "corpus": "corpus/node", "timeout": 600, "timeout_thorough": 3000},
]
