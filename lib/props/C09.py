ID = "C09"
PROPERTY_FILE = "Properties/C09.v"
DESIGN_REF = "DESIGN.md §5 C09"
TECHNIQUE = ("Coq proof: invariant + refinement of the segmented WAL model (segments, rollover, cross-segment truncate, "
             "TrimSegments floor logic, recoverWal, readers) to a list specification for all operation sequences, "
             "segment sizes and record sizes; trimmer safety theorem; differential correspondence of the extracted "
             "model against the real server/wal on generated operation sequences; list specification judged directly "
             "on the implementation's observables")
LEVEL_TEXT = ("Theorems in Coq over the model of server/wal (as repaired by fixes/O-2-wal-truncate-cross-segment.diff): "
              "the invariant (contiguity inside and across segments, base(cur)=last(ro)+1, index = running sum of record "
              "sizes, no segment larger than seg_size, first <= last_synced <= last_appended) holds initially and is preserved "
              "by append/append-async/sync/truncate/clear/trim/close+reopen; for EVERY operation sequence, every segment size "
              "< 2^31 and every record-size assignment (records non-empty, each fitting an empty segment) the WAL and a plain "
              "list produce the same result, FirstOffset, LastOffset and the same entries read forwards and backwards after "
              "every operation; the next append is accepted exactly at last+1 (any offset >= 0 on an empty log); a trimmer "
              "round removes only a whole prefix below the new first offset, never passes the commit offset, and (timestamps "
              "non-decreasing) only entries at least `retention` old. The pre-repair code is refuted on a concrete sequence "
              "(O-2). The model is tied to the Go code by running both on generated sequences over segment sizes "
              "64..65536 with record ends and truncation targets on/before/after segment boundaries and comparing every observable.")
LEVEL_NOTE = ("Trusted: Coq kernel, extraction (ExtrOcamlBasic), the Go harness and its canonicalisation. Modelled, not verified: "
              "protobuf (record sizes are inputs taken from proto.Marshal), mmap/msync and the codec (C10), the read-only segment "
              "cache (assumed transparent; exercised by the correspondence runs), the wall clock (injected), goroutine "
              "interleavings of trimmer/sync with the writer (operations are sequential here). The crash-reopen op R of the harness (directory copied "
              "without Close: every appended byte is in the copy, only the index file of the current segment is missing or stale; the run "
              "continues on the copy) is mapped to the model's reopen, so what earlier process lifetimes leave on disk (index files, stale "
              "segments) is checked by correspondence and spec verdicts, not by a theorem. In the Coq model reopen is a clean "
              "Close+open: the model has no crash relation, so the INTERMEDIATE DIRECTORY STATES of the multi-file operations "
              "(rollover, truncate across segments, clear, trim deleting segments, close, index write) are outside the model and the "
              "theorems; they are covered by the leg `walcrash` only (spec verdicts, no proof): the directory is copied at every hook "
              "point reachable without touching logic (CommitOffsetProvider inside newReadWriteSegment; delegating wrappers around the "
              "current segment and the read-only group before/after Close/Delete/Truncate/TrimSegments/PollHighestSegment; empty and "
              "half-written index file after a segment close; between calls), a WAL is opened on each distinct copy and must reopen, be "
              "contiguous and readable both ways, hold every entry synced before the interrupted call that the call does not remove, "
              "hold nothing the list never had, and accept the append at last+1. For the calls that unlink several files (segment Delete, "
              "TrimSegments, Clear) the directory is watched with inotify during the call; the queued events give the exact order of the "
              "unlinks, and the directory after each single unlink (opening copy minus the files unlinked so far) is judged the same way. "
              "Not reached: torn page write-back and partially written records (byte-level crash images are C10), a crash between the "
              "creation and the zero-fill of a new segment file. Entries larger than a segment are outside the proved domain (known finding "
              "oversize-entry:wal-unusable). Reopen may lower FirstOffset to the base of the oldest retained segment: the "
              "specification allows it (entries hidden by a trim but still on disk become visible again; none is altered).")
TRUSTED = ["modelled not verified: protobuf sizes (inputs), codec v2 header size 12 (checked at harness start), mmap, wall clock (injected MockedClock)"]
ASSUMES = ["SegmentSize < 2^31 (int32 option)",
           "every appended entry is a non-empty record that fits an empty segment: 0 < psize, 12 + psize <= SegmentSize",
           "readers are opened at offsets >= -1",
           "expiry clause of c09_trim_safe: timestamps non-decreasing along the log (c09_trim_nonmonotone_refuted shows it is needed)",
           "operations are sequential (one critical section at a time); in the model close is clean (crash points: leg walcrash, spec verdicts only)"]
RULE = ("one case = one operation sequence of 30-65 ops on a fresh WAL: segment size from {64,96,128,256,1024,65536}, record sizes aimed "
        "at ending on / one before / one after the segment end, truncation targets at segment firsts/lasts/first offset/-1/beyond last, "
        "trims with cutoff around entry timestamps and commit offsets around segment boundaries/first/last/-1, reopen anywhere, "
        "process lifetimes chained in one sequence (op r = clean Close+reopen, op R = crash: the directory is copied as it is, no Close, and the run continues on the copy; chains clean restart -> small synced appends / truncate in the same segment -> crash -> first append of the next lifetime forced to roll over), forward/reverse reads every few ops; non-trivial = every generated sequence (all contain rollovers), distinct by full op list")
LEGS = [
    {"name": "wal", "harness": "wal", "model": "wal", "n_quick": 1000, "n_thorough": 150000,
     "corpus": "corpus/wal", "timeout": 900, "timeout_thorough": 3000},
    # crash points inside the multi-step file operations (rollover, cross-segment truncate, clear, trim, close,
    # index write): directory copies taken from hooks inside the calls, a WAL reopened on every distinct copy and
    # judged against the list (spec verdicts only, no model)
    {"name": "walcrash", "harness": "wal", "model": None, "n_quick": 70, "n_thorough": 2500,
     "args": ["-mode", "crash"], "corpus": "corpus/wal", "timeout": 900, "timeout_thorough": 3000},
]
REGISTERED = True
