ID = "C11"
PROPERTY_FILE = "Properties/C11.v"
DESIGN_REF = "DESIGN.md §5 C11"
TECHNIQUE = ("Coq proof (CompareWithSlash = lexicographic order on slash segments, total-order laws, comparer-member contracts, "
             "sorted-map lookup characterisations, kv_pebble.go read wrappers = reference) + differential correspondence of the "
             "extracted model against the Go comparator / comparer members / Pebble's index-separator guard / client result heap, "
             "and against real on-disk Pebble through kv.KV (flush, compaction, reopen)")
LEVEL_TEXT = ("Theorems in Coq, for all byte strings: the Go comparison loop equals the lexicographic order on (is-not-last, segment) "
              "lists, hence cmp a b = Eq <-> a = b, antisymmetry and transitivity; the configured Separator/Successor (and what "
              "Pebble's InternalKey.Separator guard makes of them), AbbreviatedKey and ImmediateSuccessor satisfy the contracts "
              "Pebble documents (the bytewise members configured before the repair of O-9 are proved NOT to). A strictly sorted "
              "association list under this order (the 'sorted reference') stays sorted under every history of put/delete/"
              "delete-range, obeys the get-after-put/delete laws, and get/floor/ceiling/lower/higher/range equal filter+max/min over "
              "the stored entries; the read wrappers of kv_pebble.go over bounded iterators are proved equal to these lookups. "
              "Tied to the code by running both on generated key pairs/triples (alphabet around '/') and on data sets written to a "
              "real on-disk Pebble through kv.KV with interleaved Flush/compaction/reopen: every live key by exact Get, "
              "floor/ceiling/lower/higher/scans at stored keys, between them and at the extremes.")
LEVEL_NOTE = ("Partial: Pebble's LSM itself (memtable, sstable writer/reader, compaction, bloom filters) is not modelled; it is "
              "trusted to be an ordered map given a lawful comparer and is tested differentially by the kvengine leg "
              "(data sets of ~100-650 keys in quick, up to 200 000 keys in thorough, the latter against the in-harness sorted "
              "reference only). Trusted: Coq kernel, extraction (ExtrOcamlBasic), the Go harness and its canonicalisation. "
              "AbbreviatedKey contract is proved for byte values < 256. Two defects were found and repaired in /repo: O-9 "
              "(bytewise Separator/Successor) and O-24 (Get(\"\", LOWER|FLOOR) returned the greatest key). "
              "DB layer (db.List / db.RangeScan / db.Get above kv.KV): no separate Coq model of db.go's iterator wrappers; the "
              "extracted kv_range_scan (c11_range_is_filter, c11_point_lookups_match_reference) is the reference for the "
              "projection of the results on user keys, db.Get comparison types are spec verdicts only. Response batcher: proved for "
              "the model of BatchStreamOnce (flush errors not modelled); a message may exceed the byte budget by less than "
              "its last item (proved; counted as an observation, not a verdict); no end-to-end case through the public RPC "
              "server (no hook for List/RangeScan streams). Returned internal "
              "'__oxia/' keys are ignored and counted (reads do not filter internal keys: recorded observation outside C11).")
TRUSTED = ["modelled not verified: Pebble v1.1.2 as an ordered map with bounded iterators given a lawful comparer "
           "(differentially tested on disk by the kvengine leg)",
           "independent oracle inside the harness: segment order re-implemented from the specification (bytes.Split), "
           "sort.Search over the live keys"]
ASSUMES = ["engine contracts are those documented in pebble@v1.1.2/internal/base/comparer.go",
           "Split is not configured (nil), so ImmediateSuccessor is never called by Pebble"]
RULE = ("keyorder: all ordered pairs of keys of length <= 2 over {. / 0 - a b 00 01 fe ff %} exhaustively, then seeded pairs "
        "(independent, mutated neighbours, shared prefixes of 8..40 bytes), triples for transitivity, heaps of 2..12 keys; "
        "non-trivial = distinct non-empty keys at least one of which has a '/', distinct by the pair. "
        "kvengine: per -n three data sets (350-650 puts with 100-2000 B values; 60-120 puts with 66-70 kB values = one key per "
        "64 KiB block; 40 neighbour pairs around '/' one key per block), each with deletes, range deletes, overwrites, batch "
        "reads, flush/compact/reopen and four read phases; distinct by data set. "
        "dbscan: per -n one kv.DB with 36-75 user keys (flat, '/'-rooted, first segment below / around / above '__oxia') "
        "written by ProcessWrite, 14 fixed + 10 random ranges x List and RangeScan x 3 phases (memtable, flushed, reopened "
        "after overwrites/deletes/range deletes), 20 probes x 5 comparison types; distinct by (phase, live keys, range); every 4th data set is "
        "followed by a scale data set: 300-450 keys under 'A/' and 'users/' (both sides of the internal keys), 8% deleted "
        "one by one, then delete-range requests holding exactly 100 and {1,99} or {101,200} live keys (counted in the "
        "reference; DeleteRangeThreshold = 100), each checked in memory and after a flush, all after reopen. "
        "respbatch: all size sequences of length <= 4 over {0,1,B-1,B,B+1} for B=4, then seeded sequences of 0..24 items for "
        "budgets {1,2,5,10,64,1000,2 MiB}, count limit 0 or 1..5, 10% completed with an error; non-trivial = some item "
        "reaches the budget alone, distinct by the whole input")
LEGS = [
    {"name": "keyorder", "harness": "keyorder", "model": "keyorder", "n_quick": 30000, "n_thorough": 300000,
     "corpus": "corpus/keyorder", "timeout": 600, "timeout_thorough": 3000},
    {"name": "kvengine", "harness": "kvengine", "model": "keyorder", "n_quick": 10, "n_thorough": 300,
     "corpus": "corpus/keyorder", "timeout": 600, "timeout_thorough": 3000},
    # DB layer above kv.KV: real kv.DB (NewDB over on-disk Pebble via kvsafe) with its internal "__oxia/..." keys present,
    # user keys written through ProcessWrite on both sides of the internal region of the slash order; db.List / db.RangeScan
    # over ranges below, above and ACROSS that region and db.Get FLOOR/CEILING/LOWER/HIGHER, in memory / after flush /
    # after reopen; projection on user keys compared with the extracted kv_range_scan and with the in-harness reference;
    # verdicts dbscan:missing-key / dbscan:unexpected-key / dbscan:out-of-order / dbscan:wrong-value / dbget:differs-from-reference
    {"name": "dbscan", "harness": "kvengine", "model": "keyorder", "n_quick": 8, "n_thorough": 400,
     "corpus": "corpus/keyorder", "args": ["-mode", "db"], "timeout": 600, "timeout_thorough": 3000},
    # the server-side response batcher between the engine's sorted iterator and the client (concurrent.BatchStreamOnce:
    # Read / List / RangeScan answers, 2 MiB budget): real NewBatchStreamOnce on item-size sequences around the budget
    # (0, 1, B-1, B, B+1, large runs, large after small, small after large, exactly filling; all sequences of length <= 4
    # for B = 4), count limits, OnComplete(err), double OnComplete; the partition into messages is compared with the
    # extracted batch_stream (c11_response_batches_preserve_order); verdicts respbatch:order-or-content-changed /
    # respbatch:empty-batch / respbatch:complete-not-exactly-once / respbatch:error-not-propagated
    {"name": "respbatch", "harness": "keyorder", "model": "keyorder", "n_quick": 20000, "n_thorough": 2000000,
     "corpus": "corpus/keyorder", "args": ["-mode", "respbatch"], "timeout": 600, "timeout_thorough": 3000},
    # client-side merge of multi-shard range scans (harness and model owned by C20; theorem c11_merge_sorted): sorted
    # per-shard streams over the comparer-stressing alphabet, 2..5 shards, through aggregateAndSortRangeScanAcrossShards
    # directly and through clientImpl.RangeScan; compared with the extracted merge, verdicts scan:merged-out-of-slash-order
    # / scan:merge-lost-or-duplicated
    {"name": "client-merge", "harness": "client", "model": "client", "n_quick": 2000, "n_thorough": 60000,
     "corpus": "corpus/client", "args": ["-mode", "merge"], "timeout": 600, "timeout_thorough": 3000},
    # comparison gets across shards (harness and model owned by C20; theorem c11_multi_shard_get_follows_slash_order): the
    # real doMultiShardGet / selectResponse / compareGetResponse with per-shard answers (primary and secondary-index flavour)
    # from the comparer-stressing keys -- same-depth candidates whose non-final segment is a prefix of the other's followed
    # by a byte below '/' --, floor / lower / ceiling / higher, 2..5 shards, every arrival order for <= 4 shards; compared with
    # the extracted select_response, verdicts mget:not-the-extremum / mget:answered-before-all-shards-replied
    {"name": "client-mget", "harness": "client", "model": "client", "n_quick": 1500, "n_thorough": 60000,
     "corpus": "corpus/client", "args": ["-mode", "mget"], "timeout": 600, "timeout_thorough": 3000},
]
REGISTERED = True
