(* Node side of C05: the term a node knows (controller state and the durable term key) never decreases, over every
   request order and across crash / restart. *)
From Coq Require Import List NArith ZArith Bool Arith Lia.
From Oxia.Coord Require Import Model.
Import ListNotations.
Open Scope Z_scope.

(* the controller's term is the durable one: UpdateTerm (batch + Flush) runs before lc.term / fc.term is assigned and
   before the answer is sent, both inside the controller's critical section *)
Definition node_ok (n : node) : Prop :=
  match n_ctrl n with Some c => ct_term c = n_dterm n | None => True end.

Lemma fresh_ctrl_term k d : ct_term (fresh_ctrl k d) = d.
Proof. reflexivity. Qed.

Ltac node_cases :=
  repeat match goal with
  | |- context [if ?c then _ else _] => destruct c eqn:?
  end.

Lemma node_new_term_ok n t : node_ok n -> node_ok (fst (node_new_term n t)).
Proof.
  unfold node_ok, node_new_term. destruct n as [d up c]; cbn [n_dterm n_up n_ctrl].
  intros H. destruct up; cbn [negb]; [|exact H].
  destruct c as [[[] term st]|]; cbn in *; node_cases; cbn; auto.
Qed.

Lemma node_new_term_mono n t : node_ok n ->
  n_dterm n <= n_dterm (fst (node_new_term n t)) /\ known_term n <= known_term (fst (node_new_term n t)).
Proof.
  unfold node_ok, node_new_term, known_term. destruct n as [d up c]; cbn [n_dterm n_up n_ctrl].
  intros H. destruct up; cbn [negb]; [|cbn; lia].
  destruct c as [[[] term st]|]; cbn in *; node_cases; cbn; try lia;
    repeat match goal with
    | H : (_ <? _) = false |- _ => apply Z.ltb_ge in H
    | H : (_ <? _) = true |- _ => apply Z.ltb_lt in H
    | H : (_ =? _) = true |- _ => apply Z.eqb_eq in H
    end; try lia.
Qed.

(* a successful NewTerm leaves the node fenced in exactly the requested term, durably *)
Lemma node_new_term_fences n t n' :
  node_new_term n t = (n', Ok) ->
  n_dterm n' = t /\ exists k, n_ctrl n' = Some (mkCtrl k t Fenced).
Proof.
  unfold node_new_term. destruct n as [d up c]; cbn [n_dterm n_up n_ctrl].
  destruct up; cbn [negb]; [|discriminate].
  destruct c as [[[] term st]|]; cbn; node_cases; intros H; inversion H; subst; cbn; eauto.
Qed.

(* ... and it is refused when the node already knows a higher term *)
Lemma node_new_term_rejects_lower n t : n_up n = true -> node_ok n -> t < known_term n ->
  snd (node_new_term n t) = InvalidTerm /\ n_dterm (fst (node_new_term n t)) = n_dterm n.
Proof.
  unfold node_ok, node_new_term, known_term. destruct n as [d up c]; cbn [n_dterm n_up n_ctrl].
  intros -> H Hlt. cbn [negb].
  destruct c as [[[] term st]|]; cbn in *;
    repeat match goal with |- context [?a <? ?b] => destruct (Z.ltb_spec a b) end; cbn; auto; try lia.
Qed.

Lemma node_become_leader_ok n t : node_ok n -> node_ok (fst (node_become_leader n t)).
Proof.
  unfold node_ok, node_become_leader. destruct n as [d up c]; cbn [n_dterm n_up n_ctrl].
  intros H. destruct up; cbn [negb]; [|exact H].
  destruct c as [[[] term st]|]; cbn in *; node_cases; cbn; auto;
    repeat match goal with H : negb (_ =? _) = false |- _ => apply negb_false_iff, Z.eqb_eq in H end; try lia.
Qed.

Lemma node_become_leader_term n t :
  n_dterm (fst (node_become_leader n t)) = n_dterm n /\
  (node_ok n -> known_term n <= known_term (fst (node_become_leader n t))).
Proof.
  unfold node_ok, node_become_leader, known_term. destruct n as [d up c]; cbn [n_dterm n_up n_ctrl].
  destruct up; cbn [negb]; [|cbn; split; [reflexivity|lia]].
  destruct c as [[[] term st]|]; cbn in *; node_cases; cbn; split; auto; intros; try lia;
    repeat match goal with H : negb (_ =? _) = false |- _ => apply negb_false_iff, Z.eqb_eq in H end; try lia.
Qed.

(* BecomeLeader succeeds only on a controller that is FENCED in exactly the requested term: a leader controller in
   that state, or one the shards director creates from the durable term (any follower controller is closed first) *)
Lemma node_become_leader_needs_fence n t n' :
  node_ok n -> node_become_leader n t = (n', Ok) ->
  n_dterm n = t /\
  (forall term st, n_ctrl n = Some (mkCtrl CLeaderCtl term st) -> st = Fenced /\ term = t) /\
  n_ctrl n' = Some (mkCtrl CLeaderCtl t Leader).
Proof.
  unfold node_ok, node_become_leader. destruct n as [d up c]; cbn [n_dterm n_up n_ctrl].
  intros Hok. destruct up; cbn [negb]; [|discriminate].
  destruct c as [[[] term st]|]; cbn in *.
  - destruct st; cbn; try discriminate. destruct (Z.eqb_spec t term); cbn; [|discriminate].
    intros H; inversion H; subst. split; [reflexivity|split; [intros ? ? E; inversion E; subst; auto | reflexivity]].
  - destruct (Z.eqb_spec d (-1)); cbn; [discriminate|]. destruct (Z.eqb_spec t d); cbn; [|discriminate].
    intros H; inversion H; subst. split; [reflexivity|split; [intros ? ? E; inversion E | reflexivity]].
  - destruct (Z.eqb_spec d (-1)); cbn; [discriminate|]. destruct (Z.eqb_spec t d); cbn; [|discriminate].
    intros H; inversion H; subst. split; [reflexivity|split; [intros ? ? E; inversion E | reflexivity]].
Qed.

Lemma node_follow_ok n t : node_ok n -> node_ok (fst (node_follow n t)).
Proof.
  unfold node_ok, node_follow. destruct n as [d up c]; cbn [n_dterm n_up n_ctrl].
  intros H. destruct up; cbn [negb]; [|exact H].
  destruct c as [[[] term st]|]; cbn in *; node_cases; cbn; auto;
    repeat match goal with H : negb (_ =? _) = false |- _ => apply negb_false_iff, Z.eqb_eq in H end; try lia.
Qed.

Lemma node_follow_term n t :
  n_dterm (fst (node_follow n t)) = n_dterm n /\
  (node_ok n -> known_term n <= known_term (fst (node_follow n t))).
Proof.
  unfold node_ok, node_follow, known_term. destruct n as [d up c]; cbn [n_dterm n_up n_ctrl].
  destruct up; cbn [negb]; [|cbn; split; [reflexivity|lia]].
  destruct c as [[[] term st]|]; cbn in *; node_cases; cbn; split; auto; intros; try lia;
    repeat match goal with H : negb (_ =? _) = false |- _ => apply negb_false_iff, Z.eqb_eq in H end; try lia.
Qed.

(* Truncate / BecomeLeader never make a node LEADER except the successful BecomeLeader *)
Lemma node_follow_not_leader n t term k :
  n_ctrl (fst (node_follow n t)) = Some (mkCtrl k term Leader) -> n_ctrl n = Some (mkCtrl k term Leader).
Proof.
  unfold node_follow. destruct n as [d up c]; cbn [n_dterm n_up n_ctrl].
  destruct up; cbn [negb]; [|auto].
  destruct c as [[[] tm st]|]; cbn; node_cases; cbn; node_cases; cbn; intros H; inversion H; subst; auto;
    match goal with H : (if ?c then _ else _) = _ |- _ => destruct c; discriminate H end.
Qed.

Lemma node_new_term_not_leader n t term k :
  n_ctrl (fst (node_new_term n t)) = Some (mkCtrl k term Leader) -> n_ctrl n = Some (mkCtrl k term Leader).
Proof.
  unfold node_new_term. destruct n as [d up c]; cbn [n_dterm n_up n_ctrl].
  destruct up; cbn [negb]; [|auto].
  destruct c as [[[] tm st]|]; cbn; node_cases; cbn; node_cases; cbn; intros H; inversion H; subst; auto;
    match goal with H : (if ?c then _ else _) = _ |- _ => destruct c; discriminate H end.
Qed.

Lemma node_become_leader_leader n t term k r n' :
  node_become_leader n t = (n', r) ->
  n_ctrl n' = Some (mkCtrl k term Leader) ->
  (r = Ok /\ term = t) \/ (r <> Ok /\ n_ctrl n = Some (mkCtrl k term Leader)).
Proof.
  unfold node_become_leader. destruct n as [d up c]; cbn [n_dterm n_up n_ctrl].
  destruct up; cbn [negb].
  2:{ intros H; inversion H; subst; cbn. intros E. right. split; [discriminate|exact E]. }
  destruct c as [[[] tm st]|]; cbn; node_cases; cbn; node_cases; cbn; intros H; inversion H; subst; cbn; intros E; inversion E; subst;
    try (match goal with H : (if ?c then _ else _) = _ |- _ => destruct c; discriminate H end);
    try (left; split; reflexivity); try (right; split; [discriminate|reflexivity]).
Qed.

Lemma node_crash_restart n :
  node_ok (node_crash n) /\ node_ok (node_restart n) /\
  n_dterm (node_crash n) = n_dterm n /\ n_dterm (node_restart n) = n_dterm n.
Proof. unfold node_ok; cbn; auto. Qed.

(* known_term across a crash: the volatile term is never ahead of the durable one *)
Lemma known_term_crash n : node_ok n -> known_term (node_crash n) = known_term n /\ known_term (node_restart n) = known_term n.
Proof. unfold node_ok, known_term; destruct n as [d up [c|]]; cbn; intros; subst; auto. Qed.

(* ------------------------------------------------------------------ *)
(* the sequential driver used by the nodeterm correspondence leg        *)

Lemma node_step_ok n o : node_ok n -> node_ok (fst (node_step n o)).
Proof.
  destruct o; cbn [node_step].
  - apply node_new_term_ok.
  - apply node_become_leader_ok.
  - apply node_follow_ok.
  - intros _. cbn. exact I.
Qed.

Lemma node_step_mono n o : node_ok n ->
  n_dterm n <= n_dterm (fst (node_step n o)) /\ known_term n <= known_term (fst (node_step n o)).
Proof.
  intros H. destruct o; cbn [node_step].
  - apply node_new_term_mono; exact H.
  - destruct (node_become_leader_term n t) as [E L]. rewrite E. split; [lia | auto].
  - destruct (node_follow_term n t) as [E L]. rewrite E. split; [lia | auto].
  - cbn [fst]. destruct (known_term_crash n H) as [_ E].
    unfold node_restart, node_crash, known_term in *; cbn in *. split; [lia|].
    destruct (n_ctrl n); cbn in *; unfold node_ok in H; cbn in *; lia.
Qed.

Fixpoint node_states (n : node) (ops : list nodeop) : list node :=
  match ops with [] => [] | o :: tl => fst (node_step n o) :: node_states (fst (node_step n o)) tl end.

(* over any sequence of NewTerm / BecomeLeader / Truncate requests and restarts the durable and the known term are
   non-decreasing from one state to the next *)
Theorem node_term_monotone_seq n ops :
  node_ok n ->
  forall i a b, nth_error (n :: node_states n ops) i = Some a -> nth_error (n :: node_states n ops) (S i) = Some b ->
  n_dterm a <= n_dterm b /\ known_term a <= known_term b.
Proof.
  revert n. induction ops as [|o tl IH]; intros n Hok i a b Ha Hb.
  - destruct i; cbn in Hb; [discriminate | destruct i; discriminate].
  - cbn [node_states] in *. destruct i.
    + cbn in Ha, Hb. inversion Ha; inversion Hb; subst. apply node_step_mono; exact Hok.
    + cbn [nth_error] in Ha, Hb. eapply (IH (fst (node_step n o))); eauto. apply node_step_ok; exact Hok.
Qed.
