(* Model of the election path of the oxia coordinator and of node-side term persistence (property C05).

   Transcribed from
     coordinator/controllers/shard_controller.go   electLeader, newTermQuorum, selectNewLeader, becomeLeader,
                                                   keepFencingFailedFollowers / internalNewTermAndAddFollower, swapNode, run
     coordinator/resources/status_resource.go      UpdateShardMetadata (synchronous Store of the whole status)
     coordinator/metadata/metadata_{memory,file,configmap}.go   Store / Get
     server/internal_rpc_server.go + shards_director.go          dispatch of NewTerm / BecomeLeader / Truncate to controllers
     server/leader_controller.go, follower_controller.go         NewTerm, BecomeLeader, Truncate (term and status checks)
     server/kv/db.go                                             UpdateTerm (batch + Flush before the answer), ReadTerm

   Definitions only; the proofs are in Proofs.v.  Everything is total and computable: Go panics are explicit [None]
   results (selectNewLeader on an empty candidate list calls rand.Intn(0)).

   The two places where the shipped code was found to violate C05 are kept as switches of the model so that the
   old behaviour stays refutable:
     [v_grace_filter = false]  newTermQuorum's grace loop adds late responders without the listContains(ensemble) guard (O-7)
     action [ACoordStoreTruncate]  the file provider's os.WriteFile truncates the status file before writing it (O-11)
   The fixed tree is [fixed] (guard in both loops) and never takes [ACoordStoreTruncate] (temp file + fsync + rename). *)
From Coq Require Import List NArith ZArith Bool Arith.
Import ListNotations.
Open Scope Z_scope.

Definition server := N.

(* proto.EntryId: head of a node's log *)
Record eid := mkEid { e_term : Z; e_off : Z }.

Definition eid_le (a b : eid) : Prop :=
  e_term a < e_term b \/ (e_term a = e_term b /\ e_off a <= e_off b).
Definition eid_leb (a b : eid) : bool :=
  (e_term a <? e_term b) || ((e_term a =? e_term b) && (e_off a <=? e_off b)).

(* listContains(list, sa): identifiers are compared *)
Definition list_contains (l : list server) (s : server) : bool := existsb (N.eqb s) l.

(* ------------------------------------------------------------------------------------------------ *)
(* (a) selectNewLeader                                                                               *)
(* The Go map is given as an association list in the order the [range] statement happens to visit it. *)

Record sel := mkSel { s_mt : Z; s_mo : Z; s_c : list server }.
Definition sel_init : sel := mkSel (-1) (-1) [].

(* body of the first loop *)
Definition sel_step (st : sel) (r : server * eid) : sel :=
  let a := fst r in let h := snd r in
  if e_term h >? s_mt st then mkSel (e_term h) (e_off h) [a]
  else if e_term h =? s_mt st then
    if e_off h >? s_mo st then mkSel (s_mt st) (e_off h) [a]
    else if e_off h =? s_mo st then mkSel (s_mt st) (s_mo st) (s_c st ++ [a])
    else st
  else st.

(* the candidate list after the loop = the set of admissible leaders *)
Definition candidates (resp : list (server * eid)) : list server := s_c (fold_left sel_step resp sel_init).

(* second loop: followers = every response whose key differs from the leader *)
Definition followers_of (l : server) (resp : list (server * eid)) : list (server * eid) :=
  filter (fun r => negb (N.eqb (fst r) l)) resp.

(* [k] is the value of rand.Intn(len(candidates)); [None] = the Go panic of rand.Intn(0) *)
Definition select_new_leader (resp : list (server * eid)) (k : nat) : option (server * list (server * eid)) :=
  match candidates resp with
  | [] => None
  | c :: cs => let l := nth (k mod length (c :: cs)) (c :: cs) c in Some (l, followers_of l resp)
  end.

(* ------------------------------------------------------------------------------------------------ *)
(* (b) newTermQuorum                                                                                  *)

Inductive outcome := ROk (h : eid) | RErr.
(* what the two loops see, in order: a value taken from the channel, or the grace timer firing *)
Inductive arrival := Arrive (s : server) (o : outcome) | Timer.

Inductive qphase := QWaitMajority | QGrace | QDone | QFailed.

(* res[s] = h on a Go map *)
Fixpoint map_put (s : server) (h : eid) (m : list (server * eid)) : list (server * eid) :=
  match m with
  | [] => [(s, h)]
  | (s', h') :: tl => if N.eqb s' s then (s, h) :: tl else (s', h') :: map_put s h tl
  end.

Record qstate := mkQ {
  q_phase : qphase;
  q_succ : nat;                    (* successResponses *)
  q_total : nat;                   (* totalResponses *)
  q_res : list (server * eid);     (* res *)
  q_err : bool;                    (* err != nil *)
  q_oks : list (server * eid);     (* ghost: every successful response taken from the channel *)
  q_from : list server             (* ghost: every server whose response was taken from the channel *)
}.

Definition q_init : qstate := mkQ QWaitMajority 0 0 [] false [] [].

Definition majority_of (size : nat) : nat := (size / 2 + 1)%nat.

Definition set_phase (q : qstate) (p : qphase) : qstate :=
  mkQ p (q_succ q) (q_total q) (q_res q) (q_err q) (q_oks q) (q_from q).

(* evaluate the loop conditions that need no further input *)
Definition q_settle (size : nat) (q : qstate) : qstate :=
  let maj := majority_of size in
  match q_phase q with
  | QWaitMajority =>
      if (q_succ q <? maj)%nat && (q_total q <? size)%nat then q
      else if (q_succ q <? maj)%nat then set_phase q QFailed
      else if negb (q_err q) && (q_total q <? size)%nat then set_phase q QGrace
      else set_phase q QDone
  | QGrace => if negb (q_err q) && (q_total q <? size)%nat then q else set_phase q QDone
  | _ => q
  end.

(* one value from the channel; [filter] says whether the listContains(ensemble) guard applies in this loop *)
Definition q_take (ens : list server) (filter : bool) (q : qstate) (s : server) (o : outcome) : qstate :=
  match o with
  | ROk h =>
      mkQ (q_phase q)
          (match q_phase q with QWaitMajority => S (q_succ q) | _ => q_succ q end)
          (S (q_total q))
          (if negb filter || list_contains ens s then map_put s h (q_res q) else q_res q)
          (q_err q) (q_oks q ++ [(s, h)]) (q_from q ++ [s])
  | RErr => mkQ (q_phase q) (q_succ q) (S (q_total q)) (q_res q) true (q_oks q) (q_from q ++ [s])
  end.

(* [gf] = the grace loop has the ensemble guard (fixed code: true; shipped code: false) *)
Definition q_recv (gf : bool) (ens : list server) (size : nat) (q : qstate) (a : arrival) : qstate :=
  match q_phase q, a with
  | QWaitMajority, Arrive s o => q_settle size (q_take ens true q s o)
  | QWaitMajority, Timer => q                       (* no timer in the first loop: it keeps blocking *)
  | QGrace, Arrive s o => q_settle size (q_take ens gf q s o)
  | QGrace, Timer => set_phase q QDone              (* case <-time.After(quorumFencingGracePeriod) *)
  | _, _ => q
  end.

Inductive qresult := QOk (res : list (server * eid)) | QFail | QBlocked.

Definition q_result (q : qstate) : qresult :=
  match q_phase q with
  | QDone => QOk (q_res q)
  | QFailed => QFail
  | QWaitMajority => QBlocked        (* still waiting on the channel *)
  | QGrace => QOk (q_res q)          (* nothing more arrives: the timer fires *)
  end.

Definition q_start (size : nat) : qstate := q_settle size q_init.

Definition new_term_quorum_state (gf : bool) (ens rem : list server) (arr : list arrival) : qstate :=
  let size := length (ens ++ rem) in
  fold_left (q_recv gf ens size) arr (q_start size).

Definition new_term_quorum (gf : bool) (ens rem : list server) (arr : list arrival) : qresult :=
  q_result (new_term_quorum_state gf ens rem arr).

(* ------------------------------------------------------------------------------------------------ *)
(* (d) node side                                                                                      *)

Inductive nstatus := NotMember | Fenced | Follower | Leader.
Inductive ctrlkind := CLeaderCtl | CFollowerCtl.
Record ctrl := mkCtrl { ct_kind : ctrlkind; ct_term : Z; ct_status : nstatus }.

(* n_dterm: the term key in the shard DB, written by UpdateTerm (batch + Flush) — durable;
   n_up / n_ctrl: the process and the controller the shards director currently holds — volatile *)
Record node := mkNode { n_dterm : Z; n_up : bool; n_ctrl : option ctrl }.

Inductive rpcres := Ok | InvalidTerm | InvalidStatus | Unavailable.

Definition nstatus_eqb (a b : nstatus) : bool :=
  match a, b with
  | NotMember, NotMember | Fenced, Fenced | Follower, Follower | Leader, Leader => true
  | _, _ => false
  end.

(* NewLeaderController / NewFollowerController: term from ReadTerm, FENCED unless the term is InvalidTerm *)
Definition fresh_ctrl (k : ctrlkind) (dterm : Z) : ctrl :=
  mkCtrl k dterm (if dterm =? -1 then NotMember else Fenced).

(* internalRpcServer.NewTerm: an existing follower controller handles it, otherwise GetOrCreateLeader *)
Definition node_new_term (n : node) (t : Z) : node * rpcres :=
  if negb (n_up n) then (n, Unavailable) else
  match n_ctrl n with
  | Some (mkCtrl CFollowerCtl term st) =>
      if t <? term then (n, InvalidTerm)
      else (mkNode t true (Some (mkCtrl CFollowerCtl t Fenced)), Ok)
  | other =>
      let c := match other with Some c => c | None => fresh_ctrl CLeaderCtl (n_dterm n) end in
      if t <? ct_term c then (mkNode (n_dterm n) true (Some c), InvalidTerm)
      else if (t =? ct_term c) && negb (nstatus_eqb (ct_status c) Fenced)
           then (mkNode (n_dterm n) true (Some c), InvalidStatus)
      else (mkNode t true (Some (mkCtrl CLeaderCtl t Fenced)), Ok)
  end.

(* internalRpcServer.BecomeLeader: GetOrCreateLeader (an existing follower controller is closed and a leader
   controller is created from the durable state), then leaderController.BecomeLeader *)
Definition node_become_leader (n : node) (t : Z) : node * rpcres :=
  if negb (n_up n) then (n, Unavailable) else
  let c := match n_ctrl n with
           | Some (mkCtrl CLeaderCtl term st) => mkCtrl CLeaderCtl term st
           | _ => fresh_ctrl CLeaderCtl (n_dterm n)
           end in
  if negb (nstatus_eqb (ct_status c) Fenced) then (mkNode (n_dterm n) true (Some c), InvalidStatus)
  else if negb (t =? ct_term c) then (mkNode (n_dterm n) true (Some c), InvalidTerm)
  else (mkNode (n_dterm n) true (Some (mkCtrl CLeaderCtl t Leader)), Ok).

(* internalRpcServer.Truncate: GetOrCreateFollower(term) (a late request cannot convert a leader of another
   term), then followerController.Truncate (FENCED and same term -> FOLLOWER) *)
Definition node_follow (n : node) (t : Z) : node * rpcres :=
  if negb (n_up n) then (n, Unavailable) else
  match n_ctrl n with
  | Some (mkCtrl CLeaderCtl term st) =>
      if (t >=? 0) && negb (t =? term) then (n, InvalidTerm)
      else
        let c := fresh_ctrl CFollowerCtl (n_dterm n) in
        if negb (nstatus_eqb (ct_status c) Fenced) then (mkNode (n_dterm n) true (Some c), InvalidStatus)
        else if negb (t =? ct_term c) then (mkNode (n_dterm n) true (Some c), InvalidTerm)
        else (mkNode (n_dterm n) true (Some (mkCtrl CFollowerCtl t Follower)), Ok)
  | other =>
      let c := match other with Some c => c | None => fresh_ctrl CFollowerCtl (n_dterm n) end in
      if negb (nstatus_eqb (ct_status c) Fenced) then (mkNode (n_dterm n) true (Some c), InvalidStatus)
      else if negb (t =? ct_term c) then (mkNode (n_dterm n) true (Some c), InvalidTerm)
      else (mkNode (n_dterm n) true (Some (mkCtrl CFollowerCtl t Follower)), Ok)
  end.

Definition node_crash (n : node) : node := mkNode (n_dterm n) false None.
Definition node_restart (n : node) : node := mkNode (n_dterm n) true None.

(* the term a node knows: its controller's, else what it will read back from the DB *)
Definition known_term (n : node) : Z :=
  match n_ctrl n with Some c => ct_term c | None => n_dterm n end.

(* GetStatus: (status, term) or nothing when no controller serves the shard *)
Definition node_status (n : node) : option (nstatus * Z) :=
  if negb (n_up n) then None else
  match n_ctrl n with Some c => Some (ct_status c, ct_term c) | None => None end.

(* sequential driver of one node, for the nodeterm correspondence leg *)
Inductive nodeop := NONewTerm (t : Z) | NOBecomeLeader (t : Z) | NOFollow (t : Z) | NORestart.

Definition node_step (n : node) (o : nodeop) : node * rpcres :=
  match o with
  | NONewTerm t => node_new_term n t
  | NOBecomeLeader t => node_become_leader n t
  | NOFollow t => node_follow n t
  | NORestart => (node_restart (node_crash n), Ok)
  end.

Fixpoint node_run (n : node) (ops : list nodeop) : list (rpcres * Z * option (nstatus * Z)) :=
  match ops with
  | [] => []
  | o :: tl => let '(n', r) := node_step n o in (r, n_dterm n', node_status n') :: node_run n' tl
  end.

Definition node_init : node := mkNode (-1) true None.

(* ------------------------------------------------------------------------------------------------ *)
(* (c) the election as a labelled transition system                                                   *)

Inductive cstatus := SUnknown | SSteady | SElection | SDeleting.

(* model.ShardMetadata, the part the election reads and writes *)
Record cell := mkCell {
  c_term : Z; c_ens : list server; c_rem : list server; c_leader : option server; c_status : cstatus }.

(* content of the metadata store as Get() reports it: a status, or "not exists" (also an empty file) *)
Inductive durable := DCell (c : cell) | DEmpty.

Inductive phase :=
| PIdle                                                     (* run loop; no election in progress *)
| PStore1                                                   (* electLeader: term++ done in memory, first Store running *)
| PFencing (q : qstate) (waiting : list server)             (* newTermQuorum; goroutines still to report *)
| PDecided (q : qstate) (l : server) (fm : list (server * eid))  (* selectNewLeader done *)
| PBecomeSent (l : server) (fm : list (server * eid))       (* BecomeLeader RPC outstanding *)
| PBecomeAcked (l : server) (fm : list (server * eid)).     (* BecomeLeader ok; second Store running *)

Record coord := mkCoord { k_md : cell; k_phase : phase }.

Inductive msg :=
| MNewTerm (inc : nat) (n : server) (t : Z)
| MNewTermResp (inc : nat) (n : server) (t : Z) (h : eid)
| MBecomeLeader (inc : nat) (n : server) (t : Z) (fm : list (server * eid))
| MBecomeLeaderResp (inc : nat) (n : server) (t : Z) (ok : bool).

(* what was true when a BecomeLeader was sent (ghost) *)
Record blrec := mkBl {
  b_leader : server; b_term : Z; b_ens : list server; b_rem : list server;
  b_oks : list (server * eid);      (* successful responses the coordinator had taken *)
  b_succ : nat                      (* successResponses when the first loop ended *)
}.

Record world := mkWorld {
  w_dur : durable;
  w_coord : option coord;           (* None = coordinator process down *)
  w_inc : nat;                      (* incarnation of the coordinator process *)
  w_nodes : server -> node;
  w_msgs : list msg;                (* every message ever sent; delivery does not consume (duplication, lateness) *)
  (* ghost history *)
  w_wasleader : list (server * Z);
  w_answered : list (server * Z * eid);
  w_bl : list blrec
}.

Inductive action :=
| ACoordStartElection
| ACoordSwap (from to : server)
| ACoordStore                       (* the provider's Store takes effect (atomic providers; rename of the fixed file provider) *)
| ACoordStoreTruncate               (* shipped file provider only: os.WriteFile has truncated, nothing written yet *)
| ACoordStoreFail                   (* the provider's Store returned an error: nothing written, status_resource retries (backoff) *)
| ACoordStoreGiveUp                 (* NOT in the code as it is: the retry loop ends without a successful Store and the caller carries on
                                       (UpdateShardMetadata has no error result).  The shipped loop only ends after ~15 min of retries. *)
| ACoordSendNewTerm (n : server)
| ACoordRecvNewTermResp (n : server) (o : outcome)
| ACoordGraceTimeout
| ACoordElectionFailed              (* newTermQuorum / deletingRemovedNodes returned an error: electLeader returns *)
| ACoordDecide (k : nat)
| ACoordSendBecomeLeader
| ACoordRecvBecomeLeaderResp (ok : bool)
| ACoordRefence (n : server)        (* keepFencingFailedFollowers -> internalNewTermAndAddFollower: NewTerm in the current term *)
| ACoordCrash
| ACoordRestart (ens0 : list server)
| ANodeNewTerm (inc : nat) (n : server) (t : Z) (h : eid)
| ANodeBecomeLeader (inc : nat) (n : server) (t : Z) (fm : list (server * eid))
| ANodeFollow (n : server) (t : Z)
| ANodeCrash (n : server)
| ANodeRestart (n : server).

Record variant := mkVar { v_grace_filter : bool }.
Definition fixed : variant := mkVar true.
Definition shipped : variant := mkVar false.

(* decidable equality of messages: "this message is in the network" is [in_dec] *)
Definition eid_eq_dec : forall a b : eid, {a = b} + {a <> b}.
Proof. decide equality; apply Z.eq_dec. Defined.
Definition resp_eq_dec : forall a b : list (server * eid), {a = b} + {a <> b}.
Proof. apply list_eq_dec. decide equality; [apply eid_eq_dec | apply N.eq_dec]. Defined.
Definition msg_eq_dec : forall a b : msg, {a = b} + {a <> b}.
Proof.
  decide equality; try apply Z.eq_dec; try apply N.eq_dec; try apply Nat.eq_dec;
    try apply eid_eq_dec; try apply resp_eq_dec; try apply Bool.bool_dec.
Defined.
Definition has_msg (m : msg) (l : list msg) : bool := if in_dec msg_eq_dec m l then true else false.

Fixpoint remove1 (s : server) (l : list server) : list server :=
  match l with [] => [] | x :: tl => if N.eqb x s then tl else x :: remove1 s tl end.

(* replaceInList *)
Definition replace_in_list (l : list server) (old new : server) : list server :=
  filter (fun x => negb (N.eqb x old)) l ++ [new].

Definition upd_node (f : server -> node) (s : server) (n : node) : server -> node :=
  fun x => if N.eqb x s then n else f x.

Definition set_coord (w : world) (k : option coord) : world :=
  mkWorld (w_dur w) k (w_inc w) (w_nodes w) (w_msgs w) (w_wasleader w) (w_answered w) (w_bl w).
Definition set_dur_coord (w : world) (d : durable) (k : option coord) : world :=
  mkWorld d k (w_inc w) (w_nodes w) (w_msgs w) (w_wasleader w) (w_answered w) (w_bl w).
Definition add_msg (w : world) (m : msg) : world :=
  mkWorld (w_dur w) (w_coord w) (w_inc w) (w_nodes w) (w_msgs w ++ [m]) (w_wasleader w) (w_answered w) (w_bl w).

(* electLeader, first lines: Status = Election; Leader = nil; Term++ *)
Definition start_md (c : cell) : cell := mkCell (c_term c + 1) (c_ens c) (c_rem c) None SElection.
(* electLeader, after becomeLeader: SteadyState, the leader, RemovedNodes = nil *)
Definition elected_md (c : cell) (l : server) : cell := mkCell (c_term c) (c_ens c) [] (Some l) SSteady.
(* what a coordinator that finds no status creates for the shard (ApplyClusterChanges) *)
Definition initial_md (ens0 : list server) : cell := mkCell (-1) ens0 [] None SUnknown.

Definition step (v : variant) (w : world) (a : action) : option world :=
  match a with
  | ACoordStartElection =>
      match w_coord w with
      | Some (mkCoord md PIdle) => Some (set_coord w (Some (mkCoord (start_md md) PStore1)))
      | _ => None
      end
  | ACoordSwap from to =>
      match w_coord w with
      | Some (mkCoord md PIdle) =>
          let md' := mkCell (c_term md) (replace_in_list (c_ens md) from to) (c_rem md ++ [from])
                            (c_leader md) (c_status md) in
          Some (set_coord w (Some (mkCoord (start_md md') PStore1)))
      | _ => None
      end
  | ACoordStore =>
      match w_coord w with
      | Some (mkCoord md PStore1) =>
          Some (set_dur_coord w (DCell md)
                  (Some (mkCoord md (PFencing (q_start (length (c_ens md ++ c_rem md))) (c_ens md ++ c_rem md)))))
      | Some (mkCoord md (PBecomeAcked l fm)) =>
          let md' := elected_md md l in
          Some (set_dur_coord w (DCell md') (Some (mkCoord md' PIdle)))
      | _ => None
      end
  | ACoordStoreFail =>
      match w_coord w with
      | Some (mkCoord md PStore1) => Some w
      | Some (mkCoord md (PBecomeAcked l fm)) => Some w
      | _ => None
      end
  | ACoordStoreGiveUp =>
      match w_coord w with
      | Some (mkCoord md PStore1) =>
          Some (set_coord w (Some (mkCoord md (PFencing (q_start (length (c_ens md ++ c_rem md))) (c_ens md ++ c_rem md)))))
      | Some (mkCoord md (PBecomeAcked l fm)) =>
          Some (set_coord w (Some (mkCoord (elected_md md l) PIdle)))
      | _ => None
      end
  | ACoordStoreTruncate =>
      match w_coord w with
      | Some (mkCoord md PStore1) => Some (set_dur_coord w DEmpty (w_coord w))
      | Some (mkCoord md (PBecomeAcked l fm)) => Some (set_dur_coord w DEmpty (w_coord w))
      | _ => None
      end
  | ACoordSendNewTerm n =>
      match w_coord w with
      | Some (mkCoord md (PFencing q waiting)) =>
          if list_contains waiting n then Some (add_msg w (MNewTerm (w_inc w) n (c_term md))) else None
      | _ => None
      end
  | ACoordRecvNewTermResp n o =>
      match w_coord w with
      | Some (mkCoord md (PFencing q waiting)) =>
          let delivered := match o with
                           | ROk h => has_msg (MNewTermResp (w_inc w) n (c_term md) h) (w_msgs w)
                           | RErr => true       (* rpc error, timeout, node rejection *)
                           end in
          let loop_running := match q_phase q with QWaitMajority | QGrace => true | _ => false end in
          if list_contains waiting n && delivered && loop_running then
            let q' := q_recv (v_grace_filter v) (c_ens md) (length (c_ens md ++ c_rem md)) q (Arrive n o) in
            Some (set_coord w (Some (mkCoord md (PFencing q' (remove1 n waiting)))))
          else None
      | _ => None
      end
  | ACoordGraceTimeout =>
      match w_coord w with
      | Some (mkCoord md (PFencing q waiting)) =>
          match q_phase q with
          | QGrace =>
              let q' := q_recv (v_grace_filter v) (c_ens md) (length (c_ens md ++ c_rem md)) q Timer in
              Some (set_coord w (Some (mkCoord md (PFencing q' waiting))))
          | _ => None
          end
      | _ => None
      end
  | ACoordElectionFailed =>
      match w_coord w with
      | Some (mkCoord md (PFencing q waiting)) =>
          match q_phase q with
          | QFailed => Some (set_coord w (Some (mkCoord md PIdle)))
          | _ => None
          end
      | Some (mkCoord md (PBecomeAcked l fm)) =>
          (* deletingRemovedNodes failed after BecomeLeader succeeded: electLeader returns the error, nothing is stored *)
          Some (set_coord w (Some (mkCoord md PIdle)))
      | _ => None
      end
  | ACoordDecide k =>
      match w_coord w with
      | Some (mkCoord md (PFencing q waiting)) =>
          match q_phase q with
          | QDone =>
              match select_new_leader (q_res q) k with
              | Some (l, fm) => Some (set_coord w (Some (mkCoord md (PDecided q l fm))))
              | None => None      (* Go panic in selectNewLeader: the coordinator process dies; see ACoordCrash *)
              end
          | _ => None
          end
      | _ => None
      end
  | ACoordSendBecomeLeader =>
      match w_coord w with
      | Some (mkCoord md (PDecided q l fm)) =>
          Some (mkWorld (w_dur w) (Some (mkCoord md (PBecomeSent l fm))) (w_inc w) (w_nodes w)
                        (w_msgs w ++ [MBecomeLeader (w_inc w) l (c_term md) fm])
                        (w_wasleader w) (w_answered w)
                        (w_bl w ++ [mkBl l (c_term md) (c_ens md) (c_rem md) (q_oks q) (q_succ q)]))
      | _ => None
      end
  | ACoordRecvBecomeLeaderResp ok =>
      match w_coord w with
      | Some (mkCoord md (PBecomeSent l fm)) =>
          if ok then
            if has_msg (MBecomeLeaderResp (w_inc w) l (c_term md) true) (w_msgs w)
            then Some (set_coord w (Some (mkCoord md (PBecomeAcked l fm))))
            else None
          else Some (set_coord w (Some (mkCoord md PIdle)))      (* any error: electLeader returns it *)
      | _ => None
      end
  | ACoordRefence n =>
      match w_coord w with
      | Some (mkCoord md PIdle) =>
          if list_contains (c_ens md) n then Some (add_msg w (MNewTerm (w_inc w) n (c_term md))) else None
      | _ => None
      end
  | ACoordCrash =>
      match w_coord w with
      | Some _ => Some (set_coord w None)
      | None => None
      end
  | ACoordRestart ens0 =>
      match w_coord w with
      | Some _ => None
      | None =>
          (* NewCoordinator: status from Get(); "not exists" => initial assignment, stored with Update() *)
          let md := match w_dur w with DCell c => c | DEmpty => initial_md ens0 end in
          Some (mkWorld (DCell md) (Some (mkCoord md PIdle)) (S (w_inc w)) (w_nodes w) (w_msgs w)
                        (w_wasleader w) (w_answered w) (w_bl w))
      end
  | ANodeNewTerm inc n t h =>
      if has_msg (MNewTerm inc n t) (w_msgs w) then
        let '(nd, r) := node_new_term (w_nodes w n) t in
        match r with
        | Ok => Some (mkWorld (w_dur w) (w_coord w) (w_inc w) (upd_node (w_nodes w) n nd)
                              (w_msgs w ++ [MNewTermResp inc n t h]) (w_wasleader w)
                              (w_answered w ++ [(n, t, h)]) (w_bl w))
        | _ => Some (mkWorld (w_dur w) (w_coord w) (w_inc w) (upd_node (w_nodes w) n nd)
                             (w_msgs w) (w_wasleader w) (w_answered w) (w_bl w))
        end
      else None
  | ANodeBecomeLeader inc n t fm =>
      if has_msg (MBecomeLeader inc n t fm) (w_msgs w) then
        let '(nd, r) := node_become_leader (w_nodes w n) t in
        match r with
        | Ok => Some (mkWorld (w_dur w) (w_coord w) (w_inc w) (upd_node (w_nodes w) n nd)
                              (w_msgs w ++ [MBecomeLeaderResp inc n t true])
                              (w_wasleader w ++ [(n, t)]) (w_answered w) (w_bl w))
        | _ => Some (mkWorld (w_dur w) (w_coord w) (w_inc w) (upd_node (w_nodes w) n nd)
                             (w_msgs w) (w_wasleader w) (w_answered w) (w_bl w))
        end
      else None
  | ANodeFollow n t =>
      let '(nd, r) := node_follow (w_nodes w n) t in
      Some (mkWorld (w_dur w) (w_coord w) (w_inc w) (upd_node (w_nodes w) n nd)
                    (w_msgs w) (w_wasleader w) (w_answered w) (w_bl w))
  | ANodeCrash n =>
      Some (mkWorld (w_dur w) (w_coord w) (w_inc w) (upd_node (w_nodes w) n (node_crash (w_nodes w n)))
                    (w_msgs w) (w_wasleader w) (w_answered w) (w_bl w))
  | ANodeRestart n =>
      if n_up (w_nodes w n) then None else
      Some (mkWorld (w_dur w) (w_coord w) (w_inc w) (upd_node (w_nodes w) n (node_restart (w_nodes w n)))
                    (w_msgs w) (w_wasleader w) (w_answered w) (w_bl w))
  end.

Fixpoint run (v : variant) (w : world) (tr : list action) : option world :=
  match tr with
  | [] => Some w
  | a :: tl => match step v w a with Some w' => run v w' tl | None => None end
  end.

(* the coordinator is down, the store holds [c0], nothing was ever sent *)
Definition init_world (c0 : cell) (nodes : server -> node) : world :=
  mkWorld (DCell c0) None 0 nodes [] [] [] [].

(* the provider's write is all-or-nothing: the trace never shows the truncated intermediate state *)
Definition store_atomic (tr : list action) : Prop := ~ In ACoordStoreTruncate tr.
(* the controller does not continue before its Store succeeded ("store_succeeds_before_continue") *)
Definition store_persists (tr : list action) : Prop := ~ In ACoordStoreGiveUp tr.
Definition store_sound (tr : list action) : Prop := store_atomic tr /\ store_persists tr.

(* every swap replaces a member by a server that is neither a member nor already removed (C19's concern) *)
Definition wf_action (w : world) (a : action) : Prop :=
  match a, w_coord w with
  | ACoordSwap from to, Some k => In from (c_ens (k_md k)) /\ ~ In to (c_ens (k_md k) ++ c_rem (k_md k)) /\ from <> to
  | ACoordRestart ens0, _ => NoDup ens0
  | _, _ => True
  end.

Fixpoint wf_run (v : variant) (w : world) (tr : list action) : Prop :=
  match tr with
  | [] => True
  | a :: tl => wf_action w a /\ match step v w a with Some w' => wf_run v w' tl | None => True end
  end.
