(* Scheduler for the "cfgrace" correspondence cases: a cluster-config change (Coordinator.ConfigChanged) whose
   LoadWithVersion..Swap window contains a failed election attempt's retry (term++ Store, NewTerm, BecomeLeader), then a
   coordinator crash and a restart from the stored status.  Every state change goes through [cstep] / [step]. *)
From Coq Require Import List NArith ZArith Bool Arith.
From Oxia.Coord Require Import Model Driver Config.
Import ListNotations.
Open Scope Z_scope.

Fixpoint csteps (cv : cvariant) (x : cworld) (l : list caction) : option cworld :=
  match l with [] => Some x | a :: tl => match cstep cv x a with Some x' => csteps cv x' tl | None => None end end.

Definition base (l : list action) : list caction := map CBase l.

Definition dur_cell (w : world) : option cell := match w_dur w with DCell c => Some c | DEmpty => None end.

(* three servers 1,2,3; the shard is in steady state in term t0 with leader 1, stored; every head is (t0, 10) *)
Definition cfg_nodes (t0 : Z) : server -> node :=
  fun n => if N.eqb n 1 then mkNode t0 true (Some (mkCtrl CLeaderCtl t0 Leader))
           else mkNode t0 true (Some (mkCtrl CFollowerCtl t0 Follower)).

Definition cfg_drive (cv : cvariant) (full : bool) (t0 : Z) : list obs :=
  let ens := [1%N; 2%N; 3%N] in
  let h := mkEid t0 10 in
  let heads := [(1%N, h); (2%N, h); (3%N, h)] in
  let c0 := mkCell t0 ens [] (Some 1%N) SSteady in
  let x0 := mkCW (init_world c0 (cfg_nodes t0)) None in
  match cstep cv x0 (CBase (ACoordRestart ens)) with
  | None => [OStuck 40]
  | Some x1 =>
  let '(acc, ok) := verify c0 1%N ens (cw x1) [OInc 0] in
  if negb ok then acc ++ [OStuck 41] else
  let acc := acc ++ [OIdle] in
  (* the leader is reported unavailable: first attempt, every NewTerm fails *)
  match csteps cv x1 (base ([ACoordStartElection; ACoordStore] ++ map ACoordSendNewTerm ens)) with
  | None => acc ++ [OStuck 42]
  | Some x2 =>
  match cur_md (cw x2) with
  | None => acc ++ [OStuck 43]
  | Some md1 =>
  let acc := acc ++ [OStore md1 false; ONewTerms (c_term md1) ens] in
  (* ConfigChanged takes its snapshot now; the attempt fails and is retried with the next term *)
  match csteps cv x2 (CConfigLoad :: base (map (fun n => ACoordRecvNewTermResp n RErr) ens ++
                                          [ACoordElectionFailed; ACoordStartElection; ACoordStore] ++
                                          map ACoordSendNewTerm ens)) with
  | None => acc ++ [OStuck 44]
  | Some x3 =>
  match cur_md (cw x3) with
  | None => acc ++ [OStuck 45]
  | Some md2 =>
  let t := c_term md2 in
  let acc := acc ++ [OQFail; OStore md2 false; ONewTerms t ens] in
  let inc := w_inc (cw x3) in
  match csteps cv x3 (base (flat_map (fun n => [ANodeNewTerm inc n t h; ACoordRecvNewTermResp n (ROk h)]) ens ++
                            [ACoordDecide 0; ACoordSendBecomeLeader])) with
  | None => acc ++ [OStuck 46]
  | Some x4 =>
  match w_coord (cw x4) with
  | Some (mkCoord _ (PBecomeSent l fm)) =>
  let acc := acc ++ [OBecomeLeader t 3 (sort_servers (candidates heads)) heads] in
  let x5o := if full
             then csteps cv x4 (base ([ANodeBecomeLeader inc l t fm] ++ map (fun n => ANodeFollow n t) (map fst fm) ++
                                      [ACoordRecvBecomeLeaderResp true; ACoordStore]))
             else Some x4 in
  match x5o with
  | None => acc ++ [OStuck 47]
  | Some x5 =>
  let acc := if full then acc ++ [OBlResp true; OStore (elected_md md2 l) true] else acc in
  (* ConfigChanged resumes: its Swap is refused (the version moved), it reloads and stores *)
  match csteps cv x5 [CConfigSwap; CConfigSwap] with
  | None => acc ++ [OStuck 48]
  | Some x6 =>
  match dur_cell (cw x6) with
  | None => acc ++ [OStuck 49]
  | Some d =>
  let acc := acc ++ [OConfigStore d full] in
  match cstep cv x6 (CBase ACoordCrash) with
  | None => acc ++ [OStuck 50]
  | Some x7 =>
  let acc := acc ++ [OCrashCfg] in
  let r := mkRound (map (fun n => SArrive n true) ens) true [] in
  play_incs (cv_base cv) heads ens 1 [mkInc [r] GNone] (cw x7) acc
  end end end end
  | _ => acc ++ [OStuck 51]
  end end end end end end end.
