(* Scheduler for the correspondence check: turns an election script (the same line the Go harness plays against the
   real shardController) into actions of the transition system of Model.v, applies [step] action by action and
   projects the observables (Store payloads, RPCs).  Definitions only.  Every state change goes through [step];
   a script the model cannot follow yields [OStuck]. *)
From Coq Require Import List NArith ZArith Bool Arith.
From Oxia.Coord Require Import Model.
Import ListNotations.
Open Scope Z_scope.

Inductive sarrival := SArrive (n : server) (ok : bool) | STimer.
Record sround := mkRound { r_arr : list sarrival; r_bl : bool; r_ref : list (server * bool) }.
Inductive gate := GNone | GS1pre | GS1post | GNt (j : nat) | GBlpre | GBlpost | GS2pre | GS2post | GEnd.
Record sinc := mkInc { i_rounds : list sround; i_gate : gate }.

Inductive obs :=
| OInc (i : nat)
| OInit
| OStore (c : cell) (leader_is_elected : bool)
| OConfigStore (c : cell) (leader_is_elected : bool)     (* the shard entry inside a Store made by ConfigChanged *)
| OCrashCfg
| ONewTerms (t : Z) (targets : list server)
| OQFail
| OBecomeLeader (t : Z) (rf : nat) (cands : list server) (res : list (server * eid))
| OBlResp (ok : bool)
| ODeleteShard (t : Z) (n : server)
| ORefence (t : Z) (n : server) (ok : bool) (h : eid)
| OGetStatus (n : server)
| OIdle
| OCrash (g : gate)
| OStuck (where_ : nat).

Inductive flow := Continue | EndInc | Halt.

Definition head_of (heads : list (server * eid)) (n : server) : eid :=
  match find (fun p => N.eqb (fst p) n) heads with Some p => snd p | None => mkEid (-1) (-1) end.

Definition gate_eqb (a b : gate) : bool :=
  match a, b with
  | GNone, GNone | GS1pre, GS1pre | GS1post, GS1post | GBlpre, GBlpre | GBlpost, GBlpost
  | GS2pre, GS2pre | GS2post, GS2post | GEnd, GEnd => true
  | GNt i, GNt j => Nat.eqb i j
  | _, _ => false
  end.

Definition crash (w : world) (g : gate) (acc : list obs) : world * list obs * flow :=
  match step fixed w ACoordCrash with
  | Some w' => (w', acc ++ [OCrash g], EndInc)
  | None => (w, acc ++ [OStuck 1], Halt)
  end.

Definition cur_md (w : world) : option cell := match w_coord w with Some k => Some (k_md k) | None => None end.

Definition fencing_state (w : world) : option (qstate * list server) :=
  match w_coord w with Some (mkCoord _ (PFencing q wt)) => Some (q, wt) | _ => None end.

Definition loop_running (q : qstate) : bool :=
  match q_phase q with QWaitMajority | QGrace => true | _ => false end.

Fixpoint steps (v : variant) (w : world) (l : list action) : option world :=
  match l with [] => Some w | a :: tl => match step v w a with Some w' => steps v w' tl | None => None end end.

(* the scripted answers, one by one; [released] counts the answers handed back so far *)
Fixpoint play_arrivals (v : variant) (heads : list (server * eid)) (g : gate) (t : Z) (arr : list sarrival) (released : nat)
         (w : world) (acc : list obs) : world * list obs * flow :=
  match arr with
  | [] => (w, acc, Continue)
  | STimer :: tl =>
      let w' := match fencing_state w with
                | Some (q, _) => match q_phase q with
                                 | QGrace => match step v w ACoordGraceTimeout with Some w1 => w1 | None => w end
                                 | _ => w
                                 end
                | None => w
                end in
      play_arrivals v heads g t tl released w' acc
  | SArrive n ok :: tl =>
      match fencing_state w with
      | None => (w, acc ++ [OStuck 2], Halt)
      | Some (q, waiting) =>
          if negb (list_contains waiting n) then play_arrivals v heads g t tl released w acc else
          let h := head_of heads n in
          (* the node processes the request whether or not the coordinator still listens *)
          let w1 := if ok then step v w (ANodeNewTerm (w_inc w) n t h) else Some w in
          match w1 with
          | None => (w, acc ++ [OStuck 3], Halt)
          | Some w1 =>
              let w2 := if loop_running q
                        then step v w1 (ACoordRecvNewTermResp n (if ok then ROk h else RErr))
                        else Some w1 in
              match w2 with
              | None => (w1, acc ++ [OStuck 4], Halt)
              | Some w2 =>
                  let released' := S released in
                  if gate_eqb g (GNt released') then crash w2 g acc
                  else play_arrivals v heads g t tl released' w2 acc
              end
          end
      end
  end.

Fixpoint sort_insert (n : server) (l : list server) : list server :=
  match l with [] => [n] | x :: tl => if N.leb n x then n :: l else x :: sort_insert n tl end.
Definition sort_servers (l : list server) : list server := fold_right sort_insert [] l.

Definition keys (m : list (server * eid)) : list server := map fst m.

Fixpoint refence_all (v : variant) (heads : list (server * eid)) (refs : list (server * bool)) (t : Z) (failed : list server)
         (w : world) (acc : list obs) : world * list obs * flow :=
  match failed with
  | [] => (w, acc, Continue)
  | n :: tl =>
      let ok := match find (fun p => N.eqb (fst p) n) refs with Some p => snd p | None => true end in
      let h := head_of heads n in
      if ok then
        match steps v w [ACoordRefence n; ANodeNewTerm (w_inc w) n t h; ANodeFollow n t] with
        | Some w' => refence_all v heads refs t tl w' (acc ++ [ORefence t n true h])
        | None => (w, acc ++ [OStuck 5], Halt)
        end
      else
        match step v w (ACoordRefence n) with
        | Some w' => refence_all v heads refs t tl w' (acc ++ [ORefence t n false h])
        | None => (w, acc ++ [OStuck 6], Halt)
        end
  end.

Fixpoint follow_all (v : variant) (t : Z) (l : list server) (w : world) : option world :=
  match l with
  | [] => Some w
  | n :: tl => match step v w (ANodeFollow n t) with Some w' => follow_all v t tl w' | None => None end
  end.

Inductive round_end := RFailed | RElected | REnded (f : flow).

(* one electLeader attempt; [g] is the kill point of this round (GNone for all but the last scripted round) *)
Definition play_round (v : variant) (heads : list (server * eid)) (r : sround) (g : gate) (w : world) (acc : list obs)
  : world * list obs * round_end :=
  match step v w ACoordStartElection with
  | None => (w, acc ++ [OStuck 10], REnded Halt)
  | Some w1 =>
  match cur_md w1 with
  | None => (w1, acc ++ [OStuck 11], REnded Halt)
  | Some md =>
  let acc := acc ++ [OStore md false] in
  if gate_eqb g GS1pre then let '(w', a, f) := crash w1 g acc in (w', a, REnded f) else
  match step v w1 ACoordStore with
  | None => (w1, acc ++ [OStuck 12], REnded Halt)
  | Some w2 =>
  if gate_eqb g GS1post then let '(w', a, f) := crash w2 g acc in (w', a, REnded f) else
  let fq := c_ens md ++ c_rem md in
  let t := c_term md in
  match steps v w2 (map ACoordSendNewTerm fq) with
  | None => (w2, acc ++ [OStuck 13], REnded Halt)
  | Some w3 =>
  let acc := acc ++ [ONewTerms t (sort_servers fq)] in
  if gate_eqb g (GNt 0) then let '(w', a, f) := crash w3 g acc in (w', a, REnded f) else
  match play_arrivals v heads g t (r_arr r) 0 w3 acc with
  | (w4, acc, EndInc) => (w4, acc, REnded EndInc)
  | (w4, acc, Halt) => (w4, acc, REnded Halt)
  | (w4, acc, Continue) =>
  (* nothing more arrives: the grace timer fires *)
  let w5 := match fencing_state w4 with
            | Some (q, _) => match q_phase q with
                             | QGrace => match step v w4 ACoordGraceTimeout with Some x => x | None => w4 end
                             | _ => w4
                             end
            | None => w4
            end in
  match fencing_state w5 with
  | None => (w5, acc ++ [OStuck 14], REnded Halt)
  | Some (q, _) =>
  match q_phase q with
  | QWaitMajority => (w5, acc ++ [OStuck 15], REnded Halt)   (* the real loop would block: scripts avoid this *)
  | QGrace => (w5, acc ++ [OStuck 16], REnded Halt)
  | QFailed =>
      match step v w5 ACoordElectionFailed with
      | Some w6 => (w6, acc ++ [OQFail], RFailed)
      | None => (w5, acc ++ [OStuck 17], REnded Halt)
      end
  | QDone =>
      match step v w5 (ACoordDecide 0) with
      | None => (w5, acc ++ [OStuck 18], REnded Halt)       (* panic in selectNewLeader *)
      | Some w6 =>
      match w_coord w6 with
      | Some (mkCoord _ (PDecided _ l fm)) =>
      let acc := acc ++ [OBecomeLeader t (length (c_ens md)) (sort_servers (candidates (q_res q))) (q_res q)] in
      match step v w6 ACoordSendBecomeLeader with
      | None => (w6, acc ++ [OStuck 19], REnded Halt)
      | Some w7 =>
      if gate_eqb g GBlpre then let '(w', a, f) := crash w7 g acc in (w', a, REnded f) else
      let w8 := if r_bl r
                then match step v w7 (ANodeBecomeLeader (w_inc w7) l t fm) with
                     | Some x => follow_all v t (keys fm) x
                     | None => None
                     end
                else Some w7 in
      match w8 with
      | None => (w7, acc ++ [OStuck 20], REnded Halt)
      | Some w8 =>
      if gate_eqb g GBlpost then let '(w', a, f) := crash w8 g acc in (w', a, REnded f) else
      if negb (r_bl r) then
        match step v w8 (ACoordRecvBecomeLeaderResp false) with
        | Some w9 => (w9, acc ++ [OBlResp false], RFailed)
        | None => (w8, acc ++ [OStuck 21], REnded Halt)
        end
      else
      match step v w8 (ACoordRecvBecomeLeaderResp true) with
      | None => (w8, acc ++ [OStuck 22], REnded Halt)
      | Some w9 =>
      let acc := acc ++ [OBlResp true] ++ map (ODeleteShard t) (c_rem md) ++ [OStore (elected_md md l) true] in
      if gate_eqb g GS2pre then let '(w', a, f) := crash w9 g acc in (w', a, REnded f) else
      match step v w9 ACoordStore with
      | None => (w9, acc ++ [OStuck 23], REnded Halt)
      | Some w10 =>
      if gate_eqb g GS2post then let '(w', a, f) := crash w10 g acc in (w', a, REnded f) else
      let failed := if Nat.eqb (length fm) (length (c_ens md) - 1) then []
                    else filter (fun n => negb (N.eqb n l) && negb (list_contains (keys fm) n)) (c_ens md) in
      match refence_all v heads (r_ref r) t (sort_servers failed) w10 acc with
      | (w11, acc, Continue) =>
          if gate_eqb g GEnd then let '(w', a, f) := crash w11 g acc in (w', a, REnded f)
          else (w11, acc, RElected)
      | (w11, acc, f) => (w11, acc, REnded f)
      end
      end end end end
      | _ => (w6, acc ++ [OStuck 24], REnded Halt)
      end end
  end end end end end end end.

Fixpoint play_rounds (v : variant) (heads : list (server * eid)) (rs : list sround) (g : gate) (w : world) (acc : list obs)
  : world * list obs * flow :=
  match rs with
  | [] => (w, acc, Continue)
  | r :: tl =>
      let g' := match tl with [] => g | _ => GNone end in
      match play_round v heads r g' w acc with
      | (w', acc', RFailed) => play_rounds v heads tl g w' acc'
      | (w', acc', RElected) => (w', acc', Continue)      (* later rounds of the script are not played *)
      | (w', acc', REnded f) => (w', acc', f)
      end
  end.

(* verifyCurrentEnsemble: GetStatus on the members in order, stop at the first one that is not as expected *)
Fixpoint verify (md : cell) (l : server) (ens : list server) (w : world) (acc : list obs) : list obs * bool :=
  match ens with
  | [] => (acc, true)
  | n :: tl =>
      let acc := acc ++ [OGetStatus n] in
      match node_status (w_nodes w n) with
      | None => (acc, false)
      | Some (st, t) =>
          let want := if N.eqb n l then Leader else Follower in
          if nstatus_eqb st want && (t =? c_term md) then verify md l tl w acc else (acc, false)
      end
  end.

Definition is_steady (s : cstatus) : bool := match s with SSteady => true | _ => false end.
Definition is_empty (d : durable) : bool := match d with DEmpty => true | _ => false end.

Definition play_inc (v : variant) (heads : list (server * eid)) (ens0 : list server) (i : nat) (inc : sinc) (w : world) (acc : list obs)
  : world * list obs * flow :=
  let acc := acc ++ [OInc i] ++ (if is_empty (w_dur w) then [OInit] else []) in
  match step v w (ACoordRestart ens0) with
  | None => (w, acc ++ [OStuck 30], Halt)
  | Some w1 =>
      match cur_md w1 with
      | None => (w1, acc ++ [OStuck 31], Halt)
      | Some md =>
          let elect := play_rounds v heads (i_rounds inc) (i_gate inc) w1 in
          let '(w2, acc2, f) :=
            match c_leader md with
            | Some l =>
                if is_steady (c_status md) then
                  let '(acc1, ok) := verify md l (c_ens md) w1 acc in
                  if ok then (w1, acc1 ++ [OIdle], Continue) else elect acc1
                else elect acc
            | None => elect acc
            end in
          match f with
          | Continue =>       (* the incarnation ends with the process going away *)
              match step v w2 ACoordCrash with
              | Some w3 => (w3, acc2, Continue)
              | None => (w2, acc2 ++ [OStuck 32], Halt)
              end
          | EndInc => (w2, acc2, Continue)
          | Halt => (w2, acc2, Halt)
          end
      end
  end.

Fixpoint play_incs (v : variant) (heads : list (server * eid)) (ens0 : list server) (i : nat) (incs : list sinc) (w : world) (acc : list obs)
  : list obs :=
  match incs with
  | [] => acc
  | inc :: tl =>
      match play_inc v heads ens0 i inc w acc with
      | (w', acc', Continue) => play_incs v heads ens0 (S i) tl w' acc'
      | (_, acc', _) => acc'
      end
  end.

(* the whole case: the store holds the shard with term [t0] (status Election and a pending swap when [rem] is not
   empty), every node is up and has never seen the shard *)
Definition drive (v : variant) (ens rem : list server) (t0 : Z) (heads : list (server * eid)) (incs : list sinc) : list obs :=
  let c0 := mkCell t0 ens rem None (match rem with [] => SUnknown | _ => SElection end) in
  play_incs v heads ens 0 incs (init_world c0 (fun _ => node_init)) [].
