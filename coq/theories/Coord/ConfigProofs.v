(* The term theorems of C05 over traces that also contain Coordinator.ConfigChanged's compare-and-set. *)
From Coq Require Import List NArith ZArith Bool Lia.
From Oxia.Coord Require Import Model SelectProofs NodeProofs ElectionProofs Config.
Import ListNotations.
Open Scope Z_scope.

(* a snapshot whose version is still current is what the store holds *)
Definition cfg_ok (x : cworld) : Prop :=
  match cw_cfg x with Some (c, true) => w_dur (cw x) = DCell c | _ => True end.

Lemma step_dur_unchanged v w a w' :
  step v w a = Some w' -> writes_store a = false -> w_dur w' = w_dur w.
Proof.
  intros H Hw. destruct w as [dur co inc nodes msgs wl ans bl]. world_fields.
  destruct a; try discriminate Hw; step_cases H; reflexivity.
Qed.

Lemma set_dur_same w d k : w_dur w = d -> w_coord w = Some k -> set_dur_coord w d (Some k) = w.
Proof. destruct w; cbn; intros <- ->; reflexivity. Qed.

Lemma cstep_inv x a x' :
  cstep cfixed x a = Some x' -> a <> CBase ACoordStoreTruncate -> a <> CBase ACoordStoreGiveUp ->
  inv_terms (cw x) /\ cfg_ok x -> inv_terms (cw x') /\ cfg_ok x'.
Proof.
  intros H Hna Hng [Hi Hc]. destruct x as [w cfg]. unfold cfg_ok in *; cbn [cw cw_cfg] in *.
  destruct a as [b| |]; cbn [cstep cw cw_cfg cfixed cv_base cv_stale_retry] in H.
  - destruct (step fixed w b) as [w'|] eqn:E; [|discriminate]. injection H as <-. cbn [cw cw_cfg]. split.
    + eapply step_inv_terms; eauto; intro; subst; [apply Hna | apply Hng]; reflexivity.
    + destruct (writes_store b) eqn:Hw.
      * destruct b; try discriminate Hw; destruct cfg as [[c []]|]; cbn; auto.
      * rewrite (step_dur_unchanged _ _ _ _ E Hw).
        destruct b; try discriminate Hw; auto.
  - destruct (w_coord w) eqn:Ek; [|discriminate]. destruct (w_dur w) eqn:Ed; [|discriminate].
    injection H as <-. cbn. auto.
  - destruct (w_coord w) as [k|] eqn:Ek; [|discriminate]. destruct cfg as [[c [|]]|]; try discriminate.
    + injection H as <-. cbn [cw cw_cfg]. rewrite (set_dur_same w (DCell c) k Hc Ek). auto.
    + destruct (w_dur w) eqn:Ed; [|discriminate]. injection H as <-. cbn. auto.
Qed.

Lemma cstore_sound_cons a tl :
  cstore_sound (a :: tl) -> a <> CBase ACoordStoreTruncate /\ a <> CBase ACoordStoreGiveUp /\ cstore_sound tl.
Proof.
  unfold cstore_sound, cstore_atomic. cbn. intros [H1 H2]. repeat split.
  - intro; subst; apply H1; left; reflexivity.
  - intro; subst; apply H2; left; reflexivity.
  - intro; apply H1; right; assumption.
  - intro; apply H2; right; assumption.
Qed.

Lemma crun_inv tr : forall x x',
  crun cfixed x tr = Some x' -> cstore_sound tr -> inv_terms (cw x) /\ cfg_ok x -> inv_terms (cw x') /\ cfg_ok x'.
Proof.
  induction tr as [|a tl IH]; cbn; intros x x' H Hat Hi; [inversion H; subst; auto|].
  destruct (cstep cfixed x a) eqn:E; [|discriminate]. apply cstore_sound_cons in Hat. destruct Hat as (Ha & Hg & Hat).
  eapply IH; eauto. eapply cstep_inv; eauto.
Qed.

Lemma init_cworld_inv c0 nodes : inv_terms (cw (init_cworld c0 nodes)) /\ cfg_ok (init_cworld c0 nodes).
Proof. split; [apply inv_terms_init | exact I]. Qed.

(* C05 with ConfigChanged in the trace: every term on the wire is durable, at every point *)
Theorem term_durable_before_use_cfg c0 nodes tr x :
  crun cfixed (init_cworld c0 nodes) tr = Some x -> cstore_sound tr ->
  exists d, w_dur (cw x) = DCell d /\
    (forall i n t, In (MNewTerm i n t) (w_msgs (cw x)) -> t <= c_term d) /\
    (forall i n t fm, In (MBecomeLeader i n t fm) (w_msgs (cw x)) -> t <= c_term d).
Proof.
  intros H Hat. destruct (crun_inv _ _ _ H Hat (init_cworld_inv c0 nodes)) as [[Hd _ Hnt Hbl _ _ _] _].
  destruct Hd as [d Hd]. exists d. split; [exact Hd|]. split; intros; [eapply Hnt | eapply Hbl]; eauto.
Qed.

(* ... every election, in any incarnation, uses a term above everything ever sent *)
Theorem restart_never_reuses_cfg c0 nodes tr x w' k' :
  crun cfixed (init_cworld c0 nodes) tr = Some x -> cstore_sound tr ->
  step fixed (cw x) ACoordStartElection = Some w' -> w_coord w' = Some k' ->
  (forall i n t, In (MNewTerm i n t) (w_msgs (cw x)) -> t < c_term (k_md k')) /\
  (forall i n t fm, In (MBecomeLeader i n t fm) (w_msgs (cw x)) -> t < c_term (k_md k')).
Proof.
  intros H Hat Hs Hk.
  destruct (crun_inv _ _ _ H Hat (init_cworld_inv c0 nodes)) as [[Hd Hmd Hnt Hbl _ _ _] _].
  destruct Hd as [d Hd]. destruct (cw x) as [dur co inc nds msgs wl ans bl]. world_fields. subst dur.
  step_cases Hs. injection Hk as <-. pose proof (Hmd d _ eq_refl eq_refl) as Hm. cbn in Hm. cbn.
  split; intros.
  - specialize (Hnt d _ _ _ eq_refl H0). lia.
  - specialize (Hbl d _ _ _ _ eq_refl H0). lia.
Qed.

(* ... and at most one node is ever sent BecomeLeader in a term, hence at most one leader per term *)
Theorem one_leader_per_term_cfg c0 nodes tr x :
  crun cfixed (init_cworld c0 nodes) tr = Some x -> cstore_sound tr ->
  forall n1 n2 t, In (n1, t) (w_wasleader (cw x)) -> In (n2, t) (w_wasleader (cw x)) -> n1 = n2.
Proof.
  intros H Hat n1 n2 t H1 H2.
  destruct (crun_inv _ _ _ H Hat (init_cworld_inv c0 nodes)) as [[_ _ _ _ Hun _ Hwl] _].
  destruct (Hwl _ _ H1) as (i1 & fm1 & M1). destruct (Hwl _ _ H2) as (i2 & fm2 & M2). eapply Hun; eauto.
Qed.

(* the seeded variant (retry of the compare-and-set with the stale status): a config change that overlaps the election's
   term++ Store puts the durable term back below a term already sent, and the restarted coordinator reuses it *)
Definition c_steady : cell := mkCell 5 [1%N; 2%N; 3%N] [] (Some 1%N) SSteady.

Definition tr_stale : list caction :=
  [ CBase (ACoordRestart [1%N; 2%N; 3%N]);
    CConfigLoad;                                         (* ConfigChanged: LoadWithVersion *)
    CBase ACoordStartElection; CBase ACoordStore;        (* the leader failed: term 6 stored ... *)
    CBase (ACoordSendNewTerm 2%N);                       (* ... and sent *)
    CConfigSwap;                                         (* Swap refused, retried with the stale status: term 5 is back *)
    CBase ACoordCrash; CBase (ACoordRestart [1%N; 2%N; 3%N]) ].

Theorem config_stale_retry_refuted :
  exists tr x d i n t,
    crun cstale (init_cworld c_steady (fun _ => node_init)) tr = Some x /\ cstore_sound tr /\
    w_dur (cw x) = DCell d /\ In (MNewTerm i n t) (w_msgs (cw x)) /\ c_term d < t /\
    exists w' k', step fixed (cw x) ACoordStartElection = Some w' /\ w_coord w' = Some k' /\ c_term (k_md k') <= t.
Proof.
  exists tr_stale.
  destruct (crun cstale (init_cworld c_steady (fun _ => node_init)) tr_stale) as [x|] eqn:E; [|vm_compute in E; discriminate].
  exists x, c_steady, 1%nat, 2%N, 6.
  split; [reflexivity|]. split; [unfold cstore_sound, cstore_atomic, tr_stale; cbn; intuition discriminate|].
  vm_compute in E. injection E as <-. cbn [cw w_dur w_msgs].
  split; [reflexivity|]. split; [left; reflexivity|]. split; [cbn; lia|].
  eexists. eexists. split; [reflexivity|]. split; [reflexivity|]. cbn. lia.
Qed.

(* the same schedule on the code as it is: the conflict is detected, the fresh status is written, term 6 stays *)
Example config_retry_fixed_ok :
  exists x, crun cfixed (init_cworld c_steady (fun _ => node_init))
              [ CBase (ACoordRestart [1%N; 2%N; 3%N]); CConfigLoad; CBase ACoordStartElection; CBase ACoordStore;
                CBase (ACoordSendNewTerm 2%N); CConfigSwap; CConfigSwap; CBase ACoordCrash;
                CBase (ACoordRestart [1%N; 2%N; 3%N]) ] = Some x /\
            w_dur (cw x) = DCell (mkCell 6 [1%N; 2%N; 3%N] [] None SElection).
Proof. eexists. split; vm_compute; reflexivity. Qed.
