(* Coordinator.ConfigChanged next to the election (coordinator/coordinator.go, "compare and set"):

     currentStatus, version := statusResource.LoadWithVersion()
     for { clusterStatus := ApplyClusterChanges(newConfig, currentStatus)     -- existing shards are copied unchanged
           if !statusResource.Swap(clusterStatus, version) { currentStatus, version = LoadWithVersion(); continue }
           break }

   It runs under the coordinator lock, which the shard controller's election does NOT take: an election's Store may
   land between LoadWithVersion and Swap.  Swap refuses when the version moved (every Store moves it), and the loop
   then recomputes from the fresh status.  The layer below adds the two steps to the transition system of Model.v; the
   snapshot carries "version still current" as a boolean that every Store of the election clears.
   [cv_stale_retry = true] is the variant in which the retry reloads only the version and writes the stale status
   (kept refutable: ConfigProofs.config_stale_retry_refuted).  Definitions only. *)
From Coq Require Import List NArith ZArith Bool.
From Oxia.Coord Require Import Model.
Import ListNotations.
Open Scope Z_scope.

Record cworld := mkCW {
  cw : world;
  cw_cfg : option (cell * bool)      (* ConfigChanged in progress: the shard entry it loaded, and whether its version is still current *)
}.

Inductive caction :=
| CBase (a : action)
| CConfigLoad                         (* LoadWithVersion (+ ApplyClusterChanges: the shard entry is copied) *)
| CConfigSwap.                        (* one Swap attempt *)

Record cvariant := mkCVar { cv_base : variant; cv_stale_retry : bool }.
Definition cfixed : cvariant := mkCVar fixed false.
Definition cstale : cvariant := mkCVar fixed true.

(* the steps of the election that go through the metadata provider's Store (and so bump the version) *)
Definition writes_store (a : action) : bool :=
  match a with ACoordStore | ACoordStoreTruncate | ACoordRestart _ => true | _ => false end.

Definition invalidate (cfg : option (cell * bool)) : option (cell * bool) :=
  match cfg with Some (c, _) => Some (c, false) | None => None end.

Definition cstep (cv : cvariant) (x : cworld) (a : caction) : option cworld :=
  match a with
  | CBase b =>
      match step (cv_base cv) (cw x) b with
      | Some w' =>
          Some (mkCW w' (match b with
                         | ACoordCrash => None                   (* ConfigChanged dies with the process *)
                         | _ => if writes_store b then invalidate (cw_cfg x) else cw_cfg x
                         end))
      | None => None
      end
  | CConfigLoad =>
      match w_coord (cw x), w_dur (cw x) with
      | Some _, DCell c => Some (mkCW (cw x) (Some (c, true)))
      | _, _ => None
      end
  | CConfigSwap =>
      match w_coord (cw x), cw_cfg x with
      | Some k, Some (c, true) =>
          (* version unchanged: the status (with the shard entry as loaded) is stored *)
          Some (mkCW (set_dur_coord (cw x) (DCell c) (Some k)) None)
      | Some k, Some (c, false) =>
          if cv_stale_retry cv
          then Some (mkCW (set_dur_coord (cw x) (DCell c) (Some k)) None)    (* seeded variant: only the version is reloaded *)
          else match w_dur (cw x) with
               | DCell c' => Some (mkCW (cw x) (Some (c', true)))             (* conflict: LoadWithVersion again, recompute *)
               | DEmpty => None
               end
      | _, _ => None
      end
  end.

Fixpoint crun (cv : cvariant) (x : cworld) (tr : list caction) : option cworld :=
  match tr with
  | [] => Some x
  | a :: tl => match cstep cv x a with Some x' => crun cv x' tl | None => None end
  end.

Definition init_cworld (c0 : cell) (nodes : server -> node) : cworld := mkCW (init_world c0 nodes) None.

Definition cstore_atomic (tr : list caction) : Prop := ~ In (CBase ACoordStoreTruncate) tr.
Definition cstore_sound (tr : list caction) : Prop := cstore_atomic tr /\ ~ In (CBase ACoordStoreGiveUp) tr.
