(* Concrete traces: the two defects of the shipped code as refutation witnesses (replayed against the real code by the
   harness: corpus/coord/*.case), and non-vacuity examples for the positive theorems. *)
From Coq Require Import List NArith ZArith Bool Arith Lia.
From Oxia.Coord Require Import Model SelectProofs NodeProofs ElectionProofs.
Import ListNotations.
Open Scope Z_scope.

Definition nodes0 : server -> node := fun _ => node_init.

(* ---- O-7: ensemble {1,2,4}, node 3 is being removed by a swap; 3 answers NewTerm after the majority, within the
   grace period, with the longest log *)
Definition c_swap : cell := mkCell 2 [1%N; 2%N; 4%N] [3%N] None SElection.
Definition h13 := mkEid 1 3.
Definition h15 := mkEid 1 5.

Definition tr_o7 : list action :=
  [ ACoordRestart [1%N; 2%N; 4%N]; ACoordStartElection; ACoordStore;
    ACoordSendNewTerm 1%N; ACoordSendNewTerm 2%N; ACoordSendNewTerm 4%N; ACoordSendNewTerm 3%N;
    ANodeNewTerm 1 1%N 3 h13; ACoordRecvNewTermResp 1%N (ROk h13);
    ANodeNewTerm 1 2%N 3 h13; ACoordRecvNewTermResp 2%N (ROk h13);
    ANodeNewTerm 1 4%N 3 h13; ACoordRecvNewTermResp 4%N (ROk h13);
    (* majority reached: the grace loop runs *)
    ANodeNewTerm 1 3%N 3 h15; ACoordRecvNewTermResp 3%N (ROk h15);
    ACoordDecide 0; ACoordSendBecomeLeader ].

Ltac solve_wf := vm_compute; repeat split; repeat constructor; cbn; intuition discriminate.
Ltac solve_atomic := unfold store_sound, store_atomic, store_persists; cbn; intuition discriminate.

Lemma wf_o7_shipped : wf_run shipped (init_world c_swap nodes0) tr_o7.
Proof. solve_wf. Qed.

(* on the shipped code (no guard in the grace loop) BecomeLeader goes to the removed node 3 *)
Theorem leader_in_ensemble_shipped_refuted :
  exists tr w b, run shipped (init_world c_swap nodes0) tr = Some w /\ store_sound tr /\
                 wf_run shipped (init_world c_swap nodes0) tr /\
                 In b (w_bl w) /\ ~ In (b_leader b) (b_ens b).
Proof.
  exists tr_o7.
  destruct (run shipped (init_world c_swap nodes0) tr_o7) as [w|] eqn:E; [|vm_compute in E; discriminate].
  exists w. exists (mkBl 3%N 3 [1%N; 2%N; 4%N] [3%N] [(1%N, h13); (2%N, h13); (4%N, h13); (3%N, h15)] 3).
  split; [reflexivity|]. split; [solve_atomic|]. split; [exact wf_o7_shipped|].
  vm_compute in E. injection E as <-. cbn. split; [left; reflexivity|].
  intros [H|[H|[H|[]]]]; discriminate.
Qed.

(* the same trace on the fixed code elects a member (1, first candidate) and the removed node is not in the decision *)
Example o7_trace_fixed :
  exists w, run fixed (init_world c_swap nodes0) tr_o7 = Some w /\
            map b_leader (w_bl w) = [1%N] /\
            (forall i n t fm, In (MBecomeLeader i n t fm) (w_msgs w) -> ~ In 3%N (map fst fm)).
Proof.
  destruct (run fixed (init_world c_swap nodes0) tr_o7) as [w|] eqn:E; [|vm_compute in E; discriminate].
  exists w. split; [reflexivity|]. vm_compute in E. injection E as <-. cbn [w_bl w_msgs map b_leader]. split; [reflexivity|].
  intros i n t fm H.
  repeat (destruct H as [H|H]; [try discriminate H|]); try contradiction.
  injection H as <- <- <- <-. cbn. intros HH; repeat (destruct HH as [HH|HH]; [discriminate HH|]); exact HH.
Qed.

(* ---- O-11: the shipped file provider truncates the status file before writing it *)
Definition c_plain : cell := mkCell 2 [1%N; 2%N; 3%N] [] None SUnknown.

Definition tr_o11 : list action :=
  [ ACoordRestart [1%N; 2%N; 3%N]; ACoordStartElection; ACoordStore; ACoordSendNewTerm 1%N;   (* NewTerm(term 3) is out *)
    ACoordRecvNewTermResp 1%N RErr; ACoordRecvNewTermResp 2%N RErr; ACoordRecvNewTermResp 3%N RErr;
    ACoordElectionFailed;
    ACoordStartElection;                 (* retry: term 4 *)
    ACoordStoreTruncate;                 (* os.WriteFile has truncated the file ... *)
    ACoordCrash;                         (* ... and the coordinator dies before writing *)
    ACoordRestart [1%N; 2%N; 3%N] ].     (* empty file = "not exists": initial assignment, term -1 *)

Lemma wf_o11 : wf_run fixed (init_world c_plain nodes0) tr_o11.
Proof. solve_wf. Qed.

Theorem file_store_shipped_refuted :
  exists tr w d i n t,
    run fixed (init_world c_plain nodes0) tr = Some w /\ wf_run fixed (init_world c_plain nodes0) tr /\
    w_dur w = DCell d /\ In (MNewTerm i n t) (w_msgs w) /\ c_term d < t /\
    (* and the next election reuses a term that is not above the one already sent *)
    exists w' k', step fixed w ACoordStartElection = Some w' /\ w_coord w' = Some k' /\ c_term (k_md k') <= t.
Proof.
  exists tr_o11.
  destruct (run fixed (init_world c_plain nodes0) tr_o11) as [w|] eqn:E; [|vm_compute in E; discriminate].
  exists w, (initial_md [1%N; 2%N; 3%N]), 1%nat, 1%N, 3.
  split; [reflexivity|]. split; [exact wf_o11|].
  vm_compute in E. injection E as <-. cbn [w_dur w_msgs].
  split; [reflexivity|]. split; [left; reflexivity|]. split; [cbn; lia|].
  eexists. eexists. split; [reflexivity|]. split; [reflexivity|]. cbn. lia.
Qed.

(* ---- the retry loop of the first Store gives up (bounded retries on a loop whose caller cannot be told): NewTerm goes
   out in a term the store never saw, the restarted coordinator issues the same term again *)
Definition tr_giveup : list action :=
  [ ACoordRestart [1%N; 2%N; 3%N]; ACoordStartElection;                 (* term 3 in memory *)
    ACoordStoreFail; ACoordStoreFail; ACoordStoreFail; ACoordStoreFail;  (* metadata store outage *)
    ACoordStoreGiveUp;                                                   (* UpdateShardMetadata returns, electLeader carries on *)
    ACoordSendNewTerm 1%N;                                               (* NewTerm(3) while the store holds 2 *)
    ACoordCrash; ACoordRestart [1%N; 2%N; 3%N] ].

Lemma wf_giveup : wf_run fixed (init_world c_plain nodes0) tr_giveup.
Proof. solve_wf. Qed.

Theorem store_giveup_refuted :
  exists tr w d i n t,
    run fixed (init_world c_plain nodes0) tr = Some w /\ store_atomic tr /\ wf_run fixed (init_world c_plain nodes0) tr /\
    w_dur w = DCell d /\ In (MNewTerm i n t) (w_msgs w) /\ c_term d < t /\
    exists w' k', step fixed w ACoordStartElection = Some w' /\ w_coord w' = Some k' /\ c_term (k_md k') <= t.
Proof.
  exists tr_giveup.
  destruct (run fixed (init_world c_plain nodes0) tr_giveup) as [w|] eqn:E; [|vm_compute in E; discriminate].
  exists w, c_plain, 1%nat, 1%N, 3.
  split; [reflexivity|]. split; [unfold store_atomic; cbn; intuition discriminate|]. split; [exact wf_giveup|].
  vm_compute in E. injection E as <-. cbn [w_dur w_msgs].
  split; [reflexivity|]. split; [left; reflexivity|]. split; [cbn; lia|].
  eexists. eexists. split; [reflexivity|]. split; [reflexivity|]. cbn. lia.
Qed.

(* failed Store attempts that are retried until one succeeds change nothing *)
Example store_fail_retry_ok :
  exists w, run fixed (init_world c_plain nodes0)
              [ ACoordRestart [1%N; 2%N; 3%N]; ACoordStartElection; ACoordStoreFail; ACoordStoreFail; ACoordStore;
                ACoordSendNewTerm 1%N ] = Some w /\
            w_dur w = DCell (mkCell 3 [1%N; 2%N; 3%N] [] None SElection) /\ w_msgs w = [MNewTerm 1 1%N 3].
Proof. eexists. split; [vm_compute; reflexivity|]. split; reflexivity. Qed.

(* ---- non-vacuity: a complete election with a coordinator crash in the middle, on the fixed code *)
Definition tr_full : list action :=
  [ ACoordRestart [1%N; 2%N; 3%N]; ACoordStartElection; ACoordStore; ACoordSendNewTerm 1%N; ACoordSendNewTerm 3%N;
    ANodeNewTerm 1 1%N 3 h15;
    ACoordCrash;                                   (* NewTerm(3) is out, node 1 is fenced in 3 *)
    ACoordRestart [1%N; 2%N; 3%N]; ACoordStartElection; ACoordStore;   (* term 4 *)
    ACoordSendNewTerm 1%N; ACoordSendNewTerm 2%N; ACoordSendNewTerm 3%N;
    ANodeNewTerm 2 2%N 4 h13; ACoordRecvNewTermResp 2%N (ROk h13);
    ANodeNewTerm 1 3%N 3 h13;                      (* late NewTerm of the superseded election reaches node 3 *)
    ANodeNewTerm 2 1%N 4 h15; ACoordRecvNewTermResp 1%N (ROk h15);
    ACoordGraceTimeout;                            (* node 3 does not answer in time *)
    ACoordDecide 0; ACoordSendBecomeLeader;
    ANodeBecomeLeader 2 1%N 4 [(2%N, h13)];
    ACoordRecvBecomeLeaderResp true; ACoordStore;
    ANodeFollow 2%N 4;
    ACoordRefence 3%N; ANodeNewTerm 2 3%N 4 h13;
    ANodeCrash 1%N; ANodeRestart 1%N;
    ANodeNewTerm 1 1%N 3 h15 ].                    (* a stale NewTerm(3) after the restart of node 1: refused *)

Lemma wf_full : wf_run fixed (init_world c_plain nodes0) tr_full.
Proof. solve_wf. Qed.

Example full_trace_ok :
  exists w, run fixed (init_world c_plain nodes0) tr_full = Some w /\
            store_sound tr_full /\ wf_run fixed (init_world c_plain nodes0) tr_full /\
            w_wasleader w = [(1%N, 4)] /\ map b_leader (w_bl w) = [1%N] /\
            n_dterm (w_nodes w 1%N) = 4 /\ n_dterm (w_nodes w 3%N) = 4 /\
            w_dur w = DCell (mkCell 4 [1%N; 2%N; 3%N] [] (Some 1%N) SSteady).
Proof.
  destruct (run fixed (init_world c_plain nodes0) tr_full) as [w|] eqn:E; [|vm_compute in E; discriminate].
  exists w. split; [reflexivity|]. split; [solve_atomic|]. split; [exact wf_full|].
  vm_compute in E. injection E as <-. cbn. repeat split; reflexivity.
Qed.

(* selectNewLeader: three maximal heads, every one of them can be chosen, nobody else *)
Example select_example :
  let resp := [(1%N, mkEid 3 7); (2%N, mkEid 3 8); (3%N, mkEid 2 30); (4%N, mkEid 3 8)] in
  candidates resp = [2%N; 4%N] /\
  select_new_leader resp 1 = Some (4%N, [(1%N, mkEid 3 7); (2%N, mkEid 3 8); (3%N, mkEid 2 30)]).
Proof. vm_compute. split; reflexivity. Qed.

(* node side: lower term refused, equal term accepted only while FENCED, restart keeps the term *)
Example node_example :
  map (fun x => fst (fst x)) (node_run node_init [NONewTerm 5; NONewTerm 3; NONewTerm 5; NOBecomeLeader 5; NONewTerm 5; NORestart; NONewTerm 4; NOBecomeLeader 5])
  = [Ok; InvalidTerm; Ok; Ok; InvalidStatus; Ok; InvalidTerm; Ok] /\
  map (fun x => snd (fst x)) (node_run node_init [NONewTerm 5; NONewTerm 3; NONewTerm 5; NOBecomeLeader 5; NONewTerm 5; NORestart; NONewTerm 4; NOBecomeLeader 5])
  = [5; 5; 5; 5; 5; 5; 5; 5].
Proof. vm_compute. split; reflexivity. Qed.

(* a node swap whose election fails after BecomeLeader (deletingRemovedNodes: DeleteShard of the removed node fails):
   electLeader returns, the in-memory term stays the issued one, and whatever election comes next (a retry, the next
   swap) takes a new term.  The transitions exist in the model (ACoordSwap, ACoordElectionFailed from every failing
   step), so c05_restart_never_reuses covers them; a controller that restored an older copy of its metadata instead
   (seeded r8) is outside these transitions and is caught by the swapf cases of the coord leg. *)
Example swap_election_fails_after_become_leader :
  exists w k, run fixed (init_world (mkCell 5 [1%N; 2%N; 3%N] [] (Some 1%N) SSteady) nodes0)
      [ ACoordRestart [1%N; 2%N; 3%N]; ACoordSwap 3%N 4%N; ACoordStore;
        ACoordSendNewTerm 1%N; ACoordSendNewTerm 2%N; ACoordSendNewTerm 4%N; ACoordSendNewTerm 3%N;
        ANodeNewTerm 1 1%N 6 h13; ACoordRecvNewTermResp 1%N (ROk h13);
        ANodeNewTerm 1 2%N 6 h13; ACoordRecvNewTermResp 2%N (ROk h13);
        ANodeNewTerm 1 4%N 6 h13; ACoordRecvNewTermResp 4%N (ROk h13);
        ANodeNewTerm 1 3%N 6 h13; ACoordRecvNewTermResp 3%N (ROk h13);
        ACoordDecide 0; ACoordSendBecomeLeader; ANodeBecomeLeader 1 1%N 6 [(2%N, h13); (4%N, h13)];
        ACoordRecvBecomeLeaderResp true;
        ACoordElectionFailed;                       (* DeleteShard(3) failed *)
        ACoordSwap 2%N 5%N ] = Some w /\
    w_coord w = Some k /\ c_term (k_md k) = 7 /\ c_ens (k_md k) = [1%N; 4%N; 5%N] /\ c_rem (k_md k) = [3%N; 2%N] /\
    w_wasleader w = [(1%N, 6)].
Proof. eexists. eexists. split; [vm_compute; reflexivity|]. split; [reflexivity|]. repeat split; reflexivity. Qed.
