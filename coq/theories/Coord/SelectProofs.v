(* Proofs about the pure functions of Model.v: selectNewLeader (any map iteration order, any tie-break) and the two
   loops of newTermQuorum. *)
From Coq Require Import List NArith ZArith Bool Arith Lia Permutation.
From Oxia.Coord Require Import Model.
Import ListNotations.
Open Scope Z_scope.

(* ------------------------------------------------------------------ *)
(* the order on heads                                                   *)

Lemma eid_le_refl a : eid_le a a.
Proof. unfold eid_le; lia. Qed.

Lemma eid_le_trans a b c : eid_le a b -> eid_le b c -> eid_le a c.
Proof. unfold eid_le; lia. Qed.

Lemma eid_le_antisym a b : eid_le a b -> eid_le b a -> a = b.
Proof. destruct a, b; unfold eid_le; cbn; intros; f_equal; lia. Qed.

Lemma eid_le_total a b : eid_le a b \/ eid_le b a.
Proof. unfold eid_le; lia. Qed.

Lemma eid_leb_spec a b : eid_leb a b = true <-> eid_le a b.
Proof.
  unfold eid_leb, eid_le. rewrite orb_true_iff, andb_true_iff, Z.ltb_lt, Z.eqb_eq, Z.leb_le. tauto.
Qed.

(* ------------------------------------------------------------------ *)
(* selectNewLeader                                                      *)

Definition sel_head (st : sel) : eid := mkEid (s_mt st) (s_mo st).
Definition floor : eid := mkEid (-1) (-1).

Record sel_inv (l : list (server * eid)) (st : sel) : Prop := {
  si_floor : eid_le floor (sel_head st);
  si_upper : forall a h, In (a, h) l -> eid_le h (sel_head st);
  si_cands : forall a, In a (s_c st) <-> exists h, In (a, h) l /\ h = sel_head st;
  si_attained : sel_head st = floor \/ exists a h, In (a, h) l /\ h = sel_head st
}.

Lemma sel_inv_init : sel_inv [] sel_init.
Proof.
  constructor; cbn.
  - apply eid_le_refl.
  - intros ? ? [].
  - intros a; split; [intros [] | intros (h & [] & _)].
  - left; reflexivity.
Qed.

Lemma sel_inv_step l st x : sel_inv l st -> sel_inv (l ++ [x]) (sel_step st x).
Proof.
  intros [Hf Hu Hc Ha]. destruct x as [a h]. destruct h as [ht ho].
  unfold sel_step; cbn [fst snd e_term e_off].
  unfold sel_head, floor, eid_le in *; cbn [e_term e_off s_mt s_mo s_c] in *.
  destruct (Z.gtb_spec ht (s_mt st)) as [Hgt|Hle].
  { constructor; unfold sel_head, floor, eid_le; cbn [e_term e_off s_mt s_mo s_c].
    - lia.
    - intros b hb Hin. apply in_app_or in Hin. destruct Hin as [Hin|[Heq|[]]].
      + specialize (Hu _ _ Hin). lia.
      + inversion Heq; subst; cbn. lia.
    - intros b; split.
      + intros [<-|[]]. exists (mkEid ht ho). split; [apply in_or_app; right; left; reflexivity | reflexivity].
      + intros (hb & Hin & ->). apply in_app_or in Hin. destruct Hin as [Hin|[Heq|[]]].
        * specialize (Hu _ _ Hin). cbn in Hu. lia.
        * inversion Heq; subst. left; reflexivity.
    - right. exists a, (mkEid ht ho). split; [apply in_or_app; right; left; reflexivity | reflexivity]. }
  destruct (Z.eqb_spec ht (s_mt st)) as [Heq|Hne].
  2:{ (* strictly older term: ignored *)
    constructor; unfold sel_head, floor, eid_le; cbn [e_term e_off s_mt s_mo s_c].
    - exact Hf.
    - intros b hb Hin. apply in_app_or in Hin. destruct Hin as [Hin|[E|[]]].
      + exact (Hu _ _ Hin).
      + inversion E; subst; cbn. lia.
    - intros b; rewrite Hc; split.
      + intros (hb & Hin & E). exists hb. split; [apply in_or_app; left; exact Hin | exact E].
      + intros (hb & Hin & E). apply in_app_or in Hin. destruct Hin as [Hin|[E'|[]]].
        * exists hb; split; assumption.
        * injection E' as Ea Eh. rewrite <- Eh in E. inversion E. lia.
    - destruct Ha as [Ha|(b & hb & Hin & E)]; [left; exact Ha|right].
      exists b, hb. split; [apply in_or_app; left; exact Hin | exact E]. }
  subst ht.
  destruct (Z.gtb_spec ho (s_mo st)) as [Hgo|Hlo].
  { constructor; unfold sel_head, floor, eid_le; cbn [e_term e_off s_mt s_mo s_c].
    - lia.
    - intros b hb Hin. apply in_app_or in Hin. destruct Hin as [Hin|[E|[]]].
      + specialize (Hu _ _ Hin). lia.
      + inversion E; subst; cbn. lia.
    - intros b; split.
      + intros [<-|[]]. exists (mkEid (s_mt st) ho). split; [apply in_or_app; right; left; reflexivity | reflexivity].
      + intros (hb & Hin & ->). apply in_app_or in Hin. destruct Hin as [Hin|[E|[]]].
        * specialize (Hu _ _ Hin). cbn in Hu. lia.
        * inversion E; subst. left; reflexivity.
    - right. exists a, (mkEid (s_mt st) ho). split; [apply in_or_app; right; left; reflexivity | reflexivity]. }
  destruct (Z.eqb_spec ho (s_mo st)) as [Heo|Hno].
  { subst ho.
    constructor; unfold sel_head, floor, eid_le; cbn [e_term e_off s_mt s_mo s_c].
    - exact Hf.
    - intros b hb Hin. apply in_app_or in Hin. destruct Hin as [Hin|[E|[]]].
      + exact (Hu _ _ Hin).
      + inversion E; subst; cbn. lia.
    - intros b; rewrite in_app_iff, Hc; split.
      + intros [(hb & Hin & E)|[<-|[]]].
        * exists hb. split; [apply in_or_app; left; exact Hin | exact E].
        * exists (mkEid (s_mt st) (s_mo st)). split; [apply in_or_app; right; left; reflexivity | reflexivity].
      + intros (hb & Hin & E). apply in_app_or in Hin. destruct Hin as [Hin|[E'|[]]].
        * left. exists hb; split; assumption.
        * inversion E'; subst. right; left; reflexivity.
    - right. exists a, (mkEid (s_mt st) (s_mo st)).
      split; [apply in_or_app; right; left; reflexivity | reflexivity]. }
  (* same term, lower offset: ignored *)
  constructor; unfold sel_head, floor, eid_le; cbn [e_term e_off s_mt s_mo s_c].
  - exact Hf.
  - intros b hb Hin. apply in_app_or in Hin. destruct Hin as [Hin|[E|[]]].
    + exact (Hu _ _ Hin).
    + inversion E; subst; cbn. lia.
  - intros b; rewrite Hc; split.
    + intros (hb & Hin & E). exists hb. split; [apply in_or_app; left; exact Hin | exact E].
    + intros (hb & Hin & E). apply in_app_or in Hin. destruct Hin as [Hin|[E'|[]]].
      * exists hb; split; assumption.
      * injection E' as Ea Eh. rewrite <- Eh in E. inversion E. lia.
  - destruct Ha as [Ha|(b & hb & Hin & E)]; [left; exact Ha|right].
    exists b, hb. split; [apply in_or_app; left; exact Hin | exact E].
Qed.

Lemma sel_inv_fold l : sel_inv l (fold_left sel_step l sel_init).
Proof.
  induction l as [|x l IH] using rev_ind.
  - apply sel_inv_init.
  - rewrite fold_left_app. cbn [fold_left]. apply sel_inv_step. exact IH.
Qed.

(* The candidate list is exactly the set of servers whose head is maximal (and not below the initial (-1,-1)). *)
Theorem candidates_spec resp a :
  In a (candidates resp) <->
  exists h, In (a, h) resp /\ (forall b hb, In (b, hb) resp -> eid_le hb h) /\ eid_le floor h.
Proof.
  unfold candidates. pose proof (sel_inv_fold resp) as [Hf Hu Hc Ha].
  set (st := fold_left sel_step resp sel_init) in *.
  rewrite Hc. split.
  - intros (h & Hin & ->). exists (sel_head st). repeat split; auto.
  - intros (h & Hin & Hmax & Hfl). exists h. split; [exact Hin|].
    apply eid_le_antisym; [apply (Hu _ _ Hin)|].
    destruct Ha as [E|(b & hb & Hb & E)].
    + rewrite E. exact Hfl.
    + rewrite <- E. apply (Hmax _ _ Hb).
Qed.

(* The set of admissible leaders does not depend on the order in which the Go map is iterated. *)
Theorem candidates_perm resp resp' a :
  Permutation resp resp' -> In a (candidates resp) <-> In a (candidates resp').
Proof.
  intros HP. rewrite !candidates_spec. split; intros (h & Hin & Hmax & Hfl); exists h; repeat split; auto.
  - eapply Permutation_in; eauto.
  - intros b hb Hb. apply (Hmax b hb). eapply Permutation_in; [apply Permutation_sym|]; eauto.
  - eapply Permutation_in; [apply Permutation_sym|]; eauto.
  - intros b hb Hb. apply (Hmax b hb). eapply Permutation_in; eauto.
Qed.

Lemma select_in_candidates resp k l fs :
  select_new_leader resp k = Some (l, fs) -> In l (candidates resp) /\ fs = followers_of l resp.
Proof.
  unfold select_new_leader. destruct (candidates resp) as [|c cs] eqn:E; [discriminate|].
  remember (nth (k mod length (c :: cs)) (c :: cs) c) as x eqn:Hx.
  intros H. injection H as <- <-. split; [|reflexivity].
  rewrite Hx. apply nth_In. apply Nat.mod_upper_bound. discriminate.
Qed.

(* every admissible leader is the result for some tie-break value *)
Lemma select_reaches_every_candidate resp l :
  In l (candidates resp) -> exists k, select_new_leader resp k = Some (l, followers_of l resp).
Proof.
  unfold select_new_leader. destruct (candidates resp) as [|c cs] eqn:E; [intros []|].
  intros Hin. destruct (In_nth _ _ c Hin) as (k & Hk & Hn). exists k.
  rewrite Nat.mod_small by exact Hk. rewrite Hn. reflexivity.
Qed.

Lemma followers_of_spec l resp r h :
  In (r, h) (followers_of l resp) <-> In (r, h) resp /\ r <> l.
Proof.
  unfold followers_of. rewrite filter_In. cbn [fst]. rewrite negb_true_iff, N.eqb_neq. tauto.
Qed.

(* C05, "best log wins": whatever order the response map is iterated in and whatever rand.Intn returns, the
   selected leader is a responder whose head is >= every response's head, and the followers are the other responses. *)
Theorem select_new_leader_max resp resp' k l fs :
  Permutation resp resp' ->
  select_new_leader resp' k = Some (l, fs) ->
  (exists hl, In (l, hl) resp /\ forall r h, In (r, h) resp -> eid_le h hl) /\
  (forall r h, In (r, h) fs <-> In (r, h) resp /\ r <> l).
Proof.
  intros HP Hsel. apply select_in_candidates in Hsel. destruct Hsel as [Hc ->].
  apply (candidates_perm _ _ l HP) in Hc. apply candidates_spec in Hc.
  destruct Hc as (h & Hin & Hmax & _). split.
  - exists h. split; [exact Hin | exact Hmax].
  - intros r hr. rewrite followers_of_spec. split; intros [H1 H2]; split; auto.
    + eapply Permutation_in; [apply Permutation_sym|]; eauto.
    + eapply Permutation_in; eauto.
Qed.

(* no panic when there is at least one response and heads are the ones a node can report (>= (-1,-1)) *)
Theorem select_new_leader_no_panic resp k :
  resp <> [] -> (forall a h, In (a, h) resp -> eid_le floor h) -> select_new_leader resp k <> None.
Proof.
  intros Hne Hwf. unfold select_new_leader.
  destruct (candidates resp) as [|c cs] eqn:E; [|discriminate]. exfalso.
  pose proof (sel_inv_fold resp) as [Hf Hu Hc Ha]. unfold candidates in E. rewrite E in Hc.
  destruct Ha as [Ef|(b & hb & Hb & Eb)].
  - destruct resp as [|[a h] tl]; [congruence|].
    assert (Hin : In (a, h) ((a, h) :: tl)) by (left; reflexivity).
    apply (Hc a). exists h. split; [exact Hin|].
    apply eid_le_antisym; [apply (Hu _ _ Hin)|]. rewrite Ef. apply (Hwf _ _ Hin).
  - apply (Hc b). exists hb. split; assumption.
Qed.

(* the shipped selectNewLeader panics on an empty response map: rand.Intn(0) *)
Lemma select_new_leader_empty_panics k : select_new_leader [] k = None.
Proof. reflexivity. Qed.

(* ------------------------------------------------------------------ *)
(* Go map assignment                                                    *)

Lemma NoDup_app_snoc {A} (l : list A) x : NoDup l -> ~ In x l -> NoDup (l ++ [x]).
Proof.
  induction l as [|y tl IH]; cbn; intros Hnd Hn.
  - constructor; [intros []|constructor].
  - inversion Hnd; subst. constructor.
    + rewrite in_app_iff. intros [H|[H|[]]]; [contradiction|]. subst. apply Hn; left; reflexivity.
    + apply IH; [assumption|]. intro; apply Hn; right; assumption.
Qed.

Lemma map_put_in_keys s h m r : In r (map fst (map_put s h m)) <-> r = s \/ In r (map fst m).
Proof.
  induction m as [|[s' h'] tl IH]; cbn.
  - split; [intros [E|[]]; auto | intros [E|[]]; auto].
  - destruct (N.eqb_spec s' s) as [->|Hne]; cbn.
    + split; [intros [E|H]; auto | intros [E|[E|H]]; auto].
    + rewrite IH. split; [intros [E|[E|H]]; auto | intros [E|[E|H]]; auto].
Qed.

Lemma map_put_fresh s h m : ~ In s (map fst m) -> map_put s h m = m ++ [(s, h)].
Proof.
  induction m as [|[s' h'] tl IH]; cbn; [reflexivity|].
  intros Hn. destruct (N.eqb_spec s' s) as [->|Hne]; [exfalso; apply Hn; left; reflexivity|].
  rewrite IH; [reflexivity|]. intro; apply Hn; right; assumption.
Qed.

(* ------------------------------------------------------------------ *)
(* the two loops of newTermQuorum                                       *)

Definition qphase_running (p : qphase) : Prop := p = QWaitMajority \/ p = QGrace.

(* what holds of the loop state when every taken response came from a server not seen before *)
Record qinv (ens : list server) (size : nat) (q : qstate) : Prop := {
  qi_res_ens : forall s h, In (s, h) (q_res q) -> In s ens;
  qi_oks_res : forall s h, In (s, h) (q_oks q) -> In s ens -> In (s, h) (q_res q);
  qi_res_oks : forall s h, In (s, h) (q_res q) -> In (s, h) (q_oks q);
  qi_oks_from : incl (map fst (q_oks q)) (q_from q);
  qi_oks_nodup : NoDup (map fst (q_oks q));
  qi_succ : (q_succ q <= length (q_oks q))%nat;
  qi_majority : q_phase q = QGrace \/ q_phase q = QDone -> (majority_of size <= q_succ q)%nat
}.

Lemma qinv_init ens size : qinv ens size q_init.
Proof.
  constructor; cbn; try (intros; contradiction); auto.
  - intros x [].
  - constructor.
  - intros [H|H]; discriminate.
Qed.

Lemma qinv_set_phase ens size q p :
  qinv ens size q -> (p = QGrace \/ p = QDone -> (majority_of size <= q_succ q)%nat) -> qinv ens size (set_phase q p).
Proof. intros [] Hp. constructor; cbn; auto. Qed.

Lemma q_settle_inv ens size q : qinv ens size q -> qinv ens size (q_settle size q).
Proof.
  intros Hq. unfold q_settle.
  destruct (q_phase q) eqn:Hph; auto.
  - destruct ((q_succ q <? majority_of size)%nat) eqn:Hs; cbn [andb].
    + destruct ((q_total q <? size)%nat); [exact Hq|].
      apply qinv_set_phase; [exact Hq|]. intros [H|H]; discriminate.
    + apply Nat.ltb_ge in Hs.
      destruct (negb (q_err q) && (q_total q <? size)%nat); apply qinv_set_phase; auto.
  - destruct (negb (q_err q) && (q_total q <? size)%nat); [exact Hq|].
    apply qinv_set_phase; [exact Hq|]. intros _. apply (qi_majority _ _ _ Hq). left; exact Hph.
Qed.

Lemma q_settle_from size q : q_from (q_settle size q) = q_from q /\ q_oks (q_settle size q) = q_oks q
                              /\ q_res (q_settle size q) = q_res q.
Proof.
  unfold q_settle. destruct (q_phase q);
    repeat match goal with |- context [if ?c then _ else _] => destruct c end; cbn; auto.
Qed.

(* taking one response with the ensemble guard on, from a server not seen before *)
Lemma q_take_inv ens size q s o :
  qinv ens size q -> ~ In s (q_from q) -> qphase_running (q_phase q) ->
  qinv ens size (q_take ens true q s o).
Proof.
  intros Hq Hfresh Hrun. destruct Hq as [H1 H2 H3 H4 H5 H6 H7].
  assert (Hnk : ~ In s (map fst (q_res q))).
  { intros Hin. apply in_map_iff in Hin. destruct Hin as ([s' h'] & E & Hin). cbn in E; subst s'.
    apply Hfresh, H4. apply in_map_iff. exists (s, h'). split; [reflexivity | apply (H3 _ _ Hin)]. }
  assert (Hno : ~ In s (map fst (q_oks q))) by (intro; apply Hfresh, H4; assumption).
  destruct o as [h|]; cbn [q_take negb orb].
  - constructor; cbn [q_res q_oks q_from q_succ q_phase].
    + intros s' h'. destruct (list_contains ens s) eqn:Hc.
      * rewrite (map_put_fresh _ _ _ Hnk), in_app_iff. intros [Hin|[E|[]]]; [eauto|].
        inversion E; subst. unfold list_contains in Hc. apply existsb_exists in Hc.
        destruct Hc as (x & Hx & Ex). apply N.eqb_eq in Ex. subst; exact Hx.
      * eauto.
    + intros s' h'. rewrite in_app_iff. intros [Hin|[E|[]]] Hens.
      * destruct (list_contains ens s); [rewrite (map_put_fresh _ _ _ Hnk); apply in_or_app; left|]; eauto.
      * inversion E; subst.
        assert (Hc : list_contains ens s' = true).
        { unfold list_contains. apply existsb_exists. exists s'. split; [exact Hens | apply N.eqb_refl]. }
        rewrite Hc, (map_put_fresh _ _ _ Hnk). apply in_or_app; right; left; reflexivity.
    + intros s' h'. destruct (list_contains ens s).
      * rewrite (map_put_fresh _ _ _ Hnk), !in_app_iff. intros [Hin|Hin]; [left; eauto | right; exact Hin].
      * intros Hin. apply in_or_app; left; eauto.
    + rewrite map_app. cbn. intros x Hx. apply in_app_or in Hx. apply in_or_app.
      destruct Hx as [Hx|Hx]; [left; apply H4; exact Hx | right; exact Hx].
    + rewrite map_app. cbn. apply NoDup_app_snoc; assumption.
    + rewrite app_length. cbn. destruct (q_phase q); lia.
    + intros Hp. destruct Hrun as [E|E]; rewrite E in *; [destruct Hp; discriminate|].
      apply H7. left; reflexivity.
  - constructor; cbn [q_res q_oks q_from q_succ q_phase]; auto.
    intros x Hx. apply in_or_app; left; apply H4; exact Hx.
Qed.
