(* Invariants of the election transition system of Model.v, for every trace (any order and subset of NewTerm answers,
   coordinator crashes between any two steps, node crashes/restarts, late and duplicated messages). *)
From Coq Require Import List NArith ZArith Bool Arith Lia Permutation.
From Oxia.Coord Require Import Model SelectProofs NodeProofs.
Import ListNotations.
Open Scope Z_scope.

(* ------------------------------------------------------------------ *)
(* generic case analysis of one step                                    *)

Ltac world_fields := cbn [Model.w_dur Model.w_coord Model.w_inc Model.w_nodes Model.w_msgs Model.w_wasleader
                          Model.w_answered Model.w_bl set_coord set_dur_coord add_msg Model.k_md Model.k_phase] in *.

Ltac step_cases H :=
  unfold step in H; world_fields;
  repeat match type of H with
  | context [match ?x with _ => _ end] => destruct x eqn:?; try discriminate H
  end;
  try (injection H as <-); world_fields.

Lemma has_msg_in m l : has_msg m l = true -> In m l.
Proof. unfold has_msg. destruct (in_dec msg_eq_dec m l); [auto|discriminate]. Qed.

Lemma list_contains_in l s : list_contains l s = true <-> In s l.
Proof.
  unfold list_contains. rewrite existsb_exists. split.
  - intros (x & Hx & E). apply N.eqb_eq in E. subst; exact Hx.
  - intros H. exists s. split; [exact H | apply N.eqb_refl].
Qed.

Lemma in_snoc {A} (x y : A) l : In x (l ++ [y]) <-> In x l \/ x = y.
Proof. rewrite in_app_iff. cbn. intuition. Qed.

(* ------------------------------------------------------------------ *)
(* 1. nodes: the known term never decreases                             *)

Definition nodes_ok (w : world) : Prop := forall n, node_ok (w_nodes w n).

Lemma upd_node_same f s n : upd_node f s n s = n.
Proof. unfold upd_node. rewrite N.eqb_refl. reflexivity. Qed.

Lemma upd_node_cases f s n x : (x = s /\ upd_node f s n x = n) \/ (x <> s /\ upd_node f s n x = f x).
Proof. unfold upd_node. destruct (N.eqb_spec x s); auto. Qed.

Lemma step_nodes_ok v w a w' : step v w a = Some w' -> nodes_ok w -> nodes_ok w'.
Proof.
  intros H Hok. destruct w as [dur co inc nodes msgs wl ans bl]. unfold nodes_ok in *; world_fields.
  destruct a; step_cases H; auto; intros x;
    match goal with
    | |- node_ok (upd_node ?f ?s ?n x) => destruct (upd_node_cases f s n x) as [[-> ->]|[_ ->]]; auto
    end.
  all: try match goal with
    | E : node_new_term ?n ?t = (?nd, _) |- node_ok ?nd =>
        change nd with (fst (nd, Ok)); replace nd with (fst (node_new_term n t)) by (rewrite E; reflexivity);
        apply node_new_term_ok; auto
    | E : node_become_leader ?n ?t = (?nd, _) |- node_ok ?nd =>
        replace nd with (fst (node_become_leader n t)) by (rewrite E; reflexivity);
        apply node_become_leader_ok; auto
    | E : node_follow ?n ?t = (?nd, _) |- node_ok ?nd =>
        replace nd with (fst (node_follow n t)) by (rewrite E; reflexivity);
        apply node_follow_ok; auto
    end.
  all: try (unfold node_ok; cbn; exact I).
Qed.

(* C05: over every step of every trace, the durable term and the term the node knows do not decrease *)
Lemma step_node_term_monotone v w a w' n :
  step v w a = Some w' -> nodes_ok w ->
  n_dterm (w_nodes w n) <= n_dterm (w_nodes w' n) /\ known_term (w_nodes w n) <= known_term (w_nodes w' n).
Proof.
  intros H Hok. destruct w as [dur co inc nodes msgs wl ans bl]. unfold nodes_ok in *; world_fields.
  destruct a; step_cases H; try lia;
    match goal with
    | |- context [upd_node ?f ?s ?nd n] => destruct (upd_node_cases f s nd n) as [[-> ->]|[_ ->]]; try lia
    end.
  all: try match goal with
    | E : node_new_term ?x ?t = (?nd, _) |- _ =>
        replace nd with (fst (node_new_term x t)) by (rewrite E; reflexivity); apply node_new_term_mono; auto
    | E : node_become_leader ?x ?t = (?nd, _) |- _ =>
        replace nd with (fst (node_become_leader x t)) by (rewrite E; reflexivity);
        destruct (node_become_leader_term x t) as [E1 L1]; rewrite E1; split; [lia | apply L1; auto]
    | E : node_follow ?x ?t = (?nd, _) |- _ =>
        replace nd with (fst (node_follow x t)) by (rewrite E; reflexivity);
        destruct (node_follow_term x t) as [E1 L1]; rewrite E1; split; [lia | apply L1; auto]
    end.
  - destruct (known_term_crash (nodes n0) (Hok n0)) as [E _]. rewrite E. cbn. lia.
  - destruct (known_term_crash (nodes n0) (Hok n0)) as [_ E]. rewrite E. cbn. lia.
Qed.

Lemma run_nodes_ok v tr : forall w w', run v w tr = Some w' -> nodes_ok w -> nodes_ok w'.
Proof.
  induction tr as [|a tl IH]; cbn; intros w w' H Hok; [inversion H; subst; auto|].
  destruct (step v w a) eqn:E; [|discriminate]. eapply IH; eauto. eapply step_nodes_ok; eauto.
Qed.

Theorem node_term_monotone v tr : forall w w' n,
  run v w tr = Some w' -> nodes_ok w ->
  n_dterm (w_nodes w n) <= n_dterm (w_nodes w' n) /\ known_term (w_nodes w n) <= known_term (w_nodes w' n).
Proof.
  induction tr as [|a tl IH]; cbn; intros w w' n H Hok; [inversion H; subst; lia|].
  destruct (step v w a) eqn:E; [|discriminate].
  pose proof (step_node_term_monotone _ _ _ _ n E Hok).
  pose proof (IH _ _ n H (step_nodes_ok _ _ _ _ E Hok)). lia.
Qed.

(* ------------------------------------------------------------------ *)
(* 2. terms: durable before use, never reused, one BecomeLeader target per term                                   *)

Definition bl_below (msgs : list msg) (bound : Z) : Prop :=
  forall i n t fm, In (MBecomeLeader i n t fm) msgs -> t < bound.
Definition bl_upto (msgs : list msg) (bound : Z) (l : server) : Prop :=
  forall i n t fm, In (MBecomeLeader i n t fm) msgs -> t <= bound /\ (t = bound -> n = l).

Record inv_terms (w : world) : Prop := {
  it_dur : exists d, w_dur w = DCell d;
  it_md : forall d k, w_dur w = DCell d -> w_coord w = Some k ->
          match k_phase k with
          | PStore1 => c_term (k_md k) = c_term d + 1
          | _ => c_term (k_md k) = c_term d
          end;
  it_nt : forall d i n t, w_dur w = DCell d -> In (MNewTerm i n t) (w_msgs w) -> t <= c_term d;
  it_bl : forall d i n t fm, w_dur w = DCell d -> In (MBecomeLeader i n t fm) (w_msgs w) -> t <= c_term d;
  it_bl_unique : forall i1 n1 t fm1 i2 n2 fm2,
          In (MBecomeLeader i1 n1 t fm1) (w_msgs w) -> In (MBecomeLeader i2 n2 t fm2) (w_msgs w) -> n1 = n2;
  it_bl_phase : forall k, w_coord w = Some k ->
          match k_phase k with
          | PIdle => True
          | PStore1 | PFencing _ _ | PDecided _ _ _ => bl_below (w_msgs w) (c_term (k_md k))
          | PBecomeSent l _ | PBecomeAcked l _ => bl_upto (w_msgs w) (c_term (k_md k)) l
          end;
  it_wasleader : forall n t, In (n, t) (w_wasleader w) -> exists i fm, In (MBecomeLeader i n t fm) (w_msgs w)
}.

Lemma inv_terms_init c0 nodes : inv_terms (init_world c0 nodes).
Proof.
  constructor; cbn; try (intros; contradiction); try discriminate; eauto.
Qed.

Ltac inv_msgs :=
  repeat match goal with
  | H : In _ (_ ++ [_]) |- _ => apply in_snoc in H; destruct H as [H|H]; [|inversion H; subst; clear H]
  end.

Ltac md_terms := cbn [Model.k_md Model.k_phase start_md elected_md initial_md Model.c_term] in *.

Lemma step_inv_terms v w a w' :
  step v w a = Some w' -> a <> ACoordStoreTruncate -> a <> ACoordStoreGiveUp -> inv_terms w -> inv_terms w'.
Proof.
  intros H Hna Hng [Hd Hmd Hnt Hbl Hun Hph Hwl].
  destruct w as [dur co inc nodes msgs wl ans bl]. world_fields.
  destruct Hd as [d ->].
  assert (Hnt' : forall i n t, In (MNewTerm i n t) msgs -> t <= c_term d) by (intros; eapply Hnt; eauto).
  assert (Hbl' : forall i n t fm, In (MBecomeLeader i n t fm) msgs -> t <= c_term d) by (intros; eapply Hbl; eauto).
  clear Hnt Hbl.
  destruct a; try congruence; step_cases H.
  all: try (pose proof (Hmd d _ eq_refl eq_refl) as Hmdk; pose proof (Hph _ eq_refl) as Hphk;
            cbn [Model.k_md Model.k_phase] in Hmdk, Hphk).
  all: constructor; world_fields.
  (* it_dur *)
  all: try (solve [eauto]).
  (* it_md *)
  all: try (solve [intros d' k' Ed Ek; injection Ed as <-;
                   first [ exact (Hmd _ _ eq_refl Ek)
                         | discriminate Ek
                         | injection Ek as <-; md_terms; lia ]]).
  (* it_nt *)
  all: try (solve [intros d' i' n' t' Ed Hin; injection Ed as <-; inv_msgs; md_terms;
                   try (specialize (Hnt' _ _ _ Hin)); lia]).
  (* it_bl *)
  all: try (solve [intros d' i' n' t' fm' Ed Hin; injection Ed as <-; inv_msgs; md_terms;
                   try (specialize (Hbl' _ _ _ _ Hin)); lia]).
  (* it_bl_unique *)
  all: try (solve [intros i1 n1 t1 fm1 i2 n2 fm2 H1 H2; inv_msgs; md_terms; unfold bl_below in *;
                   first [ solve [eapply Hun; eauto]
                         | reflexivity
                         | exfalso; match goal with Hin : In (MBecomeLeader _ _ _ _) _ |- _ =>
                                      specialize (Hphk _ _ _ _ Hin); lia end ]]).
  (* it_bl_phase *)
  all: try (solve [intros k' Ek;
                   first [ discriminate Ek
                         | injection Ek as <-; md_terms; unfold bl_below, bl_upto in *;
                           first [ exact I
                                 | intros i' n' t' fm' Hin; inv_msgs;
                                   first [ solve [eauto]
                                         | specialize (Hbl' _ _ _ _ Hin); lia
                                         | specialize (Hphk _ _ _ _ Hin); split; [lia | intro; lia]
                                         | split; [lia | reflexivity] ] ]
                         | specialize (Hph k' Ek); destruct (k_phase k'); auto; unfold bl_below, bl_upto in *;
                           intros i' n' t' fm' Hin; inv_msgs; eauto ]]).
  (* it_wasleader *)
  all: try (solve [intros n' t' Hin; inv_msgs;
                   first [ destruct (Hwl _ _ Hin) as (i' & fm' & Hm); exists i', fm';
                           first [ exact Hm | apply in_snoc; left; exact Hm ]
                         | match goal with Hm : has_msg (MBecomeLeader ?i ?n ?t ?fm) _ = true |- _ =>
                             exists i, fm; apply in_snoc; left; apply has_msg_in; exact Hm end ]]).
Qed.

Lemma store_sound_cons a tl :
  store_sound (a :: tl) -> a <> ACoordStoreTruncate /\ a <> ACoordStoreGiveUp /\ store_sound tl.
Proof.
  unfold store_sound, store_atomic, store_persists. cbn. intros [H1 H2]. repeat split.
  - intro; subst; apply H1; left; reflexivity.
  - intro; subst; apply H2; left; reflexivity.
  - intro; apply H1; right; assumption.
  - intro; apply H2; right; assumption.
Qed.

Lemma run_inv_terms v tr : forall w w',
  run v w tr = Some w' -> store_sound tr -> inv_terms w -> inv_terms w'.
Proof.
  induction tr as [|a tl IH]; cbn; intros w w' H Hat Hi; [inversion H; subst; auto|].
  destruct (step v w a) eqn:E; [|discriminate]. apply store_sound_cons in Hat. destruct Hat as (Ha & Hg & Hat).
  eapply IH; eauto. eapply step_inv_terms; eauto.
Qed.

(* C05: the coordinator never issues a term it has not first made durable.  Under [store_atomic], at every point of
   every trace, every NewTerm and BecomeLeader ever sent carries a term <= the term in the durable metadata cell. *)
Theorem term_durable_before_use v c0 nodes tr w :
  run v (init_world c0 nodes) tr = Some w -> store_sound tr ->
  exists d, w_dur w = DCell d /\
    (forall i n t, In (MNewTerm i n t) (w_msgs w) -> t <= c_term d) /\
    (forall i n t fm, In (MBecomeLeader i n t fm) (w_msgs w) -> t <= c_term d).
Proof.
  intros H Hat. pose proof (run_inv_terms _ _ _ _ H Hat (inv_terms_init c0 nodes)) as [Hd _ Hnt Hbl _ _ _].
  destruct Hd as [d Hd]. exists d. split; [exact Hd|]. split; intros; [eapply Hnt | eapply Hbl]; eauto.
Qed.

(* C05: a (re)started coordinator never reuses or goes below a term already sent.  Whenever an election starts, in
   whatever incarnation, its term is strictly above every term that any incarnation ever put on the wire. *)
Theorem restart_never_reuses v c0 nodes tr w a w' k' :
  run v (init_world c0 nodes) tr = Some w -> store_sound tr ->
  (a = ACoordStartElection \/ exists from to, a = ACoordSwap from to) ->
  step v w a = Some w' -> w_coord w' = Some k' ->
  (forall i n t, In (MNewTerm i n t) (w_msgs w) -> t < c_term (k_md k')) /\
  (forall i n t fm, In (MBecomeLeader i n t fm) (w_msgs w) -> t < c_term (k_md k')).
Proof.
  intros H Hat Ha Hs Hk.
  pose proof (run_inv_terms _ _ _ _ H Hat (inv_terms_init c0 nodes)) as [Hd Hmd Hnt Hbl _ _ _].
  destruct Hd as [d Hd].
  destruct w as [dur co inc nds msgs wl ans bl]. world_fields. subst dur.
  assert (Hstart : exists md, co = Some (mkCoord md PIdle) /\ c_term (k_md k') = c_term md + 1).
  { destruct Ha as [->|(from & to & ->)]; step_cases Hs; injection Hk as <-; eexists; split; reflexivity. }
  destruct Hstart as (md & -> & Et).
  pose proof (Hmd d _ eq_refl eq_refl) as Hm. cbn in Hm.
  split; intros.
  - specialize (Hnt d _ _ _ eq_refl H0). lia.
  - specialize (Hbl d _ _ _ _ eq_refl H0). lia.
Qed.

(* a node whose controller is LEADER in term t was recorded as having served as leader in t *)
Definition inv_leader (w : world) : Prop :=
  forall n k t, n_ctrl (w_nodes w n) = Some (mkCtrl k t Leader) -> In (n, t) (w_wasleader w).

Lemma step_inv_leader v w a w' : step v w a = Some w' -> inv_leader w -> inv_leader w'.
Proof.
  intros H Hi. destruct w as [dur co inc nodes msgs wl ans bl]. unfold inv_leader in *; world_fields.
  destruct a; step_cases H; auto; intros x k0 t0;
    match goal with
    | |- context [upd_node ?f ?s ?n x] => destruct (upd_node_cases f s n x) as [[-> ->]|[_ ->]]; auto
    end; intros Hc.
  all: try match goal with
    | E : node_new_term ?nn ?tt = (?nd, _) |- _ =>
        assert (Hx : n_ctrl (fst (node_new_term nn tt)) = Some (mkCtrl k0 t0 Leader)) by (rewrite E; exact Hc);
        apply node_new_term_not_leader in Hx; first [ apply in_snoc; left; eauto | eauto ]
    | E : node_follow ?nn ?tt = (?nd, _) |- _ =>
        assert (Hx : n_ctrl (fst (node_follow nn tt)) = Some (mkCtrl k0 t0 Leader)) by (rewrite E; exact Hc);
        apply node_follow_not_leader in Hx; eauto
    | E : node_become_leader ?nn ?tt = (?nd, ?r) |- _ =>
        destruct (node_become_leader_leader _ _ _ _ _ _ E Hc) as [[Er Et]|[Er Hx]];
        [ subst; first [ apply in_snoc; right; reflexivity | congruence ]
        | first [ apply in_snoc; left; eauto | congruence | eauto ] ]
    end.
  all: try (cbn in Hc; discriminate).
  all: try (solve [eauto]).
  all: try (apply in_snoc; left; eauto).
Qed.

Lemma run_inv_leader v tr : forall w w', run v w tr = Some w' -> inv_leader w -> inv_leader w'.
Proof.
  induction tr as [|a tl IH]; cbn; intros w w' H Hi; [inversion H; subst; auto|].
  destruct (step v w a) eqn:E; [|discriminate]. eapply IH; eauto. eapply step_inv_leader; eauto.
Qed.

(* C05: for each shard at most one node ever serves as leader in a given term. *)
Theorem one_leader_per_term v c0 nodes tr w :
  run v (init_world c0 nodes) tr = Some w -> store_sound tr ->
  (forall n, n_ctrl (nodes n) = None) ->
  (* the ghost record is complete: every node that is LEADER now is in it *)
  (forall n k t, n_ctrl (w_nodes w n) = Some (mkCtrl k t Leader) -> In (n, t) (w_wasleader w)) /\
  (* and it names at most one node per term *)
  (forall n1 n2 t, In (n1, t) (w_wasleader w) -> In (n2, t) (w_wasleader w) -> n1 = n2).
Proof.
  intros H Hat Hn. split.
  - apply (run_inv_leader _ _ _ _ H). intros n k t E. cbn in E. rewrite Hn in E. discriminate.
  - pose proof (run_inv_terms _ _ _ _ H Hat (inv_terms_init c0 nodes)) as [_ _ _ _ Hun _ Hwl].
    intros n1 n2 t H1 H2. destruct (Hwl _ _ H1) as (i1 & fm1 & M1). destruct (Hwl _ _ H2) as (i2 & fm2 & M2).
    eapply Hun; eauto.
Qed.

(* ------------------------------------------------------------------ *)
(* 3. the decision: majority fenced, leader in the ensemble, best log wins                                        *)

Lemma nodup_app_iff {A} (a b : list A) :
  NoDup (a ++ b) <-> NoDup a /\ NoDup b /\ (forall x, In x a -> ~ In x b).
Proof.
  induction a as [|y tl IH]; cbn.
  - split; [intros H; repeat split; auto; constructor | intros (_ & H & _); exact H].
  - split.
    + intros H. inversion H as [|? ? Hn Hnd]; subst. apply IH in Hnd. destruct Hnd as (Ha & Hb & Hd).
      rewrite in_app_iff in Hn. repeat split; auto.
      * constructor; auto.
      * intros x [<-|Hx]; auto.
    + intros (Ha & Hb & Hd). inversion Ha as [|? ? Hn Hnd]; subst. constructor.
      * rewrite in_app_iff. intros [H|H]; [contradiction | apply (Hd y); auto].
      * apply IH. repeat split; auto.
Qed.

Lemma remove1_in n l x : In x (remove1 n l) -> In x l.
Proof.
  induction l as [|y tl IH]; cbn; [auto|]. destruct (N.eqb_spec y n); [auto|]. intros [<-|H]; auto.
Qed.

Lemma remove1_nodup n l : NoDup l -> NoDup (remove1 n l) /\ ~ In n (remove1 n l).
Proof.
  induction l as [|y tl IH]; cbn; intros H; [split; [constructor | intros []]|].
  inversion H as [|? ? Hn Hnd]; subst. destruct (N.eqb_spec y n) as [->|Hne]; [split; assumption|].
  destruct (IH Hnd) as [H1 H2]. split.
  - constructor; [intro Hx; apply Hn; eapply remove1_in; eauto | exact H1].
  - intros [E|Hx]; [contradiction | contradiction].
Qed.

Lemma remove1_move n w f :
  In n w -> NoDup (w ++ f) -> NoDup (remove1 n w ++ (f ++ [n])) /\ incl (remove1 n w ++ (f ++ [n])) (w ++ f).
Proof.
  intros Hin Hnd. apply nodup_app_iff in Hnd. destruct Hnd as (Hw & Hf & Hd).
  destruct (remove1_nodup n w Hw) as [Hr Hnr]. split.
  - apply nodup_app_iff. repeat split; auto.
    + apply NoDup_app_snoc; [exact Hf | apply Hd; exact Hin].
    + intros x Hx. rewrite in_app_iff. intros [Hxf|[<-|[]]].
      * apply (Hd x); [eapply remove1_in; eauto | exact Hxf].
      * contradiction.
  - intros x Hx. apply in_app_or in Hx. apply in_or_app. destruct Hx as [Hx|Hx].
    + left; eapply remove1_in; eauto.
    + apply in_app_or in Hx. destruct Hx as [Hx|[<-|[]]]; auto.
Qed.

Definition cell_nodup (c : cell) : Prop := NoDup (c_ens c ++ c_rem c).

Lemma swap_nodup ens rem from to :
  NoDup (ens ++ rem) -> In from ens -> ~ In to (ens ++ rem) -> from <> to ->
  NoDup (replace_in_list ens from to ++ (rem ++ [from])).
Proof.
  intros Hnd Hfrom Hto Hne. apply nodup_app_iff in Hnd. destruct Hnd as (He & Hr & Hd).
  rewrite in_app_iff in Hto.
  unfold replace_in_list. apply nodup_app_iff. repeat split.
  - apply NoDup_app_snoc; [apply NoDup_filter; exact He|].
    rewrite filter_In. intros [H _]. apply Hto; left; exact H.
  - apply NoDup_app_snoc; [exact Hr | apply Hd; exact Hfrom].
  - intros x Hx. rewrite in_app_iff in Hx. rewrite in_app_iff. destruct Hx as [Hx|[<-|[]]].
    + apply filter_In in Hx. destruct Hx as [Hx Hxf]. apply negb_true_iff, N.eqb_neq in Hxf.
      intros [H|[H|[]]]; [apply (Hd x); assumption | congruence].
    + intros [H|[H|[]]]; [apply Hto; right; exact H | congruence].
Qed.

Definition oks_answered (ans : list (server * Z * eid)) (t : Z) (oks : list (server * eid)) : Prop :=
  forall s h, In (s, h) oks -> In (s, t, h) ans.

Record fencing_ok (md : cell) (ans : list (server * Z * eid)) (q : qstate) (waiting : list server) : Prop := {
  fo_q : qinv (c_ens md) (length (c_ens md ++ c_rem md)) q;
  fo_nodup : NoDup (waiting ++ q_from q);
  fo_incl : incl (waiting ++ q_from q) (c_ens md ++ c_rem md);
  fo_ans : oks_answered ans (c_term md) (q_oks q)
}.

Record decided_ok (md : cell) (ans : list (server * Z * eid)) (q : qstate) (l : server) : Prop := {
  do_q : qinv (c_ens md) (length (c_ens md ++ c_rem md)) q;
  do_incl : incl (q_from q) (c_ens md ++ c_rem md);
  do_ans : oks_answered ans (c_term md) (q_oks q);
  do_done : q_phase q = QDone;
  do_cand : In l (candidates (q_res q))
}.

(* what C05 asks of every BecomeLeader that is sent *)
Definition bl_ok (ans : list (server * Z * eid)) (b : blrec) : Prop :=
  (* a majority of ensemble ∪ removed answered NewTerm in this term (is fenced in it) *)
  (exists S, NoDup S /\ incl S (b_ens b ++ b_rem b) /\
             (majority_of (length (b_ens b ++ b_rem b)) <= length S)%nat /\
             forall n, In n S -> exists h, In (n, b_term b, h) ans) /\
  (* the leader belongs to the ensemble being installed *)
  In (b_leader b) (b_ens b) /\
  (* it answered, and its head is >= the head of every responder that belongs to that ensemble *)
  exists hl, In (b_leader b, hl) (b_oks b) /\ In (b_leader b, b_term b, hl) ans /\
             forall r h, In (r, h) (b_oks b) -> In r (b_ens b) -> eid_le h hl.

Record inv_quorum (w : world) : Prop := {
  iq_dur_nodup : forall d, w_dur w = DCell d -> cell_nodup d;
  iq_md_nodup : forall k, w_coord w = Some k -> cell_nodup (k_md k);
  iq_resp : forall i n t h, In (MNewTermResp i n t h) (w_msgs w) -> In (n, t, h) (w_answered w);
  iq_phase : forall k, w_coord w = Some k ->
             match k_phase k with
             | PFencing q waiting => fencing_ok (k_md k) (w_answered w) q waiting
             | PDecided q l fm => decided_ok (k_md k) (w_answered w) q l
             | _ => True
             end;
  iq_bl : forall b, In b (w_bl w) -> bl_ok (w_answered w) b
}.

Lemma oks_answered_mono ans ans' t oks : incl ans ans' -> oks_answered ans t oks -> oks_answered ans' t oks.
Proof. unfold oks_answered; auto. Qed.

Lemma fencing_ok_mono md ans ans' q w : incl ans ans' -> fencing_ok md ans q w -> fencing_ok md ans' q w.
Proof. intros Hi []; constructor; auto. eapply oks_answered_mono; eauto. Qed.

Lemma decided_ok_mono md ans ans' q l : incl ans ans' -> decided_ok md ans q l -> decided_ok md ans' q l.
Proof. intros Hi []; constructor; auto. eapply oks_answered_mono; eauto. Qed.

Lemma bl_ok_mono ans ans' b : incl ans ans' -> bl_ok ans b -> bl_ok ans' b.
Proof.
  intros Hi ((S & H1 & H2 & H3 & H4) & Hl & (hl & H5 & H6 & H7)). split; [|split; [exact Hl|]].
  - exists S. repeat split; auto. intros n Hn. destruct (H4 n Hn) as (h & Hh). exists h. auto.
  - exists hl. repeat split; auto.
Qed.

Lemma fencing_ok_start md ans :
  cell_nodup md -> fencing_ok md ans (q_start (length (c_ens md ++ c_rem md))) (c_ens md ++ c_rem md).
Proof.
  intros Hnd. unfold q_start.
  destruct (q_settle_from (length (c_ens md ++ c_rem md)) q_init) as (Ef & Eo & _).
  constructor.
  - apply q_settle_inv, qinv_init.
  - rewrite Ef. cbn. rewrite app_nil_r. exact Hnd.
  - rewrite Ef. cbn. rewrite app_nil_r. apply incl_refl.
  - rewrite Eo. intros s h [].
Qed.

Lemma q_take_from ens f q s o : q_from (q_take ens f q s o) = q_from q ++ [s].
Proof. destruct o; reflexivity. Qed.

Lemma q_take_oks ens f q s o x hx :
  In (x, hx) (q_oks (q_take ens f q s o)) -> In (x, hx) (q_oks q) \/ (x = s /\ o = ROk hx).
Proof.
  destruct o as [h|]; cbn; [|auto]. rewrite in_app_iff. intros [H|[E|[]]]; [auto|]. inversion E; subst; auto.
Qed.

(* one response taken by the fixed newTermQuorum (guard in both loops) *)
Lemma fencing_ok_recv md ans q waiting n o :
  fencing_ok md ans q waiting -> In n waiting -> qphase_running (q_phase q) ->
  (forall h, o = ROk h -> In (n, c_term md, h) ans) ->
  fencing_ok md ans (q_recv true (c_ens md) (length (c_ens md ++ c_rem md)) q (Arrive n o)) (remove1 n waiting).
Proof.
  intros [Hq Hnd Hincl Hans] Hin Hrun Ho.
  set (size := length (c_ens md ++ c_rem md)) in *.
  assert (E : q_recv true (c_ens md) size q (Arrive n o) = q_settle size (q_take (c_ens md) true q n o)).
  { unfold q_recv. destruct Hrun as [-> | ->]; reflexivity. }
  rewrite E. destruct (q_settle_from size (q_take (c_ens md) true q n o)) as (Ef & Eo & _).
  assert (Hfresh : ~ In n (q_from q)).
  { apply nodup_app_iff in Hnd. destruct Hnd as (_ & _ & Hd). apply Hd; exact Hin. }
  destruct (remove1_move n waiting (q_from q) Hin Hnd) as [Hnd' Hincl'].
  constructor.
  - apply q_settle_inv, q_take_inv; assumption.
  - rewrite Ef, q_take_from. exact Hnd'.
  - rewrite Ef, q_take_from. eapply incl_tran; eauto.
  - rewrite Eo. intros s h Hs. apply q_take_oks in Hs. destruct Hs as [Hs|[-> Ho']]; auto.
Qed.

Lemma fencing_ok_timer md ans q waiting :
  fencing_ok md ans q waiting -> q_phase q = QGrace ->
  fencing_ok md ans (q_recv true (c_ens md) (length (c_ens md ++ c_rem md)) q Timer) waiting.
Proof.
  intros [Hq Hnd Hincl Hans] Hp. unfold q_recv. rewrite Hp. constructor; cbn; auto.
  apply qinv_set_phase; [exact Hq|]. intros _. apply (qi_majority _ _ _ Hq). left; exact Hp.
Qed.

Lemma decided_bl_ok md ans q l :
  decided_ok md ans q l ->
  bl_ok ans (mkBl l (c_term md) (c_ens md) (c_rem md) (q_oks q) (q_succ q)).
Proof.
  intros [Hq Hincl Hans Hdone Hcand]. unfold bl_ok; cbn [b_leader b_term b_ens b_rem b_oks].
  apply candidates_spec in Hcand. destruct Hcand as (hl & Hl & Hmax & _).
  split; [|split].
  - exists (map fst (q_oks q)). repeat split.
    + apply (qi_oks_nodup _ _ _ Hq).
    + eapply incl_tran; [apply (qi_oks_from _ _ _ Hq) | exact Hincl].
    + rewrite map_length. pose proof (qi_succ _ _ _ Hq). pose proof (qi_majority _ _ _ Hq (or_intror Hdone)). lia.
    + intros n Hn. apply in_map_iff in Hn. destruct Hn as ([s h] & <- & Hs). exists h. apply Hans; exact Hs.
  - apply (qi_res_ens _ _ _ Hq _ _ Hl).
  - exists hl. split; [apply (qi_res_oks _ _ _ Hq _ _ Hl)|]. split.
    + apply Hans. apply (qi_res_oks _ _ _ Hq _ _ Hl).
    + intros r h Hr Hens. apply (Hmax r h). apply (qi_oks_res _ _ _ Hq _ _ Hr Hens).
Qed.

Lemma inv_quorum_init c0 nodes : cell_nodup c0 -> inv_quorum (init_world c0 nodes).
Proof.
  intros H. constructor; cbn; try (intros; contradiction); try discriminate.
  intros d E. inversion E; subst; exact H.
Qed.

Lemma start_md_nodup c : cell_nodup c -> cell_nodup (start_md c).
Proof. auto. Qed.

Lemma elected_md_nodup c l : cell_nodup c -> cell_nodup (elected_md c l).
Proof. unfold cell_nodup; cbn. rewrite app_nil_r. intros H. apply nodup_app_iff in H. tauto. Qed.

Lemma initial_md_nodup e : NoDup e -> cell_nodup (initial_md e).
Proof. unfold cell_nodup; cbn. rewrite app_nil_r. auto. Qed.

Lemma incl_snoc {A} (l : list A) x : incl l (l ++ [x]).
Proof. intros y Hy. apply in_or_app; left; exact Hy. Qed.

Lemma step_answered_mono v w a w' : step v w a = Some w' -> incl (w_answered w) (w_answered w').
Proof.
  intros H. destruct w as [dur co inc nodes msgs wl ans bl]. world_fields.
  destruct a; step_cases H; try apply incl_refl; apply incl_snoc.
Qed.

Lemma step_inv_quorum w a w' :
  step fixed w a = Some w' -> wf_action w a -> inv_quorum w -> inv_quorum w'.
Proof.
  intros H Hwf [Hdn Hmn Hresp Hph Hbl].
  pose proof (step_answered_mono _ _ _ _ H) as Hmono.
  destruct w as [dur co inc nodes msgs wl ans bl]. world_fields.
  destruct a; step_cases H; cbn [v_grace_filter fixed] in *.
  all: try (pose proof (Hmn _ eq_refl) as Hmnk; pose proof (Hph _ eq_refl) as Hphk;
            cbn [Model.k_md Model.k_phase] in Hmnk, Hphk).
  all: unfold wf_action in Hwf; world_fields.
  all: constructor; world_fields.
  (* iq_dur_nodup *)
  all: try (solve [intros d' Ed; first [ discriminate Ed
                                       | injection Ed as <-;
                                         first [ assumption | apply elected_md_nodup; assumption
                                               | apply initial_md_nodup; assumption | eapply Hdn; reflexivity ]
                                       | eapply Hdn; eauto ]]).
  (* iq_md_nodup *)
  all: try (solve [intros k' Ek; first [ discriminate Ek
                                       | injection Ek as <-; cbn [Model.k_md];
                                         first [ assumption | apply elected_md_nodup; assumption
                                               | apply initial_md_nodup; assumption
                                               | apply start_md_nodup; assumption
                                               | eapply Hdn; reflexivity
                                               | unfold cell_nodup; cbn [start_md c_ens c_rem];
                                                 destruct Hwf as (Hf & Ht & Hne); apply swap_nodup; assumption ]
                                       | eapply Hmn; eauto ]]).
  (* iq_resp *)
  all: try (solve [intros i' n' t' h' Hin; inv_msgs;
                   first [ apply in_snoc; right; reflexivity
                         | apply in_snoc; left; eauto
                         | eauto ]]).
  (* iq_bl *)
  all: try (solve [intros b' Hb; inv_msgs;
                   first [ apply decided_bl_ok; assumption
                         | eapply bl_ok_mono; [exact Hmono | eauto] ]]).
  (* iq_phase *)
  all: try (solve [intros k' Ek;
                   first [ discriminate Ek
                         | injection Ek as <-; cbn [Model.k_md Model.k_phase]; exact I
                         | specialize (Hph k' Ek); destruct (k_phase k'); auto;
                           first [ eapply fencing_ok_mono; [exact Hmono | exact Hph]
                                 | eapply decided_ok_mono; [exact Hmono | exact Hph] ] ]]).
  (* Store (or the give-up of its retry loop): newTermQuorum starts *)
  all: try (solve [intros k' Ek; injection Ek as <-; cbn [Model.k_md Model.k_phase]; apply fencing_ok_start; assumption]).
  - (* one response taken from the channel *)
    intros k' Ek; injection Ek as <-; cbn [Model.k_md Model.k_phase].
    match goal with Hb : _ && _ && _ = true |- _ =>
      apply andb_true_iff in Hb; destruct Hb as [Hb Hrun]; apply andb_true_iff in Hb; destruct Hb as [Hw Hdel] end.
    apply fencing_ok_recv.
    + exact Hphk.
    + apply list_contains_in; exact Hw.
    + unfold qphase_running. destruct (q_phase q); try discriminate; auto.
    + intros h ->. apply (Hresp inc). apply has_msg_in; exact Hdel.
  - (* grace timer *)
    intros k' Ek; injection Ek as <-; cbn [Model.k_md Model.k_phase].
    apply fencing_ok_timer; assumption.
  - (* selectNewLeader *)
    intros k' Ek; injection Ek as <-; cbn [Model.k_md Model.k_phase].
    destruct Hphk as [Hq Hnd Hincl Hans].
    match goal with Hs : select_new_leader _ _ = Some _ |- _ => apply select_in_candidates in Hs; destruct Hs as [Hc _] end.
    constructor; auto.
    intros x Hx. apply Hincl. apply in_or_app; right; exact Hx.
Qed.

Lemma run_inv_quorum tr : forall w w',
  run fixed w tr = Some w' -> wf_run fixed w tr -> inv_quorum w -> inv_quorum w'.
Proof.
  induction tr as [|a tl IH]; cbn; intros w w' H Hwf Hi; [inversion H; subst; auto|].
  destruct (step fixed w a) eqn:E; [|discriminate]. destruct Hwf as [Ha Hwf].
  eapply IH; eauto. eapply step_inv_quorum; eauto.
Qed.

(* C05: a leader is only installed after a majority of ensemble ∪ removed has been fenced in its term, it belongs to
   the ensemble being installed, and its head is maximal among the fenced responders of that ensemble.  Holds for
   every BecomeLeader ever sent, in every trace of the fixed code. *)
Theorem leader_after_majority_fenced_and_max c0 nodes tr w b :
  cell_nodup c0 ->
  run fixed (init_world c0 nodes) tr = Some w -> wf_run fixed (init_world c0 nodes) tr ->
  In b (w_bl w) -> bl_ok (w_answered w) b.
Proof.
  intros Hnd H Hwf Hb.
  pose proof (run_inv_quorum _ _ _ H Hwf (inv_quorum_init c0 nodes Hnd)) as [_ _ _ _ Hbl]. auto.
Qed.

(* the ghost records are exactly the BecomeLeader messages *)
Lemma step_bl_records v w a w' :
  step v w a = Some w' ->
  (forall i n t fm, In (MBecomeLeader i n t fm) (w_msgs w) -> exists b, In b (w_bl w) /\ b_leader b = n /\ b_term b = t) ->
  (forall i n t fm, In (MBecomeLeader i n t fm) (w_msgs w') -> exists b, In b (w_bl w') /\ b_leader b = n /\ b_term b = t).
Proof.
  intros H Hi. destruct w as [dur co inc nodes msgs wl ans bl]. world_fields.
  destruct a; step_cases H; auto; intros i' n' t' fm' Hin; inv_msgs; eauto.
  - destruct (Hi _ _ _ _ Hin) as (b & Hb & E1 & E2). exists b. split; [apply in_snoc; left; exact Hb | auto].
  - eexists. split; [apply in_snoc; right; reflexivity | cbn; auto].
Qed.

Theorem become_leader_recorded v c0 nodes tr w i n t fm :
  run v (init_world c0 nodes) tr = Some w ->
  In (MBecomeLeader i n t fm) (w_msgs w) -> exists b, In b (w_bl w) /\ b_leader b = n /\ b_term b = t.
Proof.
  assert (G : forall tr w0 w, run v w0 tr = Some w ->
    (forall i n t fm, In (MBecomeLeader i n t fm) (w_msgs w0) -> exists b, In b (w_bl w0) /\ b_leader b = n /\ b_term b = t) ->
    (forall i n t fm, In (MBecomeLeader i n t fm) (w_msgs w) -> exists b, In b (w_bl w) /\ b_leader b = n /\ b_term b = t)).
  { clear. induction tr as [|a tl IH]; cbn; intros w0 w H Hi; [inversion H; subst; auto|].
    destruct (step v w0 a) eqn:E; [|discriminate]. eapply IH; eauto. eapply step_bl_records; eauto. }
  intros H. eapply G; eauto. cbn. intros ? ? ? ? [].
Qed.
