(* Proofs about the placement model (property C19). *)
From Coq Require Import List NArith Bool Arith Lia Permutation.
From Oxia.Selector Require Import Model.
Import ListNotations.
Open Scope N_scope.

(* ------------------------------------------------------------------ *)
(* sets as lists                                                        *)

Lemma mem_In x l : mem x l = true <-> In x l.
Proof.
  unfold mem. rewrite existsb_exists. split.
  - intros (y & Hy & E). apply N.eqb_eq in E. subst. exact Hy.
  - intros H. exists x. split; [exact H | apply N.eqb_refl].
Qed.

Lemma mem_false x l : mem x l = false <-> ~ In x l.
Proof.
  rewrite <- mem_In. destruct (mem x l).
  - split; [discriminate | intros H; exfalso; apply H; reflexivity].
  - split; [intros _ H; discriminate | reflexivity].
Qed.

Lemma set_add_In y x l : In y (set_add x l) <-> y = x \/ In y l.
Proof.
  unfold set_add. destruct (mem x l) eqn:E.
  - apply mem_In in E. split; [tauto|]. intros [->|H]; assumption.
  - rewrite in_app_iff. cbn. intuition.
Qed.

Lemma NoDup_snoc (x : N) l : NoDup l -> ~ In x l -> NoDup (l ++ [x]).
Proof.
  induction l as [|a l IH]; intros Hn Hx; cbn.
  - constructor; [intros []|constructor].
  - inversion Hn as [|? ? Ha Hl]; subst. constructor.
    + rewrite in_app_iff. cbn. intros [H|[H|[]]]; [tauto|]. subst. apply Hx. left; reflexivity.
    + apply IH; [exact Hl|]. intros H. apply Hx. right; exact H.
Qed.

Lemma set_add_NoDup x l : NoDup l -> NoDup (set_add x l).
Proof.
  intros H. unfold set_add. destruct (mem x l) eqn:E; [exact H|].
  apply mem_false in E. apply NoDup_snoc; assumption.
Qed.

Lemma set_diff_In x a b : In x (set_diff a b) <-> In x a /\ ~ In x b.
Proof.
  unfold set_diff. rewrite filter_In, negb_true_iff, mem_false. tauto.
Qed.

Lemma set_inter_In x a b : In x (set_inter a b) <-> In x a /\ In x b.
Proof. unfold set_inter. rewrite filter_In, mem_In. tauto. Qed.

Lemma set_union_In x a b : In x (set_union a b) <-> In x a \/ In x b.
Proof.
  unfold set_union. revert a. induction b as [|y b IH]; intros a; cbn.
  - tauto.
  - rewrite IH, set_add_In. cbn. intuition.
Qed.

Lemma is_empty_false l : is_empty l = false -> l <> [].
Proof. destruct l; [discriminate | intros _ H; discriminate]. Qed.

(* ------------------------------------------------------------------ *)
(* the grouping caches                                                  *)

Lemma sel_values_In md sel l v :
  In v (sel_values md sel l) <-> exists s, In s sel /\ label_of md s l = Some v.
Proof.
  unfold sel_values.
  assert (G : forall acc,
    In v (fold_left (fun acc s => match label_of md s l with
                                  | Some v => set_add v acc | None => acc end) sel acc)
    <-> In v acc \/ exists s, In s sel /\ label_of md s l = Some v).
  { induction sel as [|a sel IH]; intros acc; cbn.
    - split; [tauto|]. intros [H|(s & [] & _)]; exact H.
    - rewrite IH. destruct (label_of md a l) as [w|] eqn:E.
      + rewrite set_add_In. split.
        * intros [[->|H]|(s & Hs & Hl)]; [right; exists a; auto|left; exact H|right; exists s; auto].
        * intros [H|(s & [->|Hs] & Hl)]; [left; right; exact H| |right; exists s; auto].
          rewrite E in Hl. injection Hl as ->. left; left; reflexivity.
      + split.
        * intros [H|(s & Hs & Hl)]; [left; exact H|right; exists s; auto].
        * intros [H|(s & [->|Hs] & Hl)]; [left; exact H| |right; exists s; auto].
          rewrite E in Hl. discriminate. }
  rewrite G. cbn. split; [intros [[]|H]; exact H | intros H; right; exact H].
Qed.

(* "s is in the group of value v" *)
Definition in_group (g : list (N * list N)) (v s : N) : Prop :=
  exists l, In (v, l) g /\ In s l.

Lemma add_to_group_spec v s g v' s' :
  in_group (add_to_group v s g) v' s' <-> (v' = v /\ s' = s) \/ in_group g v' s'.
Proof.
  unfold in_group. induction g as [|[w l] g IH]; cbn.
  - split.
    + intros (l & [H|[]] & Hs). injection H as <- <-. destruct Hs as [<-|[]]. left; auto.
    + intros [[-> ->]|(l & [] & _)]. exists [s]. split; [left; reflexivity|left; reflexivity].
  - destruct (N.eqb_spec v w) as [->|Hne].
    + split.
      * intros (l' & [H|H] & Hs).
        -- injection H as <- <-. apply set_add_In in Hs. destruct Hs as [->|Hs].
           ++ left; auto.
           ++ right. exists l. split; [left; reflexivity|exact Hs].
        -- right. exists l'. split; [right; exact H|exact Hs].
      * intros [[-> ->]|(l' & [H|H] & Hs)].
        -- exists (set_add s l). split; [left; reflexivity|]. apply set_add_In. left; reflexivity.
        -- injection H as <- <-. exists (set_add s l). split; [left; reflexivity|].
           apply set_add_In. right; exact Hs.
        -- exists l'. split; [right; exact H|exact Hs].
    + split.
      * intros (l' & [H|H] & Hs).
        -- injection H as <- <-. right. exists l. split; [left; reflexivity|exact Hs].
        -- destruct (proj1 IH) as [Hl|(l2 & H2 & Hs2)]; [exists l'; auto|left; exact Hl|].
           right. exists l2. split; [right; exact H2|exact Hs2].
      * intros [Hl|(l' & [H|H] & Hs)].
        -- destruct (proj2 IH (or_introl Hl)) as (l2 & H2 & Hs2).
           exists l2. split; [right; exact H2|exact Hs2].
        -- exists l'. split; [left; exact H|exact Hs].
        -- destruct (proj2 IH) as (l2 & H2 & Hs2); [right; exists l'; auto|].
           exists l2. split; [right; exact H2|exact Hs2].
Qed.

Lemma label_groups_spec md src l v s :
  in_group (label_groups md src l) v s <-> In s src /\ label_of md s l = Some v.
Proof.
  unfold label_groups.
  assert (G : forall g,
    in_group (fold_left (fun g s => match label_of md s l with
                                    | Some v => add_to_group v s g | None => g end) src g) v s
    <-> in_group g v s \/ (In s src /\ label_of md s l = Some v)).
  { induction src as [|a src IH]; intros g; cbn.
    - tauto.
    - rewrite IH. destruct (label_of md a l) as [w|] eqn:E.
      + rewrite add_to_group_spec. split.
        * intros [[[-> ->]|H]|[H1 H2]]; [right; split; [left; reflexivity|exact E]|left; exact H|right; auto].
        * intros [H|[[->|H1] H2]]; [left; right; exact H| |right; auto].
          rewrite E in H2. injection H2 as ->. left; left; auto.
      + split.
        * intros [H|[H1 H2]]; [left; exact H|right; auto].
        * intros [H|[[->|H1] H2]]; [left; exact H| |right; auto].
          rewrite E in H2; discriminate. }
  rewrite G. split; [intros [(l0 & [] & _)|H]; exact H | intros H; right; exact H].
Qed.

(* the servers the anti-affinity selector admits for one label: those of the grouping source that
   carry the label with a value no selected server has *)
Lemma sat_label_In md gsrc sel l s :
  In s (sat_label md gsrc sel l) <->
  In s gsrc /\ exists v, label_of md s l = Some v /\ ~ In v (sel_values md sel l).
Proof.
  unfold sat_label. set (sv := sel_values md sel l). set (gs := label_groups md gsrc l).
  assert (G : forall (g : list (N * list N)) acc,
    In s (fold_left (fun acc g => if mem (fst g) sv then acc else set_union acc (snd g)) g acc)
    <-> In s acc \/ exists v, in_group g v s /\ ~ In v sv).
  { induction g as [|[w l0] g IH]; intros acc; cbn [fold_left fst snd].
    - split; [tauto|]. intros [H|(v & (l1 & [] & _) & _)]; exact H.
    - rewrite IH. destruct (mem w sv) eqn:E.
      + apply mem_In in E. split.
        * intros [H|(v & (l1 & H1 & H2) & H3)]; [left; exact H|].
          right. exists v. split; [exists l1; split; [right; exact H1|exact H2]|exact H3].
        * intros [H|(v & (l1 & [H1|H1] & H2) & H3)]; [left; exact H| |].
          -- injection H1 as -> ->. tauto.
          -- right. exists v. split; [exists l1; auto|exact H3].
      + apply mem_false in E. rewrite set_union_In. split.
        * intros [[H|H]|(v & (l1 & H1 & H2) & H3)]; [left; exact H| |].
          -- right. exists w. split; [exists l0; split; [left; reflexivity|exact H]|exact E].
          -- right. exists v. split; [exists l1; split; [right; exact H1|exact H2]|exact H3].
        * intros [H|(v & (l1 & [H1|H1] & H2) & H3)]; [left; left; exact H| |].
          -- injection H1 as -> ->. left; right; exact H2.
          -- right. exists v. split; [exists l1; auto|exact H3]. }
  rewrite G. cbn. split.
  - intros [[]|(v & Hg & Hv)]. apply label_groups_spec in Hg. destruct Hg as [H1 H2].
    split; [exact H1|]. exists v. auto.
  - intros (H1 & v & H2 & H3). right. exists v. split; [|exact H3].
    apply label_groups_spec. auto.
Qed.

(* ------------------------------------------------------------------ *)
(* the anti-affinity selector                                           *)

Section AA.
Variables (md : metadata) (gsrc sel : list N).

(* every version: the candidates never leave (initial candidates ∪ grouping source), no panic *)
Lemma aa_label_src v i0 m c f l c' f' :
  aa_label v md gsrc sel i0 m (c, f) l = Ok (c', f') ->
  forall x, In x c' -> In x c \/ In x gsrc.
Proof.
  unfold aa_label. intros H x Hx.
  set (s0 := sat_label md gsrc sel l) in *.
  assert (S0 : forall y, In y s0 -> In y gsrc) by (intros y Hy; apply sat_label_In in Hy; tauto).
  set (b := match v with Old => negb i0 | Fixed => negb f end) in *.
  set (s1 := if b then set_inter s0 c else s0) in *.
  assert (S1 : forall y, In y s1 -> In y gsrc).
  { intros y Hy. unfold s1 in Hy. destruct b; [apply set_inter_In in Hy; apply S0; tauto|auto]. }
  destruct (is_empty s1); [discriminate|]. injection H as <- <-.
  destruct (match v with Old => i0 | Fixed => false end).
  - apply set_union_In in Hx. destruct Hx; auto.
  - auto.
Qed.

Lemma aa_label_no_panic v i0 m acc l : aa_label v md gsrc sel i0 m acc l <> Panic.
Proof.
  unfold aa_label. destruct acc as [c f].
  destruct (is_empty _); discriminate.
Qed.

Lemma aa_labels_src v i0 m ls : forall c f c' f',
  aa_labels v md gsrc sel i0 m ls (c, f) = Ok (c', f') ->
  forall x, In x c' -> In x c \/ In x gsrc.
Proof.
  induction ls as [|l ls IH]; intros c f c' f' H x Hx; cbn [aa_labels aa_rules] in H.
  - injection H as <- <-. auto.
  - destruct (aa_label v md gsrc sel i0 m (c, f) l) as [[c1 f1]| |] eqn:E; try discriminate.
    destruct (IH _ _ _ _ H x Hx) as [H1|H1]; [|auto].
    exact (aa_label_src _ _ _ _ _ _ _ _ E x H1).
Qed.

Lemma aa_labels_no_panic v i0 m ls : forall acc, aa_labels v md gsrc sel i0 m ls acc <> Panic.
Proof.
  induction ls as [|l ls IH]; intros acc; cbn [aa_labels aa_rules]; [discriminate|].
  destruct (aa_label v md gsrc sel i0 m acc l) eqn:E; [apply IH|discriminate|].
  exfalso. exact (aa_label_no_panic _ _ _ _ _ E).
Qed.

Lemma aa_rules_src v rs : forall i0 c f c' f',
  aa_rules v md gsrc sel i0 rs (c, f) = Ok (c', f') ->
  forall x, In x c' -> In x c \/ In x gsrc.
Proof.
  induction rs as [|r rs IH]; intros i0 c f c' f' H x Hx; cbn [aa_labels aa_rules] in H.
  - injection H as <- <-. auto.
  - destruct (aa_labels v md gsrc sel i0 (r_mode r) (r_labels r) (c, f)) as [[c1 f1]| |] eqn:E;
      try discriminate.
    destruct (IH _ _ _ _ _ H x Hx) as [H1|H1]; [|auto].
    exact (aa_labels_src _ _ _ _ _ _ _ _ E x H1).
Qed.

Lemma aa_rules_no_panic v rs : forall i0 acc, aa_rules v md gsrc sel i0 rs acc <> Panic.
Proof.
  induction rs as [|r rs IH]; intros i0 acc; cbn; [discriminate|].
  destruct (aa_labels v md gsrc sel i0 (r_mode r) (r_labels r) acc) eqn:E; [apply IH|discriminate|].
  exfalso. exact (aa_labels_no_panic _ _ _ _ _ E).
Qed.

Lemma aa_rules_errors v rs : forall i0 acc er,
  aa_rules v md gsrc sel i0 rs acc = Err er -> er = EAntiAffinity \/ er = EMode.
Proof.
  assert (L1 : forall i0 m acc l er, aa_label v md gsrc sel i0 m acc l = Err er ->
                                     er = EAntiAffinity \/ er = EMode).
  { intros i0 m [c f] l er. unfold aa_label. destruct (is_empty _); [|discriminate].
    intros H; injection H as <-. destruct m; auto. }
  assert (L2 : forall i0 m ls acc er, aa_labels v md gsrc sel i0 m ls acc = Err er ->
                                      er = EAntiAffinity \/ er = EMode).
  { intros i0 m ls. induction ls as [|l ls IH]; intros acc er; cbn [aa_labels aa_rules]; [discriminate|].
    destruct (aa_label v md gsrc sel i0 m acc l) eqn:E; [apply IH| |discriminate].
    intros H; injection H as <-. exact (L1 _ _ _ _ _ E). }
  induction rs as [|r rs IH]; intros i0 acc er; cbn; [discriminate|].
  destruct (aa_labels v md gsrc sel i0 (r_mode r) (r_labels r) acc) eqn:E; [apply IH| |discriminate].
  intros H; injection H as <-. exact (L2 _ _ _ _ _ E).
Qed.

(* the fixed code: every label of every rule narrows the candidates *)
Lemma aa_label_fixed i0 m c f l c' f' :
  aa_label Fixed md gsrc sel i0 m (c, f) l = Ok (c', f') ->
  f' = false /\
  (forall x, In x c' -> In x (sat_label md gsrc sel l)) /\
  (f = false -> forall x, In x c' -> In x c).
Proof.
  unfold aa_label. destruct f; cbn [negb].
  - destruct (is_empty (sat_label md gsrc sel l)); [discriminate|].
    intros H; injection H as <- <-. repeat split; auto. discriminate.
  - destruct (is_empty (set_inter (sat_label md gsrc sel l) c)); [discriminate|].
    intros H; injection H as <- <-. split; [reflexivity|].
    split; [|intros _]; intros x Hx; apply set_inter_In in Hx; tauto.
Qed.

Lemma aa_labels_fixed i0 m ls : forall c f c' f',
  aa_labels Fixed md gsrc sel i0 m ls (c, f) = Ok (c', f') ->
  (forall l x, In l ls -> In x c' -> In x (sat_label md gsrc sel l)) /\
  (f = false -> f' = false /\ forall x, In x c' -> In x c).
Proof.
  induction ls as [|l ls IH]; intros c f c' f' H; cbn [aa_labels aa_rules] in H.
  - injection H as <- <-. split; [intros l x []|]. intros ->. auto.
  - destruct (aa_label Fixed md gsrc sel i0 m (c, f) l) as [[c1 f1]| |] eqn:E; try discriminate.
    destruct (aa_label_fixed _ _ _ _ _ _ _ E) as (-> & A1 & B1).
    destruct (IH _ _ _ _ H) as (A2 & B2). destruct (B2 eq_refl) as (-> & B3).
    split.
    + intros l0 x [<-|Hl] Hx; [apply A1, B3, Hx|exact (A2 _ _ Hl Hx)].
    + intros ->. split; [reflexivity|]. intros x Hx. apply (B1 eq_refl), B3, Hx.
Qed.

Lemma aa_rules_fixed rs : forall i0 c f c' f',
  aa_rules Fixed md gsrc sel i0 rs (c, f) = Ok (c', f') ->
  (forall r l x, In r rs -> In l (r_labels r) -> In x c' -> In x (sat_label md gsrc sel l)) /\
  (f = false -> f' = false /\ forall x, In x c' -> In x c).
Proof.
  induction rs as [|r rs IH]; intros i0 c f c' f' H; cbn [aa_labels aa_rules] in H.
  - injection H as <- <-. split; [intros r l x []|]. intros ->. auto.
  - destruct (aa_labels Fixed md gsrc sel i0 (r_mode r) (r_labels r) (c, f)) as [[c1 f1]| |] eqn:E;
      try discriminate.
    destruct (aa_labels_fixed _ _ _ _ _ _ _ E) as (A1 & B1).
    destruct (IH _ _ _ _ _ H) as (A2 & B2).
    split.
    + intros r0 l x [<-|Hr] Hl Hx; [|exact (A2 _ _ _ Hr Hl Hx)].
      (* a label of r was processed, so the flag is down afterwards and later steps only narrow *)
      assert (F1 : f1 = false).
      { destruct (r_labels r) as [|l0 ls0] eqn:EL; [destruct Hl|]. cbn [aa_labels aa_rules] in E.
        destruct (aa_label Fixed md gsrc sel i0 (r_mode r) (c, f) l0) as [[c2 f2]| |] eqn:E2;
          try discriminate.
        destruct (aa_label_fixed _ _ _ _ _ _ _ E2) as (-> & _ & _).
        destruct (aa_labels_fixed _ _ _ _ _ _ _ E) as (_ & B). destruct (B eq_refl) as (-> & _).
        reflexivity. }
      destruct (B2 F1) as (_ & B3). apply (A1 _ _ Hl), B3, Hx.
    + intros ->. destruct (B1 eq_refl) as (-> & B4). destruct (B2 eq_refl) as (-> & B3).
      split; [reflexivity|]. intros x Hx. apply B4, B3, Hx.
Qed.
End AA.

(* ------------------------------------------------------------------ *)
(* the selector chain                                                   *)

(* [U] bounds everything a selection can return: the candidates and the (possibly stale) grouping source *)
Definition within (U : N -> Prop) (c : ctx) : Prop :=
  (forall x, In x (c_cands c) -> U x) /\
  (forall g, c_gsrc c = Some g -> forall x, In x g -> U x).

Lemma eff_gsrc_within U c : within U c -> forall x, In x (eff_gsrc c) -> U x.
Proof.
  intros [H1 H2] x. unfold eff_gsrc. destruct (c_gsrc c) as [g|] eqn:E; [apply (H2 g eq_refl)|apply H1].
Qed.

Lemma set_selected_within U c sel : within U c -> within U (set_selected c sel).
Proof.
  intros [H1 H2]. split; cbn.
  - intros x Hx. apply set_diff_In in Hx. apply H1. tauto.
  - exact H2.
Qed.

(* a server is fresh for the context: for every label of every rule it carries a value that no
   selected server has *)
Definition fresh (e : env) (c : ctx) (x : N) : Prop :=
  forall r l, In r (e_rules e) -> In l (r_labels r) ->
    In x (sat_label (e_md e) (eff_gsrc c) (eff_sel c) l).

Lemma aa_select_spec v e c :
  match aa_select v e c with
  | (Ok s, c1) =>
      e_rules e <> [] /\ In s (eff_gsrc c) /\ (v = Fixed -> fresh e c s) /\ c1 = maybe_grouping c
  | (Err er, c1) =>
      (er = ENoFunctioning /\ e_rules e = [] /\ c1 = c) \/
      (er = EMultiple /\ e_rules e <> [] /\ c_gsrc c1 = Some (eff_gsrc c) /\
       forall x, In x (c_cands c1) -> In x (eff_gsrc c) /\ (v = Fixed -> fresh e c x)) \/
      ((er = EAntiAffinity \/ er = EMode) /\ c1 = maybe_grouping c)
  | (Panic, _) => False
  end.
Proof.
  unfold aa_select. destruct (e_rules e) as [|r0 rs] eqn:ER.
  - left. auto.
  - rewrite <- ER.
    destruct (aa_rules v (e_md e) (eff_gsrc c) (eff_sel c) true (e_rules e) ([], true))
      as [[cands f]| er |] eqn:EA.
    + assert (Hsrc : forall x, In x cands -> In x (eff_gsrc c)).
      { intros x Hx. destruct (aa_rules_src _ _ _ _ _ _ _ _ _ _ EA x Hx) as [[]|H]; exact H. }
      assert (Hfresh : v = Fixed -> forall x, In x cands -> fresh e c x).
      { intros -> x Hx r l Hr Hl. destruct (aa_rules_fixed _ _ _ _ _ _ _ _ _ EA) as (A & _).
        exact (A r l x Hr Hl Hx). }
      assert (NE : e_rules e <> []) by (rewrite ER; discriminate).
      destruct cands as [|s [|s2 tl]].
      * right; left. split; [reflexivity|]. split; [exact NE|]. split; [reflexivity|].
        intros x [].
      * split; [exact NE|]. split; [apply Hsrc; left; reflexivity|]. split; [|reflexivity].
        intros Hv. apply Hfresh; [exact Hv|left; reflexivity].
      * right; left. split; [reflexivity|]. split; [exact NE|]. split; [reflexivity|].
        intros x Hx. split; [apply Hsrc, Hx|]. intros Hv. apply Hfresh; assumption.
    + right; right. split; [|reflexivity]. exact (aa_rules_errors _ _ _ _ _ _ _ _ EA).
    + exact (aa_rules_no_panic _ _ _ _ _ _ _ EA).
Qed.

Lemma final_select_In e c p : In p (final_select e c) -> In p (c_cands c).
Proof.
  unfold final_select. destruct (c_cands c) as [|a l] eqn:E; [intros []|].
  destruct (e_idx e) as [i|]; [|auto]. destruct (c_ordered c); [|auto].
  intros [<-|[]]. apply nth_In.
  assert (N.of_nat (length (a :: l)) <> 0) by (cbn [length]; lia).
  pose proof (N.mod_lt i _ H). lia.
Qed.

Lemma after_aa_picks v e c p : In (Ok p) (after_aa v e c) -> In p (c_cands c).
Proof.
  unfold after_aa, ll_select. destruct (e_rank e) as [rank|].
  - destruct (find (fun x => mem x (c_cands c)) rank) as [s|] eqn:F.
    + intros [H|[]]. injection H as ->. apply find_some in F. apply mem_In. tauto.
    + cbn. destruct (final_select e c) as [|a l] eqn:E.
      * intros [H|[]]. destruct v; discriminate.
      * intros H. change (In (Ok p) (map (@Ok N) (a :: l))) in H. rewrite <- E in H.
        apply in_map_iff in H. destruct H as (q & Hq & Hin).
        injection Hq as ->. apply final_select_In in Hin. exact Hin.
  - cbn. destruct (final_select e c) as [|a l] eqn:E.
    + intros [H|[]]. destruct v; discriminate.
    + intros H. change (In (Ok p) (map (@Ok N) (a :: l))) in H. rewrite <- E in H.
        apply in_map_iff in H. destruct H as (q & Hq & Hin).
      injection Hq as ->. apply final_select_In in Hin. exact Hin.
Qed.

Lemma after_aa_no_panic e c : ~ In Panic (after_aa Fixed e c).
Proof.
  unfold after_aa, ll_select.
  assert (T : ~ In Panic (match final_select e c with
                          | [] => [Err EReplicas]
                          | _ :: _ => map Ok (final_select e c) end)).
  { destruct (final_select e c) as [|a l] eqn:E.
    - intros [H|[]]; discriminate.
    - rewrite <- E. intros H. apply in_map_iff in H. destruct H as (q & Hq & _). discriminate. }
  destruct (e_rank e) as [rank|].
  - destruct (find _ rank); [intros [H|[]]; discriminate|]. cbn.
    destruct (final_select e c); exact T.
  - cbn. destruct (final_select e c); exact T.
Qed.

(* S1: whatever the version, a pick is a candidate or a server of the grouping source, and the
   context stays within the same bound *)
Lemma single_select_within v e c U :
  within U c ->
  within U (snd (single_select v e c)) /\
  forall p, In (Ok p) (fst (single_select v e c)) -> U p.
Proof.
  intros W. unfold single_select. pose proof (aa_select_spec v e c) as S.
  pose proof (eff_gsrc_within U c W) as G.
  assert (WM : within U (maybe_grouping c)).
  { destruct W as [W1 W2]. split; cbn; [exact W1|]. intros g Hg. injection Hg as <-. exact G. }
  destruct (aa_select v e c) as [[s|er|] c1]; [| |destruct S].
  - destruct S as (_ & Hs & _ & ->). cbn. split; [exact WM|].
    intros p [H|[]]. injection H as <-. apply G, Hs.
  - destruct S as [(-> & _ & ->)|[(-> & _ & Hg & Hc)|([-> | ->] & ->)]]; cbn.
    + split; [exact W|]. intros p Hp. apply after_aa_picks in Hp. apply W, Hp.
    + assert (W1 : within U c1).
      { split; [intros x Hx; apply G, Hc, Hx|]. intros g Hg'. rewrite Hg in Hg'.
        injection Hg' as <-. exact G. }
      split; [exact W1|]. intros p Hp. apply after_aa_picks in Hp. apply W1, Hp.
    + split; [exact WM|]. intros p [H|[]]; discriminate.
    + split; [exact WM|]. intros p [H|[]]; discriminate.
Qed.

(* S2: the fixed chain never panics *)
Lemma single_select_no_panic e c : ~ In Panic (fst (single_select Fixed e c)).
Proof.
  unfold single_select. pose proof (aa_select_spec Fixed e c) as S.
  destruct (aa_select Fixed e c) as [[s|er|] c1]; [| |destruct S].
  - cbn. intros [H|[]]; discriminate.
  - destruct (falls_through er); cbn; [apply after_aa_no_panic|].
    intros [H|[]]; discriminate.
Qed.

(* S3: with rules, every pick of the fixed chain is fresh *)
Lemma single_select_fresh e c p :
  e_rules e <> [] -> In (Ok p) (fst (single_select Fixed e c)) -> fresh e c p.
Proof.
  intros NE. unfold single_select. pose proof (aa_select_spec Fixed e c) as S.
  destruct (aa_select Fixed e c) as [[s|er|] c1]; [| |destruct S].
  - destruct S as (_ & _ & Hf & _). cbn. intros [H|[]]. injection H as <-. exact (Hf eq_refl).
  - destruct S as [(_ & Hr & _)|[(-> & _ & _ & Hc)|([-> | ->] & _)]]; cbn.
    + contradiction.
    + intros Hp. apply after_aa_picks in Hp. exact (proj2 (Hc _ Hp) eq_refl).
    + intros [H|[]]; discriminate.
    + intros [H|[]]; discriminate.
Qed.

(* ------------------------------------------------------------------ *)
(* ensemble selection                                                   *)

(* no two members share a value of a label of ANY rule (the code treats a satisfiable Relaxed rule
   like a Strict one); implies the specification predicate [aa_ok] *)
Definition pairwise_ok (md : metadata) (rules : list rule) (l : list N) : Prop :=
  forall r lb x y val, In r rules -> In lb (r_labels r) -> In x l -> In y l -> x <> y ->
    label_of md x lb = Some val -> label_of md y lb = Some val -> False.

Lemma pairwise_aa_ok md rules l l' :
  (forall x, In x l' -> In x l) -> pairwise_ok md rules l -> aa_ok md rules l'.
Proof.
  intros Hs P r lb x y val Hr _ Hl Hx Hy. exact (P r lb x y val Hr Hl (Hs _ Hx) (Hs _ Hy)).
Qed.

Lemma fresh_vs_selected e c p y lb r val :
  fresh e c p -> In r (e_rules e) -> In lb (r_labels r) -> In y (eff_sel c) ->
  label_of (e_md e) p lb = Some val -> label_of (e_md e) y lb = Some val -> False.
Proof.
  intros F Hr Hl Hy Lp Ly. specialize (F r lb Hr Hl). apply sat_label_In in F.
  destruct F as (_ & v & Lv & Hv). rewrite Lp in Lv. injection Lv as <-.
  apply Hv. apply sel_values_In. exists y. auto.
Qed.

Lemma pairwise_add e c p :
  fresh e c p -> pairwise_ok (e_md e) (e_rules e) (eff_sel c) ->
  pairwise_ok (e_md e) (e_rules e) (set_add p (eff_sel c)).
Proof.
  intros F P r lb x y val Hr Hl Hx Hy Hne Lx Ly.
  apply set_add_In in Hx. apply set_add_In in Hy.
  destruct Hx as [->|Hx], Hy as [->|Hy].
  - apply Hne; reflexivity.
  - exact (fresh_vs_selected _ _ _ _ _ _ _ F Hr Hl Hy Lx Ly).
  - exact (fresh_vs_selected _ _ _ _ _ _ _ F Hr Hl Hx Ly Lx).
  - exact (P r lb x y val Hr Hl Hx Hy Hne Lx Ly).
Qed.

Definition ens_good (e : env) (cands : list N) (rf : nat) (o : res (list N)) : Prop :=
  match o with
  | Ok ens => length ens = rf /\ NoDup ens /\ (forall x, In x ens -> In x cands) /\
              aa_ok (e_md e) (e_rules e) ens
  | Err _ => True
  | Panic => False
  end.

Lemma ens_loop_good e cands rf : forall n c esm selected,
  within (fun x => In x cands) c ->
  c_selected c = selected -> c_selcache c = None ->
  (forall x, In x esm <-> In x selected) ->
  (forall x, In x esm -> In x cands) ->
  pairwise_ok (e_md e) (e_rules e) selected ->
  (length selected <= length esm)%nat ->
  (length selected = length esm -> NoDup esm) ->
  (length esm + n = rf)%nat ->
  forall o, In o (ens_loop Fixed e rf n c esm selected) -> ens_good e cands rf o.
Proof.
  induction n as [|k IH]; intros c esm selected W Hsel Hcache Hmem Hin P Hle Hnd Hlen o Ho.
  - cbn [ens_loop] in Ho. destruct (Nat.eqb_spec (length selected) rf) as [E|E].
    + destruct Ho as [<-|[]]. cbn. split; [lia|]. split; [apply Hnd; lia|]. split; [exact Hin|].
      apply (pairwise_aa_ok _ _ selected); [intros x Hx; apply Hmem, Hx|exact P].
    + destruct Ho as [<-|[]]. exact I.
  - cbn [ens_loop] in Ho.
    pose proof (single_select_within Fixed e c _ W) as [W1 P1].
    pose proof (single_select_no_panic e c) as NP.
    pose proof (single_select_fresh e c) as FR.
    destruct (single_select Fixed e c) as [rs c1]. cbn [fst snd] in *.
    apply in_flat_map in Ho. destruct Ho as (r & Hr & Ho). destruct r as [s|er|].
    + assert (ES : eff_sel c = selected) by (unfold eff_sel; rewrite Hcache; exact Hsel).
      apply (IH (set_selected c1 (set_add s selected)) (esm ++ [s]) (set_add s selected)); auto.
      * apply set_selected_within, W1.
      * intros x. rewrite in_app_iff, set_add_In, Hmem. cbn. intuition.
      * intros x Hx. apply in_app_iff in Hx. destruct Hx as [Hx|[<-|[]]]; [auto|apply P1, Hr].
      * destruct (e_rules e) as [|r0 rs0] eqn:ER.
        -- intros r lb x y val [].
        -- rewrite <- ER in *. rewrite <- ES. apply pairwise_add; [|rewrite ES; exact P].
           apply FR; [rewrite ER; discriminate|exact Hr].
      * unfold set_add. destruct (mem s selected); rewrite ?app_length; cbn; lia.
      * unfold set_add. destruct (mem s selected) eqn:EM; rewrite ?app_length; cbn [length]; intros HL.
        -- lia.
        -- apply NoDup_snoc; [apply Hnd; lia|]. apply mem_false in EM. rewrite Hmem. exact EM.
      * rewrite app_length. cbn. lia.
    + destruct Ho as [<-|[]]. exact I.
    + contradiction.
Qed.

(* MAIN: for every cluster, label assignment, policy list, load ranking, ServerIdx and map order
   (every admissible outcome), ensemble selection refuses or returns rf pairwise-distinct candidates
   that satisfy every strict anti-affinity rule; it never panics. *)
Theorem ensemble_ok e cands rf o :
  In o (ensemble_select Fixed e cands rf) -> ens_good e cands rf o.
Proof.
  unfold ensemble_select. apply ens_loop_good; auto.
  - split; cbn; [|discriminate]. intros x Hx. apply filter_In in Hx. tauto.
  - tauto.
  - intros x [].
  - intros r lb x y val _ _ [].
  - intros _. constructor.
Qed.

Theorem ensemble_no_panic e cands rf : ~ In Panic (ensemble_select Fixed e cands rf).
Proof. intros H. exact (ensemble_ok _ _ _ _ H). Qed.

(* ------------------------------------------------------------------ *)
(* balancer: one swap                                                   *)

Lemma swap_selected_In ens from x : In x (swap_selected ens from) <-> In x ens /\ x <> from.
Proof.
  unfold swap_selected.
  assert (G : forall acc,
    In x (fold_left (fun acc y => if N.eqb y from then acc else set_add y acc) ens acc)
    <-> In x acc \/ (In x ens /\ x <> from)).
  { induction ens as [|a ens IH]; intros acc; cbn [fold_left].
    - split; [tauto|]. intros [H|[[] _]]; exact H.
    - rewrite IH. destruct (N.eqb_spec a from) as [->|Hne].
      + cbn. split; [intros [H|[H1 H2]]; auto|].
        intros [H|[[<-|H1] H2]]; [auto|contradiction|auto].
      + rewrite set_add_In. cbn. split.
        * intros [[->|H]|[H1 H2]]; auto.
        * intros [H|[[<-|H1] H2]]; auto. }
  rewrite G. cbn. tauto.
Qed.

Lemma replace_in_list_In l o n x :
  In x (replace_in_list l o n) <-> (In x l /\ x <> o) \/ x = n.
Proof.
  unfold replace_in_list. rewrite in_app_iff, filter_In, negb_true_iff, N.eqb_neq. cbn.
  split; [intros [H|[H|[]]]; auto | intros [H|H]; auto].
Qed.

Lemma filter_neq_length (l : list N) a :
  NoDup l -> In a l -> S (length (filter (fun x => negb (N.eqb x a)) l)) = length l.
Proof.
  induction l as [|b l IH]; intros Hn Hin; [destruct Hin|].
  inversion Hn as [|? ? Hb Hl]; subst. cbn [filter length].
  destruct (N.eqb_spec b a) as [->|Hne]; cbn [negb length].
  - f_equal. clear IH Hin Hn Hl. induction l as [|c l IH]; [reflexivity|]. cbn [filter].
    destruct (N.eqb_spec c a) as [->|Hc]; cbn [negb].
    + exfalso. apply Hb. left; reflexivity.
    + cbn [length]. f_equal. apply IH. intros H. apply Hb. right; exact H.
  - f_equal. apply IH; [exact Hl|]. destruct Hin as [->|H]; [contradiction|exact H].
Qed.

Lemma replace_ok l from t :
  NoDup l -> In from l -> ~ In t l ->
  NoDup (replace_in_list l from t) /\ length (replace_in_list l from t) = length l.
Proof.
  intros Hn Hf Ht. split.
  - unfold replace_in_list. apply NoDup_snoc; [apply NoDup_filter, Hn|].
    rewrite filter_In. tauto.
  - unfold replace_in_list. rewrite app_length. cbn [length].
    pose proof (filter_neq_length l from Hn Hf). lia.
Qed.

Lemma swap_shard_pick v e nodes ens from t :
  In (Swap t) (swap_shard v e nodes ens from) ->
  In (Ok t) (fst (single_select v e (set_selected (new_ctx nodes) (swap_selected ens from)))) /\
  t <> from /\ In t nodes.
Proof.
  unfold swap_shard. intros H. apply in_map_iff in H. destruct H as (r & Hr & Hin).
  destruct r as [s|er|]; try discriminate.
  destruct (N.eqb s from) eqn:E1; [discriminate|].
  destruct (mem s nodes) eqn:EM; [|discriminate]. injection Hr as ->.
  apply N.eqb_neq in E1. apply mem_In in EM. auto.
Qed.

(* MAIN: a proposed swap names a server of the cluster that is not a member, and replacing
   one member of a duplicate-free ensemble yields a duplicate-free ensemble of the same size.
   Holds for the code before and after the fixes. *)
Theorem swap_one_at_a_time v e nodes ens from t :
  In (Swap t) (swap_shard v e nodes ens from) ->
  In t nodes /\ ~ In t ens /\ t <> from /\
  (NoDup ens -> In from ens ->
   NoDup (replace_in_list ens from t) /\ length (replace_in_list ens from t) = length ens).
Proof.
  intros H. destruct (swap_shard_pick _ _ _ _ _ _ H) as (Hp & Hne & Hn).
  set (sel := swap_selected ens from) in *.
  assert (W : within (fun x => In x nodes /\ ~ In x sel) (set_selected (new_ctx nodes) sel)).
  { split; cbn; [|discriminate]. intros x Hx. apply set_diff_In in Hx. exact Hx. }
  destruct (single_select_within v e _ _ W) as [_ P]. specialize (P _ Hp). cbn in P.
  assert (Ht : ~ In t ens).
  { intros Hin. apply (proj2 P). apply swap_selected_In. auto. }
  repeat split; auto; apply replace_ok; auto.
Qed.

Theorem swap_keeps_anti_affinity e nodes ens from t :
  In (Swap t) (swap_shard Fixed e nodes ens from) ->
  aa_ok (e_md e) (e_rules e) ens -> aa_ok (e_md e) (e_rules e) (replace_in_list ens from t).
Proof.
  intros H A r lb x y val Hr Hm Hl Hx Hy Hne Lx Ly.
  destruct (swap_shard_pick _ _ _ _ _ _ H) as (Hp & _ & _).
  set (c := set_selected (new_ctx nodes) (swap_selected ens from)) in *.
  assert (NE : e_rules e <> []) by (intros E; rewrite E in Hr; destruct Hr).
  pose proof (single_select_fresh e c t NE Hp) as F.
  assert (ES : forall z, In z ens -> z <> from -> In z (eff_sel c)).
  { intros z Hz Hzf. cbn. apply swap_selected_In. auto. }
  apply replace_in_list_In in Hx. apply replace_in_list_In in Hy.
  destruct Hx as [[Hx Hxf]| ->], Hy as [[Hy Hyf]| ->].
  - exact (A r lb x y val Hr Hm Hl Hx Hy Hne Lx Ly).
  - exact (fresh_vs_selected _ _ _ _ _ _ _ F Hr Hl (ES _ Hx Hxf) Ly Lx).
  - exact (fresh_vs_selected _ _ _ _ _ _ _ F Hr Hl (ES _ Hy Hyf) Lx Ly).
  - apply Hne; reflexivity.
Qed.

Theorem swap_no_panic e nodes ens from : ~ In SwapPanic (swap_shard Fixed e nodes ens from).
Proof.
  unfold swap_shard. intros H. apply in_map_iff in H. destruct H as (r & Hr & Hin).
  destruct r as [s|er|].
  - destruct (N.eqb s from); [discriminate|]. destruct (mem s nodes); discriminate.
  - discriminate.
  - exact (single_select_no_panic _ _ Hin).
Qed.

(* ------------------------------------------------------------------ *)
(* shard controller: swapNode, and whole rounds                         *)

Lemma swap_node_fixed m from to :
  NoDup (m_ens m) ->
  NoDup (m_ens (fst (swap_node Fixed m from to))) /\
  length (m_ens (fst (swap_node Fixed m from to))) = length (m_ens m).
Proof.
  intros Hn. unfold swap_node.
  destruct (negb (mem to (m_ens m)) && mem from (m_ens m)) eqn:E; cbn [fst m_ens]; [|auto].
  apply andb_true_iff in E. destruct E as [E1 E2].
  apply negb_true_iff, mem_false in E1. apply mem_In in E2. apply replace_ok; assumption.
Qed.

Definition st_ok (st : list (N * shard_md)) : Prop :=
  forall k m, In (k, m) st -> NoDup (m_ens m).
Definition st_shape (st : list (N * shard_md)) : list (N * nat) :=
  map (fun p => (fst p, length (m_ens (snd p)))) st.

Lemma apply_swap_fixed st k from to :
  st_ok st ->
  st_ok (apply_swap Fixed st k from to) /\ st_shape (apply_swap Fixed st k from to) = st_shape st.
Proof.
  induction st as [|[k0 m0] st IH]; intros Hok; cbn [apply_swap]; [auto|].
  assert (Hok' : st_ok st) by (intros k1 m1 H1; apply (Hok k1 m1); right; exact H1).
  destruct (N.eqb k k0).
  - destruct (swap_node_fixed m0 from to (Hok k0 m0 (or_introl eq_refl))) as [A B]. split.
    + intros k1 m1 [H|H]; [injection H as <- <-; exact A|apply (Hok' k1 m1 H)].
    + unfold st_shape. cbn [map fst snd]. rewrite B. reflexivity.
  - destruct (IH Hok') as [A B]. split.
    + intros k1 m1 [H|H]; [injection H as <- <-; apply (Hok k0 m0); left; reflexivity|].
      exact (A k1 m1 H).
    + unfold st_shape in *. cbn [map fst snd]. rewrite B. reflexivity.
Qed.

(* MAIN (swapNode level): whatever actions arrive, in whatever order, computed from whatever
   snapshot: the fixed swapNode keeps every ensemble duplicate-free and of its size. *)
Theorem round_any_actions acts : forall st,
  st_ok st ->
  st_ok (apply_actions Fixed st acts) /\ st_shape (apply_actions Fixed st acts) = st_shape st.
Proof.
  unfold apply_actions. induction acts as [|a acts IH]; intros st Hok; cbn [fold_left]; [auto|].
  destruct (apply_swap_fixed st (fst (fst a)) (snd (fst a)) (snd a) Hok) as [A B].
  destruct (IH _ A) as [C D]. split; [exact C|]. rewrite D. exact B.
Qed.

(* whole round of the fixed balancer against the fixed swapNode, live metadata = snapshot *)
Definition entry_good (e : env) (nodes : list N) (p : N * (list rule * list N)) (m : shard_md)
  : Prop :=
  NoDup (snd (snd p)) ->
  NoDup (m_ens m) /\ length (m_ens m) = length (snd (snd p)) /\
  (aa_ok (e_md e) (fst (snd p)) (snd (snd p)) -> aa_ok (e_md e) (fst (snd p)) (m_ens m)) /\
  (forall x, In x (m_ens m) -> In x (snd (snd p)) \/ In x nodes).

Definition entry_inv (e : env) (nodes swapped : list N)
           (p : N * (list rule * list N)) (q : N * shard_md) : Prop :=
  fst p = fst q /\
  (snd q = mkMd (snd (snd p)) [] \/ (In (fst p) swapped /\ entry_good e nodes p (snd q))).

Lemma entry_inv_weaken e nodes swapped k snap st :
  Forall2 (entry_inv e nodes swapped) snap st ->
  Forall2 (entry_inv e nodes (k :: swapped)) snap st.
Proof.
  induction 1 as [|p q snap st H _ IH]; constructor; [|exact IH].
  destruct H as [H1 [H2|[H2 H3]]]; split; auto. right. split; [right; exact H2|exact H3].
Qed.

Lemma apply_swap_inv e nodes swapped k from t : forall snap st,
  Forall2 (entry_inv e nodes swapped) snap st ->
  ~ In k swapped ->
  (forall rules ens, assoc k snap = Some (rules, ens) ->
     In (Swap t) (swap_shard Fixed (with_rules e rules) nodes ens from)) ->
  Forall2 (entry_inv e nodes (k :: swapped)) snap (apply_swap Fixed st k from t).
Proof.
  induction 1 as [|[kp [rules ens]] [kq m] snap st H HT IH]; intros Hk Hs; cbn [apply_swap].
  - constructor.
  - destruct H as [HK HM]. cbn [fst snd] in HK, HM. subst kq.
    destruct (N.eqb_spec k kp) as [->|Hne].
    + constructor; [|apply entry_inv_weaken, HT].
      assert (Hsw : In (Swap t) (swap_shard Fixed (with_rules e rules) nodes ens from)).
      { apply Hs. cbn [assoc]. rewrite N.eqb_refl. reflexivity. }
      destruct HM as [->|[Hin _]]; [|contradiction].
      split; [reflexivity|]. cbn [fst snd]. unfold swap_node. cbn [m_ens m_removed].
      destruct (negb (mem t ens) && mem from ens) eqn:E; cbn [fst]; [|left; reflexivity].
      right. split; [left; reflexivity|]. intros Hn. cbn [fst snd m_ens] in *.
      apply andb_true_iff in E. destruct E as [_ E2]. apply mem_In in E2.
      destruct (swap_one_at_a_time _ _ _ _ _ _ Hsw) as (Hn1 & Hn2 & _ & Hrep).
      destruct (Hrep Hn E2) as [R1 R2]. split; [exact R1|]. split; [exact R2|]. split.
      * intros A. exact (swap_keeps_anti_affinity (with_rules e rules) nodes ens from t Hsw A).
      * intros x Hx. apply replace_in_list_In in Hx. destruct Hx as [[Hx _]| ->]; auto.
    + constructor.
      * split; [reflexivity|]. cbn [fst snd].
        destruct HM as [HM|[HM1 HM2]]; [left; exact HM|right; split; [right; exact HM1|exact HM2]].
      * apply IH; [exact Hk|]. intros rules0 ens0 Ha. apply Hs. cbn [assoc].
        destruct (N.eqb_spec k kp); [contradiction|exact Ha].
Qed.

Lemma round_loop_inv e nodes snap : forall reqs st trace swapped,
  Forall2 (entry_inv e nodes swapped) snap st ->
  forall tr st', In (tr, st') (round_loop Fixed Fixed e nodes snap reqs st trace swapped) ->
  exists swapped', Forall2 (entry_inv e nodes swapped') snap st'.
Proof.
  induction reqs as [|[k from] reqs IH]; intros st trace swapped Inv tr st' H; cbn [round_loop] in H.
  - destruct H as [H|[]]. injection H as _ <-. exists swapped. exact Inv.
  - cbn [fst snd] in H. unfold already_swapped in H. destruct (mem k swapped) eqn:EM.
    + exact (IH _ _ _ Inv _ _ H).
    + apply mem_false in EM. apply in_flat_map in H. destruct H as (o & Ho & H).
      destruct o as [t| |er|].
      * refine (IH _ _ _ _ _ _ H). apply apply_swap_inv; [exact Inv|exact EM|].
        intros rules ens Ha. unfold propose in Ho. cbn [fst snd] in Ho. rewrite Ha in Ho. exact Ho.
      * exact (IH _ _ _ Inv _ _ H).
      * exact (IH _ _ _ Inv _ _ H).
      * destruct H as [H|[]]. injection H as _ <-. exists swapped. exact Inv.
Qed.

(* MAIN (round level): after any round of the fixed balancer, applied by the fixed swapNode to live
   metadata equal to the status snapshot, every shard whose snapshot ensemble was duplicate-free
   still has a duplicate-free ensemble of the same size, every new member is a server of the
   cluster, and strict anti-affinity is preserved. *)
Theorem round_ok e nodes snap reqs tr st' :
  In (tr, st') (round Fixed Fixed e nodes snap reqs) ->
  Forall2 (fun p q => fst p = fst q /\ entry_good e nodes p (snd q)) snap st'.
Proof.
  unfold round. intros H.
  assert (I0 : forall s0, Forall2 (entry_inv e nodes []) s0 (snap_state s0)).
  { unfold snap_state. induction s0 as [|p s0 IH]; cbn [map]; constructor; [|exact IH].
    split; [reflexivity|left; reflexivity]. }
  destruct (round_loop_inv _ _ _ _ _ _ _ (I0 snap) _ _ H) as (sw & Inv).
  clear H I0. induction Inv as [|p q snap st' HI _ IH]; constructor; [|exact IH].
  destruct HI as [H1 [H2|[_ H2]]]; split; auto.
  rewrite H2. intros Hn. cbn [m_ens]. auto.
Qed.

(* ------------------------------------------------------------------ *)
(* what holds of the code before the fixes as well (partial)            *)

Definition ens_members_good (cands : list N) (rf : nat) (o : res (list N)) : Prop :=
  match o with
  | Ok ens => length ens = rf /\ NoDup ens /\ (forall x, In x ens -> In x cands)
  | _ => True
  end.

Lemma ens_loop_members v e cands rf : forall n c esm selected,
  within (fun x => In x cands) c ->
  (forall x, In x esm <-> In x selected) ->
  (forall x, In x esm -> In x cands) ->
  (length selected <= length esm)%nat ->
  (length selected = length esm -> NoDup esm) ->
  (length esm + n = rf)%nat ->
  forall o, In o (ens_loop v e rf n c esm selected) -> ens_members_good cands rf o.
Proof.
  induction n as [|k IH]; intros c esm selected W Hmem Hin Hle Hnd Hlen o Ho.
  - cbn [ens_loop] in Ho. destruct (Nat.eqb_spec (length selected) rf) as [E|E].
    + destruct Ho as [<-|[]]. cbn. split; [lia|]. split; [apply Hnd; lia|exact Hin].
    + destruct Ho as [<-|[]]. exact I.
  - cbn [ens_loop] in Ho.
    pose proof (single_select_within v e c _ W) as [W1 P1].
    destruct (single_select v e c) as [rs c1]. cbn [fst snd] in *.
    apply in_flat_map in Ho. destruct Ho as (r & Hr & Ho). destruct r as [s|er|].
    + apply (IH (set_selected c1 (set_add s selected)) (esm ++ [s]) (set_add s selected)); auto.
      * apply set_selected_within, W1.
      * intros x. rewrite in_app_iff, set_add_In, Hmem. cbn. intuition.
      * intros x Hx. apply in_app_iff in Hx. destruct Hx as [Hx|[<-|[]]]; [auto|apply P1, Hr].
      * unfold set_add. destruct (mem s selected); rewrite ?app_length; cbn; lia.
      * unfold set_add. destruct (mem s selected) eqn:EM; rewrite ?app_length; cbn [length]; intros HL.
        -- lia.
        -- apply NoDup_snoc; [apply Hnd; lia|]. apply mem_false in EM. rewrite Hmem. exact EM.
      * rewrite app_length. cbn. lia.
    + destruct Ho as [<-|[]]. exact I.
    + destruct Ho as [<-|[]]. exact I.
Qed.

(* PARTIAL (code as found): a returned ensemble has rf distinct members of the candidate set.
   Missing: strict anti-affinity (refuted below) and absence of panics (refuted below). *)
Theorem ensemble_members_any_version v e cands rf o :
  In o (ensemble_select v e cands rf) -> ens_members_good cands rf o.
Proof.
  unfold ensemble_select. apply ens_loop_members; auto.
  - split; cbn; [|discriminate]. intros x Hx. apply filter_In in Hx. tauto.
  - tauto.
  - intros x [].
  - intros _. constructor.
Qed.

(* ------------------------------------------------------------------ *)
(* the "set of admissible picks" abstraction of finalSelector is exact  *)

(* Candidates that went through Set.Difference / Set.Intersection / the label-value map have an
   unspecified order; for every index and every member some order puts that member there
   (and [final_select_In]: whatever the order, the pick is a member). *)
Lemma final_any_order (i : N) (l : list N) (x : N) :
  In x l ->
  exists l', Permutation l' l /\ nth (N.to_nat (i mod N.of_nat (length l'))) l' 0 = x.
Proof.
  intros Hin. destruct (in_split _ _ Hin) as (l1 & l2 & ->).
  set (rest := l1 ++ l2). set (n := length (l1 ++ x :: l2)).
  assert (Hn : n = S (length rest)) by (unfold n, rest; rewrite !app_length; cbn; lia).
  set (k := N.to_nat (i mod N.of_nat n)).
  assert (Hk : (k <= length rest)%nat).
  { unfold k. assert (N.of_nat n <> 0) by lia. pose proof (N.mod_lt i _ H). lia. }
  assert (HP : Permutation (firstn k rest ++ x :: skipn k rest) (l1 ++ x :: l2)).
  { transitivity (x :: firstn k rest ++ skipn k rest).
    - symmetry. apply Permutation_middle.
    - rewrite firstn_skipn. apply Permutation_middle. }
  exists (firstn k rest ++ x :: skipn k rest). split; [exact HP|].
  rewrite (Permutation_length HP). fold n. fold k.
  rewrite app_nth2; rewrite firstn_length_le; auto.
  replace (k - k)%nat with 0%nat by lia. reflexivity.
Qed.

(* the executable form of the specification predicate (used by the witnesses and the harness) *)
Lemma aa_okb_spec md rules ens : aa_okb md rules ens = true <-> aa_ok md rules ens.
Proof.
  unfold aa_okb. split.
  - intros H r l x y val Hr Hm Hl Hx Hy Hne Lx Ly.
    rewrite forallb_forall in H. specialize (H r Hr). rewrite Hm in H. cbn in H.
    rewrite forallb_forall in H. specialize (H l Hl).
    rewrite forallb_forall in H. specialize (H x Hx).
    rewrite forallb_forall in H. specialize (H y Hy).
    unfold shares in H. rewrite Lx, Ly, N.eqb_refl in H.
    destruct (N.eqb_spec x y); [contradiction|discriminate].
  - intros A. apply forallb_forall. intros r Hr.
    destruct (r_mode r) eqn:M; cbn; auto.
    apply forallb_forall. intros l Hl. apply forallb_forall. intros x Hx.
    apply forallb_forall. intros y Hy.
    destruct (N.eqb_spec x y) as [|Hne]; cbn; auto.
    unfold shares. destruct (label_of md x l) as [a|] eqn:Lx; auto.
    destruct (label_of md y l) as [b|] eqn:Ly; auto.
    destruct (N.eqb_spec a b) as [->|]; auto.
    exfalso. exact (A r l x y b Hr M Hl Hx Hy Hne Lx Ly).
Qed.

(* ------------------------------------------------------------------ *)
(* the code as found: refutations (witnesses replayed on the real code,  *)
(* corpus/selector/*.case)                                               *)

Definition md4 : metadata :=
  [(1, [(10, 1); (11, 1)]); (2, [(10, 2); (11, 1)]); (3, [(10, 1); (11, 2)]); (4, [(10, 2); (11, 2)])].
Definition env4 : env := mkEnv md4 [mkRule [10; 11] Strict] (Some [1; 2; 3; 4]) (Some 0).

(* O-19: a first rule with two labels is a UNION of the per-label candidate sets: servers 1 and 2
   share the value of label 11 (a valid choice exists: the fixed code returns [1;4]) *)
Lemma ensemble_old_refuted_anti_affinity :
  In (Ok [1; 2]) (ensemble_select Old env4 [1; 2; 3; 4] 2) /\
  ~ aa_ok (e_md env4) (e_rules env4) [1; 2] /\
  ensemble_select Fixed env4 [1; 2; 3; 4] 2 = [Ok [1; 4]].
Proof.
  split; [vm_compute; auto|]. split; [|vm_compute; reflexivity].
  intros A. apply (A (mkRule [10; 11] Strict) 11 1 2 1); cbn; auto; discriminate.
Qed.

(* O-19: fewer candidates than replicas and no rule: the chain panics instead of refusing *)
Lemma ensemble_old_refuted_panic :
  In Panic (ensemble_select Old (mkEnv [] [] None (Some 0)) [1; 2] 3) /\
  ensemble_select Fixed (mkEnv [] [] None (Some 0)) [1; 2] 3 = [Err EReplicas; Err EReplicas].
Proof. split; [vm_compute; auto|vm_compute; reflexivity]. Qed.

(* the same panic reaches the balancer: server 1 was removed from a 3-server cluster, rf = 3 *)
Lemma swap_old_refuted_panic :
  In SwapPanic (swap_shard Old (mkEnv [] [] (Some [2; 3]) (Some 0)) [2; 3] [1; 2; 3] 1).
Proof. vm_compute; auto. Qed.

(* O-20: servers 13 and 14 left the cluster; both swaps of shard 7 are computed from the same
   snapshot [13;14;3], both name the least loaded server 4, the old swapNode accepts both *)
Lemma round_old_refuted_duplicate :
  round Old Old (mkEnv [] [] (Some [4; 5; 13; 14; 3]) (Some 0)) [3; 4; 5]
        [(7, ([], [13; 14; 3]))] [(7, 13); (7, 14)]
  = [([Swap 4; Swap 4], [(7, mkMd [3; 4; 4] [13; 14])])].
Proof. vm_compute; reflexivity. Qed.

Lemma swap_node_old_refuted :
  swap_node Old (mkMd [1; 2; 3] []) 1 3 = (mkMd [2; 3; 3] [1], true) /\
  swap_node Old (mkMd [1; 2; 3] []) 9 4 = (mkMd [1; 2; 3; 4] [9], true).
Proof. split; vm_compute; reflexivity. Qed.

(* guarding swapNode alone is not enough: two swaps of one shard from one snapshot are each fresh
   against the snapshot but not against each other (4 and 5 share the value of label 10) — hence the
   balancer moves one member per shard and round *)
Definition md5 : metadata :=
  [(3, [(10, 3); (11, 3)]); (4, [(10, 4); (11, 1)]); (5, [(10, 4); (11, 5)]);
   (13, [(10, 1); (11, 1)]); (14, [(10, 2); (11, 2)])].
Definition rules5 : list rule := [mkRule [10] Strict; mkRule [11] Strict].

Lemma round_guard_only_refuted_anti_affinity :
  round Old Fixed (mkEnv md5 [] (Some [4; 5; 13; 14; 3]) (Some 0)) [3; 4; 5]
        [(7, (rules5, [13; 14; 3]))] [(7, 13); (7, 14)]
  = [([Swap 4; Swap 5], [(7, mkMd [3; 4; 5] [13; 14])])] /\
  aa_ok md5 rules5 [13; 14; 3] /\ ~ aa_ok md5 rules5 [3; 4; 5] /\
  round Fixed Fixed (mkEnv md5 [] (Some [4; 5; 13; 14; 3]) (Some 0)) [3; 4; 5]
        [(7, (rules5, [13; 14; 3]))] [(7, 13); (7, 14)]
  = [([Swap 4; NoSwap], [(7, mkMd [14; 3; 4] [13])])].
Proof.
  split; [vm_compute; reflexivity|]. split; [apply aa_okb_spec; vm_compute; reflexivity|].
  split; [|vm_compute; reflexivity].
  intros A. apply aa_okb_spec in A. vm_compute in A. discriminate.
Qed.

(* ------------------------------------------------------------------ *)
(* the hypotheses of the main theorems are satisfiable on non-trivial inputs *)

Example ensemble_ok_nonvacuous :
  ensemble_select Fixed (mkEnv md5 rules5 (Some [5; 4; 3; 13; 14]) (Some 7)) [3; 4; 5; 13; 14] 3
  = [Ok [5; 3; 13]].
Proof. vm_compute; reflexivity. Qed.

(* without a load ranking the result depends on map order: several admissible ensembles *)
Example ensemble_ok_nonvacuous_set :
  ensemble_select Fixed (mkEnv md4 [mkRule [10] Strict] None (Some 1)) [1; 2; 3; 4] 2
  = [Ok [1; 2]; Ok [1; 4]; Ok [3; 2]; Ok [3; 4]; Ok [2; 1]; Ok [2; 3]; Ok [4; 1]; Ok [4; 3]].
Proof. vm_compute; reflexivity. Qed.

Example swap_nonvacuous :
  swap_shard Fixed (mkEnv md5 rules5 (Some [5; 4; 3; 13; 14]) (Some 0)) [3; 4; 5] [13; 14; 3] 13
  = [Swap 5].
Proof. vm_compute; reflexivity. Qed.

Example round_ok_nonvacuous :
  round Fixed Fixed (mkEnv md5 [] (Some [4; 5; 13; 14; 3]) (Some 0)) [3; 4; 5]
        [(7, (rules5, [13; 14; 3])); (8, ([], [14; 3]))] [(7, 13); (8, 14); (7, 14)]
  = [([Swap 4; Swap 4; NoSwap], [(7, mkMd [14; 3; 4] [13]); (8, mkMd [3; 4] [14])])].
Proof. vm_compute; reflexivity. Qed.

(* ------------------------------------------------------------------ *)
(* rounds one after the other, separated by the round barrier           *)

Definition snap_rel (e : env) (nodes : list N) (p q : N * (list rule * list N)) : Prop :=
  fst p = fst q /\ fst (snd p) = fst (snd q) /\
  (NoDup (snd (snd p)) ->
   NoDup (snd (snd q)) /\ length (snd (snd q)) = length (snd (snd p)) /\
   (aa_ok (e_md e) (fst (snd p)) (snd (snd p)) -> aa_ok (e_md e) (fst (snd p)) (snd (snd q))) /\
   (forall x, In x (snd (snd q)) -> In x (snd (snd p)) \/ In x nodes)).

Lemma snap_rel_refl e nodes l : Forall2 (snap_rel e nodes) l l.
Proof.
  induction l as [|p l IH]; constructor; [|exact IH].
  split; [reflexivity|]. split; [reflexivity|]. intros Hn. repeat split; auto.
Qed.

Lemma snap_rel_trans e nodes : forall a b c,
  Forall2 (snap_rel e nodes) a b -> Forall2 (snap_rel e nodes) b c -> Forall2 (snap_rel e nodes) a c.
Proof.
  intros a b c H. revert c. induction H as [|p q a b Hpq _ IH]; intros c Hbc; inversion Hbc; subst.
  - constructor.
  - constructor; [|apply IH; assumption].
    match goal with H : snap_rel _ _ q _ |- _ => destruct H as (K2 & R2 & G2) end.
    destruct Hpq as (K1 & R1 & G1).
    split; [congruence|]. split; [congruence|]. intros Hn.
    destruct (G1 Hn) as (N1 & L1 & A1 & M1). destruct (G2 N1) as (N2 & L2 & A2 & M2).
    split; [exact N2|]. split; [congruence|]. split.
    + intros A. rewrite R1. apply A2. rewrite <- R1. apply A1, A.
    + intros x Hx. destruct (M2 x Hx) as [H1|H1]; [apply M1, H1|right; exact H1].
Qed.

Lemma resnap_rel e nodes snap st :
  Forall2 (fun p q => fst p = fst q /\ entry_good e nodes p (snd q)) snap st ->
  Forall2 (snap_rel e nodes) snap (resnap snap st).
Proof.
  unfold resnap. induction 1 as [|p q snap st H _ IH]; cbn [combine map]; constructor; [|exact IH].
  destruct H as [K G]. cbn [fst snd]. split; [reflexivity|]. split; [reflexivity|]. exact G.
Qed.

(* MAIN (several rounds): with the round barrier, after any number of rounds every shard whose ensemble was
   duplicate-free at the start is still duplicate-free, of the same size, keeps strict anti-affinity, and has only
   gained cluster servers. *)
Theorem rounds_ok e nodes : forall reqss snap snap',
  In snap' (rounds_from e nodes snap reqss) -> Forall2 (snap_rel e nodes) snap snap'.
Proof.
  induction reqss as [|reqs reqss IH]; intros snap snap' H; cbn [rounds_from] in H.
  - destruct H as [<-|[]]. apply snap_rel_refl.
  - apply in_flat_map in H. destruct H as ([tr st'] & Hr & H). cbn [snd] in H.
    apply (snap_rel_trans _ _ _ (resnap snap st')).
    + apply resnap_rel. exact (round_ok _ _ _ _ _ _ Hr).
    + exact (IH _ _ H).
Qed.

(* Without the barrier: a second round computed from the SAME snapshot while the swap of the first is still queued.
   Each proposal is admissible for the snapshot [1;2;3], each passes swapNode's membership check when it is applied,
   and the result [3;4;5] has servers 4 and 5 in one zone. *)
Definition md_zone : metadata := [(1, [(10, 1)]); (2, [(10, 2)]); (3, [(10, 3)]); (4, [(10, 4)]); (5, [(10, 4)])].
Definition strict_zone : list rule := [mkRule [10] Strict].

Lemma rounds_without_barrier_refuted :
  In (Swap 4) (swap_shard Fixed (mkEnv md_zone strict_zone (Some [4; 5; 3; 2; 1]) (Some 0)) [1; 2; 3; 4; 5] [1; 2; 3] 1) /\
  In (Swap 5) (swap_shard Fixed (mkEnv md_zone strict_zone (Some [5; 4; 3; 2; 1]) (Some 0)) [1; 2; 3; 4; 5] [1; 2; 3] 2) /\
  apply_actions Fixed [(7, mkMd [1; 2; 3] [])] [(7, 1, 4); (7, 2, 5)] = [(7, mkMd [3; 4; 5] [1; 2])] /\
  aa_ok md_zone strict_zone [1; 2; 3] /\ ~ aa_ok md_zone strict_zone [3; 4; 5].
Proof.
  split; [vm_compute; auto|]. split; [vm_compute; auto|]. split; [vm_compute; reflexivity|].
  split; [apply aa_okb_spec; vm_compute; reflexivity|].
  intros A. apply aa_okb_spec in A. vm_compute in A. discriminate.
Qed.

(* ------------------------------------------------------------------ *)
(* swapNode: the controller's memory and the status never part          *)

Theorem swap_node_ctl_coherent v c from to ok :
  ctl_mem c = ctl_stored c ->
  ctl_mem (fst (swap_node_ctl v c from to ok)) = ctl_stored (fst (swap_node_ctl v c from to ok)).
Proof.
  intros H. unfold swap_node_ctl. destruct (swap_node v (ctl_mem c) from to) as [m' acc].
  destruct acc; cbn; [reflexivity|exact H].
Qed.

(* so every later swap is applied to exactly the ensemble the balancer planned it from *)
Corollary swap_node_ctl_sequence v : forall (ops : list (N * N * bool)) c,
  ctl_mem c = ctl_stored c ->
  let c' := fold_left (fun c op => fst (swap_node_ctl v c (fst (fst op)) (snd (fst op)) (snd op))) ops c in
  ctl_mem c' = ctl_stored c'.
Proof.
  induction ops as [|op ops IH]; intros c H; cbn [fold_left]; [exact H|].
  apply IH. apply swap_node_ctl_coherent, H.
Qed.

(* rolling the memory back after a failed election separates the two: the status says [2;3;4], the controller is back
   on [1;2;3]; the balancer then plans 2 -> 5 from [2;3;4] (zones of 3 and 4 taken, zone of 1 free), the controller applies
   it to [1;2;3] and stores [1;3;5]: servers 1 and 5 share their zone *)
Definition md_zone5 : metadata := [(1, [(10, 1)]); (2, [(10, 2)]); (3, [(10, 3)]); (4, [(10, 4)]); (5, [(10, 1)])].

Lemma swap_rollback_refuted :
  let c0 := mkCtl (mkMd [1; 2; 3] []) (mkMd [1; 2; 3] []) in
  let c1 := fst (swap_node_ctl_rollback Fixed c0 1 4 false) in
  let c2 := fst (swap_node_ctl_rollback Fixed c1 2 5 true) in
  m_ens (ctl_stored c1) = [2; 3; 4] /\ m_ens (ctl_mem c1) = [1; 2; 3] /\
  In (Swap 5) (swap_shard Fixed (mkEnv md_zone5 strict_zone (Some [5; 1; 3; 4]) (Some 0)) [1; 3; 4; 5]
                          (m_ens (ctl_stored c1)) 2) /\
  m_ens (ctl_stored c2) = [1; 3; 5] /\
  aa_ok md_zone5 strict_zone [2; 3; 4] /\ ~ aa_ok md_zone5 strict_zone [1; 3; 5].
Proof.
  cbv zeta. split; [vm_compute; reflexivity|]. split; [vm_compute; reflexivity|].
  split; [vm_compute; auto|]. split; [vm_compute; reflexivity|].
  split; [apply aa_okb_spec; vm_compute; reflexivity|].
  intros A. apply aa_okb_spec in A. vm_compute in A. discriminate.
Qed.
