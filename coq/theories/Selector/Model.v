(* Model of the coordinator's placement logic (property C19):

     coordinator/selectors/single/{context,selector,anti_affinity_selector,
                                   lowerest_load_selector,final_selector}.go
     coordinator/selectors/ensemble/selector.go
     coordinator/utils/grouping.go  (GroupingCandidatesWithLabelValue, GroupingValueWithLabel)
     coordinator/balancer/scheduler.go  (swapShard; a rebalance round = a list of swapShard calls
                                         against ONE status snapshot)
     coordinator/controllers/shard_controller.go  (swapNode's list handling, replaceInList)

   Servers, label names and label values are [N] identifiers (the Go code only ever compares
   these strings for equality).  A gods [linkedhashset] is a duplicate-free list in insertion
   order.  Go map iteration order reaches the result in three places:
     * [Set.Difference] / [Set.Intersection] range over the Go map of the set, so the order of
       [Context.Candidates] after [SetSelected] and of the anti-affinity candidates is unspecified;
     * the anti-affinity selector ranges over the map label-value -> servers;
     * [finalSelector] indexes that order with [ServerIdx mod len] (or [rand.Intn] when the
       status is nil).
   The model therefore keeps a flag [c_ordered] telling whether the order of [c_cands] is
   still the caller's insertion order; [final_select] returns the one indexed element when it is
   and the SET of all members when it is not (lemma [final_any_order] in Proofs.v: every member
   is reached by some order, and nothing else is).  All functions that can depend on that choice
   return the list of admissible outcomes.

   Load ranking (float arithmetic in DefaultShardsRank) is not modelled: the ranking is the input
   [e_rank] (node ids in the order of [Ratio.NodeIterator]).

   [version]: [Old] is the code as found (findings O-19, O-20), [Fixed] the code with
   fixes/O-19-*.diff and fixes/O-20-*.diff applied (the tree the check runs against).  The
   differences are exactly the places marked (FIX). *)
From Coq Require Import List NArith Bool Arith.
Import ListNotations.
Open Scope N_scope.

Inductive version := Old | Fixed.

(* ---------- finite sets and maps as lists ---------- *)

Fixpoint assoc {A : Type} (k : N) (l : list (N * A)) : option A :=
  match l with
  | [] => None
  | (k', a) :: tl => if N.eqb k k' then Some a else assoc k tl
  end.

Definition mem (x : N) (l : list N) : bool := existsb (N.eqb x) l.

(* linkedhashset.Add: insertion order kept, re-insertion is a no-op *)
Definition set_add (x : N) (l : list N) : list N := if mem x l then l else l ++ [x].
Definition set_diff (a b : list N) : list N := filter (fun x => negb (mem x b)) a.
Definition set_inter (a b : list N) : list N := filter (fun x => mem x b) a.
Definition set_union (a b : list N) : list N := fold_left (fun acc x => set_add x acc) b a.
Definition is_empty (l : list N) : bool := match l with [] => true | _ => false end.

(* map[string]ServerMetadata, ServerMetadata.Labels map[string]string *)
Definition metadata := list (N * list (N * N)).

Definition label_of (md : metadata) (s l : N) : option N :=
  match assoc s md with
  | Some ls => assoc l ls
  | None => None
  end.

(* ---------- policies, errors, outcomes ---------- *)

(* AntiAffinityMode is a string: "Strict", "Relaxed", anything else *)
Inductive mode := Strict | Relaxed | OtherMode.
Record rule := mkRule { r_labels : list N; r_mode : mode }.

Inductive err :=
| EReplicas        (* ErrUnsatisfiedEnsembleReplicas *)
| EAntiAffinity    (* ErrUnsatisfiedAntiAffinity *)
| EMode            (* ErrUnsupportedAntiAffinityMode *)
| ENoFunctioning   (* ErrNoFunctioning *)
| EMultiple        (* ErrMultipleResult *)
| ETargetMissing.  (* swapShard: "target node does not exist" *)

Inductive res (A : Type) :=
| Ok (a : A)
| Err (e : err)
| Panic.
Arguments Ok {A} a.
Arguments Err {A} e.
Arguments Panic {A}.

(* What does not change during one selection. *)
Record env := mkEnv {
  e_md    : metadata;
  e_rules : list rule;            (* Policies.AntiAffinities; nil policies = [] *)
  e_rank  : option (list N);      (* None: LoadRatioSupplier nil or returning nil *)
  e_idx   : option N              (* None: Status nil; Some i: Status.ServerIdx (uint32) *)
}.

(* single.Context *)
Record ctx := mkCtx {
  c_cands    : list N;            (* Candidates *)
  c_ordered  : bool;              (* order of c_cands is the caller's insertion order *)
  c_selected : list N;            (* selected *)
  c_gsrc     : option (list N);   (* candidateOnce done: the Candidates the grouping was computed from *)
  c_selcache : option (list N)    (* selectedOnce done: the selected set the grouping was computed from *)
}.

Definition new_ctx (cands : list N) : ctx := mkCtx cands true [] None None.

(* context.go: SetSelected — resets selectedOnce only; candidateOnce is NOT reset, so the
   candidate grouping may be stale. *)
Definition set_selected (c : ctx) (sel : list N) : ctx :=
  mkCtx (set_diff (c_cands c) sel) false sel (c_gsrc c) None.

(* context.go: maybeGrouping *)
Definition eff_gsrc (c : ctx) : list N :=
  match c_gsrc c with Some g => g | None => c_cands c end.
Definition eff_sel (c : ctx) : list N :=
  match c_selcache c with Some s => s | None => c_selected c end.
Definition maybe_grouping (c : ctx) : ctx :=
  mkCtx (c_cands c) (c_ordered c) (c_selected c) (Some (eff_gsrc c)) (Some (eff_sel c)).

(* grouping.go: GroupingCandidatesWithLabelValue(...)[label] : value -> set of servers *)
Fixpoint add_to_group (v s : N) (g : list (N * list N)) : list (N * list N) :=
  match g with
  | [] => [(v, [s])]
  | (v', l) :: tl => if N.eqb v v' then (v', set_add s l) :: tl else (v', l) :: add_to_group v s tl
  end.

Definition label_groups (md : metadata) (src : list N) (l : N) : list (N * list N) :=
  fold_left (fun g s => match label_of md s l with
                        | Some v => add_to_group v s g
                        | None => g
                        end) src [].

(* grouping.go: GroupingValueWithLabel(selected, md)[label] : set of values *)
Definition sel_values (md : metadata) (sel : list N) (l : N) : list N :=
  fold_left (fun acc s => match label_of md s l with
                          | Some v => set_add v acc
                          | None => acc
                          end) sel [].

(* anti_affinity_selector.go, inner loop over the value groups of one label: the servers whose
   value for [l] is not used by a selected server *)
Definition sat_label (md : metadata) (gsrc sel : list N) (l : N) : list N :=
  let sv := sel_values md sel l in
  fold_left (fun acc g => if mem (fst g) sv then acc else set_union acc (snd g))
            (label_groups md gsrc l) [].

(* one iteration of "for _, label := range affinity.Labels".
   acc = (candidates, no label processed yet); idx0 = (affinityIdx == 0). *)
Definition aa_label (v : version) (md : metadata) (gsrc sel : list N) (idx0 : bool) (m : mode)
           (acc : list N * bool) (l : N) : res (list N * bool) :=
  let '(cands, first) := acc in
  let sat := sat_label md gsrc sel l in
  (* (FIX O-19) Old: "if affinityIdx > 0"; Fixed: "if !firstLabel" *)
  let intersect := match v with Old => negb idx0 | Fixed => negb first end in
  let sat := if intersect then set_inter sat cands else sat in
  if is_empty sat then
    Err (match m with Strict => EAntiAffinity | _ => EMode end)
  else
    (* (FIX O-19) Old: "if affinityIdx == 0 { candidates.Add(sat...); continue }" — a UNION over the
       labels of the first rule; Fixed: always "candidates = sat" *)
    let union := match v with Old => idx0 | Fixed => false end in
    Ok (if union then set_union cands sat else sat, false).

Fixpoint aa_labels (v : version) (md : metadata) (gsrc sel : list N) (idx0 : bool) (m : mode)
         (ls : list N) (acc : list N * bool) : res (list N * bool) :=
  match ls with
  | [] => Ok acc
  | l :: tl =>
    match aa_label v md gsrc sel idx0 m acc l with
    | Ok acc' => aa_labels v md gsrc sel idx0 m tl acc'
    | Err e => Err e
    | Panic => Panic
    end
  end.

Fixpoint aa_rules (v : version) (md : metadata) (gsrc sel : list N) (idx0 : bool)
         (rs : list rule) (acc : list N * bool) : res (list N * bool) :=
  match rs with
  | [] => Ok acc
  | r :: tl =>
    match aa_labels v md gsrc sel idx0 (r_mode r) (r_labels r) acc with
    | Ok acc' => aa_rules v md gsrc sel false tl acc'
    | Err e => Err e
    | Panic => Panic
    end
  end.

(* serverAntiAffinitiesSelector.Select *)
Definition aa_select (v : version) (e : env) (c : ctx) : res N * ctx :=
  match e_rules e with
  | [] => (Err ENoFunctioning, c)
  | rules =>
    let c1 := maybe_grouping c in
    match aa_rules v (e_md e) (eff_gsrc c) (eff_sel c) true rules ([], true) with
    | Ok (cands, _) =>
      match cands with
      | [s] => (Ok s, c1)
      | _ => (Err EMultiple,
              mkCtx cands false (c_selected c1) (c_gsrc c1) (c_selcache c1))
      end
    | Err er => (Err er, c1)
    | Panic => (Panic, c1)
    end
  end.

(* lowerestLoadSelector.Select: first node of the ranking that is a candidate *)
Definition ll_select (e : env) (c : ctx) : res N :=
  match e_rank e with
  | None => Err ENoFunctioning
  | Some rank =>
    match find (fun x => mem x (c_cands c)) rank with
    | Some s => Ok s
    | None => Err ENoFunctioning
    end
  end.

(* finalSelector.Select: the list of admissible results ([] = ErrNoFunctioning).
   int(ServerIdx) % len : ServerIdx is a uint32 and int is 64 bits, no wrap. *)
Definition final_select (e : env) (c : ctx) : list N :=
  match c_cands c with
  | [] => []
  | l =>
    match e_idx e, c_ordered c with
    | Some i, true => [nth (N.to_nat (i mod N.of_nat (length l))) l 0]
    | _, _ => l
    end
  end.

(* single/selector.go: server.Select — the chain AA, lowest load, final.
   ErrNoFunctioning and ErrMultipleResult fall through, other errors are returned. *)
Definition falls_through (er : err) : bool :=
  match er with ENoFunctioning | EMultiple => true | _ => false end.

(* the part of the chain after the anti-affinity selector fell through *)
Definition after_aa (v : version) (e : env) (c1 : ctx) : list (res N) :=
  match ll_select e c1 with
  | Ok s => [Ok s]
  | Panic => [Panic]
  | Err er2 =>
    if falls_through er2 then
      match final_select e c1 with
      | [] =>
        (* (FIX O-19) Old: panic("unexpected behaviour");
           Fixed: return "", ErrUnsatisfiedEnsembleReplicas *)
        [match v with Old => Panic | Fixed => Err EReplicas end]
      | picks => map Ok picks
      end
    else [Err er2]
  end.

Definition single_select (v : version) (e : env) (c : ctx) : list (res N) * ctx :=
  let '(r1, c1) := aa_select v e c in
  match r1 with
  | Ok s => ([Ok s], c1)
  | Panic => ([Panic], c1)
  | Err er => if falls_through er then (after_aa v e c1, c1) else ([Err er], c1)
  end.

(* ensemble/selector.go: ensemble.Select.  [n] iterations left, [esm] filled so far. *)
Fixpoint ens_loop (v : version) (e : env) (rf : nat) (n : nat) (c : ctx)
         (esm selected : list N) : list (res (list N)) :=
  match n with
  | O => if Nat.eqb (length selected) rf then [Ok esm] else [Err EReplicas]
  | S k =>
    let '(rs, c1) := single_select v e c in
    flat_map (fun r =>
      match r with
      | Ok s => let sel' := set_add s selected in
                ens_loop v e rf k (set_selected c1 sel') (esm ++ [s]) sel'
      | Err er => [Err er]
      | Panic => [Panic]
      end) rs
  end.

Definition ensemble_select (v : version) (e : env) (cands : list N) (rf : nat)
  : list (res (list N)) :=
  ens_loop v e rf rf (set_selected (new_ctx cands) []) [] [].

(* a direct call of single.NewSelector().Select on a caller-built context
   (sel = None: SetSelected never called) *)
Definition single_case (v : version) (e : env) (cands : list N) (sel : option (list N))
  : list (res N) :=
  let c := match sel with
           | None => new_ctx cands
           | Some s => set_selected (new_ctx cands) s
           end in
  fst (single_select v e c).

(* ---------- the specification predicates ---------- *)

(* no two distinct members share a value of a label of a Strict rule *)
Definition aa_ok (md : metadata) (rules : list rule) (ens : list N) : Prop :=
  forall r l x y val,
    In r rules -> r_mode r = Strict -> In l (r_labels r) ->
    In x ens -> In y ens -> x <> y ->
    label_of md x l = Some val -> label_of md y l = Some val -> False.

Definition is_strict (m : mode) : bool := match m with Strict => true | _ => false end.

Definition shares (md : metadata) (l x y : N) : bool :=
  match label_of md x l, label_of md y l with
  | Some a, Some b => N.eqb a b
  | _, _ => false
  end.

Definition aa_okb (md : metadata) (rules : list rule) (ens : list N) : bool :=
  forallb (fun r =>
    negb (is_strict (r_mode r)) ||
    forallb (fun l =>
      forallb (fun x => forallb (fun y => N.eqb x y || negb (shares md l x y)) ens) ens)
      (r_labels r)) rules.

Fixpoint nodupb (l : list N) : bool :=
  match l with [] => true | x :: tl => negb (mem x tl) && nodupb tl end.

(* ---------- balancer: swapShard ---------- *)

Inductive swap_out :=
| Swap (target : N)       (* a SwapNodeAction{From, To: target} is emitted *)
| NoSwap                  (* (false, nil): target = from *)
| SwapErr (e : err)
| SwapPanic.

(* "filter selected": the ensemble of the status snapshot without the node to move *)
Definition swap_selected (ens : list N) (from : N) : list N :=
  fold_left (fun acc x => if N.eqb x from then acc else set_add x acc) ens [].

Definition swap_shard (v : version) (e : env) (nodes ens : list N) (from : N) : list swap_out :=
  let c := set_selected (new_ctx nodes) (swap_selected ens from) in
  map (fun r =>
    match r with
    | Ok t => if N.eqb t from then NoSwap
              else if mem t nodes then Swap t else SwapErr ETargetMissing
    | Err er => SwapErr er
    | Panic => SwapPanic
    end) (fst (single_select v e c)).

(* ---------- shard controller: swapNode's metadata handling ---------- *)

Definition replace_in_list (l : list N) (old new : N) : list N :=
  filter (fun x => negb (N.eqb x old)) l ++ [new].

Record shard_md := mkMd { m_ens : list N; m_removed : list N }.

(* returns the new metadata and whether the swap was accepted.
   (FIX O-20) Old: unconditional; Fixed: refused (metadata untouched) when [to] is already a
   member or [from] is not a member. *)
Definition swap_node (v : version) (m : shard_md) (from to : N) : shard_md * bool :=
  let accept := match v with
                | Old => true
                | Fixed => negb (mem to (m_ens m)) && mem from (m_ens m)
                end in
  if accept then (mkMd (replace_in_list (m_ens m) from to) (m_removed m ++ [from]), true)
  else (m, false).

(* swapNode as a whole: the controller keeps the shard metadata in memory ([ctl_mem]) and in the status
   ([ctl_stored]).  After swapNodeInMetadata changed the memory, electLeader stores the in-memory metadata at its very
   start (statusResource.UpdateShardMetadata) and only then talks to the servers; when the election fails swapNode
   returns the error and undoes nothing: the new ensemble stays both in memory and in the status.
   Outcomes: refused (membership check), election failed, swapped. *)
Record ctl := mkCtl { ctl_mem : shard_md; ctl_stored : shard_md }.

Inductive swap_result := SwapRefused | SwapElectionFailed | SwapDone.

Definition swap_node_ctl (v : version) (c : ctl) (from to : N) (election_ok : bool)
  : ctl * swap_result :=
  let '(m', accepted) := swap_node v (ctl_mem c) from to in
  if accepted then (mkCtl m' m', if election_ok then SwapDone else SwapElectionFailed)
  else (c, SwapRefused).

(* the tempting clean-up "restore the previous members in memory when the election failed" (not in the code) *)
Definition swap_node_ctl_rollback (v : version) (c : ctl) (from to : N) (election_ok : bool)
  : ctl * swap_result :=
  let '(m', accepted) := swap_node v (ctl_mem c) from to in
  if accepted then
    if election_ok then (mkCtl m' m', SwapDone) else (mkCtl (ctl_mem c) m', SwapElectionFailed)
  else (c, SwapRefused).

(* ---------- a rebalance round ----------
   [snap]: shard id -> (anti-affinity rules of its namespace, ensemble) in the status snapshot the
   round was computed from; [reqs]: the (shard, from) pairs the balancer decides to move, in order
   (which ones and how many depends on float load ratios and map order — an input here); every
   proposal is computed against [snap]; the emitted actions are applied in order by swapNode to the
   live metadata [st].
   (FIX O-20) Fixed balancer: [swappedShards] — a shard for which an action was already emitted in
   this round is skipped ((false, nil)), because a second proposal would be computed against the
   stale snapshot ensemble. *)
Definition with_rules (e : env) (rules : list rule) : env :=
  mkEnv (e_md e) rules (e_rank e) (e_idx e).

Definition propose (v : version) (e : env) (nodes : list N)
           (snap : list (N * (list rule * list N))) (rq : N * N) : list swap_out :=
  match assoc (fst rq) snap with
  | Some (rules, ens) => swap_shard v (with_rules e rules) nodes ens (snd rq)
  | None => [NoSwap]
  end.

Fixpoint apply_swap (v : version) (st : list (N * shard_md)) (shard from to : N)
  : list (N * shard_md) :=
  match st with
  | [] => []
  | (k, m) :: tl =>
    if N.eqb shard k then (k, fst (swap_node v m from to)) :: tl
    else (k, m) :: apply_swap v tl shard from to
  end.

Definition already_swapped (vb : version) (shard : N) (swapped : list N) : bool :=
  match vb with Old => false | Fixed => mem shard swapped end.

(* vb: version of the selectors/balancer, vs: version of swapNode *)
Fixpoint round_loop (vb vs : version) (e : env) (nodes : list N)
         (snap : list (N * (list rule * list N))) (reqs : list (N * N))
         (st : list (N * shard_md)) (trace : list swap_out) (swapped : list N)
  : list (list swap_out * list (N * shard_md)) :=
  match reqs with
  | [] => [(trace, st)]
  | rq :: tl =>
    if already_swapped vb (fst rq) swapped then
      round_loop vb vs e nodes snap tl st (trace ++ [NoSwap]) swapped
    else
    flat_map (fun o =>
      match o with
      | Swap t => round_loop vb vs e nodes snap tl (apply_swap vs st (fst rq) (snd rq) t)
                             (trace ++ [o]) (fst rq :: swapped)
      | SwapPanic => [(trace ++ [o], st)]       (* the coordinator process dies *)
      | _ => round_loop vb vs e nodes snap tl st (trace ++ [o]) swapped
      end) (propose vb e nodes snap rq)
  end.

Definition snap_state (snap : list (N * (list rule * list N))) : list (N * shard_md) :=
  map (fun p => (fst p, mkMd (snd (snd p)) [])) snap.

Definition round (vb vs : version) (e : env) (nodes : list N)
           (snap : list (N * (list rule * list N))) (reqs : list (N * N))
  : list (list swap_out * list (N * shard_md)) :=
  round_loop vb vs e nodes snap reqs (snap_state snap) [] [].

(* Rounds one after the other, with the round barrier of rebalanceEnsemble (swapGroup.Wait(): a round returns only
   when the action worker has applied every action it proposed, and the next round loads the status again): the
   snapshot of the next round is the metadata the previous round left.  Between proposal and application the
   actions sit in the balancer's action channel; because every proposal of a round is computed from the snapshot
   only (never from the live metadata), "propose all, then apply in order" is what [round_loop] computes. *)
Definition resnap (snap : list (N * (list rule * list N))) (st : list (N * shard_md))
  : list (N * (list rule * list N)) :=
  map (fun pq => (fst (fst pq), (fst (snd (fst pq)), m_ens (snd (snd pq))))) (combine snap st).

Fixpoint rounds_from (e : env) (nodes : list N) (snap : list (N * (list rule * list N)))
         (reqss : list (list (N * N))) : list (list (N * (list rule * list N))) :=
  match reqss with
  | [] => [snap]
  | reqs :: tl =>
    flat_map (fun r => rounds_from e nodes (resnap snap (snd r)) tl)
             (round Fixed Fixed e nodes snap reqs)
  end.

(* applying an arbitrary action list (shard, from, to) *)
Definition apply_actions (v : version) (st : list (N * shard_md)) (acts : list (N * N * N))
  : list (N * shard_md) :=
  fold_left (fun s a => apply_swap v s (fst (fst a)) (snd (fst a)) (snd a)) acts st.
