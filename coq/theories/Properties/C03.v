(* C03 — Replica logs never diverge at or below an acknowledged offset.
   Only the property theorems (each closed by [exact]) and Print Assumptions.
   Two-party model: the follower node of Oxia.Node.Model (repaired variant) and, for every term T, the log
   [llog T] of that term's leader.  The leader-side obligations are the hypothesis [env_ok] of every step
   (see Node/Matching.v); for Truncate it is only discharged when the follower holds an entry of the requested
   term (c03_truncate_contract_partial) - the general case is the open finding c03_truncate_one_round_refuted. *)
From Coq Require Import List ZArith.
From Oxia.Node Require Import Model Lemmas Fence Matching Refuted TruncSorted.
From Oxia.Cluster Require Model Invariants Preservation.
Import ListNotations.
Open Scope Z_scope.

(* Whenever the follower sends Ack(off) on a stream (of term [s_term s]), every entry it holds at an offset <= off
   is exactly the entry of that leader's log at that offset, and lies in the synced prefix of its WAL.
   For every schedule of appends (in order, duplicated, re-delivered), sync rounds, stream failures and reconnects,
   new-term requests, truncations, snapshot installs, crashes and restarts that meets the leader-side obligations. *)
Theorem c03_ack_implies_matching_durable_partial : forall llog n g a n' o sid off,
  greach llog n g -> env_ok llog n g a -> step cfg_fixed n a = (n', o) -> In (sid, off) (o_acks o) ->
  exists s, find_stream n sid = Some s /\
    forall e, In e (n_wal n') -> e_off e <= off -> authentic llog (s_term s) e /\ durable n' e.
Proof. exact ack_implies_matching_durable. Qed.
Print Assumptions c03_ack_implies_matching_durable_partial.

(* Hence two replicas agree on every entry at or below an offset both hold from the log of the same leader. *)
Theorem c03_replicas_agree : forall llog T e1 e2,
  authentic llog T e1 -> authentic llog T e2 -> e_off e1 = e_off e2 -> e1 = e2.
Proof. exact acked_entries_agree. Qed.
Print Assumptions c03_replicas_agree.

(* The Truncate obligation follows from log matching when the newest follower entry not past the requested id
   has the requested term (or nothing is kept). *)
Theorem c03_truncate_contract_partial : forall llog w T h eh,
  wal_ok w -> family_lm llog -> follower_lm llog w ->
  nth_error (llog T) (Z.to_nat (snd h)) = Some eh -> e_term eh = fst h -> 0 <= snd h ->
  (forall ek, first_with (fun e => eid_leb (eid_of e) h) (rev (firstn (length w) w)) = Some ek -> e_term ek = fst h) ->
  matches llog (upto (trunc_target w (length w) h) w) T.
Proof. exact trunc_contract_from_log_matching. Qed.
Print Assumptions c03_truncate_contract_partial.

(* On a well-formed log whose entry terms are non-decreasing (every log real leaders produce) the repaired Truncate keeps
   exactly the entries whose id is <= the requested id.  (Without term-sortedness the backward scan only gives a prefix.) *)
Theorem c03_truncate_keeps_exactly_le_when_sorted : forall w h, wal_ok w -> term_sorted w ->
  forall e, In e w ->
    ((e_off e <=? trunc_target w (length w) h) = true <-> eid_leb (eid_of e) h = true).
Proof. exact truncate_keeps_exactly_le_when_sorted. Qed.
Print Assumptions c03_truncate_keeps_exactly_le_when_sorted.

(* Truncate is refused, and changes nothing, unless the follower is FENCED (both model variants). *)
Theorem c03_truncate_refused_unless_fenced : forall c n t h, n_role n = RFollower -> n_status n <> Fenced ->
  step c n (TruncateReq t h) = (n, out (RErr EInvalidStatus)).
Proof. exact truncate_refused_unless_fenced. Qed.
Print Assumptions c03_truncate_refused_unless_fenced.

(* Known finding (open): one round of truncation by entry id can leave lower-term entries the leader does not have. *)
Theorem c03_truncate_one_round_refuted :
  truncate_follower_if_needed leader10 2 (8, 1) (6, 3) = TTrunc (4, 0) /\
  exists n' o e, step cfg_fixed (state_after cfg_fixed init sched_residual) (TruncateReq 10 (4, 0)) = (n', o) /\
    o_res o = RHead (10, 2) /\ In e (n_wal n') /\ nth_error leader10 (Z.to_nat (e_off e)) <> Some e.
Proof. exact truncate_one_round_refuted. Qed.
Print Assumptions c03_truncate_one_round_refuted.

(* The pinned code: O-3 truncation by offset keeps entries of a dead term ... *)
Theorem c03_truncate_old_refuted :
  exists l t h n' o e, step cfg_old (state_after cfg_old init l) (TruncateReq t h) = (n', o) /\
    o_res o = RHead (t, snd h) /\ In e (n_wal n') /\ eid_leb (eid_of e) h = false.
Proof. exact truncate_old_refuted. Qed.
Print Assumptions c03_truncate_old_refuted.

(* ... O-4 a duplicate is acknowledged while its first copy is not durable ... *)
Theorem c03_dup_ack_old_refuted :
  exists l sid e c n' o, let n := state_after cfg_old init l in
    step cfg_old n (FollowerAppend sid e c) = (n', o) /\ In (sid, e_off e) (o_acks o) /\
    In e (n_wal n') /\ n_synced n' = O.
Proof. exact dup_ack_old_refuted. Qed.
Print Assumptions c03_dup_ack_old_refuted.

(* ... O-5/O-5b a sync round in flight across NewTerm + Truncate acknowledges the new leader's entries to the old leader. *)
Theorem c03_ack_differs_old_refuted :
  exists l sid off n' o e, let n := state_after cfg_old init l in
    step cfg_old n (SyncEnd sid) = (n', o) /\ In (sid, off) (o_acks o) /\ stream_term n sid = Some 2 /\
    In e (n_wal n') /\ e_off e <= off /\ nth_error (llog_o5b 2) (Z.to_nat (e_off e)) <> Some e.
Proof. exact ack_differs_old_refuted. Qed.
Print Assumptions c03_ack_differs_old_refuted.

(* Cluster level (World model of Cluster/Model.v, C01's invariant): in every state reachable by any execution of the
   repaired protocol without ensemble change, a node that acknowledged offset o in term t and is still in term t holds
   exactly the log of the leader of t up to o.  (For the code: on executions with CodeModel.consistent_run, by run_code_eq.) *)
Theorem c03_ack_implies_matching_cluster : forall E acts w,
  NoDup E -> Oxia.Cluster.Preservation.no_swap acts = true ->
  Oxia.Cluster.Model.run (Oxia.Cluster.Model.init E) acts = Some w ->
  forall x t o, In (x, t, o) (Oxia.Cluster.Model.acks w) ->
  Oxia.Cluster.Model.nterm (Oxia.Cluster.Model.nodes w x) = t ->
  firstn (S o) (Oxia.Cluster.Model.nlog (Oxia.Cluster.Model.nodes w x)) = firstn (S o) (Oxia.Cluster.Model.tlog w t).
Proof. exact Oxia.Cluster.Preservation.ack_implies_matching. Qed.
Print Assumptions c03_ack_implies_matching_cluster.
