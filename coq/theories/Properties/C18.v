(* C18 — The shard map always partitions the hash space and routes every key to one shard.
   This file contains only the property theorems (each closed by [exact]) and Print Assumptions. *)
From Coq Require Import List NArith ZArith.
From Oxia.Shard Require Import Model Proofs.
Import ListNotations.
Open Scope N_scope.

(* GenerateShards: for every shard count 1..65536 and every base id the ranges partition
   [0, 2^32) (no gap, no overlap, in order) and the ids are base, base+1, ... *)
Theorem c18_generate_partitions : forall base n,
  1 <= n -> n <= 65536 ->
  exists l, generate_shards base n = Some l /\ partition l /\
            map sid l = map (fun i => (base + Z.of_N i)%Z) (N_seq n).
Proof. exact generate_partitions. Qed.
Print Assumptions c18_generate_partitions.

(* On a partition every hash code is routed to exactly one shard. *)
Theorem c18_route_unique : forall l h,
  partition l -> h < U32 -> exists s, route l h = [s] /\ In s l.
Proof. exact route_unique. Qed.
Print Assumptions c18_route_unique.

(* The bound of c18_generate_partitions is sharp (finding O-18c, configuration never validated). *)
Theorem c18_generate_refuted_65537 :
  exists l, generate_shards 0 65537 = Some l /\ chainedb 0 l = false.
Proof. exact generate_65537_not_partition. Qed.
Print Assumptions c18_generate_refuted_65537.
