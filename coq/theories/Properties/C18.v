(* C18 — The shard map always partitions the hash space and routes every key to one shard.
   This file contains only the property theorems (each closed by [exact]) and Print Assumptions. *)
From Coq Require Import List NArith ZArith Permutation.
From Oxia.Shard Require Import Model Proofs Status StatusProofs ClientProofs Dispatcher DispatcherProofs.
Import ListNotations.
Open Scope N_scope.

(* GenerateShards: for every shard count 1..65536 and every base id the ranges partition
   [0, 2^32) (no gap, no overlap, in order) and the ids are base, base+1, ... *)
Theorem c18_generate_partitions : forall base n,
  1 <= n -> n <= 65536 ->
  exists l, generate_shards base n = Some l /\ partition l /\
            map sid l = map (fun i => (base + Z.of_N i)%Z) (N_seq n).
Proof. exact generate_partitions. Qed.
Print Assumptions c18_generate_partitions.

(* On a partition every hash code is routed to exactly one shard. *)
Theorem c18_route_unique : forall l h,
  partition l -> h < U32 -> exists s, route l h = [s] /\ In s l.
Proof. exact route_unique. Qed.
Print Assumptions c18_route_unique.

(* The bound of c18_generate_partitions is sharp (finding O-18c, configuration never validated). *)
Theorem c18_generate_refuted_65537 :
  exists l, generate_shards 0 65537 = Some l /\ chainedb 0 l = false.
Proof. exact generate_65537_not_partition. Qed.
Print Assumptions c18_generate_refuted_65537.

(* The cluster status over EVERY history of config changes (add/remove namespaces and servers, with any
   ensemble supplier, failing or not), shard-deletion completions and controller metadata updates, for shard
   counts 1..65536 and fewer than 2^63 requested shards: shard ids are unique over the whole status and below
   ShardIdGenerator; every stored namespace has shards, and what is published for it is nothing (the namespace
   is being deleted) or a partition of [0, 2^32).  (Model of the code with fix O-18(a).) *)
Theorem c18_status_invariant :
  forall (S : Type) (supplier : S -> nsconfig -> cstatus -> option (list N) * S) (sup0 : S) (ops : list op),
  Forall op_in_domain ops -> (requested ops < I64)%Z ->
  let st := fst (run S supplier (init_status, sup0) ops) in
  NoDup (all_ids (st_ns st)) /\
  (forall id, In id (all_ids (st_ns st)) -> (0 <= id < st_idgen st)%Z) /\
  (forall name ns, In (name, ns) (st_ns st) ->
     ns_shards ns <> [] /\ (assignments ns = [] \/ partition (assignments ns))).
Proof. exact status_invariant. Qed.
Print Assumptions c18_status_invariant.

(* The generator never decreases ... *)
Theorem c18_generator_monotone :
  forall (S : Type) (supplier : S -> nsconfig -> cstatus -> option (list N) * S) (sup0 : S) (ops1 ops2 : list op),
  Forall op_in_domain (ops1 ++ ops2) -> (requested (ops1 ++ ops2) < I64)%Z ->
  (st_idgen (fst (run S supplier (init_status, sup0) ops1)) <=
   st_idgen (fst (run S supplier (init_status, sup0) (ops1 ++ ops2))))%Z.
Proof. exact generator_monotone. Qed.
Print Assumptions c18_generator_monotone.

(* ... and shard ids are never reused: an id that was in the status and is gone never comes back. *)
Theorem c18_ids_never_reused :
  forall (S : Type) (supplier : S -> nsconfig -> cstatus -> option (list N) * S) (sup0 : S)
         (ops1 ops2 ops3 : list op) (id : Z),
  Forall op_in_domain (ops1 ++ ops2 ++ ops3) -> (requested (ops1 ++ ops2 ++ ops3) < I64)%Z ->
  In id (all_ids (st_ns (fst (run S supplier (init_status, sup0) ops1)))) ->
  ~ In id (all_ids (st_ns (fst (run S supplier (init_status, sup0) (ops1 ++ ops2))))) ->
  ~ In id (all_ids (st_ns (fst (run S supplier (init_status, sup0) (ops1 ++ ops2 ++ ops3))))).
Proof. exact ids_never_reused. Qed.
Print Assumptions c18_ids_never_reused.

(* While a shard id lives it keeps its namespace and its hash range. *)
Theorem c18_shard_keeps_namespace_and_range :
  forall (S : Type) (supplier : S -> nsconfig -> cstatus -> option (list N) * S) (sup0 : S)
         (ops1 ops2 : list op) (name : N) (s : shard),
  Forall op_in_domain (ops1 ++ ops2) -> (requested (ops1 ++ ops2) < I64)%Z ->
  let s1 := fst (run S supplier (init_status, sup0) ops1) in
  let s2 := fst (run S supplier (init_status, sup0) (ops1 ++ ops2)) in
  shard_in (st_ns s2) name s -> (sid s < st_idgen s1)%Z -> shard_in (st_ns s1) name s.
Proof. exact shard_keeps_namespace_and_range. Qed.
Print Assumptions c18_shard_keeps_namespace_and_range.

(* O-18(b), known finding: a namespace added again while the shards of its previous incarnation are still being
   deleted counts as existing, gets no shards and is published with zero shards ... *)
Theorem c18_readded_namespace_refuted :
  exists ops cfg nc ns,
    Forall op_in_domain (ops ++ [OpApply cfg]) /\ (requested (ops ++ [OpApply cfg]) < I64)%Z /\
    In nc (cfg_ns cfg) /\
    ns_lookup (nc_name nc) (st_ns (fst (run unit const_supplier (init_status, tt) (ops ++ [OpApply cfg])))) = Some ns /\
    assignments ns = [] /\ ~ partition (assignments ns).
Proof. exact readded_namespace_refuted. Qed.
Print Assumptions c18_readded_namespace_refuted.

(* ... what holds instead: after a config change every configured namespace the status holds is published as a
   partition, provided none of its shards was still being deleted when the change came in. *)
Theorem c18_configured_namespaces_partitioned_partial :
  forall (S : Type) (supplier : S -> nsconfig -> cstatus -> option (list N) * S) (sup0 : S)
         (ops : list op) (cfg : cconfig) st' ta td sup',
  Forall op_in_domain (ops ++ [OpApply cfg]) -> (requested (ops ++ [OpApply cfg]) < I64)%Z ->
  let s := run S supplier (init_status, sup0) ops in
  apply_cluster_changes S supplier cfg (fst s) (snd s) = (Some (st', ta, td), sup') ->
  forall nc ns', In nc (cfg_ns cfg) -> ns_lookup (nc_name nc) (st_ns st') = Some ns' ->
    (forall ns, ns_lookup (nc_name nc) (st_ns (fst s)) = Some ns ->
                forall m, In m (ns_shards ns) -> is_deleting (m_st m) = false) ->
    partition (assignments ns').
Proof. exact configured_namespaces_partitioned_partial. Qed.
Print Assumptions c18_configured_namespaces_partitioned_partial.

(* Client shard map: if the map has unique ids and no overlapping entries (the empty map, any partition) and the
   update is a partition with unique ids in which an id the client already knows keeps its range, then after
   [update] the map holds exactly the update's shards -- stale shards are removed by the overlap rule. *)
Theorem c18_client_update_preserves_partition : forall m upd,
  disjoint_map m -> partition upd -> NoDup (map sid upd) ->
  (forall x u, In x m -> In u upd -> sid x = sid u -> x = u) ->
  Permutation (client_update m upd) upd /\ disjoint_map (client_update m upd).
Proof. exact client_update_partition. Qed.
Print Assumptions c18_client_update_preserves_partition.

Theorem c18_partition_is_disjoint_map : forall l,
  partition l -> NoDup (map sid l) -> disjoint_map l.
Proof. exact partition_disjoint_map. Qed.
Print Assumptions c18_partition_is_disjoint_map.

(* Client and server agree: along every history, a client that was sent the assignments of a namespace at one
   moment and at a later one holds exactly the later publication and routes every hash code to the one shard
   that publication -- which the servers forward unchanged -- names. *)
Theorem c18_client_server_agree :
  forall (S : Type) (supplier : S -> nsconfig -> cstatus -> option (list N) * S) (sup0 : S)
         (ops1 ops2 : list op) (name : N) (ns1 ns2 : nsstatus) (m1 m2 : list shard) (h : N),
  Forall op_in_domain (ops1 ++ ops2) -> (requested (ops1 ++ ops2) < I64)%Z ->
  let s1 := fst (run S supplier (init_status, sup0) ops1) in
  let s2 := fst (run S supplier (init_status, sup0) (ops1 ++ ops2)) in
  ns_lookup name (st_ns s1) = Some ns1 -> assignments ns1 <> [] ->
  ns_lookup name (st_ns s2) = Some ns2 -> assignments ns2 <> [] ->
  client_receive name (compute_assignments s1) [] = Some m1 ->
  client_receive name (compute_assignments s2) m1 = Some m2 ->
  h < U32 ->
  Permutation m2 (assignments ns2) /\
  exists s, route (assignments ns2) h = [s] /\ route m2 h = [s].
Proof. exact client_server_agree. Qed.
Print Assumptions c18_client_server_agree.

(* The server-side assignment dispatcher, in every interleaving of client registrations, coordinator pushes, Send
   completions / failures on the client streams and client disconnects: a client that waits for updates is
   registered, and the last update it was sent is the dispatcher's current assignment for its namespace.  (A client
   that was inside a Send when a push arrived is cut off instead and has to subscribe again.) *)
Theorem c18_dispatcher_last_update_is_current : forall (acts : list daction) (c : dclient),
  In c (d_clients (drun acts)) -> dc_phase c = Waiting ->
  dc_reg c = true /\
  exists a, d_cur (drun acts) = Some a /\ last_update c = Some (filter_ns (dc_ns c) a).
Proof. exact dispatcher_last_update_is_current. Qed.
Print Assumptions c18_dispatcher_last_update_is_current.

(* The client's shard map with the leader attached to every shard ([option N]: known or not; an assignment is
   published with an empty leader while a shard has none).  update never looks at it: ids and ranges after the
   update are those of the leaderless model, so the map is the update's partition whether or not leaders are known. *)
Theorem c18_client_update_independent_of_leaders : forall (m upd : list (lshard (option N))),
  disjoint_map (map fst m) -> partition (map fst upd) -> NoDup (map sid (map fst upd)) ->
  (forall x u, In x (map fst m) -> In u (map fst upd) -> sid x = sid u -> x = u) ->
  Permutation (map fst (client_update_l (option N) m upd)) (map fst upd) /\
  disjoint_map (map fst (client_update_l (option N) m upd)).
Proof. exact (client_update_partition_with_leaders (option N)). Qed.
Print Assumptions c18_client_update_independent_of_leaders.

(* update holds the write lock over the whole received list: readers see the map before or after it, which is what
   the theorems above are about.  If the lock were released after every shard of the list, readers could see a map
   with a hole although every received list is an exact partition (round-8 seeded change; found by the forced
   reader / writer / probes schedule of the harness). *)
Theorem c18_stepwise_update_exposes_hole_refuted :
  exists m upd mid h,
    partition m /\ partition upd /\ NoDup (map sid upd) /\
    (forall x u, In x m -> In u upd -> sid x <> sid u) /\
    In mid (update_steps m upd) /\ h < U32 /\ route mid h = [] /\ ~ partition mid.
Proof. exact stepwise_update_exposes_hole_refuted. Qed.
Print Assumptions c18_stepwise_update_exposes_hole_refuted.
