(* C16 — Sequence keys are fresh, strictly increasing and computed exactly; a subscriber eventually
   observes the latest generated key.
   This file contains only the property theorems (each closed by [exact]) and Print Assumptions.
   Model: Db/Sequences.v (generateUniqueKeyFromSequences as repaired), Db/Write.v (applyPut, ProcessWrite and
   the sequence updates it publishes after Commit), Db/SeqWait.v (override channel + wait tracker + the way
   kv.DB drives them), Db/C16_Old.v (the sequence-key code before the repair).
   Proofs: Db/C16_Keys.v, C16_Gen.v, Proofs_C16.v, C16_WaitProofs.v. *)
From Coq Require Import List NArith ZArith Bool.
From Oxia.KeyOrder Require Import Model.
From Oxia.Db Require Import Types Bytes Keys Kv Sessions Indexes Sequences Write Read KvProofs Proofs_C12
  C16_Old C16_Keys C16_Gen Proofs_C16 SeqWait C16_WaitProofs.
Import ListNotations.
Open Scope N_scope.

(* ---- freshness and order, in EVERY well-formed state (all reachable states are: c12_reachable_invariant) ---- *)
(* A sequence put (any deltas, any state of the keys under the prefix) that is answered with a key created a
   record under a key that was absent, that is greater than every key of the prefix below
   prefix-%020d(2^64-1) (the keys FindLower can see), and that is what the waiters are told; answered without a
   key, it changed nothing a user can see.  Holds for every put of a batch on the batch as left by the
   earlier operations ([w]): several sequence puts of one batch see each other. *)
Theorem c16_fresh_and_greater : forall w p ts w' r,
  wf_kv (w_kv w) -> p_deltas p <> [] -> is_internal (p_key p) = false ->
  apply_put wrapper_callbacks w p ts = (w', Ok r) ->
  match pr_key r with
  | Some nk =>
      pr_status r = OK /\ generate_key (w_kv w) p = SeqOk nk /\
      kv_get (w_kv w) nk = None /\
      (exists e, kv_get (w_kv w') nk = Some (VRecord e) /\ e_value e = p_value p /\ e_modcount e = 0%Z) /\
      (forall k v, kv_get (w_kv w) k = Some v -> has_prefix (p_key p) k = true ->
                   cmp_slash k (max_key (p_key p)) = Lt -> cmp_slash nk k = Gt) /\
      w_events w' = w_events w ++ [(p_key p, nk)]
  | None =>
      pr_status r <> OK /\ (forall k, uv (w_kv w') k = uv (w_kv w) k) /\ w_events w' = w_events w
  end.
Proof. exact put_fresh. Qed.
Print Assumptions c16_fresh_and_greater.

(* the key generation alone: the key it returns is not in the map (any sorted map, any request) *)
Theorem c16_generated_key_absent : forall b p nk,
  sorted b -> p_deltas p <> [] -> generate_key b p = SeqOk nk -> kv_get b nk = None.
Proof. exact generate_key_fresh. Qed.
Print Assumptions c16_generated_key_absent.

(* ---- exactness, where every key with the prefix was generated from the sequence ---- *)
(* [seq_wf b P]: every key of b with prefix P is P followed by 20-digit numbers (uint64, the first below
   2^64-1).  [last_vals b P cur]: cur are the numbers of the highest such key ([] if there is none).
   new key = P ++ "-%020d" (cur_i + delta_i), with cur_i = 0 where absent, if no component leaves the uint64
   range (and the first stays below 2^64-1); otherwise the put is refused with UNEXPECTED_VERSION_ID. *)
Theorem c16_exact : forall b P p cur,
  sorted b -> last_vals b P cur -> seq_put_on P p -> (length cur <= length (p_deltas p))%nat ->
  generate_key b p =
    if no_overflowb cur 0 (p_deltas p) then SeqOk (seq_key P (sums cur 0 (p_deltas p))) else SeqBadVersion.
Proof. exact generate_key_exact. Qed.
Print Assumptions c16_exact.

Theorem c16_last_vals_exists : forall b P, sorted b -> seq_wf b P -> exists cur, last_vals b P cur.
Proof. exact last_vals_exists. Qed.
Print Assumptions c16_last_vals_exists.

(* the same through applyPut: response, and [seq_wf] of the batch afterwards *)
Theorem c16_exact_put : forall w p ts P cur,
  prefix_ok P -> wf_kv (w_kv w) -> seq_wf (w_kv w) P -> last_vals (w_kv w) P cur ->
  seq_put_on P p -> (length cur <= length (p_deltas p))%nat ->
  exists w' r, apply_put wrapper_callbacks w p ts = (w', Ok r) /\ seq_wf (w_kv w') P /\
    (if no_overflowb cur 0 (p_deltas p) then
       match p_session p with
       | Some z => if alive (w_kv w) z then pr_key r = Some (seq_key P (sums cur 0 (p_deltas p)))
                   else pr_status r = SESSION_DOES_NOT_EXIST
       | None => pr_key r = Some (seq_key P (sums cur 0 (p_deltas p)))
       end
     else pr_status r = UNEXPECTED_VERSION_ID /\ w_kv w' = w_kv w).
Proof. exact put_exact. Qed.
Print Assumptions c16_exact_put.

(* [seq_wf] is an invariant of every history (requests of any size, term updates, notification switches,
   restarts) in which the other writes stay away from the prefix: plain puts on keys without the prefix,
   sequence puts on prefixes not comparable with it; deletes and range deletes are unrestricted *)
Theorem c16_seq_wf_invariant : forall cfg P ops,
  prefix_ok P -> Forall (op_respects P) ops -> seq_wf (st_kv (run cfg ops)) P.
Proof. exact seq_wf_invariant. Qed.
Print Assumptions c16_seq_wf_invariant.

(* ---- the code as it was (O-15): uint64 wrap-around ---- *)
Theorem c16_overflow_old_refuted_not_greater :
  exists ops p nk k, generate_key_old (st_kv (run c16_cfg ops)) p = SeqOk nk /\
    kv_get (st_kv (run c16_cfg ops)) k <> None /\ has_prefix (p_key p) k = true /\ cmp_slash nk k = Lt /\
    generate_key (st_kv (run c16_cfg ops)) p = SeqBadVersion.
Proof. exact overflow_old_refuted_not_greater. Qed.
Print Assumptions c16_overflow_old_refuted_not_greater.

Theorem c16_overflow_old_refuted_overwrites :
  exists ops p nk, generate_key_old (st_kv (run c16_cfg ops)) p = SeqOk nk /\
    kv_get (st_kv (run c16_cfg ops)) nk <> None /\
    generate_key (st_kv (run c16_cfg ops)) p = SeqBadVersion.
Proof. exact overflow_old_refuted_overwrites. Qed.
Print Assumptions c16_overflow_old_refuted_overwrites.

Theorem c16_overflow_old_refuted_max_invisible :
  exists ops p1 p2 k,
    generate_key_old (st_kv (run c16_cfg ops)) p1 = SeqOk k /\ k = seq_key k_s [MAX_SEQUENCE] /\
    generate_key (st_kv (run c16_cfg ops)) p1 = SeqBadVersion /\
    generate_key_old (st_kv (run c16_cfg (ops ++ [one (plain_put k) 1]))) p2 = SeqOk k /\
    kv_get (st_kv (run c16_cfg (ops ++ [one (plain_put k) 1]))) k <> None.
Proof. exact overflow_old_refuted_max_invisible. Qed.
Print Assumptions c16_overflow_old_refuted_max_invisible.

(* ---- what the waiters are told, and when ---- *)
Theorem c16_events_committed : forall cb cfg st req o ts st' resp evs,
  process_write_full cb cfg st req o ts = (st', Ok resp, evs) -> evs = seq_events (w_puts req) (wr_puts resp).
Proof. exact events_committed. Qed.
Print Assumptions c16_events_committed.

(* the notifications switch of the shard (NewTermOptions.EnableNotifications -> db.EnableNotifications) plays no role:
   [c16_events_committed] holds for every state, in particular with notifications disabled; the subscriber theorems
   below take the published keys as their only input *)
Theorem c16_latest_observed_notifications_disabled : forall cb cfg st req o ts st' resp evs,
  st_notif st = false ->
  process_write_full cb cfg st req o ts = (st', Ok resp, evs) -> evs = seq_events (w_puts req) (wr_puts resp).
Proof. exact events_committed_notifications_disabled. Qed.
Print Assumptions c16_latest_observed_notifications_disabled.

Theorem c16_events_none_on_failure : forall cb cfg st req o ts st' e evs,
  process_write_full cb cfg st req o ts = (st', Err e, evs) -> evs = [].
Proof. exact events_none_on_failure. Qed.
Print Assumptions c16_events_none_on_failure.

(* ---- the subscriber ---- *)
(* the override channel alone: any interleaving of WriteLast and Receive *)
Theorem c16_latest_observed_cell : forall ops st,
  writes_of ops <> [] -> last_opt (drain (fold_left cell_step ops st)) = last_opt (writes_of ops).
Proof. exact cell_latest. Qed.
Print Assumptions c16_latest_observed_cell.

(* DB + tracker + channel as repaired: for EVERY schedule of writer, subscriber and receiver, once nothing is
   in progress the receiver ends with the highest committed key of the prefix, and it never saw anything but
   committed keys *)
Theorem c16_latest_observed : forall committed acts s,
  run_sys step_new (init_sys committed) acts = Some s -> quiescent s ->
  last_observed s = hd_error (s_committed s) /\ Forall (fun v => In v (s_committed s)) (all_observed s).
Proof. exact latest_observed_new. Qed.
Print Assumptions c16_latest_observed.

(* the code as it was (O-16) *)
Theorem c16_latest_observed_old_refuted_stale :
  exists acts s, run_sys step_old (init_sys [K5]) acts = Some s /\ quiescent s /\
                 last_observed s = Some K5 /\ hd_error (s_committed s) = Some K6.
Proof. exact latest_observed_old_refuted_stale. Qed.
Print Assumptions c16_latest_observed_old_refuted_stale.

Theorem c16_latest_observed_old_refuted_uncommitted :
  exists acts s, run_sys step_old (init_sys []) acts = Some s /\ quiescent s /\
                 last_observed s = Some K6 /\ s_committed s = [].
Proof. exact latest_observed_old_refuted_uncommitted. Qed.
Print Assumptions c16_latest_observed_old_refuted_uncommitted.

Theorem c16_latest_observed_old_refuted_empty_key :
  exists acts s, run_sys step_old (init_sys [K5]) acts = Some s /\ quiescent s /\ last_observed s = Some [].
Proof. exact latest_observed_old_refuted_empty_key. Qed.
Print Assumptions c16_latest_observed_old_refuted_empty_key.

(* ---- several subscribers, subscribing and closing in any order (the tracker's map, ids from a tracker-wide counter) ---- *)
(* [sb_exp] is the specification's value for a subscriber: its initial value, then the last key published for its
   prefix while it was open (Db/SeqWait.v, tstep) *)
Theorem c16_latest_observed_all_waiters : forall acts s,
  In s (t_subs (trun alloc_counter acts)) -> sb_open s = true -> sub_last s = sb_exp s.
Proof. exact tracker_latest_observed. Qed.
Print Assumptions c16_latest_observed_all_waiters.

Theorem c16_closed_waiter_unregistered : forall acts s,
  In s (t_subs (trun alloc_counter acts)) -> sb_open s = false -> sb_reg s = false.
Proof. exact tracker_closed_unregistered. Qed.
Print Assumptions c16_closed_waiter_unregistered.

(* with ids that are unique only among the waiters currently registered for the prefix (len(map)+1), a subscriber
   loses its slot to a later one and misses every key from then on *)
Theorem c16_latest_observed_len_ids_refuted :
  exists acts s, In s (t_subs (trun alloc_len acts)) /\ sb_open s = true /\ sb_h s = 1%nat /\
                 sb_exp s = Some K6 /\ sub_last s = Some K5.
Proof. exact tracker_latest_observed_len_ids_refuted. Qed.
Print Assumptions c16_latest_observed_len_ids_refuted.

(* ---- OverrideChannel.WriteLast under a CONCURRENT reader (channel operations as atomic steps) ---- *)
(* in every state the code can reach, by any interleaving of WriteLast calls, writer steps and reader steps: the writer in
   progress has an enabled step (it never waits), each of its steps brings it strictly closer to returning, no reader
   step pushes it back, and it needs three of its own steps at most *)
Theorem c16_write_last_never_blocks : forall acts c,
  ch_run false init_chan acts = Some c ->
  (ch_pc c <> WIdle -> exists c', ch_wstep false c = Some c' /\ (ch_measure c' < ch_measure c)%nat) /\
  (ch_measure (ch_rstep c) <= ch_measure c)%nat /\ (ch_measure c <= 3)%nat.
Proof. exact write_last_never_blocks. Qed.
Print Assumptions c16_write_last_never_blocks.

(* whenever no WriteLast is in progress: the slot holds the value of the last WriteLast that returned, or the reader
   has taken it and it is the last thing the reader got *)
Theorem c16_write_last_leaves_latest : forall acts c,
  ch_run false init_chan acts = Some c -> ch_pc c = WIdle -> ch_obs c = ch_last c.
Proof. exact write_last_leaves_latest. Qed.
Print Assumptions c16_write_last_leaves_latest.

(* the single-select variant (try to send, else blocking receive + blocking send): a reachable state in which the writer
   waits on an empty slot, holding the mutex, for ever *)
Theorem c16_write_last_blocking_variant_refuted :
  exists acts c, ch_run true init_chan acts = Some c /\ ch_pc c <> WIdle /\ ch_wstep true c = None /\
                 (forall n, ch_wstep true (Nat.iter n ch_rstep c) = None).
Proof. exact write_last_blocking_variant_refuted. Qed.
Print Assumptions c16_write_last_blocking_variant_refuted.
