(* C20 — Client batching and fan-out are transparent.
   This file contains only the property theorems (each closed by [exact]) and Print Assumptions. *)
From Coq Require Import List NArith ZArith Bool Permutation Sorting.Sorted.
From Oxia.KeyOrder Require Import Model.
From Oxia.Client Require Import Model Inst BatcherProofs StreamProofs MergeProofs ListProofs MultiGetProofs InstProofs.
From Oxia.Client Require ShutdownModel ShutdownProofs.
Import ListNotations.

(* Batcher + write/read batch: for every executor whose answers are errors or at least as long as the request,
   every linger/count/size configuration and every sequence of Call/Tick/Close events (calls of the batcher's
   type, Close at most once): no panic; submitted calls = completed calls + calls still in the open batch, as
   multisets; every callback got ErrShuttingDown, or the error of the request its call travelled in, or the
   executor's answer at its call's own position in that request; nothing is left waiting when linger = 0 or
   after Close. *)
Theorem c20_exactly_once : forall exec cfg evs s tr,
  exec_ok exec -> Forall (ev_kind_ok cfg) evs -> close_ok false evs ->
  run exec cfg evs = (s, tr) ->
  st_dead s = false /\ ~ In Panicked tr /\
  Permutation (flat_map ev_calls evs) (done_calls tr ++ pending cfg s) /\
  (forall c r, In (Done c r) tr -> justified exec tr c r) /\
  (cf_linger_pos cfg = false \/ In Close evs -> pending cfg s = []).
Proof. exact exactly_once. Qed.
Print Assumptions c20_exactly_once.

(* The same with the retry loop of doRequestWithRetries explicit: for EVERY attempt script (any number of attempts
   per request, any chunking of a read stream, any partial delivery before a retriable failure) whose well-ending
   attempts are long enough; the executor's answer is that of the last attempt only. *)
Theorem c20_exactly_once_attempts : forall script cfg evs s tr,
  attempts_ok script -> Forall (ev_kind_ok cfg) evs -> close_ok false evs ->
  run (retry_exec script) cfg evs = (s, tr) ->
  st_dead s = false /\ ~ In Panicked tr /\
  Permutation (flat_map ev_calls evs) (done_calls tr ++ pending cfg s) /\
  (forall c r, In (Done c r) tr -> justified (retry_exec script) tr c r) /\
  (cf_linger_pos cfg = false \/ In Close evs -> pending cfg s = []).
Proof. exact exactly_once_attempts. Qed.
Print Assumptions c20_exactly_once_attempts.

Theorem c20_retry_result_is_last_attempt : forall pre a last,
  Forall (fun x => exists e, at_end x = ARetriable e) (a :: pre) ->
  (forall e, at_end last <> ARetriable e) ->
  with_retries a (pre ++ [last]) =
    match at_end last with AOk => EOk (do_request last) | AFatal e => EErr e | ARetriable e => EErr e end.
Proof. exact with_retries_last. Qed.
Print Assumptions c20_retry_result_is_last_attempt.

(* Complete() sends a request exactly when the batch holds at least one CALL, whatever byte size it has accumulated
   (Delete(""), Put("", nil), DeleteRange("", "") have size 0): the emptiness test counts calls, not bytes. *)
Theorem c20_complete_sends_iff_calls_nonempty : forall exec cfg n b,
  (batch_calls cfg b <> [] ->
     exists o p, complete exec cfg n b = (N.succ n, Sent n (to_proto cfg b) :: o, p)) /\
  (cf_kind cfg = BWrite -> batch_calls cfg b = [] -> complete exec cfg n b = (n, [], false)).
Proof. exact complete_sends_iff_calls_nonempty. Qed.
Print Assumptions c20_complete_sends_iff_calls_nonempty.

(* ... hence with distinct calls every callback fires exactly once *)
Theorem c20_exactly_once_nodup : forall exec cfg evs s tr,
  exec_ok exec -> Forall (ev_kind_ok cfg) evs -> close_ok false evs ->
  run exec cfg evs = (s, tr) ->
  NoDup (flat_map ev_calls evs) ->
  (cf_linger_pos cfg = false \/ In Close evs) ->
  NoDup (done_calls tr) /\ (forall c, In c (done_calls tr) <-> In c (flat_map ev_calls evs)).
Proof. exact exactly_once_nodup. Qed.
Print Assumptions c20_exactly_once_nodup.

(* Write stream (with the emptiness guard added to handleResponses): under the gRPC contract "a failed or
   closed stream keeps failing sends", every successful completion hands a request the response that answers it:
   request = the i-th successfully sent one, response = the i-th one received, for one and the same i -- for every
   interleaving of sends, responses, receive errors, closure and per-request cancellations (a request whose caller
   gave up while it was on the wire keeps its place: its future stays queued and swallows its own late response). *)
Theorem c20_stream_fifo : forall evs s tr,
  sticky false evs -> stream_run true evs = (s, tr) ->
  forall f r, In (f, r) (ok_dones tr) ->
    exists i, nth_error (ok_sends evs) i = Some f /\ nth_error (recv_payloads evs) i = Some r.
Proof. exact stream_fifo. Qed.
Print Assumptions c20_stream_fifo.

(* ... every Send() has returned exactly once or is still waiting, and nobody waits once the context is done *)
Theorem c20_stream_exactly_once : forall evs s tr,
  sticky false evs -> stream_run true evs = (s, tr) ->
  ~ In SPanicked tr /\
  Permutation (sent_ids evs) (done_ids tr ++ live_ids (ss_pending s)) /\
  (In SCtxDone evs -> live_ids (ss_pending s) = []).
Proof. exact stream_exactly_once. Qed.
Print Assumptions c20_stream_exactly_once.

Theorem c20_stream_no_panic : forall evs s tr, stream_run true evs = (s, tr) -> ~ In SPanicked tr.
Proof. exact stream_no_panic. Qed.
Print Assumptions c20_stream_no_panic.

(* the code as found: a response delivered after handleStreamClosed has dropped the pending list panics *)
Theorem c20_stream_late_response_old_refuted :
  exists evs, sticky false evs /\ In SPanicked (snd (stream_run false evs)).
Proof. exact stream_old_refuted. Qed.
Print Assumptions c20_stream_late_response_old_refuted.

(* k-way merge: no loss, no duplication, whatever the comparison and the per-shard contents; the output stops
   after the first error it emits *)
Theorem c20_merge_perm : forall chans,
  exists leftover, Permutation (concat chans) (merge_slash chans ++ leftover) /\
    ( (leftover = [] /\ err_free (merge_slash chans))
      \/ exists l e, merge_slash chans = l ++ [IErr e] /\ err_free l ).
Proof. exact merge_slash_perm. Qed.
Print Assumptions c20_merge_perm.

(* ... and in global key order (CompareWithSlash) when every per-shard stream is *)
Theorem c20_merge_sorted_perm : forall chans,
  Forall (Sorted item_le_slash) chans ->
  Sorted item_le_slash (merge_slash chans) /\
  (err_free (concat chans) -> Permutation (concat chans) (merge_slash chans)).
Proof. exact merge_slash_sorted_perm. Qed.
Print Assumptions c20_merge_sorted_perm.

(* List: whatever the schedule of the shard goroutines, forwarded + not yet forwarded = produced *)
Theorem c20_list_union : forall sched chans,
  exists leftover, Permutation (concat chans) (list_union sched chans ++ leftover).
Proof. exact list_union_perm. Qed.
Print Assumptions c20_list_union.

(* List with the caller's context (repaired code: sends give up when the context is done, the channel is closed
   after every shard goroutine has returned): for every schedule and every moment of cancellation the consumer
   sees items, then at most one close, never a send on the closed channel; forwarded + still held + dropped on
   cancellation or after an error = what the shards produced *)
Theorem c20_list_cancel_safe : forall chans evs,
  exists items tailc dropped,
    list_run true chans evs = map LItem items ++ tailc /\ (tailc = [] \/ tailc = [LClosed]) /\
    ~ In LPanicked (list_run true chans evs) /\
    exists held, Permutation (concat chans) (items ++ held ++ dropped).
Proof. exact list_cancel_safe. Qed.
Print Assumptions c20_list_cancel_safe.

(* Union or error: when the caller does not cancel and the List channel has been closed, the consumer has received
   exactly what every shard streamed up to and including its first failure: the union when every per-shard stream
   ended with EOF, and an error item when some stream failed -- with whatever status, after however many items. *)
Theorem c20_list_union_or_error : forall chans evs,
  no_cancel evs -> In LClosed (list_run true chans evs) ->
  Permutation (concat (map cut chans)) (litems (list_run true chans evs)) /\
  (Forall (fun ch => Forall (fun x => is_err x = false) ch) chans ->
     Permutation (concat chans) (litems (list_run true chans evs))) /\
  ((exists ch x, In ch chans /\ In x ch /\ is_err x = true) ->
     exists y, In y (litems (list_run true chans evs)) /\ is_err y = true).
Proof. exact list_union_or_error. Qed.
Print Assumptions c20_list_union_or_error.

(* the code as found: one shard fails, the caller cancels, another shard goroutine sends on the closed channel *)
Theorem c20_list_cancel_old_refuted :
  exists chans evs, In LPanicked (list_run false chans evs).
Proof. exact list_cancel_old_refuted. Qed.
Print Assumptions c20_list_cancel_old_refuted.

(* comparison get over all shards: the answer is the extremum of the per-shard OK answers *)
Theorem c20_multi_get_is_extremum : forall kc orig (l : list gresp),
  uniform l ->
  match fold_select cmp_slash kc None l with
  | None => oks l = [] /\ to_get_result (fold_select cmp_slash kc None l) orig = GErrNotFound
  | Some m =>
      In m (oks l) /\
      to_get_result (fold_select cmp_slash kc None l) orig =
        GResult (match g_key m with Some k => k | None => orig end) (g_payload m) /\
      match kc with
      | CEqual => exists tl, oks l = m :: tl
      | CFloor | CLower => forall r, In r (oks l) -> gle cmp_slash r m
      | CCeiling | CHigher => forall r, In r (oks l) -> gle cmp_slash m r
      end
  end.
Proof. exact multi_get_slash_extremum. Qed.
Print Assumptions c20_multi_get_is_extremum.

(* doMultiShardGet with the "return" after the error branch: one value, one close, for every arrival order and
   every placement of errors *)
Theorem c20_multi_get_completes_once : forall cmp kc orig n arr,
  1 <= n -> length arr = n ->
  exists r, snd (multi_get cmp true kc orig n arr) = [GSend r; GClose] /\
    r = match first_err arr with
        | Some e => GErr e
        | None => to_get_result (fold_select cmp kc None (resps arr)) orig
        end.
Proof. exact multi_get_completes_once. Qed.
Print Assumptions c20_multi_get_completes_once.

Theorem c20_multi_get_at_most_once : forall cmp kc orig n arr,
  1 <= n ->
  snd (multi_get cmp true kc orig n arr) = [] \/
  exists r, snd (multi_get cmp true kc orig n arr) = [GSend r; GClose].
Proof. exact multi_get_at_most_once. Qed.
Print Assumptions c20_multi_get_at_most_once.

(* O-21, the code as found: two shards, two errors -> send on the closed channel *)
Theorem c20_multi_get_completes_once_old_refuted :
  exists cmp kc orig n arr, 1 <= n /\ length arr = n /\
    In GPanicked (snd (multi_get cmp false kc orig n arr)).
Proof. exact multi_get_old_refuted. Qed.
Print Assumptions c20_multi_get_completes_once_old_refuted.

(* what held of the code as found: with at most one failing shard it behaves like the fixed code *)
Theorem c20_multi_get_old_partial : forall cmp kc orig n arr,
  length (flat_map (fun a => match a with AErr e => [e] | _ => [] end) arr) <= 1 ->
  snd (multi_get cmp false kc orig n arr) = snd (multi_get cmp true kc orig n arr).
Proof. exact multi_get_old_partial. Qed.
Print Assumptions c20_multi_get_old_partial.

(* Batcher shutdown at goroutine granularity (Add = increment of [adding], closed-check, channel send or failCall,
   decrement; Run = receive / timer / close branch with its drain loop; Close), callC of any capacity > 0, any linger /
   count limit, EVERY interleaving, either drain rule: the calls whose Add has started are, as a multiset, the
   completed ones plus the ones still on their way -- nobody completes twice. *)
Theorem c20_each_call_completes_at_most_once_with_close : forall cfg, 0 < ShutdownModel.sd_cap cfg -> forall evs,
  Permutation (ShutdownModel.sd_submitted evs)
    (ShutdownProofs.done_ids (snd (ShutdownModel.sd_run cfg ShutdownModel.sd_init evs)) ++
     ShutdownModel.sd_pending (fst (ShutdownModel.sd_run cfg ShutdownModel.sd_init evs))).
Proof. exact ShutdownProofs.sd_conservation. Qed.
Print Assumptions c20_each_call_completes_at_most_once_with_close.

(* The code as it is (after finding the queue empty Run reads the counter; at 0 it drains the queue once more and
   returns when it finds it empty): once Run has returned and every started Add has returned, every call whose Add started
   has completed exactly once -- no hypothesis on how Add, Run and Close interleave. *)
Theorem c20_each_call_completes_exactly_once_with_close : forall cfg, 0 < ShutdownModel.sd_cap cfg ->
  ShutdownModel.sd_rule cfg = ShutdownModel.RuleFinalDrain -> forall evs,
  ShutdownModel.sd_run_done (fst (ShutdownModel.sd_run cfg ShutdownModel.sd_init evs)) = true ->
  ShutdownModel.sd_adds_returned (fst (ShutdownModel.sd_run cfg ShutdownModel.sd_init evs)) ->
  Permutation (ShutdownModel.sd_submitted evs)
    (ShutdownProofs.done_ids (snd (ShutdownModel.sd_run cfg ShutdownModel.sd_init evs))).
Proof. exact ShutdownProofs.sd_exactly_once_with_close. Qed.
Print Assumptions c20_each_call_completes_exactly_once_with_close.

(* The code as it was found (Run returns as soon as the queue is empty): Add passes the closed check, Close, Run drains
   an empty queue and returns, Add enqueues and returns -- the call is never completed (reproduced on the real batcher). *)
Theorem c20_each_call_completes_exactly_once_with_close_old_refuted :
  exists cfg evs, 0 < ShutdownModel.sd_cap cfg /\ ShutdownModel.sd_rule cfg = ShutdownModel.RuleQueueEmpty /\
    let (s, o) := ShutdownModel.sd_run cfg ShutdownModel.sd_init evs in
    ShutdownModel.sd_run_done s = true /\ ShutdownModel.sd_adds_returned s /\ ShutdownModel.sd_q s = [1%N] /\
    ShutdownModel.sd_submitted evs = [1%N] /\ ShutdownProofs.done_ids o = [].
Proof. exact ShutdownProofs.sd_old_drain_rule_refuted. Qed.
Print Assumptions c20_each_call_completes_exactly_once_with_close_old_refuted.

(* The first repair (commit cb6e33f: after finding the queue empty Run returns when it reads adding == 0): the Add enqueues
   and decrements between the two steps -- same loss, a much narrower window (reproduced on the real batcher: a handful
   of lost calls per million closes under load). *)
Theorem c20_each_call_completes_exactly_once_with_close_first_repair_refuted :
  exists cfg evs, 0 < ShutdownModel.sd_cap cfg /\ ShutdownModel.sd_rule cfg = ShutdownModel.RuleCounterAfterEmpty /\
    let (s, o) := ShutdownModel.sd_run cfg ShutdownModel.sd_init evs in
    ShutdownModel.sd_run_done s = true /\ ShutdownModel.sd_adds_returned s /\ ShutdownModel.sd_q s = [1%N] /\
    ShutdownModel.sd_submitted evs = [1%N] /\ ShutdownProofs.done_ids o = [].
Proof. exact ShutdownProofs.sd_counter_after_empty_rule_refuted. Qed.
Print Assumptions c20_each_call_completes_exactly_once_with_close_first_repair_refuted.

(* what holds of every drain rule: exactly once when no Add was between its closed-check and its send at
   the moment of Close *)
Theorem c20_each_call_completes_exactly_once_old_partial : forall cfg, 0 < ShutdownModel.sd_cap cfg -> forall evs,
  ShutdownModel.sd_overlapped (fst (ShutdownModel.sd_run cfg ShutdownModel.sd_init evs)) = false ->
  ShutdownModel.sd_run_done (fst (ShutdownModel.sd_run cfg ShutdownModel.sd_init evs)) = true ->
  ShutdownModel.sd_adds_returned (fst (ShutdownModel.sd_run cfg ShutdownModel.sd_init evs)) ->
  Permutation (ShutdownModel.sd_submitted evs)
    (ShutdownProofs.done_ids (snd (ShutdownModel.sd_run cfg ShutdownModel.sd_init evs))).
Proof. exact ShutdownProofs.sd_exactly_once_no_overlap. Qed.
Print Assumptions c20_each_call_completes_exactly_once_old_partial.
