(* C09 — The WAL is a faithful, contiguous, durable sequence.
   This file contains only the property theorems (each closed by [exact]) and Print Assumptions.
   Model: Oxia.Wal.Model (server/wal as repaired by fixes/O-2-*.diff); specification: Oxia.Wal.Spec (a list). *)
From Coq Require Import List ZArith NArith.
From Oxia.Wal Require Import Model Spec Lists Inv Refine Proofs Witness.
Import ListNotations.
Open Scope Z_scope.

(* The invariant (contiguity inside and across segments, base(cur) = last(ro)+1, index = running sum of the
   record sizes, no segment larger than seg_size, first/last_synced/last_appended ordered) holds initially ... *)
Theorem c09_inv_init : forall sz, (sz < 2147483648)%N -> Inv (init sz).
Proof. exact inv_init. Qed.
Print Assumptions c09_inv_init.

(* ... and is preserved by every operation: append (async or synced), sync, truncate, clear, trim, close+reopen, reads. *)
Theorem c09_inv_step : forall w o, Inv w -> valid_op (seg_size w) o -> Inv (fst (step w o)).
Proof. exact inv_step. Qed.
Print Assumptions c09_inv_step.

(* For EVERY operation sequence, every segment size and every assignment of record sizes (each record non-empty
   and fitting an empty segment): the segmented WAL and the list specification end in the same abstract state and
   produce the same observable after every operation: result of the call, FirstOffset, LastOffset, and the
   entries (term, offset, timestamp, payload) read forwards and backwards. *)
Theorem c09_refines_list : forall sz ops,
  (sz < 2147483648)%N -> Forall (valid_op sz) ops ->
  s_run sinit (annotate (init sz) ops) = (abs (fst (run (init sz) ops)), snd (run (init sz) ops)).
Proof. exact refines_list. Qed.
Print Assumptions c09_refines_list.

(* ... and the same from ANY state satisfying the invariant (not only a freshly created WAL): every continuation
   keeps the invariant and is observably the list specification started from that state's abstraction. *)
Theorem c09_refines_list_any_state : forall ops w,
  Inv w -> Forall (valid_op (seg_size w)) ops ->
  Inv (fst (run w ops)) /\
  s_run (abs w) (annotate w ops) = (abs (fst (run w ops)), snd (run w ops)).
Proof. exact refines_list_gen. Qed.
Print Assumptions c09_refines_list_any_state.

(* The list behind the WAL has contiguous offsets from the oldest retained entry to the last appended one,
   and first <= last whenever the log is not empty. *)
Theorem c09_log_contiguous : forall sz ops,
  (sz < 2147483648)%N -> Forall (valid_op sz) ops ->
  let w := fst (run (init sz) ops) in
  contig (phys_lo w) (phys (abs w)) /\ len (phys (abs w)) = last_app w + 1 - phys_lo w /\
  (last_app w <> -1 -> phys_lo w <= first w <= last_app w) /\ last_syn w <= last_app w.
Proof. exact log_contiguous. Qed.
Print Assumptions c09_log_contiguous.

(* The next append is accepted exactly at last+1, or at any offset >= 0 on an empty log. *)
Theorem c09_append_accepted_exactly : forall w p e,
  Inv w -> (0 < p)%N -> (header_size + p <= seg_size w)%N ->
  (snd (append_async w p e) = Ok tt <->
   0 <= e_off e /\ (phys (abs w) = [] \/ e_off e = last_off (phys (abs w)) + 1)).
Proof. exact append_accepted_exactly. Qed.
Print Assumptions c09_append_accepted_exactly.

(* One trimmer round in any reachable state, for every clock value, retention and commit offset: it removes a
   whole prefix, everything removed or hidden lies below the new first offset, nothing at or above it is lost, the
   first offset never passes the commit offset; under non-decreasing timestamps everything below the new first
   offset is at least [retention] old. *)
Theorem c09_trim_safe : forall w now ret commit,
  Inv w ->
  let w' := fst (do_trim w now ret commit) in
  snd (do_trim w now ret commit) = Ok tt /\ Inv w' /\
  first w <= first w' /\ last_syn w' = last_syn w /\ last_app w' = last_app w /\
  (exists removed, phys (abs w) = removed ++ phys (abs w') /\ Forall (fun e => e_off e < first w') removed) /\
  (forall e, In e (phys (abs w)) -> first w' <= e_off e -> In e (phys (abs w'))) /\
  (first w' <> first w -> first w' <= commit /\ first w' <= last_syn w) /\
  (ts_mono (phys (abs w)) ->
   forall e, In e (phys (abs w)) -> e_off e < first w' -> first w' <> first w -> e_ts e <= now - ret).
Proof. exact trim_safe. Qed.
Print Assumptions c09_trim_safe.

(* Without monotone timestamps the expiry clause fails (documented limit of the hypothesis). *)
Theorem c09_trim_nonmonotone_refuted :
  let w := fst (run (init 128) nm_ops) in
  let w' := fst (do_trim w 1600 100 10) in
  Inv w /\ first w = 0 /\ first w' = 3 /\
  exists e, In e (phys (abs w)) /\ e_off e < first w' /\ ~ e_ts e <= 1600 - 100.
Proof. exact trim_nonmonotone_refuted. Qed.
Print Assumptions c09_trim_nonmonotone_refuted.

(* O-2: the code BEFORE the repair contradicts the list on a concrete sequence (TruncateLog into a read-only
   segment answers OK, LastOffset stays stale, the append at o+1 is refused); the repaired code agrees with the list. *)
Theorem c09_truncate_cross_segment_old_refuted :
  exists sz ops, Forall (valid_op sz) ops /\
    nth_error (snd (run_old (init sz) ops)) 12 = Some (OTrunc (Ok 1), 0, 11) /\
    nth_error (snd (run_old (init sz) ops)) 13 = Some (ODone (Err EInvalidNext), 0, 11) /\
    nth_error (snd (s_run sinit (map SOp ops))) 12 = Some (OTrunc (Ok 1), 0, 1) /\
    nth_error (snd (s_run sinit (map SOp ops))) 13 = Some (ODone (Ok tt), 0, 2) /\
    snd (run (init sz) ops) = snd (s_run sinit (map SOp ops)).
Proof. exact truncate_cross_segment_old_refuted. Qed.
Print Assumptions c09_truncate_cross_segment_old_refuted.

(* Known finding, outside the domain of the theorems above (an entry larger than a segment): the second
   oversize append leaves a phantom read-only segment and a later cross-segment truncation wrecks the WAL. *)
Theorem c09_oversize_entry_wrecks_refuted :
  ~ Forall (valid_op 128) oversize_ops /\
  nth_error (snd (run (init 128) oversize_ops)) 5 = Some (ODone (Err ESegmentFull), 0, 4) /\
  nth_error (snd (run (init 128) oversize_ops)) 6 = Some (ODone (Err ESegmentFull), 0, 4) /\
  nth_error (snd (run (init 128) oversize_ops)) 8 = Some (OTrunc (Err EIO), 0, 5) /\
  nth_error (snd (run (init 128) oversize_ops)) 9 = Some (ODone (Err EPanic), 0, 5).
Proof. exact oversize_entry_wrecks_refuted. Qed.
Print Assumptions c09_oversize_entry_wrecks_refuted.
