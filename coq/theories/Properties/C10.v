(* C10 — WAL recovery after crash or corruption yields a clean prefix or an error.
   This file contains only the property theorems (each closed by [exact]) and Print Assumptions.
   Model: Codec/Model.v (server/wal/codec v1.go, v2.go, codec.go; newReadOnlySegment / newReadWriteSegment / Read).
   [crc] is CRC-32C as an arbitrary function: every theorem holds for every checksum function; where
   "damage is detected" is needed it is the explicit hypothesis [crc_detects]. *)
From Coq Require Import List NArith ZArith.
From Oxia.Codec Require Import Model Crc32c Instance Proofs Witness.
Import ListNotations.
Open Scope N_scope.

(* ---- 1. recovery and reads never panic and always terminate (code of the working tree) ---- *)

(* ReadHeaderWithValidation, both formats, every buffer, every uint32 start offset *)
Theorem c10_read_header_never_panics : forall crc v buf start, start < U32 ->
  read_header crc false v buf start <> Panic /\ read_header crc false v buf start <> Hang.
Proof. exact read_header_total. Qed.
Print Assumptions c10_read_header_never_panics.

Theorem c10_read_record_never_panics : forall crc v buf start, start < U32 ->
  read_record crc v buf start <> Panic /\ read_record crc v buf start <> Hang.
Proof. exact read_record_total. Qed.
Print Assumptions c10_read_record_never_panics.

(* RecoverIndex: Ok or Err for every byte image, start offset, base entry offset and commit offset;
   in particular the loop ends (the model's fuel |buf|+1 is never exhausted) *)
Theorem c10_recover_never_panics_never_hangs : forall crc v buf start base commit, start < U32 ->
  recover_index crc v buf start base commit <> Panic /\ recover_index crc v buf start base commit <> Hang.
Proof. exact recover_index_total. Qed.
Print Assumptions c10_recover_never_panics_never_hangs.

(* ReadIndex on any idx file content, also a missing / empty / 1-3 byte file *)
Theorem c10_read_index_never_panics : forall crc v file,
  read_index crc v file <> Panic /\ read_index crc v file <> Hang.
Proof. exact read_index_total. Qed.
Print Assumptions c10_read_index_never_panics.

(* newReadOnlySegment on any txn file and any idx file *)
Theorem c10_ro_open_never_panics : forall crc v txn idxfile base,
  match idxfile with Some f => blen f < U32 | None => True end ->
  ro_open crc v txn idxfile base <> Panic /\ ro_open crc v txn idxfile base <> Hang.
Proof. exact ro_open_total. Qed.
Print Assumptions c10_ro_open_never_panics.

(* Read(offset) for every offset, on every segment whose lastOffset is what its index gives *)
Theorem c10_segment_read_never_panics : forall crc v txn idx base last off,
  blen idx < U32 -> (last <= base + (Z.of_N (blen idx / 4) - 1))%Z ->
  seg_read crc v txn idx base last off <> Panic /\ seg_read crc v txn idx base last off <> Hang.
Proof. exact seg_read_total. Qed.
Print Assumptions c10_segment_read_never_panics.

(* ---- 2. the same statements are false of the code as found at the pinned commit (O-6) ---- *)

(* v2: size field 0xFFFFFFF4 .. : payloadSize + HeaderSize wraps, the bounds test passes, slice panic *)
Theorem c10_never_panics_refuted_v2_at_pinned_commit : forall crc,
  exists buf, forall commit, recover_index_gen crc true V2 buf 0 0 commit = Panic.
Proof. exact (fun crc => ex_intro _ o6_v2_witness (v2_orig_recover_panics crc)). Qed.
Print Assumptions c10_never_panics_refuted_v2_at_pinned_commit.

(* v1: size field 0xFFFFFFFC: RecoverIndex never ends, for every amount of fuel *)
Theorem c10_v1_recover_terminates_refuted_at_pinned_commit : forall crc,
  exists buf, forall fuel cur idx, recover_loop_v1 crc true fuel buf 0 cur idx = Hang.
Proof. exact (fun crc => ex_intro _ o6_v1_hang_witness (v1_orig_recover_loops crc)). Qed.
Print Assumptions c10_v1_recover_terminates_refuted_at_pinned_commit.

(* v1: a last record ending 1..3 bytes before the end of the segment: ReadInt panics *)
Theorem c10_never_panics_refuted_v1_at_pinned_commit : forall crc,
  exists buf, forall commit, recover_index_gen crc true V1 buf 0 0 commit = Panic.
Proof. exact (fun crc => ex_intro _ o6_v1_tail_witness (v1_orig_recover_panics crc)). Qed.
Print Assumptions c10_never_panics_refuted_v1_at_pinned_commit.

(* an empty idx file (created, content never written) and an empty index *)
Theorem c10_index_never_panics_refuted_at_pinned_commit : forall crc,
  read_index_gen crc true V2 (Some []) = Panic /\
  forall v txn base, ro_finish crc true v txn base [] = Panic.
Proof. exact (fun crc => conj (v2_orig_read_index_panics crc) (orig_ro_open_empty_index_panics crc)). Qed.
Print Assumptions c10_index_never_panics_refuted_at_pinned_commit.

(* ... and the repair changes nothing else: wherever the code as found did not panic and the length
   field did not make payloadSize + HeaderSize wrap around, both versions return the same result *)
Theorem c10_fix_is_conservative_v2 : forall crc buf start, start < U32 -> blen buf < U32 ->
  read_header_v2_orig crc buf start <> Panic ->
  (forall sz, read_int buf start = Some sz -> sz + 12 < U32) ->
  read_header_v2 crc buf start = read_header_v2_orig crc buf start.
Proof. exact fix_is_conservative_v2. Qed.
Print Assumptions c10_fix_is_conservative_v2.

Theorem c10_fix_is_conservative_v1 : forall buf start, start < U32 -> blen buf < U32 ->
  read_header_v1_orig buf start <> Panic ->
  (forall sz, read_int buf start = Some sz -> sz + 4 < U32) ->
  read_header_v1 buf start = read_header_v1_orig buf start.
Proof. exact fix_is_conservative_v1. Qed.
Print Assumptions c10_fix_is_conservative_v1.

(* ---- 3. round trip: what was appended is what recovery finds, bit-identical ---- *)

Theorem c10_roundtrip_v2 : forall crc es prev n base commit,
  blen (encode crc V2 prev es ++ zeros n) + 12 < U32 ->
  Forall nonempty es -> prev < U32 -> entry_range base (length es) ->
  recover_index crc V2 (encode crc V2 prev es ++ zeros n) 0 base commit
  = Ok (offsets V2 0 es, last_lc crc 0 prev es, total V2 es, (base + Z.of_nat (length es) - 1)%Z)
  /\ Forall2 (fun off p => read_record crc V2 (encode crc V2 prev es ++ zeros n) off = Ok p) (offsets V2 0 es) es.
Proof. exact roundtrip_v2. Qed.
Print Assumptions c10_roundtrip_v2.

Theorem c10_roundtrip_v1 : forall crc es n base commit,
  blen (encode crc V1 0 es ++ zeros n) + 12 < U32 ->
  Forall nonempty es -> entry_range base (length es) ->
  recover_index crc V1 (encode crc V1 0 es ++ zeros n) 0 base commit
  = Ok (offsets V1 0 es, 0, total V1 es, (base + Z.of_nat (length es) - 1)%Z)
  /\ Forall2 (fun off p => read_record crc V1 (encode crc V1 0 es ++ zeros n) off = Ok p) (offsets V1 0 es) es.
Proof. exact roundtrip_v1. Qed.
Print Assumptions c10_roundtrip_v1.

(* ---- 4. crash images (format v2) ----
   The file starts with the intact records of the synced entries es1; every byte after them is
   arbitrary (any subset of pages persisted, zeroes, stale or random bytes).  Under [crc_detects] for
   the unsynced entries es2 (at the record boundaries of the tail only a record that was really appended
   there passes its checksum) recovery returns es1 followed by a prefix of es2, bit-identical, or an
   error -- and an error only if the commit offset reaches beyond the synced entries. *)
Theorem c10_crash_prefix_v2 : forall crc es1 es2 prev tail base commit,
  blen (encode crc V2 prev es1 ++ tail) < U32 ->
  Forall nonempty es1 -> prev < U32 ->
  Forall nonempty es2 -> total V2 (es1 ++ es2) <= blen (encode crc V2 prev es1 ++ tail) ->
  crc_detects crc (encode crc V2 prev es1 ++ tail) (total V2 es1) (last_crc crc V2 prev es1) es2 ->
  entry_range base (length es1 + length es2) ->
  let img := encode crc V2 prev es1 ++ tail in
  (exists k lc', (k <= length es2)%nat /\
     recover_index crc V2 img 0 base commit
     = Ok (offsets V2 0 (es1 ++ firstn k es2), lc', total V2 (es1 ++ firstn k es2),
           (base + Z.of_nat (length es1 + k) - 1)%Z) /\
     Forall2 (fun off p => read_record crc V2 img off = Ok p)
             (offsets V2 0 (es1 ++ firstn k es2)) (es1 ++ firstn k es2))
  \/ (exists e, recover_index crc V2 img 0 base commit = Err e /\
                commit_reaches commit (base + Z.of_nat (length es1))).
Proof. exact crash_prefix_v2. Qed.
Print Assumptions c10_crash_prefix_v2.

(* Without [crc_detects] the statement is false for page-wise crash images: the chain
   (previousCrc = crc of the predecessor) is never compared, so an intact stale record that
   happens to start where the new log ends is returned as a valid entry (real CRC-32C, 16 byte pages:
   versions [a0 a1 a2] and [a0 b1] of a file give the log [a0 b1 a2]). *)
Theorem c10_stale_tail_accepted_refuted :
  pagewise 16 4 fileA fileB stale_img = true /\
  entries_of fileA (c_recover_index false V2 fileA 0 0 (Some (-1)%Z)) = [Ok a0; Ok a1; Ok a2] /\
  entries_of fileB (c_recover_index false V2 fileB 0 0 (Some (-1)%Z)) = [Ok a0; Ok b1] /\
  shape_of (c_recover_index false V2 stale_img 0 0 (Some (-1)%Z)) = Some ([0; 16; 32], 48, 2%Z) /\
  entries_of stale_img (c_recover_index false V2 stale_img 0 0 (Some (-1)%Z)) = [Ok a0; Ok b1; Ok a2].
Proof. exact stale_tail_accepted. Qed.
Print Assumptions c10_stale_tail_accepted_refuted.

(* [crc_detects] is a real hypothesis even for tiny damage: previousCrc seeds the checksum and is not
   itself checked against the predecessor, so two flipped bits (one in the previousCrc field, the same
   bit in the payload byte it is xor-ed with) cancel; the damaged payload comes back as a valid,
   committed entry (real CRC-32C). *)
Theorem c10_two_bit_damage_undetected_refuted :
  c_read_record false V2 one_record 0 = Ok a0 /\
  c_read_record false V2 two_bit_img 0 = Ok [0; 1; 1; 1] /\
  shape_of (c_recover_index false V2 two_bit_img 0 0 (Some 5%Z)) = Some ([0], 16, 0%Z).
Proof. exact two_bit_damage_accepted. Qed.
Print Assumptions c10_two_bit_damage_undetected_refuted.

(* ---- 5. damage to committed entries ---- *)

(* partial: a committed entry whose record fails validation with "out of bounds" or "data
   corrupted" makes recovery fail.  Missing for the full claim: the "empty payload" case below. *)
Theorem c10_committed_damage_is_error_partial : forall crc es1 prev tail base commit e,
  blen (encode crc V2 prev es1 ++ tail) + 12 < U32 ->
  Forall nonempty es1 -> prev < U32 -> entry_range base (length es1) ->
  total V2 es1 + 12 <= blen (encode crc V2 prev es1 ++ tail) ->
  read_header_v2 crc (encode crc V2 prev es1 ++ tail) (total V2 es1) = Err e -> e <> EEmptyPayload ->
  commit_reaches commit (base + Z.of_nat (length es1)) ->
  recover_index crc V2 (encode crc V2 prev es1 ++ tail) 0 base commit = Err e.
Proof. exact committed_damage_is_error_v2_partial. Qed.
Print Assumptions c10_committed_damage_is_error_partial.

(* refuted (O-13): a zeroed size field of a committed entry ends the log silently, whatever the
   commit offset is -- in general ... *)
Theorem c10_committed_zeroed_size_refuted : forall crc es1 prev tail base commit,
  blen (encode crc V2 prev es1 ++ tail) + 12 < U32 ->
  Forall nonempty es1 -> prev < U32 -> entry_range base (length es1) ->
  total V2 es1 + 12 <= blen (encode crc V2 prev es1 ++ tail) ->
  read_header_v2 crc (encode crc V2 prev es1 ++ tail) (total V2 es1) = Err EEmptyPayload ->
  recover_index crc V2 (encode crc V2 prev es1 ++ tail) 0 base commit
  = Ok (offsets V2 0 es1, last_lc crc 0 prev es1, total V2 es1, (base + Z.of_nat (length es1) - 1)%Z).
Proof. exact zeroed_size_truncates_v2. Qed.
Print Assumptions c10_committed_zeroed_size_refuted.

(* ... and on concrete bytes: three committed entries, the size field of the second one zeroed *)
Theorem c10_committed_zeroed_size_witness :
  shape_of (c_recover_index false V2 fileA 0 0 (Some 2%Z)) = Some ([0; 16; 32], 48, 2%Z) /\
  shape_of (c_recover_index false V2 zeroed_img 0 0 (Some 2%Z)) = Some ([0], 16, 0%Z).
Proof. exact zeroed_size_of_committed_entry_not_reported. Qed.
Print Assumptions c10_committed_zeroed_size_witness.

(* ---- 6. format v1 has no checksum: overwritten payload bytes are returned as a valid entry ---- *)
Theorem c10_v1_damage_undetected_refuted : forall crc p p' post,
  blen p' = blen p -> p' <> p -> nonempty p ->
  blen (record crc V1 0 p ++ post) < U32 ->
  read_record crc V1 (record crc V1 0 p' ++ post) 0 = Ok p' /\ p' <> p.
Proof. exact v1_accepts_any_payload. Qed.
Print Assumptions c10_v1_damage_undetected_refuted.
