(* C13 — Every request accepted into the log can be applied by every replica.
   This file contains only the property theorems (each closed by [exact]) and Print Assumptions.
   Model: Db/*.v ([process_write] = kv.DB.ProcessWrite with the WrapperUpdateOperationCallback chain, as
   repaired), Db/Validate.v ([validate_request] = server/write_validation.go, run by leaderController.Write /
   WriteBlock before an offset is assigned), Db/C13_Replay.v (the apply loops of the two controllers and the
   leader's write entry), Db/C16_Old.v (the sequence-key code before the repair).  Proofs: Db/Proofs_C13.v.

   The unrestricted statement "for every reachable state and EVERY request, process_write returns Ok" is false
   of kv.DB.ProcessWrite (c13_total_refuted_*, O-10), and it stays false after the repair: the suite pins three
   of the error classes as errors of ProcessWrite.  What the repair establishes is c13_total_validated_partial
   together with c13_leader_*: what the leader accepts into the log is applied by every replica with a
   per-operation status, except for one state-dependent class, EMissingSequenceDeltas (known finding). *)
From Coq Require Import List NArith ZArith Bool.
From Oxia.Db Require Import Types Bytes Keys Kv Sessions Indexes Sequences Write Read KvProofs Proofs_C12
  Validate C16_Old C13_Replay Proofs_C13.
Import ListNotations.

(* ---- the DB's apply function is not total: one reachable state and request per error class ---- *)
Theorem c13_total_refuted_missing_partition_key :
  exists cfg ops req, err_of cfg ops req = Some EMissingPartitionKey.
Proof. exact total_refuted_missing_partition_key. Qed.
Print Assumptions c13_total_refuted_missing_partition_key.

Theorem c13_total_refuted_delta_zero :
  exists cfg ops req, err_of cfg ops req = Some ESequenceDeltaIsZero.
Proof. exact total_refuted_delta_zero. Qed.
Print Assumptions c13_total_refuted_delta_zero.

(* a delete-range with user-looking bounds ("A/" .. "z/") sweeps the internal keys and meets a notification batch *)
Theorem c13_total_refuted_range_sweeps_internal :
  exists cfg ops req, err_of cfg ops req = Some EDeserialize /\ validate_request req = false.
Proof. exact total_refuted_range_sweeps_internal. Qed.
Print Assumptions c13_total_refuted_range_sweeps_internal.

Theorem c13_total_refuted_put_on_notification :
  exists cfg ops req, err_of cfg ops req = Some EDeserialize /\ validate_request req = false.
Proof. exact total_refuted_put_on_notification. Qed.
Print Assumptions c13_total_refuted_put_on_notification.

Theorem c13_total_refuted_delete_on_notification :
  exists cfg ops req, err_of cfg ops req = Some EDeserialize /\ validate_request req = false.
Proof. exact total_refuted_delete_on_notification. Qed.
Print Assumptions c13_total_refuted_delete_on_notification.

(* the class that is left after the repair: the request passes the validation, the failure depends on the state *)
Theorem c13_missing_deltas_refuted :
  exists cfg ops req, validate_request req = true /\ err_of cfg ops req = Some EMissingSequenceDeltas.
Proof. exact missing_deltas_refuted. Qed.
Print Assumptions c13_missing_deltas_refuted.

(* a non-numeric suffix under a sequence prefix: an error of the code as it was, a per-operation status now *)
Theorem c13_total_old_refuted_scan :
  exists cfg ops p,
    validate_put p = true /\
    generate_key_old (st_kv (run cfg ops)) p = SeqErr EScan /\
    generate_key (st_kv (run cfg ops)) p = SeqBadVersion /\
    err_of cfg ops (puts_req [p]) = None.
Proof. exact total_old_refuted_scan. Qed.
Print Assumptions c13_total_old_refuted_scan.

(* ---- a logged request that fails stops every replay, for good ---- *)
(* the apply loop of either controller stops at the first entry that fails, in the stored state reached before it *)
Theorem c13_apply_log_stops : forall cfg st pre req o ts post st1 e,
  apply_log cfg st pre = (st1, None) ->
  snd (process_write wrapper_callbacks cfg st1 req o ts) = Err e ->
  exists s, apply_log cfg st (pre ++ (req, o, ts) :: post) = (s, Some (o, e)) /\ st_kv s = st_kv st1.
Proof. exact apply_log_stops. Qed.
Print Assumptions c13_apply_log_stops.

(* every later attempt (restart, then replay of the entries after the DB's commit offset: BecomeLeader's
   applyAllEntriesIntoDB, the follower's processCommittedEntries) ends at the same entry with the same error
   and leaves the stored map, hence the commit offset, where it was *)
Theorem c13_poison_blocks_replay : forall cfg st1 req o ts e post,
  restartable st1 ->
  snd (process_write wrapper_callbacks cfg st1 req o ts) = Err e ->
  forall n, exists s, attempts cfg n st1 ((req, o, ts) :: post) = (s, Some (o, e)) /\
                      st_kv s = st_kv st1 /\ st_notif s = st_notif st1.
Proof. exact poison_blocks_replay. Qed.
Print Assumptions c13_poison_blocks_replay.

Theorem c13_poison_commit_offset_stuck : forall cfg st1 req o ts e post n,
  restartable st1 ->
  snd (process_write wrapper_callbacks cfg st1 req o ts) = Err e ->
  read_commit_offset (fst (attempts cfg n st1 ((req, o, ts) :: post))) = read_commit_offset st1.
Proof. exact poison_commit_offset_stuck. Qed.
Print Assumptions c13_poison_commit_offset_stuck.

(* the hypothesis [restartable] holds of the empty DB and of every state right after a committed entry *)
Theorem c13_restartable_init : restartable init_state.
Proof. exact restartable_init. Qed.
Print Assumptions c13_restartable_init.

Theorem c13_restartable_after_commit : forall cb cfg st req o ts st1 r,
  process_write cb cfg st req o ts = (st1, Ok r) -> int64 o -> int64 (st_ver st1) -> restartable st1.
Proof. exact restartable_after_commit. Qed.
Print Assumptions c13_restartable_after_commit.

(* ---- after the repair: what passes the leader's validation is applied by every replica ---- *)
(* accepted requests stay outside the internal key space *)
Theorem c13_validate_user_request : forall req, validate_request req = true -> user_request req.
Proof. exact validate_user_request. Qed.
Print Assumptions c13_validate_user_request.

(* In every reachable state (any history of requests - hostile ones of the past included - term updates,
   notification switches, restarts) a request accepted by the validation yields a response with
   per-operation statuses, or fails with EMissingSequenceDeltas.  PARTIAL: the full statement needs that
   class to become a status too (it is state dependent, so it cannot be validated; TestDB_SequentialKeys
   pins it as an error of ProcessWrite): c13_missing_deltas_refuted. *)
Theorem c13_total_validated_partial : forall cfg ops req o ts,
  validate_request req = true ->
  ok_or_missing (snd (process_write wrapper_callbacks cfg (run cfg ops) req o ts)).
Proof. exact total_validated_partial. Qed.
Print Assumptions c13_total_validated_partial.

(* the same for any store satisfying the invariant of C12 *)
Theorem c13_total_validated_wf : forall cfg st req o ts,
  wf_kv (st_kv st) -> validate_request req = true ->
  ok_or_missing (snd (process_write wrapper_callbacks cfg st req o ts)).
Proof. exact total_validated_wf. Qed.
Print Assumptions c13_total_validated_wf.

(* total without restriction for requests that contain no sequence put *)
Theorem c13_total_validated_no_sequence : forall cfg ops req o ts,
  validate_request req = true -> no_sequence_puts req ->
  exists resp, snd (process_write wrapper_callbacks cfg (run cfg ops) req o ts) = Ok resp.
Proof. exact total_validated_no_sequence. Qed.
Print Assumptions c13_total_validated_no_sequence.

(* ---- the leader's write entry ---- *)
Theorem c13_leader_rejected_not_logged : forall cfg n req ts,
  validate_request req = false -> leader_write cfg n req ts = (n, WRejected).
Proof. exact leader_rejected_not_logged. Qed.
Print Assumptions c13_leader_rejected_not_logged.

Theorem c13_leader_failure_class : forall cfg reqs req ts e,
  snd (leader_write cfg (leader_run cfg init_node reqs) req ts) = WFailed e -> e = EMissingSequenceDeltas.
Proof. exact leader_failure_class. Qed.
Print Assumptions c13_leader_failure_class.
