(* C06 — Replicas are deterministic state machines over the committed log.
   This file contains only the property theorems (each closed by [exact]) and Print Assumptions.
   Model: Db/*.v ([process_write] = kv.DB.ProcessWrite, [reopen] = kv.NewDB on an existing store,
   [persist] = what the store holds, [restart en] = NewDB followed by the controller's
   EnableNotifications(termOptions.NotificationsEnabled)), Db/Snapshot.v (chunked snapshot transfer);
   proofs: Db/Proofs_C06.v, Db/C06_SnapshotProofs.v.
   [apply_log_db cb cfg st es] applies the committed entries es (request, offset, timestamp) in order with
   ProcessWrite, as the leader write path, the follower's processCommittedEntries and the leader's
   applyAllEntriesIntoDB all do. *)
From Coq Require Import List NArith ZArith Bool.
From Oxia.Db Require Import Types Bytes Keys Kv Sessions Indexes Notifications Write Read IndexReads Proofs_C12
     Snapshot C06_SnapshotProofs Proofs_C06.
Import ListNotations.

(* Every state [st] whose in-memory version counter is the stored one ([consistent]: true of an empty DB,
   after NewDB, preserved by every successful ProcessWrite), every committed log es1 ++ es2 all of whose
   applications succeed, EVERY split point: applying the log live, and applying es1, re-creating the replica
   from what is stored (restart after a graceful close or after a crash back to a flushed state, or a
   snapshot of the stored map shipped to another node), and replaying es2, end in the same stored map,
   version counter and notifications switch; the replayed entries are answered identically (version ids,
   generated sequence keys, statuses) and every one of them succeeds on the re-created replica too. *)
Theorem c06_replay_equiv : forall cb cfg st es1 es2,
  consistent st -> all_succeed_db cb cfg st (es1 ++ es2) -> offsets_int64 (es1 ++ es2) ->
  exists r, restart (st_notif st) (persist (apply_log_db cb cfg st es1)) = Ok r /\
            persist (apply_log_db cb cfg st (es1 ++ es2)) = persist (apply_log_db cb cfg r es2) /\
            obs_eq (apply_log_db cb cfg st (es1 ++ es2)) (apply_log_db cb cfg r es2) /\
            log_responses_db cb cfg (apply_log_db cb cfg st es1) es2 = log_responses_db cb cfg r es2 /\
            all_succeed_db cb cfg r es2.
Proof. exact replay_equiv_db. Qed.
Print Assumptions c06_replay_equiv.

(* The same with plain NewDB ([reopen]) for a replica whose notifications are on (what NewDB sets). *)
Theorem c06_replay_equiv_reopen : forall cb cfg st es1 es2,
  consistent st -> st_notif st = true ->
  all_succeed_db cb cfg st (es1 ++ es2) -> offsets_int64 (es1 ++ es2) ->
  exists r, reopen (persist (apply_log_db cb cfg st es1)) = Ok r /\
            persist (apply_log_db cb cfg st (es1 ++ es2)) = persist (apply_log_db cb cfg r es2).
Proof. exact replay_equiv_reopen. Qed.
Print Assumptions c06_replay_equiv_reopen.

(* Any number of restarts / snapshot installations at any points of the log. *)
Theorem c06_any_restart_schedule : forall cb cfg segs st,
  consistent st -> all_succeed_db cb cfg st (concat segs) -> offsets_int64 (concat segs) ->
  exists r, apply_segments_db cb cfg (st_notif st) st segs = Ok r /\
            obs_eq (apply_log_db cb cfg st (concat segs)) r /\
            persist (apply_log_db cb cfg st (concat segs)) = persist r.
Proof. exact any_restart_schedule_db. Qed.
Print Assumptions c06_any_restart_schedule.

(* User-visible state is inherited: records (keys, values, version ids, modification counts, timestamps,
   ephemeral owner, identity, index list), session and shadow keys, secondary-index entries, notification
   batches, the responses (incl. generated sequence keys) and every read. *)
Theorem c06_user_visible_state_equal : forall cb cfg st es1 es2,
  consistent st -> all_succeed_db cb cfg st (es1 ++ es2) -> offsets_int64 (es1 ++ es2) ->
  exists r, restart (st_notif st) (persist (apply_log_db cb cfg st es1)) = Ok r /\
    let live := apply_log_db cb cfg st (es1 ++ es2) in
    let replayed := apply_log_db cb cfg r es2 in
    view_records (persist live) = view_records (persist replayed) /\
    view_sessions (persist live) = view_sessions (persist replayed) /\
    view_indexes (persist live) = view_indexes (persist replayed) /\
    view_notifications (persist live) = view_notifications (persist replayed) /\
    log_responses_db cb cfg (apply_log_db cb cfg st es1) es2 = log_responses_db cb cfg r es2 /\
    (forall k c iv, db_get live k c iv = db_get replayed k c iv) /\
    (forall s e, db_list live s e = db_list replayed s e) /\
    (forall s e, db_range_scan live s e = db_range_scan replayed s e) /\
    (forall n k c iv, secondary_get live n k c iv = secondary_get replayed n k c iv) /\
    (forall n s e, secondary_list live n s e = secondary_list replayed n s e) /\
    (forall n s e, secondary_range_scan live n s e = secondary_range_scan replayed n s e) /\
    (forall from, read_notification_batches (st_kv live) from = read_notification_batches (st_kv replayed) from).
Proof. exact user_views_equal. Qed.
Print Assumptions c06_user_visible_state_equal.

(* ProcessWrite reads nothing but (stored map, version counter, notifications switch, request, offset,
   timestamp): new state, response and sequence-waiter events are a function of these, for every
   callback chain and configuration. *)
Theorem c06_apply_depends_only_on : forall cb cfg a b req o ts,
  obs_eq a b ->
  obs_eq (fst (process_write cb cfg a req o ts)) (fst (process_write cb cfg b req o ts)) /\
  snd (process_write cb cfg a req o ts) = snd (process_write cb cfg b req o ts) /\
  snd (process_write_full cb cfg a req o ts) = snd (process_write_full cb cfg b req o ts).
Proof. exact apply_depends_only_on. Qed.
Print Assumptions c06_apply_depends_only_on.

(* A successful application stores the counters it leaves in memory (what NewDB re-reads). *)
Theorem c06_commit_stores_counters : forall cb cfg st req o ts resp,
  snd (process_write cb cfg st req o ts) = Ok resp -> int64 o -> int64 (st_ver st) ->
  let st' := fst (process_write cb cfg st req o ts) in
  int64 (st_ver st') /\
  reopen (persist st') = Ok (mkState (st_kv st') (st_ver st') true o) /\
  st_notif st' = st_notif st.
Proof. exact commit_stores_counters. Qed.
Print Assumptions c06_commit_stores_counters.

(* Snapshot transfer, any chunk size n > 0: the chunks of a file concatenate to the file, none exceeds n,
   their number is the advertised count; the sender's Valid/Chunk/Next walk emits exactly the labelled
   stream, from which the loader's AddChunk re-creates every file exactly (names, contents, order) with no
   file left open — for every list of files with distinct names (empty files and exact multiples of n included). *)
Theorem c06_chunks_roundtrip : forall n : nat,
  (0 < n)%nat ->
  (forall bs : bytes,
      concat (chunk n bs) = bs /\
      Forall (fun c => (length c <= n)%nat) (chunk n bs) /\
      length (chunk n bs) = chunk_count n (length bs)) /\
  (forall files : list sfile,
      NoDup (map fst files) ->
      exists ms, send_all n files = Some ms /\ ms = all_msgs n files /\
                 load_all loader_new ms = LdOk (mkLoader files None) /\
                 loader_dir (mkLoader files None) = files).
Proof. exact chunks_roundtrip. Qed.
Print Assumptions c06_chunks_roundtrip.

(* Installing a snapshot (NewDB on the received map, UpdateTerm, EnableNotifications — the last call is
   repair O-40) yields a consistent replica with the sender's counter and switch, whose map agrees with
   the sender's on every key but the two term keys (rewritten with the follower's term, options, clock). *)
Theorem c06_snapshot_install : forall sender term ts,
  consistent sender ->
  exists r, install_snapshot (persist sender) term (st_notif sender) ts = Ok r /\
    consistent r /\ st_ver r = st_ver sender /\ st_notif r = st_notif sender /\
    (forall k, k <> term_key -> k <> term_options_key -> kv_get (st_kv r) k = kv_get (st_kv sender) k) /\
    (int64 term -> read_term r = Ok (term, st_notif sender)).
Proof. exact install_snapshot_spec. Qed.
Print Assumptions c06_snapshot_install.

(* The switch a restarted controller derives from the stored term options is the one NewTerm set. *)
Theorem c06_new_term_switch_read_back : forall st t en ts,
  int64 t -> read_term (enable_notifications (update_term st t en ts) en) = Ok (t, en).
Proof. exact new_term_switch_read_back. Qed.
Print Assumptions c06_new_term_switch_read_back.

(* REFUTED without the success hypothesis (defect O-10 / C13 seen from C06): a batch that fails after one
   of its puts took a version id leaves the live replica's counter ahead of the stored one. *)
Theorem c06_refuted_after_failed_batch :
  consistent init_state /\ offsets_int64 (c06_w_es1 ++ c06_w_es2) /\
  ~ all_succeed_db wrapper_callbacks c06_cfg init_state (c06_w_es1 ++ c06_w_es2) /\
  nth 1 (log_responses_db wrapper_callbacks c06_cfg init_state c06_w_es1) (Ok (mkWriteResp [] [] [])) = Err ESequenceDeltaIsZero /\
  exists r, restart (st_notif init_state) (persist (apply_log_db wrapper_callbacks c06_cfg init_state c06_w_es1)) = Ok r /\
    map resp_first_version (log_responses_db wrapper_callbacks c06_cfg (apply_log_db wrapper_callbacks c06_cfg init_state c06_w_es1) c06_w_es2) = [Some 2%Z] /\
    map resp_first_version (log_responses_db wrapper_callbacks c06_cfg r c06_w_es2) = [Some 1%Z] /\
    persist (apply_log_db wrapper_callbacks c06_cfg init_state (c06_w_es1 ++ c06_w_es2)) <>
    persist (apply_log_db wrapper_callbacks c06_cfg r c06_w_es2).
Proof. exact refuted_after_failed_batch. Qed.
Print Assumptions c06_refuted_after_failed_batch.

(* PARTIAL (what holds with failures): a failed application leaves the stored map untouched; only the
   in-memory counter of the replica that executed it may have moved.  Missing for the full statement:
   the counter is not rolled back (c06_refuted_after_failed_batch). *)
Theorem c06_failed_entry_leaves_no_trace_partial : forall cb cfg st req o ts e,
  snd (process_write cb cfg st req o ts) = Err e ->
  persist (fst (process_write cb cfg st req o ts)) = persist st.
Proof. exact failed_entry_leaves_no_trace. Qed.
Print Assumptions c06_failed_entry_leaves_no_trace_partial.

(* REFUTED for the code before repair O-40: handleSnapshot did not restore the notifications switch. *)
Theorem c06_snapshot_install_before_O40_refuted :
  consistent c06_sender /\ st_notif c06_sender = false /\
  exists r, install_snapshot_before_O40 (persist c06_sender) 1 false 6 = Ok r /\
    kv_get (persist (apply_log_db wrapper_callbacks c06_cfg c06_sender [(c06_plain_put c06_key_b, 1%Z, 20%N)]))
           (notification_key 1) = None /\
    kv_get (persist (apply_log_db wrapper_callbacks c06_cfg r [(c06_plain_put c06_key_b, 1%Z, 20%N)]))
           (notification_key 1) <> None.
Proof. exact snapshot_install_before_O40_refuted. Qed.
Print Assumptions c06_snapshot_install_before_O40_refuted.

(* Reads are not log entries.  For every schedule of one replica - log entries interleaved in any way with
   reads of any kind (Get x5 comparison types with or without the value, List, RangeScan, notification reads,
   ReadCommitOffset, ReadTerm, secondary-index Get/List/RangeScan) that only this replica serves - the replica
   ends in exactly the state of a replica that applied the log alone, gave the same responses to the writes,
   and answered every read from the state "log prefix applied so far".  (In the model a read has no state
   output at all: [db_read : state -> read_req -> read_ans]; what ties this to the code is the harness route
   reads-interleaved, which compares full dumps with a replica that applied the log alone.) *)
Theorem c06_reads_do_not_change_state : forall cb cfg ops st,
  fst (fst (run_ops_db cb cfg st ops)) = apply_log_db cb cfg st (writes_of ops) /\
  snd (fst (run_ops_db cb cfg st ops)) = log_responses_db cb cfg st (writes_of ops) /\
  snd (run_ops_db cb cfg st ops) = answers_of_log_alone (process_write cb cfg) st ops.
Proof. exact reads_do_not_change_state_db. Qed.
Print Assumptions c06_reads_do_not_change_state.
