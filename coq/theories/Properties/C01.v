(* C01 — Acknowledged writes survive crashes, elections and reconfiguration.
   Only property theorems (closed by [exact]) and Print Assumptions.  Model: Cluster/Model.v (repaired protocol),
   Cluster/CodeModel.v (what the code does at Attach). *)
From Coq Require Import List Arith Bool.
From Oxia.Cluster Require Import Model CodeModel Invariants Preservation Witness Witness_code DiskLoss Completeness.
Import ListNotations.

(* For every ensemble, every execution of any length built from elections, NewTerm/BecomeLeader/Attach(Truncate)/
   Append/Ack deliveries in any order (duplicated, lost), client writes, crashes/restarts, with a fixed ensemble:
   every write acknowledged to a client in term t is at its offset in the log of every node that is LEADER in a
   term >= t.  Stated for the code's behaviour (one Truncate round per attach) for the executions in which that
   round leaves the follower consistent with the leader each time (decidable predicate [consistent_run]). *)
Theorem c01_acked_survive_partial : forall E acts w,
  NoDup E -> no_swap acts = true -> consistent_run (init E) acts = true ->
  run_code (init E) acts = Some w ->
  forall t o e, In (t, o, e) (cacked w) ->
  forall n, nst (nodes w n) = Leader -> t <= nterm (nodes w n) ->
  nth_error (nlog (nodes w n)) o = Some e.
Proof. exact acked_survive_code. Qed.
Print Assumptions c01_acked_survive_partial.

(* The same without the side condition for the repaired protocol (the leader re-checks the follower's head after
   each Truncate and truncates again until it is consistent). *)
Theorem c01_acked_survive_repaired_protocol : forall E acts w,
  NoDup E -> no_swap acts = true -> run (init E) acts = Some w ->
  forall t o e, In (t, o, e) (cacked w) ->
  forall n, nst (nodes w n) = Leader -> t <= nterm (nodes w n) ->
  nth_error (nlog (nodes w n)) o = Some e.
Proof. exact acked_survive. Qed.
Print Assumptions c01_acked_survive_repaired_protocol.

(* Leader completeness, the reason behind it (repaired protocol, every execution without ensemble change): the log
   with which the leader of a later term t' starts agrees, up to and including offset o, with the log of the leader of
   every earlier term t that acknowledged offset o to a client - also for leaders that are no longer alive. *)
Theorem c01_leader_completeness_repaired_protocol : forall E acts w,
  NoDup E -> no_swap acts = true -> run (init E) acts = Some w ->
  forall t' lg', elog w t' = Some lg' ->
  forall t o Q, In (t, o, Q) (cq w) -> t < t' ->
  (exists e, In (t, o, e) (cacked w)) ->
  pfx (S o) lg' (tlog w t).
Proof. exact leader_completeness_run. Qed.
Print Assumptions c01_leader_completeness_repaired_protocol.

(* The side condition cannot be dropped: finding O-3b (5 nodes, 6 terms). *)
Theorem c01_refuted_multi_round_truncate :
  exists w, run_code (init [1;2;3;4;5]) multi_round_trace = Some w /\
            In (4, 1, w4) (cacked w) /\ nst (nodes w 1) = Leader /\ nterm (nodes w 1) = 6 /\
            nlog (nodes w 1) = [a1; b1; v5] /\ acked_survive_b w [1;2;3;4;5] = false /\
            consistent_run (init [1;2;3;4;5]) multi_round_trace = false.
Proof. exact code_loses_acked_write. Qed.
Print Assumptions c01_refuted_multi_round_truncate.

(* Ensemble changes: finding O-22 (node swap loses the only surviving copies). *)
Theorem c01_refuted_swap :
  exists w, run (init [1; 2; 3]) swap_loses_ack = Some w /\
            In (1, 0, e1) (cacked w) /\ serves w 1 = true /\ nterm (nodes w 1) = 2 /\
            nlog (nodes w 1) = [] /\ acked_survive_b w [1; 2; 3; 4] = false.
Proof. exact swap_loses_ack_refutes. Qed.
Print Assumptions c01_refuted_swap.

(* Disk loss.  [xrun] = the code's step function plus the action "node n comes back with an empty disk".
   Executions in which every node keeps its disk are exactly those of [run_code], so the theorems above cover them. *)
Theorem c01_all_disks_kept_is_run_code : forall acts w,
  xrun w (map Base acts) = run_code w acts /\ lost_disks (map Base acts) = [].
Proof. exact (fun acts w => conj (xrun_embeds acts w) (lost_disks_embeds acts)). Qed.
Print Assumptions c01_all_disks_kept_is_run_code.

(* The property's clause is weaker ("as long as a majority of the ensemble keeps its disk") and is false of the
   protocol: rf 3, the write is acknowledged with copies on 1 (leader) and 2; node 2 loses its disk, node 1 is
   unreachable; 2 and 3 both report an empty log and 3 becomes leader of term 2 with an empty log, although nodes 1
   and 3 kept their disks.  (Any quorum protocol that lets a node with a wiped disk vote as if it had never held
   anything has this behaviour; oxia has no per-node incarnation id that would let the coordinator tell.) *)
Theorem c01_refuted_minority_disk_loss :
  exists w, xrun (init [1; 2; 3]) minority_disk_loss_trace = Some w /\
            lost_disks minority_disk_loss_trace = [2] /\
            majority_keeps_disk [1; 2; 3] minority_disk_loss_trace = true /\
            In (1, 0, dl_e1) (cacked w) /\
            nst (nodes w 3) = Leader /\ nterm (nodes w 3) = 2 /\ nlog (nodes w 3) = [] /\
            acked_survive_b w [1; 2; 3] = false.
Proof. exact minority_disk_loss_loses_ack. Qed.
Print Assumptions c01_refuted_minority_disk_loss.

(* Non-vacuity: an execution with two elections, a leader crash and two acknowledged writes. *)
Theorem c01_nonvacuous :
  exists w, run (init [1; 2; 3]) good_run = Some w /\
            length (cacked w) = 2 /\ acked_survive_b w [1; 2; 3] = true /\
            serves w 2 = true /\ read_view w 2 = [e1; mkE 2 21].
Proof. exact good_run_ok. Qed.
Print Assumptions c01_nonvacuous.
