(* C17 — Notifications are a complete, ordered, resumable record of committed changes.
   This file contains only the property theorems (each closed by [exact]) and Print Assumptions.

   Model: Db/*.v (process_write = kv.DB.ProcessWrite, which builds the batch and stores it in the same atomic
   batch as the effects; read_next_notifications = ReadNextNotifications) and Db/NotifStream.v (the trimmer, the
   leader's GetNotifications dispatch loop, the client's resume logic).  Proofs: Db/Proofs_C17.v with the
   helpers Db/C17_Batch.v (what a request records) and Db/C17_Hex.v (the key layout "%016x").

   HISTORIES (Proofs_C17.hop): the next log entry is applied ([HWrite], offsets 0,1,2,...), a trimming round
   runs with a clock reading ([HTrim now retention]), the store is re-opened ([HReopen]: restart, or a new
   leader opening its replica).  [hrun cfg ops] runs a history from the empty DB and carries ghosts:
     h_log     the batches stored by the applied requests, oldest first
     h_spec    per applied request: offset, timestamp and [changes] = what the SPECIFICATION of C12 (Db/Spec.v)
               says the request created / modified / deleted / range-deleted (last operation on a key wins)
     h_failed  offsets whose application failed;   h_lo  low-water mark of trimming.
   Hypotheses, all explicit: [ops_user] requests touch user keys only (C12's user_request); [ops_small] fewer
   than 2^62 log entries and 2^63 puts; notifications enabled (NewDB's default). *)
From Coq Require Import List NArith ZArith Bool Sorting.Sorted.
From Oxia.Db Require Import Types Bytes Keys Kv Sessions Indexes Notifications Write Read Spec KvProofs Proofs_C12
     NotifStream C17_Batch C17_Cover Proofs_C17.
Import ListNotations.
Open Scope Z_scope.

(* One batch per committed request.  After any history: the logged batches correspond one to one, in order, to
   the committed requests ([batch_matches]: shard, offset, timestamp, no duplicate key, content = [changes] of
   that request, no internal key); their offsets are strictly increasing; every offset below the next one was
   either committed (logged) or failed, and a failed application leaves no batch; what is stored under
   "__oxia/notifications/<o>" is the logged batch of offset o, and every logged batch at or above the trimming
   mark is still stored. *)
Theorem c17_one_batch_per_committed_request : forall cfg ops,
  ops_user ops -> ops_small ops ->
  let h := hrun cfg ops in
  Forall2 (batch_matches cfg) (h_log h) (h_spec h) /\
  StronglySorted off_lt (h_log h) /\
  (forall o, 0 <= o < h_next h -> (exists b, In b (h_log h) /\ nb_offset b = o) \/ In o (h_failed h)) /\
  (forall o, In o (h_failed h) -> 0 <= o < h_next h /\ stored_batch (h_st h) o = None /\
                                  ~ exists b, In b (h_log h) /\ nb_offset b = o) /\
  (forall b, In b (h_log h) -> 0 <= nb_offset b < h_next h) /\
  (forall o b, 0 <= o < TWO63 -> stored_batch (h_st h) o = Some b -> In b (h_log h) /\ nb_offset b = o) /\
  (forall b, In b (h_log h) -> h_lo h <= nb_offset b -> stored_batch (h_st h) (nb_offset b) = Some b).
Proof. exact history_batches. Qed.
Print Assumptions c17_one_batch_per_committed_request.

(* The content of the batch of the request applied next, stated directly: it is stored under the request's
   offset with the shard id and the entry's timestamp, and maps exactly the keys of [changes] to their
   notification (CREATED iff the key held no record in the specification state — sequence puts always create —,
   MODIFIED otherwise, both with the resulting version id; DELETED; RANGE_DELETED under the range's start key). *)
Theorem c17_batch_describes_changes : forall cfg ops req ts st' resp,
  ops_user ops -> user_request req -> ops_small (ops ++ [HWrite req ts]) ->
  process_write wrapper_callbacks cfg (h_st (hrun cfg ops)) req (h_next (hrun cfg ops)) ts = (st', Ok resp) ->
  exists nm,
    stored_batch st' (h_next (hrun cfg ops)) = Some (mkNBatch (cfg_shard cfg) (h_next (hrun cfg ops)) ts nm) /\
    NoDup (map fst nm) /\
    (forall k, nm_get nm k = changes (abs_state (h_st (hrun cfg ops))) req (map seq_choice_of (wr_puts resp)) ts k) /\
    (forall k n, nm_get nm k = Some n -> is_internal k = false).
Proof. exact batch_of_request_reachable. Qed.
Print Assumptions c17_batch_describes_changes.

(* "Describing exactly": the batch determines what happened to every user key.  A key inside a range the batch
   reports holds no record afterwards; otherwise CREATED v / MODIFIED v under the key mean it holds a record with
   version v, DELETED that it holds none, and a key the batch does not mention holds what it held before. *)
Theorem c17_batch_covers_every_change : forall cfg ops req ts st' resp,
  ops_user ops -> user_request req -> ops_small (ops ++ [HWrite req ts]) ->
  process_write wrapper_callbacks cfg (h_st (hrun cfg ops)) req (h_next (hrun cfg ops)) ts = (st', Ok resp) ->
  exists nm,
    stored_batch st' (h_next (hrun cfg ops)) = Some (mkNBatch (cfg_shard cfg) (h_next (hrun cfg ops)) ts nm) /\
    forall k, is_internal k = false ->
      let in_range := exists a b, nm_get nm a = Some (NRangeDeleted b) /\ key_in_range (Some a) (Some b) k = true in
      (in_range -> uv (st_kv st') k = None) /\
      (~ in_range -> point_ok (nm_get nm k) (uv (st_kv (h_st (hrun cfg ops))) k) (uv (st_kv st') k)).
Proof. exact batch_covers_reachable. Qed.
Print Assumptions c17_batch_covers_every_change.

(* O-17b, DeletedRange as found: an EMPTY range recorded under a key replaced what the batch said about that key
   (here: put k, then delete-range [k,k): the creation of k disappears); as repaired it stays.  Found on the real
   DB by the harness verdict notif:change-not-covered; repaired in /repo together with the same-start case. *)
Theorem c17_range_overwrite_refuted :
  exists (k : key) (v : Z),
    key_geb k k = true /\
    (forall nm, notif_deleted_range_o17b (notif_modified (Some []) k v 0%Z) k k = Some nm -> nm_find nm k <> Some (NCreated v)) /\
    (forall nm, notif_deleted_range (notif_modified (Some []) k v 0%Z) k k = Some nm -> nm_find nm k = Some (NCreated v)).
Proof. exact range_overwrite_refuted. Qed.
Print Assumptions c17_range_overwrite_refuted.

(* Internal keys never appear, for EVERY request and every callback set (session-manager requests and hostile
   ones included): the stored batch is the fold of the request's answers and names no key under "__oxia/". *)
Theorem c17_no_internal_key_any_request : forall cb cfg st req offset ts st' resp,
  st_notif st = true -> process_write cb cfg st req offset ts = (st', Ok resp) ->
  exists nm,
    kv_get (st_kv st') (notification_key offset) = Some (VNotif (mkNBatch (cfg_shard cfg) offset ts nm)) /\
    NoDup (map fst nm) /\ (forall k, nm_get nm k = resp_changes req resp k) /\
    (forall k n, In (k, n) nm -> is_internal k = false).
Proof. exact batch_any_request. Qed.
Print Assumptions c17_no_internal_key_any_request.

(* The dispatch loop (offset := last delivered; ReadNextNotifications(offset+1)) started at [from] on the store
   of any history delivers exactly the logged batches above [from]: strictly increasing offsets (in order, each
   once), only batches of committed requests, none above the DB's applied commit offset, every offset between
   [from] and the next log entry unless its application failed; then it waits for the next commit.
   [h_lo h <= from + 1]: the batch after [from] has not been trimmed. *)
Theorem c17_stream_strictly_increasing_no_gap_no_dup : forall cfg ops from fuel,
  ops_user ops -> ops_small ops ->
  let h := hrun cfg ops in
  h_lo h <= from + 1 -> -1 <= from < TWO62 ->
  let D := fst (dispatch (S (S fuel)) (h_st h) from) in
  D = above from (h_log h) /\
  StronglySorted off_lt D /\
  (forall b, In b D -> In b (h_log h) /\ from < nb_offset b) /\
  (forall b, In b D -> nb_offset b <= last_off (h_log h)) /\
  read_commit_offset (h_st h) = Ok (last_off (h_log h)) /\
  (forall o, from < o < h_next h -> In o (map nb_offset D) \/ In o (h_failed h)) /\
  exists stop, snd (dispatch (S (S fuel)) (h_st h) from) = DWait stop.
Proof. exact stream_reachable. Qed.
Print Assumptions c17_stream_strictly_increasing_no_gap_no_dup.

(* Resume.  A subscriber that saw the first [k] batches of a connection started at [from] and reconnects with
   the last offset it saw — to the same store or to any later state of it: more requests applied, trimming
   rounds, re-opened by a restarted node or a new leader ([ops2] arbitrary) — receives exactly the rest: seen
   before ++ received now = every committed batch above [from] of the later log, in order, none twice.
   [h_lo h2 <= l + 1]: the batch after the last one seen is still retained (see c17_retained_until_expired). *)
Theorem c17_resume : forall cfg ops1 ops2 from k fuel,
  ops_user (ops1 ++ ops2) -> ops_small (ops1 ++ ops2) ->
  let h1 := hrun cfg ops1 in
  let h2 := hrun cfg (ops1 ++ ops2) in
  h_lo h1 <= from + 1 -> -1 <= from < TWO62 ->
  let seen := firstn k (fst (dispatch (S (S fuel)) (h_st h1) from)) in
  let l := last_offset seen from in
  h_lo h2 <= l + 1 ->
  seen ++ fst (dispatch (S (S fuel)) (h_st h2) l) = above from (h_log h2) /\
  (exists nw, h_log h2 = h_log h1 ++ nw).
Proof. exact resume_char. Qed.
Print Assumptions c17_resume.

(* Resume on another replica (leader change).  The store of the node that leads now has its own history [opsB]
   (its own trimming rounds and re-opens); the hypothesis that ties it to the old leader's store is explicit: for the
   committed prefix it logged the same batches ([h_log hB = h_log hA ++ nw]).  That hypothesis is replica determinism
   (C06) and is checked on real controllers - follower created on an empty directory, NewTerm with options, entries
   replicated by a real leader, promotion - by harness notif (verdict notif:replica-batch-missing). *)
Theorem c17_resume_on_replica : forall cfg opsA opsB from k fuel,
  ops_user opsA -> ops_small opsA -> ops_user opsB -> ops_small opsB ->
  let hA := hrun cfg opsA in
  let hB := hrun cfg opsB in
  (exists nw, h_log hB = h_log hA ++ nw) ->
  h_lo hA <= from + 1 -> -1 <= from < TWO62 ->
  let seen := firstn k (fst (dispatch (S (S fuel)) (h_st hA) from)) in
  let l := last_offset seen from in
  h_lo hB <= l + 1 ->
  seen ++ fst (dispatch (S (S fuel)) (h_st hB) l) = above from (h_log hB).
Proof. exact resume_on_replica. Qed.
Print Assumptions c17_resume_on_replica.

(* Reads in chunks.  If ReadNextNotifications enforces a limit - at most [limit] >= 1 batches per call, the first
   [limit] of the scan - the dispatch loop started at ANY offset [from] (whatever was trimmed in front of it, whatever
   offsets carry no batch) still delivers exactly the stored batches above [from], in offset order, each once, and then
   waits (DSpin: nothing is left above its offset).  [retained h] = the logged batches at or above the trimming mark,
   which are exactly the stored ones (third conjunct). *)
Theorem c17_chunked_reads_cover_everything : forall cfg ops limit fuel from,
  ops_user ops -> ops_small ops -> (1 <= limit)%nat -> -1 <= from < TWO62 ->
  let h := hrun cfg ops in
  (length (above from (retained h)) + 2 <= fuel)%nat ->
  fst (dispatch_limited fuel limit (h_st h) from) = above from (retained h) /\
  StronglySorted off_lt (above from (retained h)) /\
  (forall b, In b (h_log h) -> (In b (above from (retained h)) <-> from < nb_offset b /\ stored_batch (h_st h) (nb_offset b) = Some b)) /\
  exists o, snd (dispatch_limited fuel limit (h_st h) from) = DWait o \/ snd (dispatch_limited fuel limit (h_st h) from) = DSpin o.
Proof. exact chunked_reads_reachable. Qed.
Print Assumptions c17_chunked_reads_cover_everything.

(* Limiting the scan to a window of OFFSETS (start .. start+window-1) instead is not such an enforcement: behind a
   trimmed run at least as long as the window the read returns nothing although a batch above is stored, and the loop
   asks for the same window again (seeded change r7; harness verdict notif:committed-batch-not-delivered). *)
Theorem c17_offset_window_read_refuted :
  exists cfg ops window from,
    ops_user ops /\ ops_small ops /\ -1 <= from /\ 1 <= window /\
    read_next_window window (h_st (hrun cfg ops)) (from + 1) = Ok [] /\
    above from (retained (hrun cfg ops)) <> [].
Proof. exact offset_window_read_refuted. Qed.
Print Assumptions c17_offset_window_read_refuted.

(* The same through the client's own resume logic (oxia/notifications.go after the repair of O-17): first
   connection = dummy batch at [qc1] (the leader's commit offset, -1 on an empty shard) + [k1] batches, the
   stream breaks, second connection to the same or a later store: what is handed to the application is a
   prefix, in order and without repetition, of all committed batches above the initial position. *)
Theorem c17_client_resume : forall cfg ops1 ops2 qc1 qc2 k1 k2,
  ops_user (ops1 ++ ops2) -> ops_small (ops1 ++ ops2) ->
  let h1 := hrun cfg ops1 in
  let h2 := hrun cfg (ops1 ++ ops2) in
  h_lo h1 <= qc1 + 1 -> -1 <= qc1 < TWO62 ->
  let '(c1, ev1) := session client_request cfg (h_st h1) qc1 (S k1) client_new in
  h_lo h2 <= cl_last c1 + 1 ->
  let '(c2, ev2) := session client_request cfg (h_st h2) qc2 k2 c1 in
  exists seen rest,
    above qc1 (h_log h2) = seen ++ rest /\
    ev1 = evs_of seen /\ ev2 = evs_of (firstn k2 rest) /\
    cl_init c2 = true /\ cl_last c2 = last_offset (seen ++ firstn k2 rest) qc1.
Proof. exact client_resume. Qed.
Print Assumptions c17_client_resume.

(* O-17, the client as found ("lastOffsetReceived >= 0"): a subscriber initialised on an empty shard (dummy
   batch at -1) that reconnects before its first real batch is re-positioned at the current commit offset;
   the requests committed in between are never delivered although nothing was trimmed and the client is
   "caught up".  Reproduced on the real client code against a real leader (harness notif); repaired in /repo. *)
Theorem c17_resume_empty_shard_refuted :
  exists cfg ops1 ops2 qc1 qc2,
    ops_user (ops1 ++ ops2) /\ ops_small (ops1 ++ ops2) /\
    let h1 := hrun cfg ops1 in
    let h2 := hrun cfg (ops1 ++ ops2) in
    let '(c1, ev1) := session client_request_o17 cfg (h_st h1) qc1 1 client_new in
    let '(c2, ev2) := session client_request_o17 cfg (h_st h2) qc2 10 c1 in
    h_lo h2 = 0 /\ qc1 = -1 /\ qc2 = last_off (h_log h2) /\ cl_last c2 = last_off (h_log h2) /\
    exists b, In b (h_log h2) /\ qc1 < nb_offset b <= cl_last c2 /\ nb_notifs b <> [] /\
              ~ In (nb_offset b, nb_notifs b) (ev1 ++ ev2).
Proof. exact resume_empty_shard_refuted. Qed.
Print Assumptions c17_resume_empty_shard_refuted.

(* Trimming.  A round that trims removes exactly the stored batches at or below its trim offset — a whole
   prefix, nothing above — and, when batch timestamps do not decrease with the offset, only batches whose
   timestamp is at or before now - retention. *)
Theorem c17_trim_whole_prefix_only_expired : forall cfg ops now retention t st',
  ops_user ops -> ops_small ops ->
  let h := hrun cfg ops in
  trim (h_st h) now retention = TrTrimmed t st' ->
  (forall b, In b (h_log h) -> stored_batch (h_st h) (nb_offset b) = Some b ->
             stored_batch st' (nb_offset b) = if nb_offset b <=? t then None else Some b) /\
  (ts_monotone (h_log h) ->
   forall b, In b (h_log h) -> stored_batch (h_st h) (nb_offset b) = Some b -> nb_offset b <= t ->
             ts_ms b <= now - retention).
Proof. exact trim_reachable. Qed.
Print Assumptions c17_trim_whole_prefix_only_expired.

(* Hence the meaning of the retention hypothesis of c17_resume: under non-decreasing timestamps a committed
   batch lies below the trimming mark only if some round found it older than the retention. *)
Theorem c17_retained_until_expired : forall cfg ops,
  ops_user ops -> ops_small ops -> ts_monotone (h_log (hrun cfg ops)) ->
  forall b, In b (h_log (hrun cfg ops)) -> nb_offset b < h_lo (hrun cfg ops) ->
  exists now ret, In (now, ret) (trims_of ops) /\ ts_ms b <= now - ret.
Proof. exact lo_means_expired. Qed.
Print Assumptions c17_retained_until_expired.

(* Without that hypothesis (wall clock stepping back, or a new leader whose clock is behind) the binary search
   may land beyond a younger batch: timestamps 10,100,20,30 and cut-off 50 trim offset 1 (timestamp 100). *)
Theorem c17_trim_nonmonotone_refuted :
  exists cfg ops now retention t st' b,
    ops_user ops /\ ops_small ops /\
    trim (h_st (hrun cfg ops)) now retention = TrTrimmed t st' /\
    In b (h_log (hrun cfg ops)) /\ stored_batch (h_st (hrun cfg ops)) (nb_offset b) = Some b /\
    now - retention < ts_ms b /\ stored_batch st' (nb_offset b) = None.
Proof. exact trim_nonmonotone_refuted. Qed.
Print Assumptions c17_trim_nonmonotone_refuted.

(* A request whose application fails (C13's subject) leaves its offset without a batch. *)
Theorem c17_failed_application_leaves_gap :
  let h := hrun ex_cfg [HWrite ex_seq_no_partition 5; HWrite (put1 97 1) 10] in
  h_failed h = [0] /\ map nb_offset (h_log h) = [1] /\ stored_batch (h_st h) 0 = None.
Proof. exact failed_application_leaves_gap. Qed.
Print Assumptions c17_failed_application_leaves_gap.
