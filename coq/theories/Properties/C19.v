(* C19 — Every shard ensemble has RF distinct eligible servers and respects anti-affinity.
   This file contains only the property theorems (each closed by [exact]) and Print Assumptions.
   [Fixed] = the tree with fixes/O-19-*.diff and fixes/O-20-*.diff applied (what the check runs
   against); [Old] = the code as found.  Every function returns the list of ALL outcomes admissible
   under some Go map iteration order, so "forall o, In o ..." quantifies over map orders. *)
From Coq Require Import List NArith Permutation.
From Oxia.Selector Require Import Model Proofs.
Import ListNotations.
Open Scope N_scope.

(* For every cluster [cands], label assignment [e_md], policy list [e_rules], load ranking [e_rank],
   ServerIdx [e_idx], replication factor and map order: ensemble selection refuses, or returns rf
   pairwise-distinct servers of the candidate set such that no two of them share a value of a label
   of a Strict rule.  It never panics. *)
Theorem c19_ensemble_ok : forall e cands rf o,
  In o (ensemble_select Fixed e cands rf) ->
  match o with
  | Ok ens => length ens = rf /\ NoDup ens /\ (forall x, In x ens -> In x cands) /\
              aa_ok (e_md e) (e_rules e) ens
  | Err _ => True
  | Panic => False
  end.
Proof. exact ensemble_ok. Qed.
Print Assumptions c19_ensemble_ok.

Theorem c19_no_panic : forall e cands rf, ~ In Panic (ensemble_select Fixed e cands rf).
Proof. exact ensemble_no_panic. Qed.
Print Assumptions c19_no_panic.

Theorem c19_no_panic_single : forall e c, ~ In Panic (fst (single_select Fixed e c)).
Proof. exact single_select_no_panic. Qed.
Print Assumptions c19_no_panic_single.

Theorem c19_no_panic_swap : forall e nodes ens from,
  ~ In SwapPanic (swap_shard Fixed e nodes ens from).
Proof. exact swap_no_panic. Qed.
Print Assumptions c19_no_panic_swap.

(* A proposed swap (any version of the code): the target is a server of the cluster, is not a member
   of the ensemble the proposal was computed from, differs from the replaced server, and
   replaceInList on a duplicate-free ensemble yields a duplicate-free ensemble of the same size. *)
Theorem c19_swap_one_at_a_time : forall v e nodes ens from t,
  In (Swap t) (swap_shard v e nodes ens from) ->
  In t nodes /\ ~ In t ens /\ t <> from /\
  (NoDup ens -> In from ens ->
   NoDup (replace_in_list ens from t) /\ length (replace_in_list ens from t) = length ens).
Proof. exact swap_one_at_a_time. Qed.
Print Assumptions c19_swap_one_at_a_time.

Theorem c19_swap_keeps_anti_affinity : forall e nodes ens from t,
  In (Swap t) (swap_shard Fixed e nodes ens from) ->
  aa_ok (e_md e) (e_rules e) ens -> aa_ok (e_md e) (e_rules e) (replace_in_list ens from t).
Proof. exact swap_keeps_anti_affinity. Qed.
Print Assumptions c19_swap_keeps_anti_affinity.

(* Whatever swap actions reach swapNode, in whatever order, from whatever (stale) snapshot: every
   duplicate-free ensemble stays duplicate-free and keeps its size. *)
Theorem c19_round_any_actions : forall acts st,
  st_ok st ->
  st_ok (apply_actions Fixed st acts) /\ st_shape (apply_actions Fixed st acts) = st_shape st.
Proof. exact round_any_actions. Qed.
Print Assumptions c19_round_any_actions.

(* A whole rebalance round (any request list, all proposals computed from one status snapshot, applied
   in order by swapNode to metadata equal to the snapshot): per shard, duplicate-free stays
   duplicate-free, the size is kept, strict anti-affinity is preserved, new members are cluster servers. *)
Theorem c19_round : forall e nodes snap reqs tr st',
  In (tr, st') (round Fixed Fixed e nodes snap reqs) ->
  Forall2 (fun p q => fst p = fst q /\
     (NoDup (snd (snd p)) ->
      NoDup (m_ens (snd q)) /\ length (m_ens (snd q)) = length (snd (snd p)) /\
      (aa_ok (e_md e) (fst (snd p)) (snd (snd p)) -> aa_ok (e_md e) (fst (snd p)) (m_ens (snd q))) /\
      (forall x, In x (m_ens (snd q)) -> In x (snd (snd p)) \/ In x nodes))) snap st'.
Proof. exact round_ok. Qed.
Print Assumptions c19_round.

(* The model's "any member" for finalSelector on candidates of unspecified order is exact. *)
Theorem c19_final_pick_set_exact : forall (i : N) (l : list N) (x : N),
  In x l ->
  exists l', Permutation l' l /\ nth (N.to_nat (i mod N.of_nat (length l'))) l' 0 = x.
Proof. exact final_any_order. Qed.
Print Assumptions c19_final_pick_set_exact.

(* ---- the code as found ---- *)

(* partial: size, distinctness, eligibility hold before the fixes too *)
Theorem c19_ensemble_old_partial : forall v e cands rf o,
  In o (ensemble_select v e cands rf) ->
  match o with
  | Ok ens => length ens = rf /\ NoDup ens /\ (forall x, In x ens -> In x cands)
  | _ => True
  end.
Proof. exact ensemble_members_any_version. Qed.
Print Assumptions c19_ensemble_old_partial.

(* O-19a: first rule with two labels = union of the per-label candidates *)
Theorem c19_ensemble_old_refuted :
  In (Ok [1; 2]) (ensemble_select Old env4 [1; 2; 3; 4] 2) /\
  ~ aa_ok (e_md env4) (e_rules env4) [1; 2] /\
  ensemble_select Fixed env4 [1; 2; 3; 4] 2 = [Ok [1; 4]].
Proof. exact ensemble_old_refuted_anti_affinity. Qed.
Print Assumptions c19_ensemble_old_refuted.

(* O-19b: panic("unexpected behaviour") when the candidates run out *)
Theorem c19_no_panic_old_refuted :
  In Panic (ensemble_select Old (mkEnv [] [] None (Some 0)) [1; 2] 3) /\
  ensemble_select Fixed (mkEnv [] [] None (Some 0)) [1; 2] 3 = [Err EReplicas; Err EReplicas].
Proof. exact ensemble_old_refuted_panic. Qed.
Print Assumptions c19_no_panic_old_refuted.

(* O-20: two swaps of one shard from one snapshot, same target, swapNode accepts both *)
Theorem c19_round_old_refuted :
  round Old Old (mkEnv [] [] (Some [4; 5; 13; 14; 3]) (Some 0)) [3; 4; 5]
        [(7, ([], [13; 14; 3]))] [(7, 13); (7, 14)]
  = [([Swap 4; Swap 4], [(7, mkMd [3; 4; 4] [13; 14])])].
Proof. exact round_old_refuted_duplicate. Qed.
Print Assumptions c19_round_old_refuted.

(* O-20: a membership check in swapNode alone leaves strict anti-affinity violable in one round *)
Theorem c19_round_guard_only_refuted :
  round Old Fixed (mkEnv md5 [] (Some [4; 5; 13; 14; 3]) (Some 0)) [3; 4; 5]
        [(7, (rules5, [13; 14; 3]))] [(7, 13); (7, 14)]
  = [([Swap 4; Swap 5], [(7, mkMd [3; 4; 5] [13; 14])])] /\
  aa_ok md5 rules5 [13; 14; 3] /\ ~ aa_ok md5 rules5 [3; 4; 5] /\
  round Fixed Fixed (mkEnv md5 [] (Some [4; 5; 13; 14; 3]) (Some 0)) [3; 4; 5]
        [(7, (rules5, [13; 14; 3]))] [(7, 13); (7, 14)]
  = [([Swap 4; NoSwap], [(7, mkMd [14; 3; 4] [13])])].
Proof. exact round_guard_only_refuted_anti_affinity. Qed.
Print Assumptions c19_round_guard_only_refuted.

(* Several rounds one after the other, separated by the round barrier of rebalanceEnsemble (a round returns only when
   every action it proposed has been applied; the next round loads the status again): per shard, duplicate-free stays
   duplicate-free, the size is kept, strict anti-affinity is preserved, new members are cluster servers. *)
Theorem c19_rounds_with_barrier : forall e nodes reqss snap snap',
  In snap' (rounds_from e nodes snap reqss) ->
  Forall2 (fun p q => fst p = fst q /\ fst (snd p) = fst (snd q) /\
     (NoDup (snd (snd p)) ->
      NoDup (snd (snd q)) /\ length (snd (snd q)) = length (snd (snd p)) /\
      (aa_ok (e_md e) (fst (snd p)) (snd (snd p)) -> aa_ok (e_md e) (fst (snd p)) (snd (snd q))) /\
      (forall x, In x (snd (snd q)) -> In x (snd (snd p)) \/ In x nodes))) snap snap'.
Proof. exact rounds_ok. Qed.
Print Assumptions c19_rounds_with_barrier.

(* The barrier is needed: two proposals for one shard computed from the same snapshot (the first still queued), both
   accepted by swapNode's membership check, break strict anti-affinity. *)
Theorem c19_rounds_without_barrier_refuted :
  In (Swap 4) (swap_shard Fixed (mkEnv md_zone strict_zone (Some [4; 5; 3; 2; 1]) (Some 0)) [1; 2; 3; 4; 5] [1; 2; 3] 1) /\
  In (Swap 5) (swap_shard Fixed (mkEnv md_zone strict_zone (Some [5; 4; 3; 2; 1]) (Some 0)) [1; 2; 3; 4; 5] [1; 2; 3] 2) /\
  apply_actions Fixed [(7, mkMd [1; 2; 3] [])] [(7, 1, 4); (7, 2, 5)] = [(7, mkMd [3; 4; 5] [1; 2])] /\
  aa_ok md_zone strict_zone [1; 2; 3] /\ ~ aa_ok md_zone strict_zone [3; 4; 5].
Proof. exact rounds_without_barrier_refuted. Qed.
Print Assumptions c19_rounds_without_barrier_refuted.

(* swapNode, all three outcomes (refused / election failed / swapped): the controller's in-memory metadata and the
   stored metadata are equal afterwards whenever they were equal before — the balancer plans every later move from the
   ensemble the controller will apply it to. *)
Theorem c19_swap_memory_equals_status : forall v c from to election_ok,
  ctl_mem c = ctl_stored c ->
  ctl_mem (fst (swap_node_ctl v c from to election_ok)) = ctl_stored (fst (swap_node_ctl v c from to election_ok)).
Proof. exact swap_node_ctl_coherent. Qed.
Print Assumptions c19_swap_memory_equals_status.

(* Rolling the memory back after a failed election (not what the code does) separates memory and status, and the next
   replacement planned from the status breaks a strict rule. *)
Theorem c19_swap_rollback_refuted :
  let c0 := mkCtl (mkMd [1; 2; 3] []) (mkMd [1; 2; 3] []) in
  let c1 := fst (swap_node_ctl_rollback Fixed c0 1 4 false) in
  let c2 := fst (swap_node_ctl_rollback Fixed c1 2 5 true) in
  m_ens (ctl_stored c1) = [2; 3; 4] /\ m_ens (ctl_mem c1) = [1; 2; 3] /\
  In (Swap 5) (swap_shard Fixed (mkEnv md_zone5 strict_zone (Some [5; 1; 3; 4]) (Some 0)) [1; 3; 4; 5]
                          (m_ens (ctl_stored c1)) 2) /\
  m_ens (ctl_stored c2) = [1; 3; 5] /\
  aa_ok md_zone5 strict_zone [2; 3; 4] /\ ~ aa_ok md_zone5 strict_zone [1; 3; 5].
Proof. exact swap_rollback_refuted. Qed.
Print Assumptions c19_swap_rollback_refuted.
