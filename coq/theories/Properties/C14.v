(* C14 — Ephemeral records live and die with their session, and only they do.
   This file contains only the property theorems (each closed by [exact]) and Print Assumptions.
   Model: Db/*.v (the DB write path with the session callback of server/session_manager.go) and Db/SessionMgr.v
   (session manager + the two-step session.delete() of server/session.go); proofs: Db/Proofs_C14.v, Db/C14_Keys.v.

   Vocabulary:  [uv m k]          the record a client sees under user key k (None for "__oxia/..." keys)
                [owner m k]       the session of that record (None = absent or not ephemeral)
                [alive m z]       SessionKey(z) is stored
                [shadow_key z k]  ShadowKey(z, k) = SessionKey(z) ++ "/" ++ url.PathEscape(k)
                [c14_request]     puts / deletes / delete-ranges on user keys (plain, conditional, session, indexed and
                                  sequence puts; session puts on non-empty keys) and the session manager's puts /
                                  deletes of session keys
                [c14_run cfg ops] the DB reached from the empty DB by such requests, ATOMIC session closes
                                  (list + write with nothing in between), term updates (leader changes),
                                  notification switches and restarts. *)
From Coq Require Import List NArith ZArith Bool.
From Oxia.KeyOrder Require Import Model Proofs.
From Oxia.Db Require Import Types Bytes Escape Keys Kv Sessions Indexes Write Read Spec KvProofs Proofs_C12
     SessionMgr C14_Keys Proofs_C14.
Import ListNotations.

(* The shadow index mirrors ownership exactly, in every state reachable by ANY sequence of such operations:
   overwrites by other sessions and by plain puts, deletes, both delete-range strategies (any threshold),
   session creations and closes, several operations on one key inside one batch, failed requests. *)
Theorem c14_shadow_mirror : forall cfg ops s k,
  Forall c14_ok ops ->
  let m := st_kv (c14_run cfg ops) in
  kv_get m (shadow_key s k) <> None <-> exists r, uv m k = Some r /\ e_session r = Some s.
Proof. exact shadow_mirror. Qed.
Print Assumptions c14_shadow_mirror.

(* ... together with: every stored key below a session key is the shadow of a non-empty byte key, and the map is
   well formed (the full invariant, preserved by every single request of the universe). *)
Theorem c14_invariant_reachable : forall cfg ops, Forall c14_ok ops -> c14_inv (st_kv (c14_run cfg ops)).
Proof. exact c14_inv_reachable. Qed.
Print Assumptions c14_invariant_reachable.

Theorem c14_invariant_preserved : forall cfg st req offset ts,
  c14_inv (st_kv st) -> c14_request req ->
  c14_inv (st_kv (fst (process_write wrapper_callbacks cfg st req offset ts))).
Proof. exact process_write_c14. Qed.
Print Assumptions c14_invariant_preserved.

(* Writes naming a dead session are rejected and change nothing (records, sessions, shadow index) - in every
   well-formed state, i.e. every state reachable by any requests whatsoever (c12_reachable_invariant). *)
Theorem c14_dead_session_rejected : forall cfg st p z offset ts,
  wf_kv (st_kv st) -> is_internal (p_key p) = false -> p_deltas p = [] ->
  p_session p = Some z -> alive (st_kv st) z = false ->
  exists st' r,
    process_write wrapper_callbacks cfg st (mkWrite [p] [] []) offset ts = (st', Ok (mkWriteResp [r] [] [])) /\
    (pr_status r = SESSION_DOES_NOT_EXIST \/ pr_status r = UNEXPECTED_VERSION_ID) /\
    (spec_check (uv (st_kv st) (p_key p)) (p_expected p) = true -> pr_status r = SESSION_DOES_NOT_EXIST) /\
    pr_version r = None /\
    (forall k, uv (st_kv st') k = uv (st_kv st) k) /\
    (forall s, alive (st_kv st') s = alive (st_kv st) s) /\
    (forall s k, kv_get (st_kv st') (shadow_key s k) = kv_get (st_kv st) (shadow_key s k)).
Proof. exact dead_session_rejected. Qed.
Print Assumptions c14_dead_session_rejected.

(* Ownership follows the last writer: a successful put (plain, or under a live session) makes its session (or
   none) the owner, the key's only shadow entry is the new owner's, no other key changes owner or shadow. *)
Theorem c14_takeover : forall cfg st p offset ts,
  c14_inv (st_kv st) -> c14_user_put p -> put_status_of (st_kv st) p = OK ->
  exists st' r,
    process_write wrapper_callbacks cfg st (mkWrite [p] [] []) offset ts = (st', Ok (mkWriteResp [r] [] [])) /\
    pr_status r = OK /\
    owner (st_kv st') (p_key p) = p_session p /\
    (forall s, kv_get (st_kv st') (shadow_key s (p_key p)) <> None <-> p_session p = Some s) /\
    (forall k, k <> p_key p ->
       owner (st_kv st') k = owner (st_kv st) k /\
       forall s, kv_get (st_kv st') (shadow_key s k) <> None <-> kv_get (st_kv st) (shadow_key s k) <> None).
Proof. exact takeover. Qed.
Print Assumptions c14_takeover.

(* Step 1 of session.delete() (ListBlock + PathUnescape) returns exactly the keys the session owns at that moment. *)
Theorem c14_cleanup_lists_owned_keys : forall st z k,
  c14_inv (st_kv st) -> (In k (cleanup_list st z) <-> owner (st_kv st) k = Some z).
Proof. exact cleanup_list_spec. Qed.
Print Assumptions c14_cleanup_lists_owned_keys.

(* PARTIAL.  Exact cleanup: when the session's write is applied to a state in which the session owns the same
   keys as when they were listed, exactly those records disappear, atomically (one request) with the session key;
   every other record, every other session and every other session's shadow entries are untouched; nothing is left
   in the dead session's name; the invariant holds afterwards.
   Missing for the full statement: the hypothesis on the two states is not enforced by the code (two separate calls
   into the leader controller, unconditional deletes): c14_cleanup_exact_refuted_* below. *)
Theorem c14_cleanup_exact_partial : forall cfg st0 st z offset ts st' resp,
  c14_inv (st_kv st0) -> c14_inv (st_kv st) ->
  (forall k, owner (st_kv st) k = Some z <-> owner (st_kv st0) k = Some z) ->
  process_write wrapper_callbacks cfg st (cleanup_request z (cleanup_list st0 z)) offset ts = (st', Ok resp) ->
  cleanup_exact (st_kv st) (st_kv st') z /\ c14_inv (st_kv st').
Proof. exact cleanup_exact_partial. Qed.
Print Assumptions c14_cleanup_exact_partial.

(* REFUTED (O-12), for every session-metadata codec: a run of the session manager in which every client write is in
   the universe, whose last step is a successful cleanup write, and in which a record that the session did NOT own
   when the write was applied is deleted ... *)
Theorem c14_cleanup_exact_refuted_deleted_not_owned : forall meta_enc meta_dec,
  exists tr z m m',
    rf_client_writes_ok tr /\
    m = st_kv (sw_db (fst (run_actions meta_enc meta_dec rf_cfg 2000 300000 init_world tr))) /\
    m' = st_kv (sw_db (fst (run_actions meta_enc meta_dec rf_cfg 2000 300000 init_world (tr ++ [rf_last])))) /\
    (exists r, last (snd (run_actions meta_enc meta_dec rf_cfg 2000 300000 init_world (tr ++ [rf_last]))) ODone = OWritten (Ok r)) /\
    (exists k, uv m k <> None /\ owner m k <> Some z /\ uv m' k = None) /\
    ~ cleanup_exact m m' z.
Proof. exact cleanup_exact_refuted_deleted_not_owned. Qed.
Print Assumptions c14_cleanup_exact_refuted_deleted_not_owned.

(* ... and one in which a record written under the dying session between the two steps survives it: owned by a
   session that no longer exists, without shadow entry (the mirror invariant is broken from then on). *)
Theorem c14_cleanup_exact_refuted_orphan : forall meta_enc meta_dec,
  exists tr z m m',
    rf_client_writes_ok tr /\
    m = st_kv (sw_db (fst (run_actions meta_enc meta_dec rf_cfg 2000 300000 init_world tr))) /\
    m' = st_kv (sw_db (fst (run_actions meta_enc meta_dec rf_cfg 2000 300000 init_world (tr ++ [rf_last])))) /\
    (exists r, last (snd (run_actions meta_enc meta_dec rf_cfg 2000 300000 init_world (tr ++ [rf_last]))) ODone = OWritten (Ok r)) /\
    (exists k, owner m' k = Some z /\ alive m' z = false /\ kv_get m' (shadow_key z k) = None) /\
    ~ cleanup_exact m m' z /\ ~ mirror m'.
Proof. exact cleanup_exact_refuted_orphan. Qed.
Print Assumptions c14_cleanup_exact_refuted_orphan.

(* REFUTED without any interleaving: an ephemeral record under the EMPTY key outlives its session (session.delete()
   skips the empty key) - why [c14_request] asks for non-empty keys on session puts. *)
Theorem c14_empty_key_orphan_refuted :
  let m := st_kv (c14_run rf_cfg rf_empty_ops) in
  owner m [] = Some 0%Z /\ alive m 0 = false /\ kv_get m (shadow_key 0 []) = None.
Proof. exact empty_key_orphan_refuted. Qed.
Print Assumptions c14_empty_key_orphan_refuted.

(* Timers.  Along every run of the session manager (any actions, any clock readings) the deadline of a session of
   the current leader is (time of its LAST arming event) + (its timeout), an arming event being a successful
   creation, an accepted heartbeat, or the leader change that re-read it from the DB; [ATick now] expires a session
   only if that deadline is <= now ... *)
Theorem c14_timeout_only_after_full_period : forall meta_enc meta_dec cfg min_timeout max_timeout tr now id,
  In id (match snd (step meta_enc meta_dec cfg min_timeout max_timeout
                         (final meta_enc meta_dec cfg min_timeout max_timeout tr) (ATick now))
         with OExpired ids => ids | _ => [] end) ->
  exists ss, In (id, ss) (sw_sessions (final meta_enc meta_dec cfg min_timeout max_timeout tr)) /\
             last_arm meta_enc meta_dec cfg min_timeout max_timeout init_world tr id None = Some (ss_armed ss) /\
             (ss_armed ss + ss_timeout ss <= now)%N.
Proof. exact timeout_only_after_full_period. Qed.
Print Assumptions c14_timeout_only_after_full_period.

(* ... and keeps every session whose deadline is ahead, without touching the DB. *)
Theorem c14_tick_keeps_unexpired : forall meta_enc meta_dec cfg min_timeout max_timeout tr now id ss,
  In (id, ss) (sw_sessions (final meta_enc meta_dec cfg min_timeout max_timeout tr)) ->
  (now < ss_armed ss + ss_timeout ss)%N ->
  In (id, ss) (sw_sessions (fst (step meta_enc meta_dec cfg min_timeout max_timeout
                                      (final meta_enc meta_dec cfg min_timeout max_timeout tr) (ATick now)))) /\
  sw_db (fst (step meta_enc meta_dec cfg min_timeout max_timeout
                   (final meta_enc meta_dec cfg min_timeout max_timeout tr) (ATick now)))
  = sw_db (final meta_enc meta_dec cfg min_timeout max_timeout tr).
Proof. exact tick_keeps_unexpired. Qed.
Print Assumptions c14_tick_keeps_unexpired.

(* Leader change: records, live sessions and the shadow index are what the old leader left, and every session the new
   leader's Initialize finds is armed with a full timeout at the time of the change. *)
Theorem c14_leader_change_keeps_db : forall meta_enc meta_dec cfg min_timeout max_timeout w term ts now,
  wf_kv (st_kv (sw_db w)) ->
  let w' := fst (step meta_enc meta_dec cfg min_timeout max_timeout w (ALeaderChange term ts now)) in
  (forall k, uv (st_kv (sw_db w')) k = uv (st_kv (sw_db w)) k) /\
  (forall s, alive (st_kv (sw_db w')) s = alive (st_kv (sw_db w)) s) /\
  (forall s k, kv_get (st_kv (sw_db w')) (shadow_key s k) = kv_get (st_kv (sw_db w)) (shadow_key s k)) /\
  (forall id ss, In (id, ss) (sw_sessions w') -> ss_armed ss = now).
Proof. exact leader_change_keeps_db. Qed.
Print Assumptions c14_leader_change_keeps_db.

(* KeyToId inverts SessionKey on every id a log offset can take. *)
Theorem c14_key_to_id_session_key : forall z,
  (0 <= z < 9223372036854775808)%Z -> key_to_id (session_key z) = Some z.
Proof. exact key_to_id_session_key. Qed.
Print Assumptions c14_key_to_id_session_key.

(* PARTIAL.  Initialize on the new leader finds every session whose key holds decodable metadata and arms it with the
   full timeout at the time of the change.  Missing: the two hypotheses about the REST of the listing (Initialize does
   not fail on another key; no other listed key parses to the same id) hold for every DB written through
   createSession but are not part of the proved invariant. *)
Theorem c14_leader_init_finds_session_partial : forall meta_dec st now z e t l,
  KvProofs.sorted (st_kv st) -> (0 <= z < 9223372036854775808)%Z ->
  kv_get (st_kv st) (session_key z) = Some (VRecord e) -> meta_dec (e_value e) = Some t ->
  (forall y, In y (db_list st session_lo session_hi) -> key_to_id y = Some z -> y = session_key z) ->
  leader_init meta_dec st now = Ok l ->
  In (z, mkSess t now) l.
Proof. exact leader_init_finds_session. Qed.
Print Assumptions c14_leader_init_finds_session_partial.

(* The end of a session is one request (one log entry): all listed keys, the session key and the shadow range. *)
Theorem c14_cleanup_write_is_one_request : forall meta_enc meta_dec cfg mn mx w id offset ts c rest,
  take_closing has_keys id (sw_closing w) = Some (c, rest) ->
  sw_db (fst (step meta_enc meta_dec cfg mn mx w (ACleanupWrite id offset ts))) =
  fst (process_write wrapper_callbacks cfg (sw_db w)
         (cleanup_request id (match cl_keys c with Some ks => ks | None => [] end)) offset ts) /\
  w_puts (cleanup_request id (match cl_keys c with Some ks => ks | None => [] end)) = [] /\
  In (mkDel (session_key id) None) (w_dels (cleanup_request id (match cl_keys c with Some ks => ks | None => [] end))) /\
  w_ranges (cleanup_request id (match cl_keys c with Some ks => ks | None => [] end)) = [mkRange (shadow_lo id) (shadow_hi id)].
Proof. exact cleanup_write_is_one_request. Qed.
Print Assumptions c14_cleanup_write_is_one_request.

(* Sessions after a leader change = the sessions of the log.  BecomeLeader applies the whole log before Initialize, so
   the DB read is [apply_log ... log] whatever prefix the node had applied as a follower: the leader change alters no
   session key; every session of the new manager comes from a stored session key with decodable metadata and is armed
   with a full timeout at the time of the change; every stored, decodable session key (no other listed key denoting the
   same id) is among them. *)
Theorem c14_sessions_after_leader_change : forall meta_enc meta_dec cfg mn mx log closing sessions term ts now,
  let db0 := apply_log cfg init_state log in
  let w := mkWorld db0 sessions closing in
  let w' := fst (step meta_enc meta_dec cfg mn mx w (ALeaderChange term ts now)) in
  snd (step meta_enc meta_dec cfg mn mx w (ALeaderChange term ts now)) = ODone ->
  (forall z, alive (st_kv (sw_db w')) z = alive (st_kv db0) z) /\
  (forall z ss, In (z, ss) (sw_sessions w') ->
     ss_armed ss = now /\ found_in meta_dec (sw_db w') (db_list (sw_db w') session_lo session_hi) z (ss_timeout ss)) /\
  (forall z e t, (0 <= z < 9223372036854775808)%Z ->
     kv_get (st_kv db0) (session_key z) = Some (VRecord e) -> meta_dec (e_value e) = Some t ->
     (forall y, In y (db_list (sw_db w') session_lo session_hi) -> key_to_id y = Some z -> y = session_key z) ->
     In (z, mkSess t now) (sw_sessions w')).
Proof. exact sessions_after_leader_change. Qed.
Print Assumptions c14_sessions_after_leader_change.

(* Each session restored by Initialize runs with the metadata decoded from its own key. *)
Theorem c14_leader_init_own_metadata : forall meta_dec st now l z ss,
  leader_init meta_dec st now = Ok l -> In (z, ss) l ->
  (forall y, In y (db_list st session_lo session_hi) -> key_to_id y = Some z -> y = session_key z) ->
  exists e, kv_get (st_kv st) (session_key z) = Some (VRecord e) /\ meta_dec (e_value e) = Some (ss_timeout ss) /\ ss_armed ss = now.
Proof. exact leader_init_own_metadata. Qed.
Print Assumptions c14_leader_init_own_metadata.
