(* C04 — A fenced node makes no progress in older terms and reports its true head.
   Only the property theorems (each closed by [exact]) and Print Assumptions.
   Model: Oxia.Node.Model (one node: shards director + follower/leader controller over a WAL spec), repaired
   variant [cfg_fixed]; [_old_refuted]: the same statements fail on the model of the pinned code [cfg_old]. *)
From Coq Require Import List ZArith.
From Oxia.Node Require Import Model Lemmas Fence Refuted.
Import ListNotations.
Open Scope Z_scope.

(* Every state reached by any schedule satisfies the structural invariant. *)
Theorem c04_reachable_invariant : forall l n, inv n -> Forall wf_action l -> inv (state_after cfg_fixed n l).
Proof. exact reachable_inv. Qed.
Print Assumptions c04_reachable_invariant.

(* The head in a NewTerm(t) response is the last entry of the log, counting the entries that were appended
   but not yet synced when the request arrived (none is unsynced once it answered); the node is then in term t, FENCED. *)
Theorem c04_head_truthful : forall n t n' o h, inv n ->
  step cfg_fixed n (NewTermReq t) = (n', o) -> o_res o = RHead h ->
  h = (match last_entry (n_wal n') with Some e => eid_of e | None => invalid_eid end) /\
  n_synced n' = length (n_wal n') /\ n_wal n' = n_wal n /\
  n_term n' = t /\ n_status n' = Fenced /\ n_term n <= t /\ o_acks o = [].
Proof. exact newterm_head_truthful. Qed.
Print Assumptions c04_head_truthful.

Theorem c04_newterm_fences : forall n t n' o h, inv n ->
  step cfg_fixed n (NewTermReq t) = (n', o) -> o_res o = RHead h -> fenced_at t n'.
Proof. exact newterm_fences. Qed.
Print Assumptions c04_newterm_fences.

(* After that, for every schedule of actions none of which carries a term >= T (in-flight appends and client
   writes, pending syncs, stream failures, requests of older terms, role changes, crashes and restarts),
   the log and the term do not change. *)
Theorem c04_wal_unchanged_until_newer_term : forall T l n, fenced_at T n -> Forall wf_action l -> low_run T n l ->
  n_wal (state_after cfg_fixed n l) = n_wal n /\ n_term (state_after cfg_fixed n l) = n_term n /\
  fenced_at T (state_after cfg_fixed n l).
Proof. exact fenced_wal_unchanged. Qed.
Print Assumptions c04_wal_unchanged_until_newer_term.

(* Once the node's term is >= T, along every schedule: an Ack is only sent on a stream of a term >= T (streams
   that announce their term), the log only grows by an Append of a term >= T or by a client write whose entry
   has a term >= T, and a client write is only reported successful for an entry of a term >= T. *)
Theorem c04_no_old_term_progress : forall T n0 l a n' o,
  inv n0 -> T <= n_term n0 -> Forall wf_action l -> Forall keeps_shard l -> wf_action a ->
  let n := state_after cfg_fixed n0 l in
  step cfg_fixed n a = (n', o) ->
  (forall sid off t, In (sid, off) (o_acks o) -> stream_term n sid = Some t -> 0 <= t -> T <= t) /\
  ((length (n_wal n) < length (n_wal n'))%nat ->
     (exists sid e c t, a = FollowerAppend sid e c /\ stream_term n sid = Some t /\ T <= t) \/
     (exists p e, a = ClientWrite p /\ n_wal n' = n_wal n ++ [e] /\ T <= e_term e)) /\
  (forall off, In (off, true) (o_writes o) -> exists e, In e (n_wal n') /\ e_off e = off /\ T <= e_term e).
Proof. exact no_old_term_progress. Qed.
Print Assumptions c04_no_old_term_progress.

(* The fence itself never drops: under every schedule that keeps the shard (crashes and restarts, role changes, failed
   snapshots, broken streams included) the node's term only moves forward, between any two points of the schedule. *)
Theorem c04_term_monotone : forall l1 l2 n, inv n -> Forall wf_action (l1 ++ l2) -> Forall keeps_shard (l1 ++ l2) ->
  n_term (state_after cfg_fixed n l1) <= n_term (state_after cfg_fixed n (l1 ++ l2)).
Proof. exact run_term_mono_between. Qed.
Print Assumptions c04_term_monotone.

(* A DeleteShard of a term older than the node's is refused in every residency state of the shard (controller loaded as
   follower or leader, or not loaded: the stored term decides), and term, log and commit offset stay as they are.
   (A DeleteShard of a term >= the node's removes the shard, fence included: [keeps_shard] above.) *)
Theorem c04_delete_shard_older_term_refused : forall c n t, inv n -> t < n_term n ->
  o_res (snd (step c n (DeleteShardReq t))) = RErr EInvalidTerm /\
  n_term (fst (step c n (DeleteShardReq t))) = n_term n /\
  n_wal (fst (step c n (DeleteShardReq t))) = n_wal n /\
  n_commit (fst (step c n (DeleteShardReq t))) = n_commit n.
Proof. exact delete_shard_older_term_refused. Qed.
Print Assumptions c04_delete_shard_older_term_refused.

(* The pinned code (O-5): the reported head is not the end of the log ... *)
Theorem c04_head_old_refuted :
  exists l t n' o h e, step cfg_old (state_after cfg_old init l) (NewTermReq t) = (n', o) /\
    o_res o = RHead h /\ last_entry (n_wal n') = Some e /\ h <> eid_of e.
Proof. exact newterm_head_old_refuted. Qed.
Print Assumptions c04_head_old_refuted.

(* ... and the sync round in flight acknowledges on the old term's stream after the answer (O-5b). *)
Theorem c04_ack_after_newterm_old_refuted :
  exists l sid off n' o, let n := state_after cfg_old init l in
    n_term n = 4 /\ n_status n = Fenced /\ step cfg_old n (SyncEnd sid) = (n', o) /\
    In (sid, off) (o_acks o) /\ stream_term n sid = Some 2.
Proof. exact ack_after_newterm_old_refuted. Qed.
Print Assumptions c04_ack_after_newterm_old_refuted.

(* O-25: an old-term snapshot wipes the log of a fenced node; O-26: an old-term leader attaches. *)
Theorem c04_snapshot_old_refuted :
  exists l sid t c, let n := state_after cfg_old init l in
    n_status n = Fenced /\ t < n_term n /\ n_wal n <> [] /\
    n_wal (fst (step cfg_old n (SnapshotInstall sid t c 0))) = [].
Proof. exact snapshot_old_refuted. Qed.
Print Assumptions c04_snapshot_old_refuted.

(* Open finding (repaired code): the theorems above are for schedules whose snapshot installs either complete or fail
   before their first chunk ([wf_action]).  A snapshot install that fails later leaves the node without a stored term, and
   after a restart the fence is forgotten: a NewTerm of an older term is accepted. *)
Theorem c04_newterm_after_failed_snapshot_refuted :
  exists l1 l2 t h,
    n_term (state_after cfg_fixed init l1) = 6 /\ n_status (state_after cfg_fixed init l1) = Fenced /\
    t < 6 /\ o_res (snd (step cfg_fixed (state_after cfg_fixed init (l1 ++ l2)) (NewTermReq t))) = RHead h.
Proof. exact newterm_after_failed_snapshot_refuted. Qed.
Print Assumptions c04_newterm_after_failed_snapshot_refuted.

Theorem c04_stale_stream_old_refuted :
  exists l sid t, let n := state_after cfg_old init l in
    0 <= t < n_term n /\ o_res (snd (step cfg_old n (ReplicateOpen sid t))) = ROk.
Proof. exact stale_stream_old_refuted. Qed.
Print Assumptions c04_stale_stream_old_refuted.
