(* C12 — Versioning, conditional writes and batch semantics match the sequential spec.
   This file contains only the property theorems (each closed by [exact]) and Print Assumptions.
   Model: Db/*.v (process_write = kv.DB.ProcessWrite with the WrapperUpdateOperationCallback chain);
   specification: Db/Spec.v; proofs: Db/Proofs_C12.v.  The key order is KeyOrder.cmp_slash, whose
   total-order laws come from KeyOrder/Proofs.v. *)
From Coq Require Import List NArith ZArith Bool.
From Oxia.Db Require Import Types Bytes Keys Kv Sessions Indexes Write Read Spec KvProofs Proofs_C12.
Import ListNotations.

(* Refinement.  In every state reachable from an empty DB by any operations (requests of any kind,
   successful or failed, term updates, notification switches, restarts), a request whose keys and ranges
   stay outside "__oxia/" is answered exactly as the sequential specification says (puts, then deletes,
   then range deletes, each operation seeing the earlier ones), and the user-visible records, the live
   sessions and the last version id afterwards are the specification's.  The third argument of
   [spec_write] is what the implementation decided for the sequence puts (the key it reports, or its refusal
   to continue the sequence): which key is chosen, and when none can be, is C16's subject. *)
Theorem c12_refines_spec : forall cfg ops req offset ts st' resp,
  user_request req ->
  process_write wrapper_callbacks cfg (run cfg ops) req offset ts = (st', Ok resp) ->
  exists s', spec_write (abs_state (run cfg ops)) req (map seq_choice_of (wr_puts resp)) ts = (s', resp) /\
             seq_eq (abs_state st') s'.
Proof. exact refines_spec_reachable. Qed.
Print Assumptions c12_refines_spec.

(* The same for any state satisfying the invariant (sorted map, user keys hold records), together with
   the preservation of the invariant. *)
Theorem c12_refines_spec_inv : forall cfg st req offset ts st' resp,
  wf_kv (st_kv st) -> user_request req ->
  process_write wrapper_callbacks cfg st req offset ts = (st', Ok resp) ->
  exists s', spec_write (abs_state st) req (map seq_choice_of (wr_puts resp)) ts = (s', resp) /\
             seq_eq (abs_state st') s' /\ wf_kv (st_kv st').
Proof. exact refines_spec. Qed.
Print Assumptions c12_refines_spec_inv.

(* The invariant survives EVERY request (hostile ones included) and holds in every reachable state. *)
Theorem c12_invariant_preserved : forall cfg st req offset ts,
  wf_kv (st_kv st) -> wf_kv (st_kv (fst (process_write wrapper_callbacks cfg st req offset ts))).
Proof. exact wf_preserved. Qed.
Print Assumptions c12_invariant_preserved.

Theorem c12_reachable_invariant : forall cfg ops, wf_kv (st_kv (run cfg ops)).
Proof. exact reachable_wf. Qed.
Print Assumptions c12_reachable_invariant.

(* Version ids, within one request: the successful puts get v+1, v+2, ... (v = counter before), a failed
   request never lowers the counter.  Any callbacks, any request. *)
Theorem c12_versions_consecutive_in_request : forall cb cfg st req offset ts st' res,
  process_write cb cfg st req offset ts = (st', res) ->
  (- TWO63 <= st_ver st)%Z -> (st_ver st + Z.of_nat (length (w_puts req)) < TWO63)%Z ->
  (st_ver st <= st_ver st' <= st_ver st + Z.of_nat (length (w_puts req)))%Z /\
  (forall resp, res = Ok resp ->
     consecutive (st_ver st) (resp_versions (wr_puts resp)) /\
     st_ver st' = (st_ver st + Z.of_nat (length (resp_versions (wr_puts resp))))%Z).
Proof. exact versions_step. Qed.
Print Assumptions c12_versions_consecutive_in_request.

(* Version ids, across requests and restarts: in any history of requests (any keys, successful or failed)
   and restarts starting from an empty DB, every id assigned to a successful put is strictly greater
   than every id assigned before (below 2^63 assigned ids). *)
Theorem c12_versions_strictly_increase : forall cb cfg ops st' vs,
  run_hist cb cfg init_state ops = (st', vs) ->
  hist_offsets_ok ops -> (Z.of_nat (hist_puts ops) < TWO63)%Z ->
  increasing_from (-1) vs.
Proof. exact versions_strictly_increase_from_init. Qed.
Print Assumptions c12_versions_strictly_increase.

(* ... and from ANY state, not only an empty DB: whenever the last id assigned so far is [lo] and the stored counter
   lies between [lo] and the in-memory one (true of an empty DB with lo = -1, of every state reached by requests and
   restarts, of a DB installed from a snapshot), every id assigned by any continuation of requests and restarts is
   strictly greater than [lo] and than every id assigned before it. *)
Theorem c12_versions_strictly_increase_any_state : forall cb cfg ops st lo st' vs,
  run_hist cb cfg st ops = (st', vs) ->
  ver_consistent st lo -> hist_offsets_ok ops ->
  (- TWO63 <= lo)%Z -> (st_ver st + Z.of_nat (hist_puts ops) < TWO63)%Z ->
  increasing_from lo vs.
Proof. exact versions_increase_across_restarts. Qed.
Print Assumptions c12_versions_strictly_increase_any_state.

Theorem c12_reopen_after_commit : forall cb cfg st req offset ts st' resp,
  process_write cb cfg st req offset ts = (st', Ok resp) ->
  int64 offset -> int64 (st_ver st') ->
  reopen (persist st') = Ok (mkState (st_kv st') (st_ver st') true offset) /\
  read_last_version (st_kv st') = Ok (st_ver st').
Proof. exact reopen_after_commit. Qed.
Print Assumptions c12_reopen_after_commit.

(* Conditional put and modification count, for an operation anywhere inside a request ([w] = the state
   left by the earlier operations of the same request): rejected iff the expected version does not match
   ("-1" matches only an absent key), then nothing changes; otherwise it takes effect (if its session is
   alive): new version id, modification count 0 on creation and previous+1 on update, creation time kept. *)
Theorem c12_conditional_put_iff_and_modcount : forall w p ts w' r,
  wf_kv (w_kv w) -> is_internal (p_key p) = false -> p_deltas p = [] ->
  apply_put wrapper_callbacks w p ts = (w', Ok r) ->
  let cur := uv (w_kv w) (p_key p) in
  let live := match p_session p with None => True | Some z => alive (w_kv w) z = true end in
  (pr_status r = UNEXPECTED_VERSION_ID <-> ~ version_matches cur (p_expected p)) /\
  (pr_status r = SESSION_DOES_NOT_EXIST <-> version_matches cur (p_expected p) /\ ~ live) /\
  (pr_status r <> OK -> (forall k, uv (w_kv w') k = uv (w_kv w) k) /\ w_ver w' = w_ver w) /\
  (pr_status r = OK <-> version_matches cur (p_expected p) /\ live) /\
  (pr_status r = OK ->
     exists e, uv (w_kv w') (p_key p) = Some e /\
       e_value e = p_value p /\
       e_version e = wrap64 (w_ver w + 1) /\ w_ver w' = e_version e /\
       pr_version r = Some (version_of e) /\
       e_modcount e = match cur with None => 0%Z | Some c => wrap64 (e_modcount c + 1) end /\
       e_ctime e = match cur with None => ts | Some c => e_ctime c end /\ e_mtime e = ts /\
       (forall k, k <> p_key p -> uv (w_kv w') k = uv (w_kv w) k)).
Proof. exact put_effect. Qed.
Print Assumptions c12_conditional_put_iff_and_modcount.

(* int64 arithmetic is +1 below the top of the range *)
Theorem c12_wrap64_is_succ : forall z, (- TWO63 <= z < TWO63)%Z -> wrap64 z = z.
Proof. exact wrap64_small. Qed.
Print Assumptions c12_wrap64_is_succ.

(* Conditional delete; deleting an absent key reports not-found. *)
Theorem c12_conditional_delete_iff : forall w d w' r,
  wf_kv (w_kv w) -> is_internal (d_key d) = false ->
  apply_delete wrapper_callbacks w d = (w', Ok r) ->
  let cur := uv (w_kv w) (d_key d) in
  (r = UNEXPECTED_VERSION_ID <-> ~ version_matches cur (d_expected d)) /\
  (r = KEY_NOT_FOUND <-> cur = None /\ version_matches cur (d_expected d)) /\
  (r = OK <-> cur <> None /\ version_matches cur (d_expected d)) /\
  (r <> OK -> forall k, uv (w_kv w') k = uv (w_kv w) k) /\
  (r = OK -> uv (w_kv w') (d_key d) = None /\ forall k, k <> d_key d -> uv (w_kv w') k = uv (w_kv w) k) /\
  w_ver w' = w_ver w.
Proof. exact delete_effect. Qed.
Print Assumptions c12_conditional_delete_iff.

Theorem c12_delete_absent_not_found : forall w d w' r,
  wf_kv (w_kv w) -> is_internal (d_key d) = false ->
  apply_delete wrapper_callbacks w d = (w', Ok r) ->
  uv (w_kv w) (d_key d) = None -> (d_expected d = None \/ d_expected d = Some (-1)%Z) ->
  r = KEY_NOT_FOUND /\ forall k, uv (w_kv w') k = uv (w_kv w) k.
Proof. exact delete_absent_not_found. Qed.
Print Assumptions c12_delete_absent_not_found.

(* Delete-range removes exactly the keys of [start, end) under the key order, for every threshold;
   the two strategies agree on every range. *)
Theorem c12_delete_range_exact : forall threshold w r,
  wf_kv (w_kv w) -> range_user r ->
  exists w', apply_delete_range wrapper_callbacks threshold w r = (w', Ok OK) /\
    (forall k, uv (w_kv w') k =
               if key_in_range (Some (r_start r)) (Some (r_end r)) k then None else uv (w_kv w) k) /\
    (forall z, alive (w_kv w') z = alive (w_kv w) z) /\ w_ver w' = w_ver w.
Proof. exact delete_range_exact. Qed.
Print Assumptions c12_delete_range_exact.

Theorem c12_strategies_agree : forall t1 t2 w r,
  wf_kv (w_kv w) ->
  let '(w1, r1) := apply_delete_range wrapper_callbacks t1 w r in
  let '(w2, r2) := apply_delete_range wrapper_callbacks t2 w r in
  r1 = r2 /\ (forall k, kv_get (w_kv w1) k = kv_get (w_kv w2) k) /\
  w_ver w1 = w_ver w2 /\ w_nm w1 = w_nm w2 /\ w_events w1 = w_events w2.
Proof. exact strategies_agree. Qed.
Print Assumptions c12_strategies_agree.

(* the decidable test the harness uses for "range stays outside __oxia/" implies the hypothesis above *)
Theorem c12_range_safe_is_user : forall s e, range_safeb s e = true -> range_user (mkRange s e).
Proof. exact range_safe_is_user. Qed.
Print Assumptions c12_range_safe_is_user.

(* Atomicity: a failed request leaves the stored map untouched (any callbacks, any request). *)
Theorem c12_atomic : forall cb cfg st req offset ts st' e,
  process_write cb cfg st req offset ts = (st', Err e) ->
  st_kv st' = st_kv st /\ st_notif st' = st_notif st /\ st_notif_last st' = st_notif_last st.
Proof. exact atomic. Qed.
Print Assumptions c12_atomic.
