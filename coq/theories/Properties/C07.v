(* C07 — Log application is crash-atomic, exactly-once and in order.
   This file contains only the property theorems (each closed by [exact]) and Print Assumptions.
   Model: Oxia.Crash.Model (generic over the state machine [apply] that a log entry drives);
   [step ... true true] is the code with the repairs (NewTerm drains the applications in flight: O-5/O-30;
   snapshot installation excludes apply rounds: O-31), [false] switches a repair off. *)
From Coq Require Import List Arith Bool ZArith.
From Oxia.Crash Require Import Model Theorems Witness.
Import ListNotations.

Section C07.
  Variables (dbstate entry : Type) (apply : dbstate -> entry -> dbstate) (init_db : dbstate).
  Notation reachableF := (reachable dbstate entry apply init_db true true).
  Notation stepF := (step dbstate entry apply init_db true true).

  (* In every reachable state - any interleaving of in-flight writes, sync completions, quorum-commit
     advances, follower appends / sync rounds / steps of apply rounds, flushes, crashes (unflushed batches
     and unsynced WAL tail lost), restarts in either role, truncations, snapshot installations - the
     database equals the fold of the log entries 0..c, c being the commit offset stored in that same
     database; and so does everything a crash can leave behind (the flushed content, every batch). *)
  Theorem c07_db_is_fold_of_prefix : forall n, reachableF n ->
    fst (cur dbstate entry n) = fold_prefix dbstate entry apply init_db (hist dbstate entry n) (commit dbstate entry n) /\
    forall d, In d (flushed dbstate entry n :: mem dbstate entry n) ->
      fst d = fold_prefix dbstate entry apply init_db (hist dbstate entry n) (snd d) /\ snd d <= commit dbstate entry n.
  Proof. exact (db_is_fold_of_prefix dbstate entry apply init_db). Qed.

  (* the same with the Go value of the commit offset: DB = fold_left apply (firstn (c+1) log) init *)
  Theorem c07_db_is_fold_of_prefix_go_offset : forall n, reachableF n ->
    fst (cur dbstate entry n) =
    fold_left apply (firstn (Z.to_nat (commit_of dbstate (cur dbstate entry n) + 1)) (hist dbstate entry n)) init_db.
  Proof. exact (db_is_fold_of_prefix_Z dbstate entry apply init_db). Qed.

  (* every batch applies exactly one entry, the next one *)
  Theorem c07_batches_one_entry_each : forall n, reachableF n ->
    map snd (mem dbstate entry n) = seq (S (snd (flushed dbstate entry n))) (length (mem dbstate entry n)).
  Proof. exact (batches_one_entry_each dbstate entry apply init_db). Qed.

  (* after a restart, replay hands to ProcessWrite exactly the offsets c+1 .. head, in order, and ends with
     the fold of the whole log *)
  Theorem c07_replay_resumes_at_c_plus_1 : forall n n' os, reachableF n ->
    stepF n (BecomeLeader entry) = Some (n', os) ->
    os = seq (commit dbstate entry n) (length (hist dbstate entry n) - commit dbstate entry n) /\
    commit dbstate entry n' = length (hist dbstate entry n) /\
    fst (cur dbstate entry n') = fold_left apply (hist dbstate entry n) init_db.
  Proof. exact (replay_resumes_at_c_plus_1 dbstate entry apply init_db). Qed.

  (* a follower (after its constructor, at any later moment) reads from exactly c+1 *)
  Theorem c07_follower_resumes_at_c_plus_1 : forall n f, reachableF n -> rl dbstate entry n = Follower entry f ->
    f_commit entry f = commit dbstate entry n /\
    (forall nx mx, f_round entry f = Some (nx, mx) -> f_held entry f = None -> nx = commit dbstate entry n) /\
    (forall o e, f_held entry f = Some (o, e) -> o = commit dbstate entry n /\ nth_error (hist dbstate entry n) o = Some e).
  Proof. exact (follower_resumes_at_c_plus_1 dbstate entry apply init_db). Qed.

  (* the commit offset is never ahead of the durable log, and the physical WAL starts at or below the
     durable commit offset + 1 (= right above it after a snapshot / a cleared WAL) *)
  Theorem c07_commit_not_ahead_of_log : forall n, reachableF n ->
    commit dbstate entry n <= synced dbstate entry n /\ synced dbstate entry n <= length (hist dbstate entry n) /\
    wal_lo dbstate entry n <= snd (flushed dbstate entry n) /\ snd (flushed dbstate entry n) <= commit dbstate entry n.
  Proof. exact (commit_not_ahead_of_log dbstate entry apply init_db). Qed.

  (* whatever an action hands to ProcessWrite is c+1, c+2, ... in this order - also with many writes in flight *)
  Theorem c07_apply_in_offset_order : forall n n' a os, reachableF n -> stepF n a = Some (n', os) ->
    os = seq (commit dbstate entry n) (length os) /\
    (is_reset entry a = false -> commit dbstate entry n' = commit dbstate entry n + length os).
  Proof. exact (apply_in_offset_order dbstate entry apply init_db). Qed.

  (* between two resets (crash, snapshot) every entry is applied exactly once, in offset order *)
  Theorem c07_exactly_once_in_order_between_resets : forall n n' acts os, reachableF n ->
    forallb (fun a => negb (is_reset entry a)) acts = true ->
    run_applied dbstate entry apply init_db true true n acts = Some (n', os) ->
    os = seq (commit dbstate entry n) (length os) /\ commit dbstate entry n' = commit dbstate entry n + length os.
  Proof. exact (exactly_once_in_order_between_resets dbstate entry apply init_db). Qed.

  (* nothing is applied beyond what the node was told to be committed (quorum commit offset, commit offset
     advertised by the leader, election head after the quorum wait, commit offset of an installed snapshot) *)
  Theorem c07_applied_only_committed : forall n, reachableF n ->
    commit dbstate entry n <= committed_hi dbstate entry n.
  Proof. exact (applied_only_committed dbstate entry apply init_db). Qed.
End C07.

Print Assumptions c07_db_is_fold_of_prefix.
Print Assumptions c07_db_is_fold_of_prefix_go_offset.
Print Assumptions c07_batches_one_entry_each.
Print Assumptions c07_replay_resumes_at_c_plus_1.
Print Assumptions c07_follower_resumes_at_c_plus_1.
Print Assumptions c07_commit_not_ahead_of_log.
Print Assumptions c07_apply_in_offset_order.
Print Assumptions c07_exactly_once_in_order_between_resets.
Print Assumptions c07_applied_only_committed.

(* Code as it was (leader NewTerm did not wait for an application already decided by the quorum tracker):
   offset 0 is handed to ProcessWrite twice and the database is not the fold of the log. *)
Theorem c07_apply_in_offset_order_refuted_without_drain :
  exists n os, T_run_applied false true T_init wit_stray = Some (n, os) /\ os = [0; 0] /\
    fst (cur _ _ n) <> fold_prefix _ _ tr_apply [] (hist _ _ n) (commit _ _ n).
Proof. exact stray_application_refuted. Qed.
Print Assumptions c07_apply_in_offset_order_refuted_without_drain.

(* Code as it was (apply rounds and handleSnapshot did not exclude each other): an entry of the old log is
   applied to the installed snapshot, the commit offset goes back, the database is not a fold of the log. *)
Theorem c07_db_is_fold_of_prefix_refuted_without_snapshot_lock :
  exists n os, T_run_applied true false T_init wit_snap = Some (n, os) /\ os = [0] /\
    commit _ _ n = 1 /\ hist _ _ n = [20; 21; 22] /\ fst (cur _ _ n) = [20; 21; 22; 10] /\
    fst (cur _ _ n) <> fold_prefix _ _ tr_apply [] (hist _ _ n) (commit _ _ n).
Proof. exact snapshot_round_race_refuted. Qed.
Print Assumptions c07_db_is_fold_of_prefix_refuted_without_snapshot_lock.
