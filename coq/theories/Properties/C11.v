(* C11 — Key order is a strict total order and the storage engine honours it.
   This file contains only the property theorems (each closed by [exact]) and Print Assumptions. *)
From Coq Require Import List NArith Sorting.Sorted Sorting.Permutation.
From Oxia.KeyOrder Require Import Model Proofs SortedMap KvModel KvProofs BatchModel BatchProofs.
Import ListNotations.

(* CompareWithSlash (the Go loop) computes the lexicographic order on slash-segments *)
Theorem c11_compare_is_segment_order : forall a b, cmp_slash a b = spec_cmp a b.
Proof. exact cmp_slash_spec. Qed.
Print Assumptions c11_compare_is_segment_order.

(* strict total order consistent with key equality, for ALL byte strings *)
Theorem c11_total_order :
  (forall a b, cmp_slash a b = Eq <-> a = b) /\
  (forall a b, cmp_slash b a = CompOpp (cmp_slash a b)) /\
  (forall a b c, cmp_slash a b = Lt -> cmp_slash b c = Lt -> cmp_slash a c = Lt).
Proof. exact cmp_slash_total_order. Qed.
Print Assumptions c11_total_order.

(* engine contracts of the configured comparer members (after the repair of O-9) *)
Theorem c11_separator_contract : forall a b,
  cmp_slash a b = Lt -> cmp_slash a (separator a b) <> Gt /\ cmp_slash (separator a b) b = Lt.
Proof. exact sep_contract. Qed.
Print Assumptions c11_separator_contract.

Theorem c11_successor_contract : forall a, cmp_slash a (successor a) <> Gt.
Proof. exact succ_contract. Qed.
Print Assumptions c11_successor_contract.

(* what the sstable writer stores as index separator (member + Pebble's InternalKey.Separator guard) *)
Theorem c11_index_separator_contract : forall a b,
  cmp_slash a b = Lt -> cmp_slash a (effective_sep a b) <> Gt /\ cmp_slash (effective_sep a b) b = Lt.
Proof. exact eff_sep_contract. Qed.
Print Assumptions c11_index_separator_contract.

Theorem c11_index_successor_contract : forall a, cmp_slash a (effective_succ a) <> Gt.
Proof. exact eff_succ_contract. Qed.
Print Assumptions c11_index_successor_contract.

Theorem c11_abbreviated_key_contract : forall a b, is_bytes a -> is_bytes b ->
  (abbreviated_key a < abbreviated_key b)%N -> cmp_slash a b = Lt.
Proof. exact abbrev_contract. Qed.
Print Assumptions c11_abbreviated_key_contract.

Theorem c11_immediate_successor_contract : forall a,
  cmp_slash a (immediate_successor a) = Lt /\
  forall k, cmp_slash a k = Lt -> cmp_slash (immediate_successor a) k <> Gt.
Proof. exact imm_succ_contract. Qed.
Print Assumptions c11_immediate_successor_contract.

(* history of O-9: the bytewise members configured before the repair break the contracts *)
Theorem c11_separator_contract_bytewise_refuted :
  exists a b, cmp_slash a b = Lt /\ cmp_slash a (bytewise_separator a b) = Gt.
Proof. exact sep_contract_bytewise_refuted. Qed.
Print Assumptions c11_separator_contract_bytewise_refuted.

Theorem c11_index_separator_contract_bytewise_refuted :
  exists a b, cmp_slash a b = Lt /\
              effective_sep_with bytewise_separator a b = [120;47]%N /\
              cmp_slash (effective_sep_with bytewise_separator a b) b = Gt.
Proof. exact eff_sep_contract_bytewise_refuted. Qed.
Print Assumptions c11_index_separator_contract_bytewise_refuted.

Theorem c11_successor_contract_bytewise_refuted :
  exists a, cmp_slash a (bytewise_successor a) = Gt.
Proof. exact succ_contract_bytewise_refuted. Qed.
Print Assumptions c11_successor_contract_bytewise_refuted.

(* the sorted reference: every history of puts, deletes and range deletes yields a strictly sorted map *)
Theorem c11_reference_sorted : forall (V : Type) (ops : list (sm_op V)),
  sm_sorted (fold_left sm_apply ops sm_empty).
Proof. exact (@sm_run_sorted). Qed.
Print Assumptions c11_reference_sorted.

Theorem c11_get_after_put : forall (V : Type) k k' (v : V) m, sm_sorted m ->
  sm_get k (sm_put k' v m) = if key_eqb k k' then Some v else sm_get k m.
Proof. exact (@sm_get_put). Qed.
Print Assumptions c11_get_after_put.

Theorem c11_get_after_delete : forall (V : Type) k k' (m : smap V), sm_sorted m ->
  sm_get k (sm_delete k' m) = if key_eqb k k' then None else sm_get k m.
Proof. exact (@sm_get_delete). Qed.
Print Assumptions c11_get_after_delete.

(* every stored key is found by an exact get, and nothing else is *)
Theorem c11_exact_get_finds_stored : forall (V : Type) k (v : V) m, sm_sorted m ->
  (sm_get k m = Some v <-> In (k, v) m).
Proof. exact (@sm_get_in). Qed.
Print Assumptions c11_exact_get_finds_stored.

(* floor / ceiling / lower / higher / range = filter + max/min over the stored entries *)
Theorem c11_floor_is_max_below : forall (V : Type) k (m : smap V), sm_sorted m ->
  sm_floor k m = max_key (filter (fun e => key_leb (fst e) k) m).
Proof. exact (@sm_floor_char). Qed.
Print Assumptions c11_floor_is_max_below.

Theorem c11_lower_is_max_strictly_below : forall (V : Type) k (m : smap V), sm_sorted m ->
  sm_lower k m = max_key (filter (fun e => key_ltb (fst e) k) m).
Proof. exact (@sm_lower_char). Qed.
Print Assumptions c11_lower_is_max_strictly_below.

Theorem c11_ceiling_is_min_above : forall (V : Type) k (m : smap V), sm_sorted m ->
  sm_ceiling k m = min_key (filter (fun e => key_leb k (fst e)) m).
Proof. exact (@sm_ceiling_char). Qed.
Print Assumptions c11_ceiling_is_min_above.

Theorem c11_higher_is_min_strictly_above : forall (V : Type) k (m : smap V), sm_sorted m ->
  sm_higher k m = min_key (filter (fun e => key_ltb k (fst e)) m).
Proof. exact (@sm_higher_char). Qed.
Print Assumptions c11_higher_is_min_strictly_above.

Theorem c11_range_is_filter : forall (V : Type) lo hi (m : smap V), sm_sorted m ->
  sm_range lo hi m = filter (in_range lo hi) m.
Proof. exact (@sm_range_char). Qed.
Print Assumptions c11_range_is_filter.

(* max_key / min_key mean what they say on any list of entries *)
Theorem c11_max_key_meaning : forall (V : Type) (l : smap V) b, max_key l = Some b ->
  In b l /\ forall e, In e l -> cmp_slash (fst e) (fst b) <> Gt.
Proof. exact (@max_key_spec). Qed.
Print Assumptions c11_max_key_meaning.

Theorem c11_min_key_meaning : forall (V : Type) (l : smap V) b, min_key l = Some b ->
  In b l /\ forall e, In e l -> cmp_slash (fst b) (fst e) <> Gt.
Proof. exact (@min_key_spec). Qed.
Print Assumptions c11_min_key_meaning.

(* the wrappers of kv_pebble.go over bounded iterators return what the reference returns *)
Theorem c11_point_lookups_match_reference : forall (V : Type) (m : smap V), sm_sorted m ->
  (forall k r, kv_get_equal k m = Some r <-> fst r = k /\ In r m) /\
  (forall k, kv_get_floor k m = sm_floor k m) /\
  (forall k, kv_get_ceiling k m = sm_ceiling k m) /\
  (forall k, kv_get_lower k m = sm_lower k m) /\
  (forall k, kv_get_higher k m = sm_higher k m) /\
  (forall lo hi, lo <> [] -> hi <> [] -> kv_range_scan lo hi m = sm_range lo hi m) /\
  (forall lo hi, kv_range_scan_reverse lo hi m = rev (kv_range_scan lo hi m)).
Proof. exact (@point_lookups_match_reference). Qed.
Print Assumptions c11_point_lookups_match_reference.

(* history of O-24: LOWER / FLOOR of the empty key handed "" to Pebble as an upper bound, which a fresh
   iterator reads as "no bound": the greatest stored key came back instead of "not found" *)
Theorem c11_lower_of_empty_key_unguarded_refuted :
  exists m : smap N, sm_sorted m /\ kv_get_lower_unguarded [] m = Some ([98;47;99]%N, 2%N) /\ sm_lower [] m = None.
Proof. exact kv_get_lower_unguarded_refuted. Qed.
Print Assumptions c11_lower_of_empty_key_unguarded_refuted.

(* the client's result heap pops a sorted permutation of what was pushed *)
Theorem c11_result_heap_sorted : forall l, StronglySorted key_le (key_sort l).
Proof. exact key_sort_sorted. Qed.
Print Assumptions c11_result_heap_sorted.

Theorem c11_result_heap_permutation : forall l, Permutation l (key_sort l).
Proof. exact key_sort_perm. Qed.
Print Assumptions c11_result_heap_permutation.

(* The client-side k-way merge of a multi-shard range scan (aggregateAndSortRangeScanAcrossShards, modelled in
   Oxia.Client.Model with ResultHeap.Less = CompareWithSlash < 0): for every number of shards and every content, if each
   per-shard stream is in the slash order then so is the merged scan, and without errors it is a permutation of the
   per-shard streams (no loss, no duplication). Proved in Oxia.Client from the total-order laws above. *)
From Oxia.Client Require Model Inst MergeProofs InstProofs.
Theorem c11_merge_sorted : forall chans : list (list Oxia.Client.Model.item),
  Forall (Sorted Oxia.Client.InstProofs.item_le_slash) chans ->
  Sorted Oxia.Client.InstProofs.item_le_slash (Oxia.Client.Inst.merge_slash chans) /\
  (Oxia.Client.MergeProofs.err_free (concat chans) -> Permutation (concat chans) (Oxia.Client.Inst.merge_slash chans)).
Proof. exact Oxia.Client.InstProofs.merge_slash_sorted_perm. Qed.
Print Assumptions c11_merge_sorted.

(* the server-side response batcher (BatchStreamOnce: Read / List / RangeScan answers) between the engine's sorted
   iterator and the client preserves order and multiplicity, for every count limit, byte budget, size function and
   item sequence: the concatenation of the flushed messages is the input *)
Theorem c11_response_batches_preserve_order : forall (A : Type) (max_count budget : N) (size : A -> N) (l : list A),
  concat (batch_stream max_count budget size l) = l.
Proof. exact (@batch_stream_concat). Qed.
Print Assumptions c11_response_batches_preserve_order.

Theorem c11_response_batches_nonempty : forall (A : Type) (max_count budget : N) (size : A -> N) (l : list A),
  Forall (fun b => b <> []) (batch_stream max_count budget size l).
Proof. exact (@batch_stream_nonempty). Qed.
Print Assumptions c11_response_batches_nonempty.

(* a stream completed with an error has delivered a prefix of the input, in order *)
Theorem c11_response_batches_failed_prefix : forall (A : Type) (max_count budget : N) (size : A -> N) (l : list A),
  exists rest, concat (batch_stream_failed max_count budget size l) ++ rest = l.
Proof. exact (@batch_stream_failed_prefix). Qed.
Print Assumptions c11_response_batches_failed_prefix.

(* a message goes over the byte budget by less than its last item *)
Theorem c11_response_batches_budget : forall (A : Type) (max_count budget : N) (size : A -> N) (l : list A),
  Forall (fun b => (fold_right (fun x s => (size x + s)%N) 0%N (removelast b) < budget)%N \/ removelast b = [])
         (batch_stream max_count budget size l).
Proof. exact (@batch_stream_budget). Qed.
Print Assumptions c11_response_batches_budget.

(* Comparison gets across shards (doMultiShardGet / selectResponse / compareGetResponse, modelled in Oxia.Client.Model over
   CompareWithSlash): for every comparison type, every number of shards, every arrival order and every set of per-shard
   answers that all carry a secondary key or none: the answer is KEY_NOT_FOUND when no shard has an OK answer; otherwise it
   is one of the OK answers, the greatest of them in the slash order of (secondary key, key) for FLOOR / LOWER, the least for
   CEILING / HIGHER, the first to arrive for EQUAL. *)
From Oxia.Client Require MultiGetProofs.
Theorem c11_multi_shard_get_follows_slash_order : forall kc orig (l : list Oxia.Client.Model.gresp),
  Oxia.Client.MultiGetProofs.uniform l ->
  match Oxia.Client.MultiGetProofs.fold_select cmp_slash kc None l with
  | None => Oxia.Client.MultiGetProofs.oks l = [] /\
            Oxia.Client.Model.to_get_result (Oxia.Client.MultiGetProofs.fold_select cmp_slash kc None l) orig
              = Oxia.Client.Model.GErrNotFound
  | Some m =>
      In m (Oxia.Client.MultiGetProofs.oks l) /\
      Oxia.Client.Model.to_get_result (Oxia.Client.MultiGetProofs.fold_select cmp_slash kc None l) orig =
        Oxia.Client.Model.GResult (match Oxia.Client.Model.g_key m with Some k => k | None => orig end)
                                  (Oxia.Client.Model.g_payload m) /\
      match kc with
      | Oxia.Client.Model.CEqual => exists tl, Oxia.Client.MultiGetProofs.oks l = m :: tl
      | Oxia.Client.Model.CFloor | Oxia.Client.Model.CLower =>
          forall r, In r (Oxia.Client.MultiGetProofs.oks l) -> Oxia.Client.MultiGetProofs.gle cmp_slash r m
      | Oxia.Client.Model.CCeiling | Oxia.Client.Model.CHigher =>
          forall r, In r (Oxia.Client.MultiGetProofs.oks l) -> Oxia.Client.MultiGetProofs.gle cmp_slash m r
      end
  end.
Proof. exact Oxia.Client.InstProofs.multi_get_slash_extremum. Qed.
Print Assumptions c11_multi_shard_get_follows_slash_order.
