(* C05 — Election safety: one leader per term, durable monotonic terms, best log wins.
   This file contains only the property theorems (each closed by [exact]) and Print Assumptions.
   Model: Oxia.Coord.Model (transcription of shard_controller.go electLeader / newTermQuorum / selectNewLeader /
   becomeLeader, the metadata providers' Store, and the node-side NewTerm / BecomeLeader / Truncate handlers behind
   the shards director).  A trace is any list of actions: coordinator steps, coordinator crash/restart at any point,
   node steps, node crash/restart, delivery of any message ever sent (late, duplicated) — no bound on length, on the
   number of servers, terms or offsets. *)
From Coq Require Import List NArith ZArith Permutation.
From Oxia.Coord Require Import Model SelectProofs NodeProofs ElectionProofs Witnesses Config ConfigProofs.
From Oxia.Cluster Require Model Invariants Preservation.
Import ListNotations.
Open Scope Z_scope.

(* Best log wins, pure part: for every iteration order of the response map ([resp'] is any permutation of [resp]) and
   every value [k] of rand.Intn, the selected leader is a responder whose head (term, offset) is >= every response's
   head, and the follower map is exactly the other responses. *)
Theorem c05_select_new_leader_max : forall resp resp' k l fs,
  Permutation resp resp' ->
  select_new_leader resp' k = Some (l, fs) ->
  (exists hl, In (l, hl) resp /\ forall r h, In (r, h) resp -> eid_le h hl) /\
  (forall r h, In (r, h) fs <-> In (r, h) resp /\ r <> l).
Proof. exact select_new_leader_max. Qed.
Print Assumptions c05_select_new_leader_max.

(* ... and selectNewLeader does not panic when there is a response and heads are >= (-1,-1). *)
Theorem c05_select_new_leader_no_panic : forall resp k,
  resp <> [] -> (forall a h, In (a, h) resp -> eid_le (mkEid (-1) (-1)) h) -> select_new_leader resp k <> None.
Proof. exact select_new_leader_no_panic. Qed.
Print Assumptions c05_select_new_leader_no_panic.

(* The term known to a node never decreases, including across restarts: over every trace (of either variant), for
   every node, the durable term and the term the node knows are non-decreasing. *)
Theorem c05_node_term_monotone : forall v tr w w' n,
  run v w tr = Some w' -> nodes_ok w ->
  n_dterm (w_nodes w n) <= n_dterm (w_nodes w' n) /\ known_term (w_nodes w n) <= known_term (w_nodes w' n).
Proof. exact node_term_monotone. Qed.
Print Assumptions c05_node_term_monotone.

(* The coordinator never issues a term it has not first made durable (hypothesis [store_sound]: the provider's Store is
   all-or-nothing, and the controller does not carry on before a Store succeeded; failed Store attempts that are retried,
   [ACoordStoreFail], and crashes during the outage are part of the traces): every NewTerm and BecomeLeader ever sent carries a term <= the term of the durable cell. *)
Theorem c05_term_durable_before_use : forall v c0 nodes tr w,
  run v (init_world c0 nodes) tr = Some w -> store_sound tr ->
  exists d, w_dur w = DCell d /\
    (forall i n t, In (MNewTerm i n t) (w_msgs w) -> t <= c_term d) /\
    (forall i n t fm, In (MBecomeLeader i n t fm) (w_msgs w) -> t <= c_term d).
Proof. exact term_durable_before_use. Qed.
Print Assumptions c05_term_durable_before_use.

(* A restarted coordinator never reuses or goes below a term already sent: whenever an election starts (in any
   incarnation, after any crash points), its term is strictly above every term any incarnation ever sent. *)
Theorem c05_restart_never_reuses : forall v c0 nodes tr w a w' k',
  run v (init_world c0 nodes) tr = Some w -> store_sound tr ->
  (a = ACoordStartElection \/ exists from to, a = ACoordSwap from to) ->
  step v w a = Some w' -> w_coord w' = Some k' ->
  (forall i n t, In (MNewTerm i n t) (w_msgs w) -> t < c_term (k_md k')) /\
  (forall i n t fm, In (MBecomeLeader i n t fm) (w_msgs w) -> t < c_term (k_md k')).
Proof. exact restart_never_reuses. Qed.
Print Assumptions c05_restart_never_reuses.

(* At most one node ever serves as leader in a given term (w_wasleader records every node that became LEADER, with
   its term; every node that is LEADER now is in it). *)
Theorem c05_one_leader_per_term : forall v c0 nodes tr w,
  run v (init_world c0 nodes) tr = Some w -> store_sound tr ->
  (forall n, n_ctrl (nodes n) = None) ->
  (forall n k t, n_ctrl (w_nodes w n) = Some (mkCtrl k t Leader) -> In (n, t) (w_wasleader w)) /\
  (forall n1 n2 t, In (n1, t) (w_wasleader w) -> In (n2, t) (w_wasleader w) -> n1 = n2).
Proof. exact one_leader_per_term. Qed.
Print Assumptions c05_one_leader_per_term.

(* Every BecomeLeader ever sent is recorded ... *)
Theorem c05_become_leader_recorded : forall v c0 nodes tr w i n t fm,
  run v (init_world c0 nodes) tr = Some w ->
  In (MBecomeLeader i n t fm) (w_msgs w) -> exists b, In b (w_bl w) /\ b_leader b = n /\ b_term b = t.
Proof. exact become_leader_recorded. Qed.
Print Assumptions c05_become_leader_recorded.

(* ... and when BecomeLeader l T is sent (fixed code): a majority of ensemble ∪ removed answered NewTerm T, l is in the
   ensemble being installed, l answered, and every responder that belongs to that ensemble has head <= head l.
   Hypotheses: ensemble and removed nodes are duplicate-free initially and every swap replaces a member by a server
   that is neither a member nor already removed ([wf_run]; C19's concern). *)
Theorem c05_leader_after_majority_fenced_and_max : forall c0 nodes tr w b,
  cell_nodup c0 ->
  run fixed (init_world c0 nodes) tr = Some w -> wf_run fixed (init_world c0 nodes) tr ->
  In b (w_bl w) ->
  (exists S, NoDup S /\ incl S (b_ens b ++ b_rem b) /\
             (majority_of (length (b_ens b ++ b_rem b)) <= length S)%nat /\
             forall n, In n S -> exists h, In (n, b_term b, h) (w_answered w)) /\
  In (b_leader b) (b_ens b) /\
  exists hl, In (b_leader b, hl) (b_oks b) /\ In (b_leader b, b_term b, hl) (w_answered w) /\
             forall r h, In (r, h) (b_oks b) -> In r (b_ens b) -> eid_le h hl.
Proof. exact leader_after_majority_fenced_and_max. Qed.
Print Assumptions c05_leader_after_majority_fenced_and_max.

(* O-7 (fixed in /repo): on the shipped newTermQuorum (no ensemble guard in the grace loop) a removed node is elected. *)
Theorem c05_leader_in_ensemble_old_refuted :
  exists tr w b, run shipped (init_world c_swap nodes0) tr = Some w /\ store_sound tr /\
                 wf_run shipped (init_world c_swap nodes0) tr /\
                 In b (w_bl w) /\ ~ In (b_leader b) (b_ens b).
Proof. exact leader_in_ensemble_shipped_refuted. Qed.
Print Assumptions c05_leader_in_ensemble_old_refuted.

(* O-11 (fixed in /repo): with the shipped file provider (os.WriteFile truncates first) a crash inside Store leaves
   "not exists"; the restarted coordinator's durable term is below a term already sent and the next election reuses it. *)
Theorem c05_file_store_old_refuted :
  exists tr w d i n t,
    run fixed (init_world c_plain nodes0) tr = Some w /\ wf_run fixed (init_world c_plain nodes0) tr /\
    w_dur w = DCell d /\ In (MNewTerm i n t) (w_msgs w) /\ c_term d < t /\
    exists w' k', step fixed w ACoordStartElection = Some w' /\ w_coord w' = Some k' /\ c_term (k_md k') <= t.
Proof. exact file_store_shipped_refuted. Qed.
Print Assumptions c05_file_store_old_refuted.

(* The same three term theorems over traces that also contain Coordinator.ConfigChanged's compare-and-set on the cluster
   status (Coord/Config.v: CConfigLoad = LoadWithVersion + ApplyClusterChanges, which copies existing shard entries;
   CConfigSwap = one Swap attempt, refused when any Store moved the version in between, then recomputed from the fresh
   status).  The election's Stores may fall anywhere between the load and the swap. *)
Theorem c05_term_durable_before_use_cfg : forall c0 nodes tr x,
  crun cfixed (init_cworld c0 nodes) tr = Some x -> cstore_sound tr ->
  exists d, w_dur (cw x) = DCell d /\
    (forall i n t, In (MNewTerm i n t) (w_msgs (cw x)) -> t <= c_term d) /\
    (forall i n t fm, In (MBecomeLeader i n t fm) (w_msgs (cw x)) -> t <= c_term d).
Proof. exact term_durable_before_use_cfg. Qed.
Print Assumptions c05_term_durable_before_use_cfg.

Theorem c05_restart_never_reuses_cfg : forall c0 nodes tr x w' k',
  crun cfixed (init_cworld c0 nodes) tr = Some x -> cstore_sound tr ->
  step fixed (cw x) ACoordStartElection = Some w' -> w_coord w' = Some k' ->
  (forall i n t, In (MNewTerm i n t) (w_msgs (cw x)) -> t < c_term (k_md k')) /\
  (forall i n t fm, In (MBecomeLeader i n t fm) (w_msgs (cw x)) -> t < c_term (k_md k')).
Proof. exact restart_never_reuses_cfg. Qed.
Print Assumptions c05_restart_never_reuses_cfg.

Theorem c05_one_leader_per_term_cfg : forall c0 nodes tr x,
  crun cfixed (init_cworld c0 nodes) tr = Some x -> cstore_sound tr ->
  forall n1 n2 t, In (n1, t) (w_wasleader (cw x)) -> In (n2, t) (w_wasleader (cw x)) -> n1 = n2.
Proof. exact one_leader_per_term_cfg. Qed.
Print Assumptions c05_one_leader_per_term_cfg.

(* If the retry of the compare-and-set reloads only the version and writes the status computed from the old snapshot
   (not the code as it is; kept as the reason why the recomputation matters), a config change overlapping an election's
   term++ Store puts the durable term below a term already sent and the restarted coordinator reuses it. *)
Theorem c05_config_stale_retry_refuted :
  exists tr x d i n t,
    crun cstale (init_cworld c_steady (fun _ => node_init)) tr = Some x /\ cstore_sound tr /\
    w_dur (cw x) = DCell d /\ In (MNewTerm i n t) (w_msgs (cw x)) /\ c_term d < t /\
    exists w' k', step fixed (cw x) ACoordStartElection = Some w' /\ w_coord w' = Some k' /\ c_term (k_md k') <= t.
Proof. exact config_stale_retry_refuted. Qed.
Print Assumptions c05_config_stale_retry_refuted.

(* Cluster level (World model of Cluster/Model.v, C01's invariant): in every state reachable by any execution without
   ensemble change, two nodes that lead (BecomeLeader in progress or LEADER) in the same term are the same node. *)
Theorem c05_one_leader_per_term_cluster : forall E acts w,
  NoDup E -> Oxia.Cluster.Preservation.no_swap acts = true ->
  Oxia.Cluster.Model.run (Oxia.Cluster.Model.init E) acts = Some w ->
  forall n m, Oxia.Cluster.Invariants.leading (Oxia.Cluster.Model.nodes w n) ->
              Oxia.Cluster.Invariants.leading (Oxia.Cluster.Model.nodes w m) ->
              Oxia.Cluster.Model.nterm (Oxia.Cluster.Model.nodes w n) = Oxia.Cluster.Model.nterm (Oxia.Cluster.Model.nodes w m) ->
              n = m.
Proof. exact Oxia.Cluster.Preservation.one_leader_per_term. Qed.
Print Assumptions c05_one_leader_per_term_cluster.

(* If the retry loop of status_resource's Store gives up and the caller carries on (not the code as it is: there the
   loop ends only after ~15 min; seeded as "bounded retries"), NewTerm goes out in a term the store never held and the
   restarted coordinator issues it again.  [store_persists] is the hypothesis this trace violates. *)
Theorem c05_store_giveup_refuted :
  exists tr w d i n t,
    run fixed (init_world c_plain nodes0) tr = Some w /\ store_atomic tr /\ wf_run fixed (init_world c_plain nodes0) tr /\
    w_dur w = DCell d /\ In (MNewTerm i n t) (w_msgs w) /\ c_term d < t /\
    exists w' k', step fixed w ACoordStartElection = Some w' /\ w_coord w' = Some k' /\ c_term (k_md k') <= t.
Proof. exact store_giveup_refuted. Qed.
Print Assumptions c05_store_giveup_refuted.
