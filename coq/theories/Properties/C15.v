(* C15 — Secondary indexes mirror live records exactly; queries stay inside one index.
   This file contains only the property theorems (each closed by [exact]) and Print Assumptions.
   Model: Db/*.v (write path with the WrapperUpdateOperationCallback chain; Db/IndexReads.v = the read side of
   server/secondary_indexes.go after the repair of O-14); proofs: Db/C15_Layout.v, C15_Inv.v, C15_Reads.v,
   Proofs_C15.v.

   Vocabulary
     declares m pk si      the key pk holds a StorageEntry whose SecondaryIndexes contain si = {name, skey}
     name_ok / skey_ok     index name: non-empty, no '/';  secondary key: non-empty, every byte > 1
     run_ok cfg init ops   every write request of the history is a [c15_request] (puts / deletes on user keys or
                           session keys, i.e. also what the session manager logs when a session is created,
                           closed or expires; index names and secondary keys in the alphabet; delete-ranges that
                           contain no index key: every user range and the shadow range of session.delete())
                           and every sequence put generates a key that holds nothing (C16's freshness)
     is_reference m n E    E is THE strictly sorted list (secondary key under the key order, then escaped
                           primary key bytewise) of the pairs (skey, pk) such that pk declares {n, skey} *)
From Coq Require Import List NArith ZArith Bool Sorting.Sorted.
From Oxia.KeyOrder Require Import Model Proofs.
From Oxia.Db Require Import Types Bytes Escape Keys Kv Sessions Indexes Write Read KvProofs Proofs_C12 IndexReads
     C15_Layout C15_Inv C15_Reads Proofs_C15 C15_Fresh Validate C15_Validated NotifStream C15_Trim.
Import ListNotations.

(* The key layout determines (index name, secondary key, primary key) ... *)
Theorem c15_layout_injective : forall pk pk' si si',
  none_of 47 (si_name si) -> none_of 47 (si_name si') -> none_of 1 (si_key si) -> none_of 1 (si_key si') ->
  index_key pk si = index_key pk' si' -> si_name si = si_name si' /\ si_key si = si_key si' /\ pk = pk'.
Proof. exact index_key_inj. Qed.
Print Assumptions c15_layout_injective.

(* ... the regex + PathUnescape of the read side give the pair back ... *)
Theorem c15_layout_parse : forall pk si,
  si_ok si -> pk_ok pk -> index_primary_and_secondary (index_key pk si) = IdxOk pk (si_key si).
Proof. exact parse_index_key_ok. Qed.
Print Assumptions c15_layout_parse.

(* ... and it fails outside that alphabet.  These are statements about UNVALIDATED declarations: since the repair
   O-45 the leader's validation (server/write_validation.go, Db/Validate.v) refuses exactly the declarations
   outside the alphabet (c15_validation_is_the_alphabet), so they cannot reach the log any more; data written
   before the repair may still hold them:
   a '/' in the name makes two (name, skey) pairs share one key; a "\x01" in the secondary key makes the
   parser return another pair; a "\x00" breaks the order embedding used by list / range-scan. *)
Theorem c15_layout_ambiguous_refuted : exists pk si si', si <> si' /\ index_key pk si = index_key pk si'.
Proof. exact index_key_inj_slash_in_name_refuted. Qed.
Print Assumptions c15_layout_ambiguous_refuted.

Theorem c15_layout_parse_refuted : exists pk si, name_ok (si_name si) /\ pk_ok pk /\
  index_primary_and_secondary (index_key pk si) <> IdxOk pk (si_key si).
Proof. exact parse_index_key_sep_in_skey_refuted. Qed.
Print Assumptions c15_layout_parse_refuted.

Theorem c15_layout_order_refuted : exists s s' pk,
  cmp_slash s s' = Lt /\ cmp_slash (s ++ 1%N :: path_escape pk) s' = Gt.
Proof. exact cmp_entry_nul_in_skey_refuted. Qed.
Print Assumptions c15_layout_order_refuted.

(* The mirror: in every state reachable from the empty DB, the keys under "__oxia/idx/" are exactly the
   index keys of the pairs declared by the records that exist. *)
Theorem c15_index_mirror : forall cfg ops,
  run_ok cfg init_state ops ->
  let m := st_kv (run cfg ops) in
  (forall pk si, si_ok si -> (kv_get m (index_key pk si) <> None <-> declares m pk si)) /\
  (forall k, kv_get m k <> None -> has_prefix idx_prefix k = true ->
     exists pk si, k = index_key pk si /\ declares m pk si /\ si_ok si /\ pk_ok pk).
Proof. exact index_mirror. Qed.
Print Assumptions c15_index_mirror.

(* The freshness side condition inside [run_ok] is discharged by C16's generate_key_fresh (code as repaired):
   every history whose write requests are admissible ([c15_request]) is a [run_ok] history, so all theorems of
   this file hold for all such histories without any condition on sequence puts. *)
Theorem c15_admissible_histories_suffice : forall cfg ops,
  Forall op_adm ops -> run_ok cfg init_state ops.
Proof. exact run_adm_ok. Qed.
Print Assumptions c15_admissible_histories_suffice.

(* What can reach the log.  The validation accepts a declaration iff it is in the alphabet of the theorems; a
   request accepted by the validation, the session manager's session-creation put and its closing request
   (session.delete(): close and expiry) are admissible; hence every history of logged requests is a [run_ok]
   history, and all theorems of this file hold for every input that can reach the log (keys being byte strings). *)
Theorem c15_validation_is_the_alphabet : forall si, validate_sindex si = true <-> si_ok si.
Proof. exact validate_sindex_iff. Qed.
Print Assumptions c15_validation_is_the_alphabet.

Theorem c15_validated_request_admissible : forall req,
  validate_request req = true ->
  Forall (fun p => p_indexes p <> [] -> is_bytes (p_key p)) (w_puts req) -> c15_request req.
Proof. exact validated_request_admissible. Qed.
Print Assumptions c15_validated_request_admissible.

Theorem c15_logged_histories_admissible : forall cfg ops,
  Forall logged_op ops -> run_ok cfg init_state ops.
Proof. exact logged_histories_admissible. Qed.
Print Assumptions c15_logged_histories_admissible.

(* the invariant behind it is preserved by every admissible request from ANY state that satisfies it *)
Theorem c15_mirror_preserved : forall cfg st req offset ts,
  inv (st_kv st) -> c15_request req -> req_fresh st req ts ->
  inv (st_kv (fst (process_write wrapper_callbacks cfg st req offset ts))).
Proof. exact process_write_inv. Qed.
Print Assumptions c15_mirror_preserved.

(* Background activity: a round of the notifications trimmer (Db/NotifStream.v, any clock reading, any retention)
   preserves the invariant, changes no key under "__oxia/idx/" and no record's declarations. *)
Theorem c15_trim_preserves_index_mirror : forall st now retention,
  inv (st_kv st) ->
  let st' := trim_state st now retention in
  inv (st_kv st') /\
  (forall k, is_idx k = true -> kv_get (st_kv st') k = kv_get (st_kv st) k) /\
  (forall pk si, declares (st_kv st') pk si <-> declares (st_kv st) pk si).
Proof. exact trim_preserves_index_mirror. Qed.
Print Assumptions c15_trim_preserves_index_mirror.

(* admissible ranges: every range outside "__oxia/" and the range session.delete() removes *)
Theorem c15_user_range_admissible : forall r, range_user r -> range_noidx r.
Proof. exact range_user_noidx. Qed.
Print Assumptions c15_user_range_admissible.

Theorem c15_shadow_range_admissible : forall z,
  range_noidx (mkRange (session_key z ++ [47%N]) (session_key z ++ [47%N; 47%N])).
Proof. exact shadow_range_noidx. Qed.
Print Assumptions c15_shadow_range_admissible.

(* Where the mirror fails outside the hypotheses: an index name containing '/'.  (The other hypothesis,
   freshness of sequence keys, was violated by the code as found - a sequence put could land on a live record
   and orphan its index entries; confirmed on the real code, repaired with C16 in db_sequences.go; see
   Proofs_C15.sequence_put_on_occupied_key_refused.) *)
Theorem c15_index_mirror_slash_in_name_refuted :
  exists cfg ops pk si, si_ok si /\
    kv_get (st_kv (run cfg ops)) (index_key pk si) <> None /\ ~ declares (st_kv (run cfg ops)) pk si.
Proof. exact index_mirror_slash_in_name_refuted. Qed.
Print Assumptions c15_index_mirror_slash_in_name_refuted.

(* The sorted reference of an index exists and is unique. *)
Theorem c15_reference_exists_unique : forall cfg ops n,
  run_ok cfg init_state ops -> name_ok n ->
  let m := st_kv (run cfg ops) in
  is_reference m n (index_entries m n) /\ forall E, is_reference m n E -> E = index_entries m n.
Proof. exact reference_exists_unique. Qed.
Print Assumptions c15_reference_exists_unique.

(* List and range-scan on index n return exactly the primary keys / the records of the entries of n with
   start <= skey < end, in the order of the reference. *)
Theorem c15_list_scan_within_index : forall cfg ops n a b E,
  run_ok cfg init_state ops -> name_ok n -> above1 a -> above1 b ->
  let st := run cfg ops in
  is_reference (st_kv st) n E ->
  secondary_list st n a b = Ok (map snd (filter (in_skey_range a b) E)) /\
  secondary_range_scan st n a b =
    Ok (map (fun e => record_resp (st_kv st) (snd e) true None) (filter (in_skey_range a b) E)).
Proof. exact list_scan_within_index. Qed.
Print Assumptions c15_list_scan_within_index.

(* Get with each of the five comparison types returns the record the reference designates
   (EQUAL / CEILING / HIGHER: the first entry at / at-or-above / above the key; LOWER: the last entry below;
   FLOOR: the EQUAL entry, else the LOWER one), KEY_NOT_FOUND if there is none. *)
Theorem c15_get_within_index : forall cfg ops n key c incl E,
  run_ok cfg init_state ops -> name_ok n -> above1 key ->
  let st := run cfg ops in
  is_reference (st_kv st) n E ->
  secondary_get st n key c incl =
  Ok (match ref_get E key c with
      | Some (s, pk) => record_resp (st_kv st) pk incl (Some s)
      | None => get_not_found
      end).
Proof. exact get_within_index. Qed.
Print Assumptions c15_get_within_index.

Theorem c15_get_stays_in_index : forall cfg ops n key c incl E s pk,
  run_ok cfg init_state ops -> name_ok n -> above1 key ->
  is_reference (st_kv (run cfg ops)) n E -> ref_get E key c = Some (s, pk) ->
  exists r, kv_get (st_kv (run cfg ops)) pk = Some (VRecord r) /\ In (mkSIndex n s) (e_indexes r) /\
    secondary_get (run cfg ops) n key c incl =
    Ok (mkGetResp OK (Some pk) (if incl then Some (e_value r) else None) (Some (version_of r)) (Some s)).
Proof. exact get_stays_in_index. Qed.
Print Assumptions c15_get_stays_in_index.

(* O-14: the code before the repair (old_secondary_get) left the index: a query the reference answers with
   "none" returned a record that does not declare the index. *)
Theorem c15_get_within_index_old_refuted :
  exists cfg ops n key c, run_ok cfg init_state ops /\ name_ok n /\ skey_ok key /\
    ref_get (index_entries (st_kv (run cfg ops)) n) key c = None /\
    exists pk s r, old_secondary_get (run cfg ops) n key c true =
                     Ok (mkGetResp OK (Some pk) (Some (e_value r)) (Some (version_of r)) (Some s)) /\
                   kv_get (st_kv (run cfg ops)) pk = Some (VRecord r) /\
                   ~ In (mkSIndex n s) (e_indexes r).
Proof. exact get_within_index_old_refuted. Qed.
Print Assumptions c15_get_within_index_old_refuted.
