(* C02 — Per-shard operations are linearizable; reads never see rolled-back data.
   Only property theorems (closed by [exact]) and Print Assumptions. *)
From Coq Require Import List Arith Bool.
From Oxia.Cluster Require Import Model CodeModel Preservation Witness Lin.
Import ListNotations.

(* Soundness of the witness check that the harness runs on every recorded history: if the committed log L and the
   completed operations H satisfy the (linear-time checkable) witness conditions -- every completed write got the
   response of its log position, positions respect real time, every read returned the state after a prefix that
   contains every write completed before it started and none invoked after it returned, reads are monotone --
   then H is linearizable with respect to the sequential object; log entries without a completed client operation
   (writes whose outcome the client never learned) take effect exactly once, at their position. *)
Theorem c02_witness_implies_linearizable :
  forall (state wop rop wresp rresp : Type)
         (wapply : state -> wop -> state * wresp) (rapply : state -> rop -> rresp) (init : state)
         (L : list wop) (H : list (cop rop wresp rresp)),
  witness wapply rapply init L H -> linearizable wapply rapply init L H.
Proof. exact witness_implies_linearizable. Qed.
Print Assumptions c02_witness_implies_linearizable.

(* What every leader serves contains every acknowledged write (no acknowledged write is ever rolled back):
   C01 restated for the read path; same side condition as C01. *)
Theorem c02_acked_never_rolled_back_partial : forall E acts w,
  NoDup E -> no_swap acts = true -> consistent_run (init E) acts = true ->
  run_code (init E) acts = Some w ->
  forall t o e, In (t, o, e) (cacked w) ->
  forall n, nst (nodes w n) = Leader -> t <= nterm (nodes w n) ->
  nth_error (nlog (nodes w n)) o = Some e.
Proof. exact acked_survive_code. Qed.
Print Assumptions c02_acked_never_rolled_back_partial.

(* The full statement ("no read ever returns data that is later rolled back") is FALSE of the protocol:
   an entry of an old term that a new leader re-replicates is committed by counting copies, applied and served,
   and can still be overwritten by a later leader whose head has a higher term (no entry of the new term is
   appended on BecomeLeader).  rf = 3, five terms. *)
Theorem c02_refuted_served_then_rolled_back :
  exists w4 w5,
    run (init [1; 2; 3]) figure8_prefix = Some w4 /\ run w4 figure8_suffix = Some w5 /\
    serves w4 1 = true /\ read_view w4 1 = [e1; e2] /\ cacked w4 = [(1, 0, e1)] /\
    serves w5 2 = true /\ read_view w5 2 = [e1; e3] /\ nlog (nodes w5 3) = [e1; e3] /\
    acked_survive_b w5 [1; 2; 3] = true.
Proof. exact figure8_served_then_rolled_back. Qed.
Print Assumptions c02_refuted_served_then_rolled_back.

(* "A write whose outcome is unknown to the client takes effect at most once", client side: the retry loop of the write
   batch over the shard's write stream (Oxia.Client.WriteModel). For every sequence of attempt outcomes -- every status
   code, any number of connection / send failures before, any way the stream breaks once the request is on the wire --
   at most one stream.Send of the request succeeds: a request handed to the transport is never sent again (in-flight
   failures reach the loop as io.EOF, which is not retriable); requests that were never sent may be retried. *)
From Oxia.Client Require WriteModel WriteProofs.
Theorem c02_write_sent_at_most_once : forall atts,
  Oxia.Client.WriteModel.count_sent (Oxia.Client.WriteModel.write_path true atts) <= 1.
Proof. exact Oxia.Client.WriteProofs.write_sent_at_most_once. Qed.
Print Assumptions c02_write_sent_at_most_once.

(* ... and the caller is told exactly once: every non-empty sequence of attempt outcomes ends in ONE reported outcome,
   preceded by nothing or by the single successful send (so no outcome is reported before the send it belongs to,
   none after another outcome, and the loop never ends silently) *)
Theorem c02_write_outcome_reported_once : forall atts, atts <> nil ->
  exists pre r,
    Oxia.Client.WriteModel.write_path true atts = pre ++ (Oxia.Client.WriteModel.WDone r :: nil) /\
    (pre = nil \/ pre = Oxia.Client.WriteModel.WSent :: nil).
Proof. exact Oxia.Client.WriteProofs.write_done_once. Qed.
Print Assumptions c02_write_outcome_reported_once.

(* the shape of change this excludes: in-flight failures reported with the stream's (retriable) status *)
Theorem c02_write_resent_without_eof_flattening_refuted :
  exists atts, Oxia.Client.WriteModel.count_sent (Oxia.Client.WriteModel.write_path false atts) = 2.
Proof. exact Oxia.Client.WriteProofs.write_resent_without_eof_flattening. Qed.
Print Assumptions c02_write_resent_without_eof_flattening_refuted.

(* One read over many records is one atomic observation: in the DB model (Oxia.Db) get / list / range-scan /
   secondary-index list are functions of ONE state, so whatever writes commit while the result is streamed, the result
   is the range in the state after a prefix of them, the same prefix for every record.  The lifetime of the Pebble
   iterator behind a streamed read is outside the model: the leg c02scan checks exactly this statement on the real
   LeaderController (writes awaited inside the stream callback).  The secondary-index RANGE-SCAN is excluded: the
   implementation reads each record with a separate Get (open finding scan:index-range-scan-not-atomic). *)
From Oxia.Db Require ScanSnapshot.
Theorem c02_scan_is_atomic_snapshot : forall cfg st ws,
  exists n, (n <= length ws)%nat /\
    let seen := Oxia.Db.ScanSnapshot.apply_writes cfg st (firstn n ws) in
    (forall a b, Oxia.Db.Read.db_range_scan st a b = Oxia.Db.Read.db_range_scan seen a b) /\
    (forall a b, Oxia.Db.Read.db_list st a b = Oxia.Db.Read.db_list seen a b) /\
    (forall name a b, Oxia.Db.IndexReads.secondary_list st name a b = Oxia.Db.IndexReads.secondary_list seen name a b) /\
    (forall k c incl, Oxia.Db.Read.db_get st k c incl = Oxia.Db.Read.db_get seen k c incl).
Proof. exact Oxia.Db.ScanSnapshot.scan_is_atomic_snapshot. Qed.
Print Assumptions c02_scan_is_atomic_snapshot.
