(* C08 - Leader write pipeline is order-preserving and does not fail spuriously.
   Only the property theorems (each closed by [exact]) and Print Assumptions.
   Tracker: Quorum/Model.v (quorum_ack_tracker.go + util/bitset.go, O-8 repaired);
   pipeline: Quorum/Pipeline.v (leader_controller.go:write + wal sync goroutine, O-1 repaired);
   the code as it was: Quorum/Old.v, Pipeline.v (PAlloc/PAppend). *)
From Coq Require Import List NArith ZArith.
From Oxia.Quorum Require Import Model Spec Proofs Exact Old Pipeline PipelineProofs PipelineOld PipelineLive HeadWait Frame.
Import ListNotations.
Open Scope Z_scope.

(* ---- the tracker: every sequence of API calls ---- *)

(* the commit offset only moves forward: any state, any calls (also inadmissible ones) *)
Theorem c08_commit_monotone : forall s ops1 ops2,
  commit (run s ops1) <= commit (run s (ops1 ++ ops2)).
Proof. exact commit_monotone. Qed.
Print Assumptions c08_commit_monotone.

(* the commit offset never passes the head offset *)
Theorem c08_commit_le_head : forall rf0 h0 c0 ops, c0 <= h0 ->
  commit (run (new_tracker rf0 h0 c0) ops) <= head (run (new_tracker rf0 h0 c0) ops).
Proof. exact commit_le_head. Qed.
Print Assumptions c08_commit_le_head.

(* ... from ANY state in which it does not (not only a fresh tracker), under any calls *)
Theorem c08_commit_le_head_any_state : forall s ops,
  commit s <= head s -> commit (run s ops) <= head (run s ops).
Proof. exact commit_le_head_any. Qed.
Print Assumptions c08_commit_le_head_any_state.

(* what no call sequence can change (any state, any calls, also inadmissible or panicking ones): rf and the
   required-ack count are fixed; the head offset, the offset allocator and the cursor generation only
   move forward; a closed tracker stays closed *)
Theorem c08_tracker_frame : forall s ops1 ops2,
  rf (run s (ops1 ++ ops2)) = rf (run s ops1) /\
  required (run s (ops1 ++ ops2)) = required (run s ops1) /\
  next (run s ops1) <= next (run s (ops1 ++ ops2)) /\
  head (run s ops1) <= head (run s (ops1 ++ ops2)) /\
  (cursor_gen (run s ops1) <= cursor_gen (run s (ops1 ++ ops2)))%N /\
  (closed (run s ops1) = true -> closed (run s (ops1 ++ ops2)) = true).
Proof. exact run_frame. Qed.
Print Assumptions c08_tracker_frame.

(* at most one cursor index is handed out per call *)
Theorem c08_cursor_gen_bound : forall s ops,
  (cursor_gen (run s ops) <= cursor_gen s + N.of_nat (length ops))%N.
Proof. exact run_cursor_gen_bound. Qed.
Print Assumptions c08_cursor_gen_bound.

(* safety, every admissible schedule (acks of a follower never skip an offset; duplicates,
   any cross-follower order, acks above the head, any number of cursors, close, any rf):
   the whole prefix up to the commit offset is acknowledged by rf/2 followers, so the commit offset
   never exceeds the true commit offset *)
Theorem c08_commit_never_exceeds_true_commit : forall rf0 h0 c0 ops s hi,
  c0 <= h0 -> grun (new_tracker rf0 h0 c0, ghost0) ops = Some (s, hi) ->
  prefix_acked s (cursor_gen s) hi c0 (commit s) /\
  forall T, is_true_commit s (cursor_gen s) hi c0 T -> commit s <= T.
Proof. exact commit_never_exceeds_true_commit. Qed.
Print Assumptions c08_commit_never_exceeds_true_commit.

(* exactness, every admissible schedule with 1 <= rf <= 17 (BitSet capacity): in every reachable
   state - every OpAck is a delivered ack, so in particular whenever no ack is in flight - the commit
   offset is the highest offset <= head whose whole prefix is acknowledged by rf/2 followers *)
Theorem c08_commit_eq_true_commit : forall rf0 h0 c0 ops s hi,
  init_ok rf0 h0 c0 -> grun (new_tracker rf0 h0 c0, ghost0) ops = Some (s, hi) ->
  is_true_commit s (cursor_gen s) hi c0 (commit s).
Proof. exact commit_eq_true_commit. Qed.
Print Assumptions c08_commit_eq_true_commit.

Theorem c08_true_commit_unique : forall s g hi c0 T T',
  is_true_commit s g hi c0 T -> is_true_commit s g hi c0 T' -> T = T'.
Proof. exact true_commit_unique. Qed.
Print Assumptions c08_true_commit_unique.

(* the follower cursors parked in WaitForHeadOffset: after every call (AdvanceHeadOffset in particular) every
   waiter parked for an offset <= head has returned, and every waiter once the tracker is closed *)
Theorem c08_head_waiters_woken : forall st ops w,
  ops <> [] -> In w (snd (hrun st ops)) ->
  fst w > head (fst (hrun st ops)) /\ closed (fst (hrun st ops)) = false.
Proof. exact head_waiters_woken. Qed.
Print Assumptions c08_head_waiters_woken.

(* ---- the pipeline: every interleaving of writes, sync steps, acks, cursor attach ---- *)

(* no write fails; distinct contiguous offsets; the WAL is appended in offset order *)
Theorem c08_distinct_contiguous_offsets_wal_in_order : forall rf0 h0 p,
  params_ok rf0 h0 -> reachable rf0 h0 p ->
  failed p = [] /\ pending p = [] /\
  length (closures p) = length (wal p) /\
  map fst (wal p) = z_range (h0 + 1) (length (wal p)) /\
  map snd (wal p) = n_seq (N.of_nat (length (wal p))) /\
  next (trk p) = wal_last p.
Proof. exact writes_succeed_in_order. Qed.
Print Assumptions c08_distinct_contiguous_offsets_wal_in_order.

Theorem c08_applied_in_offset_order : forall rf0 h0 p,
  params_ok rf0 h0 -> reachable rf0 h0 p ->
  (exists rest, wal p = applied p ++ rest) /\
  forall e, In e (applied p) -> fst e <= commit (trk p).
Proof. exact applied_in_offset_order. Qed.
Print Assumptions c08_applied_in_offset_order.

Theorem c08_each_caller_gets_own_response : forall rf0 h0 p,
  params_ok rf0 h0 -> reachable rf0 h0 p ->
  resp p = map (fun e => (snd e, e)) (applied p) /\
  (forall r e, In (r, e) (resp p) -> snd e = r /\ In e (wal p) /\ lookup (closures p) r = fst e) /\
  NoDup (map fst (resp p)).
Proof. exact each_caller_gets_own_response. Qed.
Print Assumptions c08_each_caller_gets_own_response.

Theorem c08_offsets_ordered : forall rf0 h0 p,
  params_ok rf0 h0 -> reachable rf0 h0 p ->
  h0 <= commit (trk p) <= head (trk p) /\ head (trk p) <= wal_synced p <= wal_last p.
Proof. exact offsets_ordered. Qed.
Print Assumptions c08_offsets_ordered.

Theorem c08_pipeline_commit_monotone : forall fixed acts1 acts2 p p1 p2,
  prun fixed p acts1 = Some p1 -> prun fixed p1 acts2 = Some p2 -> commit (trk p1) <= commit (trk p2).
Proof. exact pipeline_commit_monotone. Qed.
Print Assumptions c08_pipeline_commit_monotone.

Theorem c08_pipeline_commit_is_true_commit : forall rf0 h0 p,
  params_ok rf0 h0 -> reachable rf0 h0 p ->
  is_true_commit (trk p) (cursor_gen (trk p)) (hi p) h0 (commit (trk p)).
Proof. exact pipeline_commit_is_true_commit. Qed.
Print Assumptions c08_pipeline_commit_is_true_commit.

(* healthy quorum: no reachable state in which a write is stuck once the sync goroutine is done and
   rf/2 followers acknowledged the log; and from every reachable state such a state can be reached
   by sync steps and acks of the first rf/2 attached followers alone *)
Theorem c08_all_succeed_with_healthy_quorum : forall rf0 h0 p,
  params_ok rf0 h0 -> reachable rf0 h0 p -> quiescent p ->
  applied p = wal p /\ resp p = map (fun e => (snd e, e)) (wal p) /\
  commit (trk p) = wal_last p /\ failed p = [].
Proof. exact no_write_stuck_at_quiescence. Qed.
Print Assumptions c08_all_succeed_with_healthy_quorum.

(* ... and such a state is always within reach: from every reachable state with rf/2 followers attached,
   steps of the sync goroutine and in-order acks of those followers alone (no new write, no new cursor)
   lead to a quiescent state over the same log *)
Theorem c08_completion_always_reachable : forall rf0 h0 p,
  params_ok rf0 h0 -> reachable rf0 h0 p ->
  (required (trk p) <= cursor_gen (trk p))%N ->
  exists acts p', Forall helper acts /\ prun true p acts = Some p' /\
    reachable rf0 h0 p' /\ quiescent p' /\ wal p' = wal p.
Proof. exact completion_reachable. Qed.
Print Assumptions c08_completion_always_reachable.

(* ---- the code as it was ---- *)

Theorem c08_commit_monotone_old_refuted :
  exists ops1 ops2,
    commit_of (grun_old (new_tracker 3 4 4, ghost0) (ops1 ++ ops2)) <
    commit_of (grun_old (new_tracker 3 4 4, ghost0) ops1) /\
    grun_old (new_tracker 3 4 4, ghost0) (ops1 ++ ops2) <> None.
Proof. exact commit_monotone_old_refuted. Qed.
Print Assumptions c08_commit_monotone_old_refuted.

Theorem c08_commit_eq_true_commit_old_refuted :
  exists ops s hi, grun_old (new_tracker 3 4 4, ghost0) ops = Some (s, hi) /\
    commit s = 4 /\ head s = 5 /\ (required s <= nacks (cursor_gen s) hi 5)%N.
Proof. exact commit_eq_true_commit_old_refuted. Qed.
Print Assumptions c08_commit_eq_true_commit_old_refuted.

Theorem c08_all_succeed_old_refuted :
  exists acts p, prun false (p_init 1 4) acts = Some p /\
    failed p = [1; 2; 3]%N /\ map fst (wal p) = [5].
Proof. exact all_succeed_old_refuted. Qed.
Print Assumptions c08_all_succeed_old_refuted.
