(* Every client that waits for updates is registered, and the last thing it was sent is the dispatcher's current
   assignment for its namespace -- after every interleaving of registrations, pushes, Send completions, Send
   failures and disconnects. *)
From Coq Require Import List NArith ZArith Bool.
From Oxia.Shard Require Import Model Dispatcher.
Import ListNotations.
Open Scope N_scope.

Definition client_ok (cur : option assignment) (c : dclient) : Prop :=
  (dc_phase c = Waiting -> dc_reg c = true) /\
  (dc_phase c = Ended -> dc_reg c = false) /\
  (dc_reg c = true -> exists a, cur = Some a /\
     match dc_phase c with
     | Waiting => last_update c = Some (filter_ns (dc_ns c) a)
     | Sending m => m = filter_ns (dc_ns c) a
     | Ended => False
     end).

Definition dinv (s : dstate) : Prop := forall c, In c (d_clients s) -> client_ok (d_cur s) c.

Lemma on_client_ok cur id f l :
  (forall c, client_ok cur c -> client_ok cur (f c)) ->
  (forall c, In c l -> client_ok cur c) -> forall c, In c (on_client id f l) -> client_ok cur c.
Proof.
  intros Hf Hl c Hc. unfold on_client in Hc. apply in_map_iff in Hc. destruct Hc as (c0 & <- & Hin).
  destruct (N.eqb (dc_id c0) id); [apply Hf|]; apply Hl; exact Hin.
Qed.

Lemma send_ok_ok cur c : client_ok cur c -> client_ok cur (send_ok c).
Proof.
  intros (H1 & H2 & H3). unfold send_ok. destruct (dc_phase c) as [m| |] eqn:E; try (rewrite <- E in *; tauto); try tauto.
  - destruct (dc_reg c) eqn:Er; unfold client_ok; cbn.
    + split; [tauto|]. split; [discriminate|]. intros _. destruct (H3 eq_refl) as (a & Ha & Hm). exists a. split; [exact Ha|].
      unfold last_update; cbn. rewrite Hm. reflexivity.
    + repeat split; try discriminate; tauto.
  - unfold client_ok. rewrite E. tauto.
  - unfold client_ok. rewrite E. tauto.
Qed.

Lemma send_fail_ok cur c : client_ok cur c -> client_ok cur (send_fail c).
Proof.
  intros H. unfold send_fail. destruct (dc_phase c) eqn:E; try exact H.
  unfold client_ok; cbn. repeat split; try discriminate; tauto.
Qed.

Lemma leave_ok cur c : client_ok cur c -> client_ok cur (leave c).
Proof.
  intros H. unfold leave. destruct (dc_phase c) eqn:E; try exact H;
    unfold client_ok; cbn; repeat split; try discriminate; tauto.
Qed.

Lemma push_client_ok cur a c : client_ok cur c -> client_ok (Some a) (push_client a c).
Proof.
  intros (H1 & H2 & H3). unfold push_client. destruct (dc_reg c) eqn:Er.
  - destruct (dc_phase c) as [m| |] eqn:E; unfold client_ok; cbn.
    + repeat split; try discriminate. 
    + split; [discriminate|]. split; [discriminate|]. intros _. exists a. tauto.
    + destruct (H3 eq_refl) as (? & _ & []).
  - unfold client_ok. split; [intros E; specialize (H1 E); congruence|]. split; [tauto | intros E; congruence].
Qed.

Lemma dstep_inv s x : dinv s -> dinv (dstep s x).
Proof.
  intros HI. destruct x as [id ns|a|id|id|id]; unfold dinv; cbn [dstep].
  - destruct (d_cur s) as [a|] eqn:Ec.
    + destruct (has_ns ns a); cbn [d_clients d_cur]; intros c Hc; apply in_app_or in Hc;
        (destruct Hc as [Hc|[<-|[]]]; [rewrite <- Ec; apply HI; exact Hc|]); unfold client_ok; cbn.
      * split; [discriminate|]. split; [discriminate|]. intros _. exists a. tauto.
      * repeat split; try discriminate; tauto.
    + cbn [d_clients d_cur]. intros c Hc. apply in_app_or in Hc.
      destruct Hc as [Hc|[<-|[]]]; [rewrite <- Ec; apply HI; exact Hc|]. unfold client_ok; cbn.
      repeat split; try discriminate; tauto.
  - cbn [d_clients d_cur]. intros c Hc. apply in_map_iff in Hc. destruct Hc as (c0 & <- & Hin).
    apply (push_client_ok (d_cur s)). apply HI. exact Hin.
  - cbn [d_clients d_cur]. apply on_client_ok; [apply send_ok_ok | exact HI].
  - cbn [d_clients d_cur]. apply on_client_ok; [apply send_fail_ok | exact HI].
  - cbn [d_clients d_cur]. apply on_client_ok; [apply leave_ok | exact HI].
Qed.

Lemma drun_inv acts : forall s, dinv s -> dinv (fold_left dstep acts s).
Proof. induction acts as [|x acts IH]; intros s H; [exact H | apply IH, dstep_inv, H]. Qed.

Theorem dispatcher_last_update_is_current acts c :
  In c (d_clients (drun acts)) -> dc_phase c = Waiting ->
  dc_reg c = true /\
  exists a, d_cur (drun acts) = Some a /\ last_update c = Some (filter_ns (dc_ns c) a).
Proof.
  intros Hin Hw. assert (HI : dinv (drun acts)) by (apply drun_inv; intros ? []).
  destruct (HI c Hin) as (H1 & _ & H3). split; [exact (H1 Hw)|].
  destruct (H3 (H1 Hw)) as (a & Ha & Hm). rewrite Hw in Hm. exists a. tauto.
Qed.

(* non-vacuity, and the interleaving of the seeded defect: a push while the client sits in its first Send *)
Example dispatcher_example :
  let a1 : assignment := [(1, [mkShard 0 0 2147483647; mkShard 1 2147483648 4294967295])] in
  let a2 : assignment := [(1, [mkShard 2 0 4294967295])] in
  map dc_phase (d_clients (drun [DPush a1; DRegister 7 1; DRegister 8 1; DSendOk 7; DPush a2; DSendOk 8; DSendOk 7]))
  = [Waiting; Ended] /\
  map last_update (d_clients (drun [DPush a1; DRegister 7 1; DRegister 8 1; DSendOk 7; DPush a2; DSendOk 8; DSendOk 7]))
  = [Some a2; Some a1].
Proof. split; reflexivity. Qed.
