(* Invariants of the cluster status over every history of config changes, shard-deletion completions and
   controller metadata updates (model: Status.v). *)
From Coq Require Import List NArith ZArith Bool Lia.
From Oxia.Shard Require Import Model Proofs Status.
Import ListNotations.
Open Scope N_scope.

(* ------------------------------------------------------------------ *)
(* small list facts                                                    *)

Lemma nodup_app_iff {A} (a b : list A) :
  NoDup (a ++ b) <-> NoDup a /\ NoDup b /\ (forall x, In x a -> ~ In x b).
Proof.
  induction a as [|x a IH]; cbn.
  - split; [intros H; repeat split; [constructor | exact H | tauto] | tauto].
  - split.
    + intros H. inversion H as [|? ? Hx Hn]; subst. apply IH in Hn. destruct Hn as (Ha & Hb & Hd).
      repeat split; [constructor; [|exact Ha] | exact Hb |].
      * intros Hin. apply Hx. apply in_or_app. left; exact Hin.
      * intros y [<-|Hy]; [intros Hin; apply Hx; apply in_or_app; right; exact Hin | apply Hd; exact Hy].
    + intros (Ha & Hb & Hd). inversion Ha as [|? ? Hx Hn]; subst. constructor.
      * intros Hin. apply in_app_or in Hin. destruct Hin as [Hin|Hin]; [exact (Hx Hin)|].
        apply (Hd x); [left; reflexivity | exact Hin].
      * apply IH. repeat split; [exact Hn | exact Hb |]. intros y Hy. apply Hd. right; exact Hy.
Qed.

Lemma nodup_map_inj {A B} (f : A -> B) l :
  (forall x y, In x l -> In y l -> f x = f y -> x = y) -> NoDup l -> NoDup (map f l).
Proof.
  induction l as [|a l IH]; intros Hinj Hnd; cbn; [constructor|].
  inversion Hnd as [|? ? Ha Hl]; subst. constructor.
  - intros Hin. apply in_map_iff in Hin. destruct Hin as (y & Hy & Hyin).
    assert (y = a) by (apply Hinj; [right; exact Hyin | left; reflexivity | exact Hy]). subst. exact (Ha Hyin).
  - apply IH; [|exact Hl]. intros x y Hx Hy. apply Hinj; right; assumption.
Qed.

Lemma nodup_map_eq {A B} (f : A -> B) l x y :
  NoDup (map f l) -> In x l -> In y l -> f x = f y -> x = y.
Proof.
  induction l as [|a l IH]; cbn; intros Hnd Hx Hy Hf; [contradiction|].
  inversion Hnd as [|? ? Ha Hl]; subst.
  destruct Hx as [->|Hx], Hy as [->|Hy]; [reflexivity | | |apply IH; assumption].
  - exfalso. apply Ha. rewrite Hf. apply in_map. exact Hy.
  - exfalso. apply Ha. rewrite <- Hf. apply in_map. exact Hx.
Qed.

Lemma filter_all {A} (f : A -> bool) l : (forall x, In x l -> f x = true) -> filter f l = l.
Proof.
  induction l as [|a l IH]; cbn; intros H; [reflexivity|].
  rewrite (H a) by (left; reflexivity). f_equal. apply IH. intros x Hx. apply H. right; exact Hx.
Qed.

Lemma filter_none {A} (f : A -> bool) l : (forall x, In x l -> f x = false) -> filter f l = [].
Proof.
  induction l as [|a l IH]; cbn; intros H; [reflexivity|].
  rewrite (H a) by (left; reflexivity). apply IH. intros x Hx. apply H. right; exact Hx.
Qed.

Lemma nodup_map_filter {A B} (g : A -> B) (f : A -> bool) l : NoDup (map g l) -> NoDup (map g (filter f l)).
Proof.
  induction l as [|a l IH]; cbn; intros H; [constructor|].
  inversion H as [|? ? Ha Hl]; subst. destruct (f a); cbn; [constructor|]; [|apply IH; exact Hl|apply IH; exact Hl].
  intros Hin. apply Ha. apply in_map_iff in Hin. destruct Hin as (y & Hy & Hyin).
  apply filter_In in Hyin. rewrite <- Hy. apply in_map. tauto.
Qed.

Lemma nodup_flat_map_filter {A B} (g : A -> list B) (f : A -> bool) l :
  NoDup (flat_map g l) -> NoDup (flat_map g (filter f l)).
Proof.
  induction l as [|a l IH]; cbn; intros H; [constructor|].
  apply nodup_app_iff in H. destruct H as (Ha & Hl & Hd).
  destruct (f a); cbn; [|apply IH; exact Hl].
  apply nodup_app_iff. repeat split; [exact Ha | apply IH; exact Hl |].
  intros x Hx Hin. apply (Hd x Hx). apply in_flat_map in Hin. destruct Hin as (y & Hy & Hxy).
  apply in_flat_map. exists y. apply filter_In in Hy. tauto.
Qed.

(* ------------------------------------------------------------------ *)
(* arithmetic                                                          *)

Lemma wrap64_small z : (- I64 <= z < I64)%Z -> wrap64 z = z.
Proof. intros H. unfold wrap64. rewrite Z.mod_small; unfold I64 in *; lia. Qed.

Lemma N_seq_from_In i s len : In i (N_seq_from s len) <-> s <= i /\ i < s + N.of_nat len.
Proof.
  revert s; induction len as [|len IH]; intros s; cbn [N_seq_from In].
  - lia.
  - rewrite IH. lia.
Qed.

Lemma N_seq_from_NoDup s len : NoDup (N_seq_from s len).
Proof.
  revert s; induction len as [|len IH]; intros s; cbn [N_seq_from]; constructor; [|apply IH].
  rewrite N_seq_from_In. lia.
Qed.

Lemma N_seq_In i n : In i (N_seq n) <-> i < n.
Proof. unfold N_seq. rewrite N_seq_from_In. lia. Qed.

(* chained only looks at the ranges *)
Lemma chained_ext next l l' :
  map (fun s => (smin s, smax s)) l = map (fun s => (smin s, smax s)) l' -> chained next l -> chained next l'.
Proof.
  revert next l'; induction l as [|s l IH]; intros next [|s' l'] Heq Hc; try discriminate; cbn in *; [exact Hc|].
  injection Heq as Hmin Hmax Htl. destruct Hc as (H1 & H2 & H3 & H4).
  rewrite <- Hmin, <- Hmax. repeat split; try assumption. apply IH; assumption.
Qed.

Lemma partition_nonempty l : partition l -> l <> [].
Proof. intros H ->. unfold partition in H. cbn in H. unfold U32 in H. discriminate. Qed.

(* ids of the shards GenerateShards hands out, with the int64 wrap being the identity below 2^63 *)
Lemma gen_ids base n l :
  (0 <= base)%Z -> (base + Z.of_N n < I64)%Z ->
  map sid l = map (fun i => (base + Z.of_N i)%Z) (N_seq n) ->
  NoDup (map sid (map wrap_sid l)) /\
  forall id, In id (map sid (map wrap_sid l)) -> (base <= id < base + Z.of_N n)%Z.
Proof.
  intros Hb Hn Hids.
  assert (Heq : map sid (map wrap_sid l) = map (fun i => (base + Z.of_N i)%Z) (N_seq n)).
  { rewrite map_map. cbn [wrap_sid sid].
    rewrite <- (map_map sid wrap64), Hids, map_map.
    apply map_ext_in. intros i Hi. apply N_seq_In in Hi. apply wrap64_small. unfold I64 in *. lia. }
  rewrite Heq. split.
  - apply nodup_map_inj; [|apply N_seq_from_NoDup]. intros x y _ _ H. lia.
  - intros id Hin. apply in_map_iff in Hin. destruct Hin as (i & <- & Hi). apply N_seq_In in Hi. lia.
Qed.

(* ------------------------------------------------------------------ *)
(* namespace maps                                                      *)

Definition ns_tshards (ns : nsstatus) : list shard := map to_shard (ns_shards ns).
Definition ns_ids (ns : nsstatus) : list Z := map sid (ns_tshards ns).
Definition all_ids (l : nsmap) : list Z := flat_map (fun p => ns_ids (snd p)) l.

(* shard [s] (id and range) belongs to namespace [name] in this status *)
Definition shard_in (l : nsmap) (name : N) (s : shard) : Prop :=
  exists ns, In (name, ns) l /\ In s (ns_tshards ns).

Lemma all_ids_shard_in l id : In id (all_ids l) <-> exists name s, shard_in l name s /\ sid s = id.
Proof.
  unfold all_ids, shard_in, ns_ids. rewrite in_flat_map. split.
  - intros ([name ns] & Hp & Hin). cbn in Hin. apply in_map_iff in Hin. destruct Hin as (s & Hs & Hsin).
    exists name, s. split; [exists ns; tauto | exact Hs].
  - intros (name & s & (ns & Hp & Hs) & Hid). exists (name, ns). split; [exact Hp|].
    cbn. rewrite <- Hid. apply in_map. exact Hs.
Qed.

Lemma ns_lookup_In name l v : ns_lookup name l = Some v -> In (name, v) l.
Proof.
  induction l as [|[k w] l IH]; cbn; [discriminate|].
  destruct (N.eqb_spec k name) as [->|Hne]; [intros [= ->]; left; reflexivity | intros H; right; apply IH; exact H].
Qed.

Lemma ns_lookup_None name l : ns_lookup name l = None -> forall p, In p l -> fst p <> name.
Proof.
  induction l as [|[k w] l IH]; cbn; [intros _ p []|].
  destruct (N.eqb_spec k name) as [->|Hne]; [discriminate|].
  intros H p [<-|Hp]; [exact Hne | apply IH; assumption].
Qed.

Lemma ns_lookup_NoDup name l v : NoDup (map fst l) -> In (name, v) l -> ns_lookup name l = Some v.
Proof.
  induction l as [|[k w] l IH]; cbn; intros Hnd Hin; [contradiction|].
  inversion Hnd as [|? ? Hk Hl]; subst.
  destruct Hin as [[= -> ->]|Hin]; [rewrite N.eqb_refl; reflexivity|].
  destruct (N.eqb_spec k name) as [->|Hne]; [|apply IH; assumption].
  exfalso. apply Hk. change name with (fst (name, v)). apply in_map. exact Hin.
Qed.

Lemma nodup_fst_inj (l : nsmap) k v1 v2 : NoDup (map fst l) -> In (k, v1) l -> In (k, v2) l -> v1 = v2.
Proof.
  intros Hnd H1 H2. pose proof (ns_lookup_NoDup k l v1 Hnd H1) as E1.
  pose proof (ns_lookup_NoDup k l v2 Hnd H2) as E2. congruence.
Qed.

Lemma ns_remove_In name l p : In p (ns_remove name l) <-> In p l /\ fst p <> name.
Proof.
  unfold ns_remove. rewrite filter_In. destruct (N.eqb_spec (fst p) name); cbn; intuition congruence.
Qed.

Lemma ns_remove_names name l : NoDup (map fst l) -> NoDup (map fst (ns_remove name l)).
Proof. apply nodup_map_filter. Qed.

Lemma ns_remove_ids name l : NoDup (all_ids l) -> NoDup (all_ids (ns_remove name l)).
Proof. apply nodup_flat_map_filter. Qed.

Lemma ns_remove_shard_in name l n s : shard_in (ns_remove name l) n s -> shard_in l n s.
Proof. intros (ns & Hp & Hs). exists ns. apply ns_remove_In in Hp. tauto. Qed.

(* a pointwise rewrite of the entries that keeps names and shards (id, range) *)
Lemma map_keeps (h : N * nsstatus -> N * nsstatus) l :
  (forall p, In p l -> fst (h p) = fst p /\ ns_tshards (snd (h p)) = ns_tshards (snd p)) ->
  map fst (map h l) = map fst l /\ all_ids (map h l) = all_ids l /\
  (forall n s, shard_in (map h l) n s <-> shard_in l n s).
Proof.
  intros H. split; [|split].
  - rewrite map_map. apply map_ext_in. intros p Hp. apply H. exact Hp.
  - induction l as [|p l IH]; cbn; [reflexivity|].
    unfold ns_ids at 1 3. rewrite (proj2 (H p (or_introl eq_refl))). f_equal.
    apply IH. intros q Hq. apply H. right; exact Hq.
  - intros n s. unfold shard_in. split.
    + intros (ns & Hp & Hs). apply in_map_iff in Hp. destruct Hp as (q & Hq & Hqin).
      destruct (H q Hqin) as [Hf Ht]. rewrite Hq in Hf, Ht. cbn in Hf, Ht.
      exists (snd q). split; [destruct q; cbn in *; subst; exact Hqin | rewrite <- Ht; exact Hs].
    + intros (ns & Hp & Hs). destruct (H _ Hp) as [Hf Ht]. cbn in Hf, Ht.
      exists (snd (h (n, ns))). split; [|rewrite Ht; exact Hs].
      apply in_map_iff. exists (n, ns). split; [|exact Hp].
      destruct (h (n, ns)); cbn in *; subst; reflexivity.
Qed.

(* ------------------------------------------------------------------ *)
(* the invariant                                                       *)

(* a stored namespace has shards, and what is published for it is nothing or a partition *)
Definition ns_ok (ns : nsstatus) : Prop :=
  ns_shards ns <> [] /\ (live ns = [] \/ partition (assignments ns)).

Record Inv (st : cstatus) : Prop := {
  inv_names : NoDup (map fst (st_ns st));
  inv_ids : NoDup (all_ids (st_ns st));
  inv_lt : forall id, In id (all_ids (st_ns st)) -> (0 <= id < st_idgen st)%Z;
  inv_ok : forall p, In p (st_ns st) -> ns_ok (snd p);
  inv_nonneg : (0 <= st_idgen st)%Z;
}.

Lemma init_inv : Inv init_status.
Proof.
  constructor; unfold init_status; cbn [st_ns st_idgen all_ids flat_map map].
  - constructor.
  - constructor.
  - intros id [].
  - intros p [].
  - lia.
Qed.

Definition sum_counts (ncs : list nsconfig) : Z :=
  fold_right (fun nc acc => (Z.of_N (nc_count nc) + acc)%Z) 0%Z ncs.

Lemma sum_counts_nonneg ncs : (0 <= sum_counts ncs)%Z.
Proof. induction ncs as [|a l IH]; unfold sum_counts in *; cbn [fold_right]; lia. Qed.

Definition nc_dom (nc : nsconfig) : Prop := 1 <= nc_count nc /\ nc_count nc <= 65536.

(* a namespace created by the current call: all its shards are published and they partition the space *)
Definition fresh_ns (ns : nsstatus) : Prop := live ns = ns_shards ns /\ partition (assignments ns).

Section WithSupplier.
  Variable S : Type.
  Variable supplier : S -> nsconfig -> cstatus -> option (list N) * S.

  Lemma fill_done nc nsrv shards : forall ed sup ms ed' sup',
    fill S supplier nc nsrv ed sup shards = (FDone ms ed', sup') ->
    map to_shard ms = shards /\ (forall m, In m ms -> m_st m = SUnknown) /\
    st_ns ed' = st_ns ed /\ st_idgen ed' = st_idgen ed.
  Proof.
    induction shards as [|sh tl IH]; intros ed sup ms ed' sup' H; cbn [fill] in H.
    - injection H as <- <- <-. cbn. tauto.
    - destruct (supplier sup nc ed) as [[ens|] sup1]; [|discriminate].
      destruct (N.eqb nsrv 0); [discriminate|].
      destruct (fill S supplier nc nsrv _ sup1 tl) as [[| |ms2 ed2] sup2] eqn:E; try discriminate.
      injection H as <- <- <-. destruct (IH _ _ _ _ _ E) as (H1 & H2 & H3 & H4). cbn in H3, H4.
      repeat split; [cbn; rewrite H1; destruct sh; reflexivity | | exact H3 | exact H4].
      intros m [<-|Hm]; [reflexivity | apply H2; exact Hm].
  Qed.

  (* invariant of the first loop of ApplyClusterChanges, relative to the current status *)
  Record J (cur ed : cstatus) : Prop := {
    j_names : NoDup (map fst (st_ns ed));
    j_ids : NoDup (all_ids (st_ns ed));
    j_lt : forall id, In id (all_ids (st_ns ed)) -> (0 <= id < st_idgen ed)%Z;
    j_ok : forall p, In p (st_ns ed) -> ns_ok (snd p);
    j_cur : forall p, In p (st_ns cur) -> In p (st_ns ed);
    j_fresh : forall p, In p (st_ns ed) ->
              In p (st_ns cur) \/
              (fresh_ns (snd p) /\ forall id, In id (ns_ids (snd p)) -> (st_idgen cur <= id)%Z);
    j_gen : (0 <= st_idgen cur <= st_idgen ed)%Z;
  }.

  Lemma J_refl st : Inv st -> J st st.
  Proof. intros [H1 H2 H3 H4 H5]. constructor; try assumption; try tauto. lia. Qed.

  Lemma add_namespaces_J cur nsrv ncs : forall ed sup toadd ed' toadd' sup',
    J cur ed -> Forall nc_dom ncs -> (st_idgen ed + sum_counts ncs < I64)%Z ->
    add_namespaces S supplier (st_ns cur) nsrv ncs ed sup toadd = (Some (ed', toadd'), sup') ->
    J cur ed' /\ (st_idgen ed' <= st_idgen ed + sum_counts ncs)%Z.
  Proof.
    induction ncs as [|nc tl IH]; intros ed sup toadd ed' toadd' sup' HJ Hdom Hsum H; cbn [add_namespaces] in H.
    - injection H as <- <- <-. cbn. split; [exact HJ | lia].
    - inversion Hdom as [|? ? [Hc1 Hc2] Hdomtl]; subst. cbn [sum_counts fold_right] in Hsum |- *.
      fold (sum_counts tl) in Hsum |- *. pose proof (sum_counts_nonneg tl) as Hnn.
      destruct (ns_lookup (nc_name nc) (st_ns cur)) eqn:Elook.
      { destruct (IH _ _ _ _ _ _ HJ Hdomtl ltac:(lia) H) as [HJ' Hle]. split; [exact HJ' | lia]. }
      destruct (generate_partitions (st_idgen ed) (nc_count nc) Hc1 Hc2) as (l & Hgen & Hpart & Hids).
      rewrite Hgen in H.
      destruct (fill S supplier nc nsrv ed sup (map wrap_sid l)) as [[| |ms ed1] sup1] eqn:Efill.
      + discriminate.
      + destruct (IH _ _ _ _ _ _ HJ Hdomtl ltac:(lia) H) as [HJ' Hle]. split; [exact HJ' | lia].
      + destruct (fill_done _ _ _ _ _ _ _ _ Efill) as (Hms & Hunk & Hns1 & Hgen1).
        destruct HJ as [Jn Ji Jl Jo Jc Jf Jg].
        assert (Hb0 : (0 <= st_idgen ed)%Z) by lia.
        destruct (gen_ids (st_idgen ed) (nc_count nc) l Hb0 ltac:(lia) Hids) as [Hnd Hrange].
        rewrite Hns1, Hgen1 in H.
        rewrite (wrap64_small (st_idgen ed + Z.of_N (nc_count nc))) in H by (unfold I64 in *; lia).
        set (v := mkNs (nc_rf nc) ms) in *.
        assert (Hvids : ns_ids v = map sid (map wrap_sid l))
          by (unfold ns_ids, ns_tshards, v; cbn [ns_shards]; rewrite Hms; reflexivity).
        assert (Hvlive : live v = ns_shards v).
        { unfold live, v; cbn [ns_shards]. apply filter_all. intros m Hm. rewrite (Hunk m Hm). reflexivity. }
        assert (Hvpart : partition (assignments v)).
        { unfold assignments. rewrite Hvlive. unfold v; cbn [ns_shards]. rewrite Hms. unfold partition.
          apply (chained_ext 0 l); [|exact Hpart]. rewrite map_map. reflexivity. }
        assert (Hvne : ns_shards v <> []).
        { intros E. unfold assignments in Hvpart. rewrite Hvlive, E in Hvpart.
          exact (partition_nonempty _ Hvpart eq_refl). }
        clearbody v.
        match type of H with add_namespaces _ _ _ _ _ ?e _ _ = _ => set (ed2 := e) in * end.
        assert (Hall : all_ids (st_ns ed2) = ns_ids v ++ all_ids (ns_remove (nc_name nc) (st_ns ed))) by reflexivity.
        assert (Hold : forall id, In id (all_ids (ns_remove (nc_name nc) (st_ns ed))) -> (0 <= id < st_idgen ed)%Z).
        { intros id Hin. apply all_ids_shard_in in Hin. destruct Hin as (n & s & Hs & Hid).
          apply ns_remove_shard_in in Hs. apply Jl. apply all_ids_shard_in. exists n, s. tauto. }
        assert (HJ2 : J cur ed2).
        { constructor; try rewrite Hall.
          - unfold ed2; cbn [st_ns ns_set map fst]. constructor; [|apply ns_remove_names; exact Jn].
            intros Hin. apply in_map_iff in Hin. destruct Hin as (p & Hp & Hpin).
            apply ns_remove_In in Hpin. tauto.
          - apply nodup_app_iff. repeat split; [rewrite Hvids; exact Hnd | apply ns_remove_ids; exact Ji |].
            intros x Hx Hin. rewrite Hvids in Hx. apply Hrange in Hx. apply Hold in Hin. lia.
          - intros id Hin. unfold ed2; cbn [st_idgen].
            apply in_app_or in Hin. destruct Hin as [Hin|Hin].
            + rewrite Hvids in Hin. apply Hrange in Hin. lia.
            + apply Hold in Hin. lia.
          - unfold ed2; cbn [st_ns ns_set].
            intros p [<-|Hp]; [|apply Jo; apply ns_remove_In in Hp; tauto].
            cbn [snd]. split; [exact Hvne | right; exact Hvpart].
          - unfold ed2; cbn [st_ns ns_set].
            intros p Hp. right. apply ns_remove_In. split; [apply Jc; exact Hp|].
            apply (ns_lookup_None _ _ Elook). exact Hp.
          - unfold ed2; cbn [st_ns ns_set].
            intros p [<-|Hp]; [|apply Jf; apply ns_remove_In in Hp; tauto].
            right. cbn [snd]. split; [split; assumption|].
            intros id Hin. rewrite Hvids in Hin. apply Hrange in Hin. lia.
          - unfold ed2; cbn [st_idgen]. lia. }
        destruct (IH _ _ _ _ _ _ HJ2 Hdomtl ltac:(unfold ed2; cbn [st_idgen]; lia) H) as [HJ' Hle].
        split; [exact HJ'|]. unfold ed2 in Hle; cbn [st_idgen] in Hle. lia.
  Qed.
End WithSupplier.

(* ------------------------------------------------------------------ *)
(* more list facts used by the steps                                   *)

Lemma filter_map_comm {A B} (f : B -> bool) (g : A -> B) l :
  filter f (map g l) = map g (filter (fun x => f (g x)) l).
Proof. induction l as [|a l IH]; cbn; [reflexivity|]. destruct (f (g a)); cbn; rewrite IH; reflexivity. Qed.

Lemma ns_ids_NoDup (l : nsmap) name ns : NoDup (all_ids l) -> In (name, ns) l -> NoDup (ns_ids ns).
Proof.
  induction l as [|p l IH]; cbn; intros Hnd Hin; [contradiction|].
  apply nodup_app_iff in Hnd. destruct Hnd as (Ha & Hl & _).
  destruct Hin as [->|Hin]; [exact Ha | apply IH; assumption].
Qed.

Lemma ns_ids_m_id ns : ns_ids ns = map m_id (ns_shards ns).
Proof. unfold ns_ids, ns_tshards. rewrite map_map. reflexivity. Qed.

(* a pointwise rewrite of the entries that keeps names and drops some shards *)
Lemma map_shrinks (h : N * nsstatus -> N * nsstatus) l :
  (forall p, In p l -> fst (h p) = fst p /\
                       exists f, ns_tshards (snd (h p)) = filter f (ns_tshards (snd p))) ->
  map fst (map h l) = map fst l /\
  (forall n s, shard_in (map h l) n s -> shard_in l n s) /\
  (NoDup (all_ids l) -> NoDup (all_ids (map h l))).
Proof.
  intros H.
  assert (Hsub : forall l', (forall p, In p l' -> In p l) ->
                 forall n s, shard_in (map h l') n s -> shard_in l' n s).
  { intros l' Hl' n s (ns & Hp & Hs). apply in_map_iff in Hp. destruct Hp as (q & Hq & Hqin).
    destruct (H q (Hl' _ Hqin)) as [Hf [f Ht]]. rewrite Hq in Hf, Ht. cbn in Hf, Ht.
    exists (snd q). split; [destruct q; cbn in *; subst; exact Hqin|].
    rewrite Ht in Hs. apply filter_In in Hs. tauto. }
  split; [|split].
  - rewrite map_map. apply map_ext_in. intros p Hp. apply H. exact Hp.
  - apply Hsub. tauto.
  - assert (Hgen : forall l', (forall p, In p l' -> In p l) -> NoDup (all_ids l') -> NoDup (all_ids (map h l'))).
    { induction l' as [|p l' IH]; intros Hl' Hnd; cbn; [constructor|].
      cbn in Hnd. apply nodup_app_iff in Hnd. destruct Hnd as (Ha & Hb & Hd).
      destruct (H p (Hl' p (or_introl eq_refl))) as [_ [f Ht]].
      assert (Hin : forall x, In x (ns_ids (snd (h p))) -> In x (ns_ids (snd p))).
      { intros x Hx. unfold ns_ids in *. rewrite Ht in Hx. apply in_map_iff in Hx.
        destruct Hx as (s & <- & Hs). apply filter_In in Hs. apply in_map. tauto. }
      apply nodup_app_iff. repeat split.
      - unfold ns_ids in *. rewrite Ht. apply nodup_map_filter. exact Ha.
      - apply IH; [intros q Hq; apply Hl'; right; exact Hq | exact Hb].
      - intros x Hx Hx2. apply (Hd x (Hin x Hx)).
        apply all_ids_shard_in in Hx2. destruct Hx2 as (n & s & Hs & Hid).
        apply Hsub in Hs; [|intros q Hq; apply Hl'; right; exact Hq].
        apply all_ids_shard_in. exists n, s. tauto. }
    apply Hgen. tauto.
Qed.

Lemma live_filter_id id (l : list smeta) :
  (forall x, In x l -> m_id x = id -> is_deleting (m_st x) = true) ->
  filter (fun m => negb (is_deleting (m_st m))) (filter (fun m => negb (Z.eqb (m_id m) id)) l) =
  filter (fun m => negb (is_deleting (m_st m))) l.
Proof.
  induction l as [|a l IH]; intros H; cbn; [reflexivity|].
  assert (IH' := IH (fun x Hx => H x (or_intror Hx))).
  destruct (Z.eqb_spec (m_id a) id) as [E|E]; cbn.
  - rewrite (H a (or_introl eq_refl) E). cbn. exact IH'.
  - destruct (is_deleting (m_st a)); cbn; rewrite IH'; reflexivity.
Qed.

Lemma assignments_map_same (r : smeta -> smeta) (l : list smeta) :
  (forall x, In x l -> is_deleting (m_st (r x)) = is_deleting (m_st x) /\ to_shard (r x) = to_shard x) ->
  map to_shard (filter (fun m => negb (is_deleting (m_st m))) (map r l)) =
  map to_shard (filter (fun m => negb (is_deleting (m_st m))) l).
Proof.
  induction l as [|a l IH]; intros H; cbn; [reflexivity|].
  destruct (H a (or_introl eq_refl)) as [H1 H2]. rewrite H1.
  destruct (is_deleting (m_st a)); cbn; [|rewrite H2; f_equal]; apply IH; intros x Hx; apply H; right; exact Hx.
Qed.

Lemma in_config_true nc ncs : In nc ncs -> in_config (nc_name nc) (map nc_name ncs) = true.
Proof.
  intros H. unfold in_config. apply existsb_exists. exists (nc_name nc).
  split; [apply in_map; exact H | apply N.eqb_refl].
Qed.

Lemma mark_deleting_tshards ns : ns_tshards (mark_deleting ns) = ns_tshards ns.
Proof. unfold ns_tshards, mark_deleting; cbn [ns_shards]. rewrite map_map. reflexivity. Qed.

Lemma mark_deleting_ok ns : ns_shards ns <> [] -> ns_ok (mark_deleting ns).
Proof.
  intros Hne. split.
  - unfold mark_deleting; cbn [ns_shards]. intros E. apply map_eq_nil in E. exact (Hne E).
  - left. unfold live, mark_deleting; cbn [ns_shards]. apply filter_none.
    intros x Hx. apply in_map_iff in Hx. destruct Hx as (m & <- & _). reflexivity.
Qed.

Definition req_op (o : op) : Z := match o with OpApply cfg | OpRestart cfg => requested_cfg cfg | _ => 0%Z end.

Lemma requested_cons o ops : requested (o :: ops) = (req_op o + requested ops)%Z.
Proof. destruct o; cbn [requested fold_right req_op]; fold (requested ops); lia. Qed.

Lemma requested_app a b : requested (a ++ b) = (requested a + requested b)%Z.
Proof.
  induction a as [|o a IH]; [reflexivity|].
  rewrite <- app_comm_cons, !requested_cons, IH. lia.
Qed.

Lemma requested_nonneg ops : (0 <= requested ops)%Z.
Proof.
  induction ops as [|o ops IH]; [cbn; lia|]. rewrite requested_cons.
  destruct o; cbn [req_op]; try lia;
    pose proof (sum_counts_nonneg (cfg_ns cfg)); unfold requested_cfg, sum_counts in *; lia.
Qed.

Section Steps.
  Variable S : Type.
  Variable supplier : S -> nsconfig -> cstatus -> option (list N) * S.

  Lemma apply_inv cfg cur sup st' ta td sup' :
    Inv cur -> cfg_in_domain cfg -> (st_idgen cur + requested_cfg cfg < I64)%Z ->
    apply_cluster_changes S supplier cfg cur sup = (Some (st', ta, td), sup') ->
    Inv st' /\ (st_idgen cur <= st_idgen st' <= st_idgen cur + requested_cfg cfg)%Z /\
    (forall n s, shard_in (st_ns st') n s -> shard_in (st_ns cur) n s \/ (st_idgen cur <= sid s)%Z) /\
    (forall nc ns', In nc (cfg_ns cfg) -> ns_lookup (nc_name nc) (st_ns st') = Some ns' ->
       (forall ns, ns_lookup (nc_name nc) (st_ns cur) = Some ns ->
                   forall m, In m (ns_shards ns) -> is_deleting (m_st m) = false) ->
       partition (assignments ns')).
  Proof.
    intros HI Hdom Hsum H. unfold apply_cluster_changes in H.
    destruct (add_namespaces S supplier (st_ns cur) _ (cfg_ns cfg) cur sup []) as [[[ed toadd]|] sup1] eqn:E;
      [|discriminate].
    injection H as <- <- <- <-.
    destruct (add_namespaces_J S supplier cur _ _ _ _ _ _ _ _ (J_refl cur HI) Hdom Hsum E) as [HJ Hle].
    destruct HJ as [Jn Ji Jl Jo Jc Jf Jg].
    set (names := map nc_name (cfg_ns cfg)) in *.
    set (h := fun p : N * nsstatus =>
                match ns_lookup (fst p) (st_ns cur) with
                | Some old => if in_config (fst p) names then p else (fst p, mark_deleting old)
                | None => p
                end).
    assert (Hh : forall p, In p (st_ns ed) ->
                 h p = p \/ (h p = (fst p, mark_deleting (snd p)) /\ in_config (fst p) names = false)).
    { intros p Hp. unfold h. destruct (ns_lookup (fst p) (st_ns cur)) as [old|] eqn:El; [|left; reflexivity].
      destruct (in_config (fst p) names); [left; reflexivity|]. right. split; [|reflexivity].
      apply ns_lookup_In in El. apply Jc in El.
      rewrite (nodup_fst_inj (st_ns ed) (fst p) old (snd p) Jn El); [reflexivity|].
      destruct p; exact Hp. }
    assert (Hkeep : forall p, In p (st_ns ed) ->
                    fst (h p) = fst p /\ ns_tshards (snd (h p)) = ns_tshards (snd p)).
    { intros p Hp. destruct (Hh p Hp) as [->|[-> _]]; [tauto|]. cbn. split; [reflexivity | apply mark_deleting_tshards]. }
    destruct (map_keeps h (st_ns ed) Hkeep) as (Hnames & Hids & Hshards).
    change (remove_pass names (st_ns cur) (st_ns ed)) with (map h (st_ns ed)).
    split; [|split; [|split]].
    - constructor; cbn [st_ns st_idgen].
      + rewrite Hnames. exact Jn.
      + rewrite Hids. exact Ji.
      + rewrite Hids. exact Jl.
      + intros p Hp. apply in_map_iff in Hp. destruct Hp as (q & <- & Hq).
        destruct (Hh q Hq) as [->|[-> _]]; [apply Jo; exact Hq|]. cbn [snd].
        apply mark_deleting_ok. apply (Jo q Hq).
      + lia.
    - cbn [st_idgen]. unfold requested_cfg. fold (sum_counts (cfg_ns cfg)). lia.
    - cbn [st_ns]. intros n s Hs. apply Hshards in Hs. destruct Hs as (ns & Hp & Hs).
      destruct (Jf _ Hp) as [Hcur|[_ Hge]].
      + left. exists ns. tauto.
      + right. apply Hge. cbn [snd]. unfold ns_ids. apply in_map. exact Hs.
    - cbn [st_ns]. intros nc ns' Hnc Hlook Hnodel.
      apply ns_lookup_In in Hlook. apply in_map_iff in Hlook. destruct Hlook as (q & Hq & Hqin).
      assert (Hfst : fst q = nc_name nc) by (destruct (Hkeep q Hqin) as [Hf _]; rewrite Hq in Hf; cbn in Hf; congruence).
      assert (Hcfg : in_config (fst q) names = true) by (rewrite Hfst; apply in_config_true; exact Hnc).
      destruct (Hh q Hqin) as [Hhq|[_ Hc]]; [|congruence].
      rewrite Hhq in Hq. subst q. cbn [fst snd] in *.
      destruct (Jf _ Hqin) as [Hcur|[[_ Hpart] _]]; [|exact Hpart].
      pose proof (ns_lookup_NoDup _ _ _ (inv_names _ HI) Hcur) as Hl.
      destruct (inv_ok _ HI _ Hcur) as [Hne [Hempty|Hpart]]; [|exact Hpart]. cbn [snd] in *.
      exfalso. apply Hne. unfold live in Hempty. rewrite filter_all in Hempty; [exact Hempty|].
      intros m Hm. rewrite (Hnodel _ Hl m Hm). reflexivity.
  Qed.

  Lemma find_shard_spec name id st m :
    find_shard name id st = Some m ->
    exists ns, ns_lookup name (st_ns st) = Some ns /\ In m (ns_shards ns) /\ m_id m = id.
  Proof.
    unfold find_shard. destruct (ns_lookup name (st_ns st)) as [ns|]; [|discriminate].
    intros H. apply find_some in H. destruct H as [Hin Heq]. apply Z.eqb_eq in Heq. exists ns. tauto.
  Qed.

  Lemma same_id_same_meta st name ns m x :
    Inv st -> In (name, ns) (st_ns st) -> In m (ns_shards ns) -> In x (ns_shards ns) -> m_id x = m_id m -> x = m.
  Proof.
    intros HI Hin Hm Hx Hid. pose proof (ns_ids_NoDup _ _ _ (inv_ids _ HI) Hin) as Hnd.
    rewrite ns_ids_m_id in Hnd. exact (nodup_map_eq m_id _ x m Hnd Hx Hm Hid).
  Qed.

  Lemma delete_inv name id st m :
    Inv st -> find_shard name id st = Some m -> is_deleting (m_st m) = true ->
    Inv (delete_shard_metadata name id st) /\
    st_idgen (delete_shard_metadata name id st) = st_idgen st /\
    (forall n s, shard_in (st_ns (delete_shard_metadata name id st)) n s -> shard_in (st_ns st) n s).
  Proof.
    intros HI Hfind Hdel. destruct (find_shard_spec _ _ _ _ Hfind) as (ns & Hlook & Hm & Hid).
    pose proof (ns_lookup_In _ _ _ Hlook) as Hin.
    unfold delete_shard_metadata. rewrite Hlook.
    destruct (filter (fun m0 => negb (Z.eqb (m_id m0) id)) (ns_shards ns)) as [|x r] eqn:Ef.
    - split; [|split; [reflexivity|]]; cbn [st_ns st_idgen].
      + constructor; cbn [st_ns st_idgen].
        * apply ns_remove_names. exact (inv_names _ HI).
        * apply ns_remove_ids. exact (inv_ids _ HI).
        * intros i Hi. apply (inv_lt _ HI). apply all_ids_shard_in in Hi. destruct Hi as (n & s & Hs & Hsid).
          apply ns_remove_shard_in in Hs. apply all_ids_shard_in. exists n, s. tauto.
        * intros p Hp. apply ns_remove_In in Hp. apply (inv_ok _ HI). tauto.
        * exact (inv_nonneg _ HI).
      + intros n s. apply ns_remove_shard_in.
    - rewrite <- Ef. set (shards' := filter _ (ns_shards ns)) in *.
      set (v' := mkNs (ns_rf ns) shards').
      set (h := fun p : N * nsstatus => if N.eqb (fst p) name then (name, v') else p).
      change (ns_replace name v' (st_ns st)) with (map h (st_ns st)).
      assert (Hh : forall p, In p (st_ns st) -> (h p = p /\ fst p <> name) \/ (h p = (name, v') /\ p = (name, ns))).
      { intros p Hp. unfold h. destruct (N.eqb_spec (fst p) name) as [E|E]; [right | left; tauto].
        split; [reflexivity|]. destruct p as [k w]; cbn in E; subst k.
        rewrite (nodup_fst_inj _ _ _ _ (inv_names _ HI) Hp Hin). reflexivity. }
      assert (Hts : ns_tshards v' = filter (fun s => negb (Z.eqb (sid s) id)) (ns_tshards ns)).
      { unfold ns_tshards, v', shards'; cbn [ns_shards]. rewrite filter_map_comm. reflexivity. }
      assert (Hshr : forall p, In p (st_ns st) -> fst (h p) = fst p /\
                     exists f, ns_tshards (snd (h p)) = filter f (ns_tshards (snd p))).
      { intros p Hp. destruct (Hh p Hp) as [[-> _]|[-> ->]].
        - split; [reflexivity|]. exists (fun _ => true). symmetry. apply filter_all. reflexivity.
        - cbn. split; [reflexivity|]. eexists. exact Hts. }
      destruct (map_shrinks h (st_ns st) Hshr) as (Hnames & Hsub & Hnd).
      split; [|split; [reflexivity | exact Hsub]].
      constructor; cbn [st_ns st_idgen].
      + rewrite Hnames. exact (inv_names _ HI).
      + apply Hnd. exact (inv_ids _ HI).
      + intros i Hi. apply (inv_lt _ HI). apply all_ids_shard_in in Hi. destruct Hi as (n & s & Hs & Hsid).
        apply Hsub in Hs. apply all_ids_shard_in. exists n, s. tauto.
      + intros p Hp. apply in_map_iff in Hp. destruct Hp as (q & <- & Hq).
        destruct (Hh q Hq) as [[-> _]|[-> ->]]; [apply (inv_ok _ HI); exact Hq|]. cbn [snd].
        destruct (inv_ok _ HI _ Hin) as [Hne Hlive]. cbn [snd] in *.
        assert (Hl : live v' = live ns).
        { unfold live, v', shards'; cbn [ns_shards]. apply live_filter_id.
          intros y Hy Hyid. rewrite (same_id_same_meta st name ns m y HI Hin Hm Hy) by congruence. exact Hdel. }
        split.
        * unfold v'; cbn [ns_shards]. rewrite Ef. discriminate.
        * unfold assignments. rewrite Hl. exact Hlive.
      + exact (inv_nonneg _ HI).
  Qed.

  Lemma meta_inv name id s1 term leader ens st m :
    Inv st -> find_shard name id st = Some m -> is_deleting (m_st m) = false -> is_deleting s1 = false ->
    let st' := update_shard_metadata name (mkMeta id s1 term leader ens (m_min m) (m_max m)) st in
    Inv st' /\ st_idgen st' = st_idgen st /\
    (forall n s, shard_in (st_ns st') n s <-> shard_in (st_ns st) n s) /\
    (forall ns', ns_lookup name (st_ns st') = Some ns' ->
       exists ns, ns_lookup name (st_ns st) = Some ns /\ assignments ns' = assignments ns).
  Proof.
    intros HI Hfind Hm0 Hs1. destruct (find_shard_spec _ _ _ _ Hfind) as (ns & Hlook & Hm & Hid).
    pose proof (ns_lookup_In _ _ _ Hlook) as Hin.
    set (m' := mkMeta id s1 term leader ens (m_min m) (m_max m)).
    cbn zeta. unfold update_shard_metadata. rewrite Hlook.
    set (r := fun x : smeta => if Z.eqb (m_id x) (m_id m') then m' else x).
    assert (Hput : put_meta m' (ns_shards ns) = map r (ns_shards ns)).
    { unfold put_meta. replace (existsb _ (ns_shards ns)) with true; [reflexivity|].
      symmetry. apply existsb_exists. exists m. split; [exact Hm | apply Z.eqb_eq; exact Hid]. }
    rewrite Hput.
    assert (Hr : forall x, In x (ns_shards ns) ->
                 is_deleting (m_st (r x)) = is_deleting (m_st x) /\ to_shard (r x) = to_shard x).
    { intros x Hx. unfold r. cbn [m_id m']. destruct (Z.eqb_spec (m_id x) id) as [E|E]; [|tauto].
      rewrite (same_id_same_meta st name ns m x HI Hin Hm Hx) by congruence.
      cbn [m_st m']. rewrite Hm0, Hs1. split; [reflexivity|].
      unfold to_shard; cbn [m_id m_min m_max m']. rewrite Hid. reflexivity. }
    set (v' := mkNs (ns_rf ns) (map r (ns_shards ns))).
    set (h := fun p : N * nsstatus => if N.eqb (fst p) name then (name, v') else p).
    change (ns_replace name v' (st_ns st)) with (map h (st_ns st)).
    assert (Hh : forall p, In p (st_ns st) -> (h p = p /\ fst p <> name) \/ (h p = (name, v') /\ p = (name, ns))).
    { intros p Hp. unfold h. destruct (N.eqb_spec (fst p) name) as [E|E]; [right | left; tauto].
      split; [reflexivity|]. destruct p as [k w]; cbn in E; subst k.
      rewrite (nodup_fst_inj _ _ _ _ (inv_names _ HI) Hp Hin). reflexivity. }
    assert (Hts : ns_tshards v' = ns_tshards ns).
    { unfold ns_tshards, v'; cbn [ns_shards]. rewrite map_map. apply map_ext_in. intros x Hx. apply Hr. exact Hx. }
    assert (Has : assignments v' = assignments ns).
    { unfold assignments, live, v'; cbn [ns_shards]. apply assignments_map_same. exact Hr. }
    assert (Hkeep : forall p, In p (st_ns st) -> fst (h p) = fst p /\ ns_tshards (snd (h p)) = ns_tshards (snd p)).
    { intros p Hp. destruct (Hh p Hp) as [[-> _]|[-> ->]]; [tauto|]. cbn. tauto. }
    destruct (map_keeps h (st_ns st) Hkeep) as (Hnames & Hids & Hshards).
    split; [|split; [reflexivity | split; [exact Hshards|]]]; cbn [st_ns st_idgen].
    - constructor; cbn [st_ns st_idgen].
      + rewrite Hnames. exact (inv_names _ HI).
      + rewrite Hids. exact (inv_ids _ HI).
      + rewrite Hids. exact (inv_lt _ HI).
      + intros p Hp. apply in_map_iff in Hp. destruct Hp as (q & <- & Hq).
        destruct (Hh q Hq) as [[-> _]|[-> ->]]; [apply (inv_ok _ HI); exact Hq|]. cbn [snd].
        destruct (inv_ok _ HI _ Hin) as [Hne Hlive]. cbn [snd] in *. split.
        * unfold v'; cbn [ns_shards]. intros E. apply map_eq_nil in E. exact (Hne E).
        * rewrite Has. destruct Hlive as [Hl|Hp]; [left | right; exact Hp].
          unfold assignments in Has. rewrite Hl in Has. cbn in Has. apply map_eq_nil in Has. exact Has.
      + exact (inv_nonneg _ HI).
    - intros ns' Hl'. exists ns. split; [reflexivity|].
      apply ns_lookup_In in Hl'. apply in_map_iff in Hl'. destruct Hl' as (q & Hq & Hqin).
      destruct (Hh q Hqin) as [[Hhq Hne]|[Hhq _]]; rewrite Hhq in Hq.
      + subst q. cbn in Hne. congruence.
      + injection Hq as <-. exact Has.
  Qed.

  Notation stepS := (step S supplier).
  Notation runS := (run S supplier).

  Lemma step_inv st sup o :
    Inv st -> op_in_domain o -> (st_idgen st + req_op o < I64)%Z ->
    Inv (fst (stepS (st, sup) o)) /\
    (st_idgen st <= st_idgen (fst (stepS (st, sup) o)) <= st_idgen st + req_op o)%Z /\
    (forall n s, shard_in (st_ns (fst (stepS (st, sup) o))) n s ->
                 shard_in (st_ns st) n s \/ (st_idgen st <= sid s)%Z).
  Proof.
    intros HI Hdom Hsum.
    assert (Happly : forall cfg, cfg_in_domain cfg -> (st_idgen st + requested_cfg cfg < I64)%Z ->
      let r := match apply_cluster_changes S supplier cfg st sup with
               | (None, sup1) => (st, sup1)
               | (Some (st1, _, _), sup1) => (st1, sup1)
               end in
      Inv (fst r) /\ (st_idgen st <= st_idgen (fst r) <= st_idgen st + requested_cfg cfg)%Z /\
      (forall n s, shard_in (st_ns (fst r)) n s -> shard_in (st_ns st) n s \/ (st_idgen st <= sid s)%Z)).
    { intros cfg Hd Hs. cbn zeta.
      pose proof (sum_counts_nonneg (cfg_ns cfg)) as Hnn. unfold sum_counts in Hnn. fold (requested_cfg cfg) in Hnn.
      destruct (apply_cluster_changes S supplier cfg st sup) as [[[[st1 ta] td]|] sup1] eqn:E; cbn [fst].
      + destruct (apply_inv _ _ _ _ _ _ _ HI Hd Hs E) as (H1 & H2 & H3 & _). tauto.
      + split; [exact HI | split; [lia | tauto]]. }
    destruct o as [cfg|name id|name id s1 term leader ens|cfg|cfg]; cbn [step req_op] in *;
      [exact (Happly cfg Hdom Hsum) | | | exact (Happly cfg Hdom Hsum) | cbn [fst]; split; [exact HI | split; [lia | tauto]]].
    - destruct (find_shard name id st) as [m|] eqn:Ef; cbn [fst]; [|split; [exact HI | split; [lia | tauto]]].
      destruct (is_deleting (m_st m)) eqn:Ed; cbn [fst]; [|split; [exact HI | split; [lia | tauto]]].
      destruct (delete_inv _ _ _ _ HI Ef Ed) as (H1 & H2 & H3). rewrite H2.
      split; [exact H1 | split; [lia|]]. intros n s Hs. left. apply H3. exact Hs.
    - destruct (find_shard name id st) as [m|] eqn:Ef; cbn [fst]; [|split; [exact HI | split; [lia | tauto]]].
      destruct (is_deleting (m_st m)) eqn:Ed; cbn [orb fst]; [split; [exact HI | split; [lia | tauto]]|].
      destruct (is_deleting s1) eqn:Es; cbn [fst]; [split; [exact HI | split; [lia | tauto]]|].
      destruct (meta_inv name id s1 term leader ens st m HI Ef Ed Es) as (H1 & H2 & H3 & _). cbn zeta in *.
      rewrite H2. split; [exact H1 | split; [lia|]]. intros n s Hs. left. apply H3. exact Hs.
  Qed.

  Lemma run_app s a b : runS s (a ++ b) = runS (runS s a) b.
  Proof. unfold run. apply fold_left_app. Qed.

  Theorem run_inv ops : forall st sup,
    Inv st -> Forall op_in_domain ops -> (st_idgen st + requested ops < I64)%Z ->
    Inv (fst (runS (st, sup) ops)) /\
    (st_idgen st <= st_idgen (fst (runS (st, sup) ops)) <= st_idgen st + requested ops)%Z /\
    (forall n s, shard_in (st_ns (fst (runS (st, sup) ops))) n s ->
                 shard_in (st_ns st) n s \/ (st_idgen st <= sid s)%Z).
  Proof.
    induction ops as [|o ops IH]; intros st sup HI Hdom Hsum.
    - cbn. split; [exact HI | split; [lia | tauto]].
    - inversion Hdom as [|? ? Ho Hops]; subst. rewrite requested_cons in Hsum.
      pose proof (requested_nonneg ops) as Hnn.
      destruct (step_inv st sup o HI Ho ltac:(lia)) as (H1 & H2 & H3).
      change (runS (st, sup) (o :: ops)) with (runS (stepS (st, sup) o) ops).
      destruct (stepS (st, sup) o) as [st1 sup1] eqn:E. cbn [fst] in *.
      destruct (IH st1 sup1 H1 Hops ltac:(lia)) as (I1 & I2 & I3).
      rewrite requested_cons. split; [exact I1 | split; [lia|]].
      intros n s Hs. destruct (I3 n s Hs) as [Hin|Hge]; [|right; lia].
      destruct (H3 n s Hin) as [Hin0|Hge]; [left; exact Hin0 | right; lia].
  Qed.
End Steps.

(* ------------------------------------------------------------------ *)
(* main theorems: every history from the initial status                *)

Lemma assignments_in_tshards ns s : In s (assignments ns) -> In s (ns_tshards ns).
Proof.
  unfold assignments, ns_tshards, live. intros H. apply in_map_iff in H. destruct H as (m & <- & Hm).
  apply filter_In in Hm. apply in_map. tauto.
Qed.

Section Main.
  Variable S : Type.
  Variable supplier : S -> nsconfig -> cstatus -> option (list N) * S.
  Notation runS := (run S supplier).

  (* shard ids are unique over the whole status and below the generator; every stored namespace has shards
     and what is published for it is nothing (it is being deleted) or a partition of [0, 2^32) *)
  Theorem status_invariant sup0 ops :
    Forall op_in_domain ops -> (requested ops < I64)%Z ->
    let st := fst (runS (init_status, sup0) ops) in
    NoDup (all_ids (st_ns st)) /\
    (forall id, In id (all_ids (st_ns st)) -> (0 <= id < st_idgen st)%Z) /\
    (forall name ns, In (name, ns) (st_ns st) ->
       ns_shards ns <> [] /\ (assignments ns = [] \/ partition (assignments ns))).
  Proof.
    intros Hdom Hsum. cbn zeta.
    destruct (run_inv S supplier ops init_status sup0 init_inv Hdom Hsum) as (HI & _ & _).
    split; [exact (inv_ids _ HI) | split; [exact (inv_lt _ HI)|]].
    intros name ns Hin. destruct (inv_ok _ HI _ Hin) as [Hne [Hl|Hp]]; cbn [snd] in *.
    - split; [exact Hne | left]. unfold assignments. rewrite Hl. reflexivity.
    - split; [exact Hne | right; exact Hp].
  Qed.

  Lemma reach_inv sup0 ops :
    Forall op_in_domain ops -> (requested ops < I64)%Z ->
    Inv (fst (runS (init_status, sup0) ops)) /\ (st_idgen (fst (runS (init_status, sup0) ops)) <= requested ops)%Z.
  Proof.
    intros Hdom Hsum. destruct (run_inv S supplier ops init_status sup0 init_inv Hdom Hsum) as (HI & Hle & _).
    cbn [st_idgen init_status] in Hle. split; [exact HI | lia].
  Qed.

  (* the generator never decreases *)
  Theorem generator_monotone sup0 ops1 ops2 :
    Forall op_in_domain (ops1 ++ ops2) -> (requested (ops1 ++ ops2) < I64)%Z ->
    (st_idgen (fst (runS (init_status, sup0) ops1)) <= st_idgen (fst (runS (init_status, sup0) (ops1 ++ ops2))))%Z.
  Proof.
    intros Hdom Hsum. apply Forall_app in Hdom. destruct Hdom as [Hd1 Hd2].
    rewrite requested_app in Hsum. pose proof (requested_nonneg ops2) as Hn2.
    destruct (reach_inv sup0 ops1 Hd1 ltac:(lia)) as [HI Hle].
    rewrite run_app. destruct (runS (init_status, sup0) ops1) as [s1 sup1]. cbn [fst] in *.
    destruct (run_inv S supplier ops2 s1 sup1 HI Hd2 ltac:(lia)) as (_ & H & _). lia.
  Qed.

  (* a shard that is in the status after more steps and whose id was already handed out before them
     was there before, in the same namespace and with the same hash range *)
  Theorem shard_keeps_namespace_and_range sup0 ops1 ops2 name s :
    Forall op_in_domain (ops1 ++ ops2) -> (requested (ops1 ++ ops2) < I64)%Z ->
    let s1 := fst (runS (init_status, sup0) ops1) in
    let s2 := fst (runS (init_status, sup0) (ops1 ++ ops2)) in
    shard_in (st_ns s2) name s -> (sid s < st_idgen s1)%Z -> shard_in (st_ns s1) name s.
  Proof.
    intros Hdom Hsum. cbn zeta. apply Forall_app in Hdom. destruct Hdom as [Hd1 Hd2].
    rewrite requested_app in Hsum. pose proof (requested_nonneg ops2) as Hn2.
    destruct (reach_inv sup0 ops1 Hd1 ltac:(lia)) as [HI Hle].
    rewrite run_app. destruct (runS (init_status, sup0) ops1) as [s1 sup1]. cbn [fst] in *.
    destruct (run_inv S supplier ops2 s1 sup1 HI Hd2 ltac:(lia)) as (_ & _ & H).
    intros Hin Hlt. destruct (H name s Hin) as [Hs|Hge]; [exact Hs | lia].
  Qed.

  (* ids are never reused: an id that was in the status and has disappeared never comes back *)
  Theorem ids_never_reused sup0 ops1 ops2 ops3 id :
    Forall op_in_domain (ops1 ++ ops2 ++ ops3) -> (requested (ops1 ++ ops2 ++ ops3) < I64)%Z ->
    In id (all_ids (st_ns (fst (runS (init_status, sup0) ops1)))) ->
    ~ In id (all_ids (st_ns (fst (runS (init_status, sup0) (ops1 ++ ops2))))) ->
    ~ In id (all_ids (st_ns (fst (runS (init_status, sup0) (ops1 ++ ops2 ++ ops3))))).
  Proof.
    intros Hdom Hsum H1 H2 H3.
    pose proof (requested_nonneg ops1) as Hn1. pose proof (requested_nonneg ops2) as Hn2.
    pose proof (requested_nonneg ops3) as Hn3.
    rewrite !requested_app in Hsum.
    assert (Hd := Hdom). apply Forall_app in Hd. destruct Hd as [Hd1 Hd23].
    apply Forall_app in Hd23. destruct Hd23 as [Hd2 Hd3].
    destruct (reach_inv sup0 ops1 Hd1 ltac:(lia)) as [HI1 Hle1].
    pose proof (inv_lt _ HI1 id H1) as Hlt.
    assert (Hd12 : Forall op_in_domain (ops1 ++ ops2)) by (apply Forall_app; tauto).
    pose proof (generator_monotone sup0 ops1 ops2 Hd12 ltac:(rewrite requested_app; lia)) as Hmono.
    destruct (reach_inv sup0 (ops1 ++ ops2) Hd12 ltac:(rewrite requested_app; lia)) as [HI2 Hle2].
    rewrite requested_app in Hle2.
    rewrite app_assoc, run_app in H3.
    destruct (runS (init_status, sup0) (ops1 ++ ops2)) as [s2 sup2]. cbn [fst] in *.
    destruct (run_inv S supplier ops3 s2 sup2 HI2 Hd3 ltac:(lia)) as (_ & _ & H).
    apply all_ids_shard_in in H3. destruct H3 as (n & s & Hs & Hsid).
    destruct (H n s Hs) as [Hin|Hge]; [|lia].
    apply H2. apply all_ids_shard_in. exists n, s. tauto.
  Qed.

  (* what is published for a namespace at two moments of a history agrees on the shards with the same id *)
  Theorem published_ids_keep_ranges sup0 ops1 ops2 name ns1 ns2 x u :
    Forall op_in_domain (ops1 ++ ops2) -> (requested (ops1 ++ ops2) < I64)%Z ->
    In (name, ns1) (st_ns (fst (runS (init_status, sup0) ops1))) ->
    In (name, ns2) (st_ns (fst (runS (init_status, sup0) (ops1 ++ ops2)))) ->
    In x (assignments ns1) -> In u (assignments ns2) -> sid x = sid u -> x = u.
  Proof.
    intros Hdom Hsum Hin1 Hin2 Hx Hu Hid.
    assert (Hd := Hdom). apply Forall_app in Hd. destruct Hd as [Hd1 Hd2].
    pose proof (requested_nonneg ops2) as Hn2. rewrite requested_app in Hsum.
    destruct (reach_inv sup0 ops1 Hd1 ltac:(lia)) as [HI1 _].
    apply assignments_in_tshards in Hx. apply assignments_in_tshards in Hu.
    assert (Hlt : (sid u < st_idgen (fst (runS (init_status, sup0) ops1)))%Z).
    { rewrite <- Hid. apply (inv_lt _ HI1). apply all_ids_shard_in. exists name, x.
      split; [exists ns1; tauto | reflexivity]. }
    pose proof (shard_keeps_namespace_and_range sup0 ops1 ops2 name u Hdom
                  ltac:(rewrite requested_app; lia) ltac:(exists ns2; tauto) Hlt) as (ns1' & Hin1' & Hu1).
    rewrite (nodup_fst_inj _ _ _ _ (inv_names _ HI1) Hin1' Hin1) in Hu1.
    pose proof (ns_ids_NoDup _ _ _ (inv_ids _ HI1) Hin1) as Hnd. unfold ns_ids in Hnd.
    exact (nodup_map_eq sid _ x u Hnd Hx Hu1 Hid).
  Qed.

  (* O-18(b), what can be proved: after a config change every configured namespace that the status holds is
     published as a partition -- provided none of its shards was still being deleted when the change came in *)
  Theorem configured_namespaces_partitioned_partial sup0 ops cfg st' ta td sup' :
    Forall op_in_domain (ops ++ [OpApply cfg]) -> (requested (ops ++ [OpApply cfg]) < I64)%Z ->
    let s := runS (init_status, sup0) ops in
    apply_cluster_changes S supplier cfg (fst s) (snd s) = (Some (st', ta, td), sup') ->
    forall nc ns', In nc (cfg_ns cfg) -> ns_lookup (nc_name nc) (st_ns st') = Some ns' ->
      (forall ns, ns_lookup (nc_name nc) (st_ns (fst s)) = Some ns ->
                  forall m, In m (ns_shards ns) -> is_deleting (m_st m) = false) ->
      partition (assignments ns').
  Proof.
    intros Hdom Hsum. cbn zeta. intros Happ. apply Forall_app in Hdom. destruct Hdom as [Hd1 Hd2].
    inversion Hd2 as [|? ? Hcfg _]; subst. cbn [op_in_domain] in Hcfg.
    rewrite requested_app, requested_cons in Hsum. cbn [req_op requested fold_right] in Hsum.
    pose proof (sum_counts_nonneg (cfg_ns cfg)) as Hnn. unfold sum_counts in Hnn. fold (requested_cfg cfg) in Hnn.
    destruct (reach_inv sup0 ops Hd1 ltac:(lia)) as [HI Hle].
    destruct (apply_inv S supplier _ _ _ _ _ _ _ HI Hcfg ltac:(lia) Happ) as (_ & _ & _ & H). exact H.
  Qed.
End Main.

(* ------------------------------------------------------------------ *)
(* O-18(b): a namespace that is added again while the shards of its previous incarnation are still being
   deleted counts as existing, gets no new shards and is published with zero shards (confirmed on the real
   coordinator code: known finding status:namespace-not-partitioned:readded-while-deleting) *)

Definition const_supplier (s : unit) (nc : nsconfig) (ed : cstatus) : option (list N) * unit := (Some [1], tt).
Definition cfg_one : cconfig := mkCfg [mkNc 1 2 1] [1; 2; 3].
Definition cfg_none : cconfig := mkCfg [] [1; 2; 3].

Theorem readded_namespace_refuted :
  exists ops cfg nc ns,
    Forall op_in_domain (ops ++ [OpApply cfg]) /\ (requested (ops ++ [OpApply cfg]) < I64)%Z /\
    In nc (cfg_ns cfg) /\
    ns_lookup (nc_name nc) (st_ns (fst (run unit const_supplier (init_status, tt) (ops ++ [OpApply cfg])))) = Some ns /\
    assignments ns = [] /\ ~ partition (assignments ns).
Proof.
  exists [OpApply cfg_one; OpApply cfg_none], cfg_one, (mkNc 1 2 1).
  eexists. split; [|split; [|split; [|split; [|split]]]].
  - repeat constructor; cbn; lia.
  - vm_compute. reflexivity.
  - left. reflexivity.
  - vm_compute. reflexivity.
  - reflexivity.
  - intros H. exact (partition_nonempty _ H eq_refl).
Qed.

(* non-vacuity: a history with two namespaces, an election result, a removal, deletion completions and a
   namespace coming back with fresh ids satisfies the hypotheses and ends in a non-trivial status *)
Definition example_ops : list op :=
  [ OpApply (mkCfg [mkNc 1 2 1; mkNc 2 3 2] [1; 2; 3]);
    OpMeta 2 3 SSteady 0 (Some 1) [1; 2];
    OpApply (mkCfg [mkNc 2 3 2] [1; 2; 3]);
    OpDeleted 1 0; OpDeleted 1 1;
    OpRestart (mkCfg [mkNc 2 3 2] [1; 2; 3]);
    OpApply (mkCfg [mkNc 2 3 2; mkNc 1 4 1] [1; 2]) ].

Example example_history :
  Forall op_in_domain example_ops /\ (requested example_ops < I64)%Z /\
  let st := fst (run unit const_supplier (init_status, tt) example_ops) in
  st_idgen st = 9%Z /\ map fst (st_ns st) = [1; 2] /\
  map (fun p => map sid (assignments (snd p))) (st_ns st) = [[5; 6; 7; 8]; [2; 3; 4]]%Z.
Proof.
  split; [repeat constructor; cbn; lia | split; [vm_compute; reflexivity|]].
  vm_compute. repeat split.
Qed.
