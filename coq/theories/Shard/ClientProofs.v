(* The client's shard map (shard_manager.go:update, model [client_update]) against the assignments the
   coordinator publishes: after an update that is a partition the map is exactly that partition, and the
   client routes every hash code to the shard the published list names. *)
From Coq Require Import List NArith ZArith Bool Lia Permutation.
From Oxia.Shard Require Import Model Proofs Status StatusProofs.
Import ListNotations.
Open Scope N_scope.

Definition valid_range (s : shard) : Prop := smin s <= smax s /\ smax s < U32.

(* what the theorem needs of the map the client holds before the update: unique ids, well-formed ranges,
   no two entries overlap.  The empty map and every partition with unique ids qualify. *)
Record disjoint_map (m : list shard) : Prop := {
  dm_ids : NoDup (map sid m);
  dm_valid : forall x, In x m -> valid_range x;
  dm_disj : forall x y, In x m -> In y m -> x <> y -> overlap x y = false;
}.

Lemma disjoint_map_nil : disjoint_map [].
Proof. constructor; cbn; [constructor | tauto | tauto]. Qed.

Lemma overlap_false_l x y : smax x < smin y -> overlap x y = false /\ overlap y x = false.
Proof.
  intros H. unfold overlap. split; apply andb_false_iff.
  - right. apply N.leb_gt. exact H.
  - left. apply N.leb_gt. exact H.
Qed.

Lemma overlap_refl x : valid_range x -> overlap x x = true.
Proof. intros [H _]. unfold overlap. apply andb_true_iff. split; apply N.leb_le; exact H. Qed.

Lemma chained_lb next l : chained next l -> forall y, In y l -> next <= smin y /\ valid_range y.
Proof.
  revert next; induction l as [|s l IH]; intros next Hc y Hy; [contradiction|].
  cbn [chained] in Hc. destruct Hc as (H1 & H2 & H3 & H4). destruct Hy as [<-|Hy].
  - unfold valid_range. lia.
  - destruct (IH _ H4 y Hy) as [Hlb Hv]. split; [lia | exact Hv].
Qed.

Lemma chained_order next l1 x l2 :
  chained next (l1 ++ x :: l2) ->
  (forall y, In y l1 -> smax y < smin x) /\ (forall y, In y l2 -> smax x < smin y) /\ valid_range x.
Proof.
  revert next; induction l1 as [|a l1 IH]; intros next Hc; cbn [app chained] in Hc.
  - destruct Hc as (H1 & H2 & H3 & H4). split; [intros y []|]. split; [|unfold valid_range; lia].
    intros y Hy. destruct (chained_lb _ _ H4 y Hy) as [Hlb _]. lia.
  - destruct Hc as (H1 & H2 & H3 & H4). destruct (IH _ H4) as (Ha & Hb & Hv).
    split; [|tauto]. intros y [<-|Hy]; [|apply Ha; exact Hy].
    destruct (chained_lb _ _ H4 x ltac:(apply in_or_app; right; left; reflexivity)) as [Hlb _]. lia.
Qed.

Lemma partition_disjoint_map l : partition l -> NoDup (map sid l) -> disjoint_map l.
Proof.
  intros Hp Hnd. constructor; [exact Hnd | |].
  - intros x Hx. exact (proj2 (chained_lb _ _ Hp x Hx)).
  - intros x y Hx Hy Hne. apply in_split in Hx. destruct Hx as (l1 & l2 & ->).
    destruct (chained_order _ _ _ _ Hp) as (Ha & Hb & _).
    apply in_app_or in Hy. destruct Hy as [Hy|[Hy|Hy]]; [|congruence|].
    + apply (overlap_false_l y x). apply Ha. exact Hy.
    + apply (overlap_false_l x y). apply Hb. exact Hy.
Qed.

Lemma disjoint_map_same_elements a b :
  disjoint_map a -> (forall x, In x b <-> In x a) -> NoDup (map sid b) -> disjoint_map b.
Proof.
  intros [H1 H2 H3] Heq Hnd. constructor; [exact Hnd | |].
  - intros x Hx. apply H2. apply Heq. exact Hx.
  - intros x y Hx Hy. apply H3; apply Heq; assumption.
Qed.

(* membership in one step of the client's update loop *)
Lemma has_id_spec i l : has_id i l = true <-> exists y, In y l /\ sid y = i.
Proof.
  unfold has_id. rewrite existsb_exists. split; intros (y & Hy & E); exists y; (split; [exact Hy|]).
  - apply Z.eqb_eq. exact E.
  - apply Z.eqb_eq. exact E.
Qed.

Lemma update_one_In M u x :
  In x (update_one M u) <->
  x = u \/ (In x M /\ if has_id (sid u) M then sid x <> sid u else overlap u x = false).
Proof.
  unfold update_one. destruct (has_id (sid u) M); cbn [In]; unfold remove_id; rewrite filter_In.
  - destruct (Z.eqb_spec (sid x) (sid u)); cbn; intuition congruence.
  - destruct (overlap u x); cbn; intuition congruence.
Qed.

Lemma update_one_NoDup M u : NoDup (map sid M) -> NoDup (map sid (update_one M u)).
Proof.
  intros Hnd. unfold update_one. destruct (has_id (sid u) M) eqn:E; cbn [map]; constructor.
  - intros Hin. apply in_map_iff in Hin. destruct Hin as (y & Hy & Hyin). unfold remove_id in Hyin.
    apply filter_In in Hyin. destruct Hyin as [_ Hne]. rewrite Hy, Z.eqb_refl in Hne. discriminate.
  - apply nodup_map_filter. exact Hnd.
  - intros Hin. apply in_map_iff in Hin. destruct Hin as (y & Hy & Hyin). apply filter_In in Hyin.
    assert (has_id (sid u) M = true) by (apply has_id_spec; exists y; tauto). congruence.
  - apply nodup_map_filter. exact Hnd.
Qed.

Section Update.
  Variables (m upd : list shard).
  Hypothesis Hm : disjoint_map m.
  Hypothesis Hupd : partition upd.
  Hypothesis Hupd_ids : NoDup (map sid upd).
  (* an id the client already knows keeps its range *)
  Hypothesis Hsame : forall x u, In x m -> In u upd -> sid x = sid u -> x = u.

  (* the map after the updates [done] have been processed *)
  Definition P (M done : list shard) : Prop :=
    forall x, In x M <-> (In x done \/ (In x m /\ forall u, In u done -> overlap u x = false)).

  Lemma update_step done u rest M :
    upd = done ++ u :: rest -> P M done -> P (update_one M u) (done ++ [u]).
  Proof.
    intros Hsplit HP.
    assert (Hu : In u upd) by (rewrite Hsplit; apply in_or_app; right; left; reflexivity).
    unfold partition in Hupd. rewrite Hsplit in Hupd. destruct (chained_order _ _ _ _ Hupd) as (Hbefore & _ & Hvalid).
    assert (F1 : forall y, In y done -> sid y <> sid u /\ overlap u y = false).
    { intros y Hy. split.
      - intros E. rewrite Hsplit, map_app in Hupd_ids. apply nodup_app_iff in Hupd_ids.
        destruct Hupd_ids as (_ & _ & Hd). apply (Hd (sid y)); [apply in_map; exact Hy|].
        cbn [map]. left. symmetry. exact E.
      - apply (overlap_false_l y u). apply Hbefore. exact Hy. }
    intros x. rewrite update_one_In. destruct (has_id (sid u) M) eqn:Eh.
    - apply has_id_spec in Eh. destruct Eh as (y & Hy & Hyid).
      assert (Hum : In u m).
      { apply HP in Hy. destruct Hy as [Hy|[Hy _]]; [exfalso; exact (proj1 (F1 y Hy) Hyid)|].
        rewrite <- (Hsame y u Hy Hu Hyid). exact Hy. }
      split.
      + intros [->|[Hx Hne]]; [left; apply in_or_app; right; left; reflexivity|].
        apply HP in Hx. destruct Hx as [Hx|[Hx Hno]]; [left; apply in_or_app; left; exact Hx|].
        right. split; [exact Hx|]. intros u' Hu'. apply in_app_or in Hu'. destruct Hu' as [Hu'|[<-|[]]]; [apply Hno; exact Hu'|].
        apply (dm_disj _ Hm); [exact Hum | exact Hx | congruence].
      + intros [Hx|[Hx Hno]].
        * apply in_app_or in Hx. destruct Hx as [Hx|[<-|[]]]; [|left; reflexivity].
          right. split; [apply HP; left; exact Hx | exact (proj1 (F1 x Hx))].
        * assert (Hxu : x <> u).
          { intros ->. assert (Hin : In u (done ++ [u])) by (apply in_or_app; right; left; reflexivity).
            specialize (Hno u Hin). rewrite (overlap_refl u Hvalid) in Hno. discriminate. }
          right. split.
          -- apply HP. right. split; [exact Hx|]. intros u' Hu'. apply Hno. apply in_or_app; left; exact Hu'.
          -- intros E. apply Hxu. exact (nodup_map_eq sid m x u (dm_ids _ Hm) Hx Hum E).
    - split.
      + intros [->|[Hx Hno]]; [left; apply in_or_app; right; left; reflexivity|].
        apply HP in Hx. destruct Hx as [Hx|[Hx Hno']]; [left; apply in_or_app; left; exact Hx|].
        right. split; [exact Hx|]. intros u' Hu'. apply in_app_or in Hu'. destruct Hu' as [Hu'|[<-|[]]]; [apply Hno'; exact Hu' | exact Hno].
      + intros [Hx|[Hx Hno]].
        * apply in_app_or in Hx. destruct Hx as [Hx|[<-|[]]]; [|left; reflexivity].
          right. split; [apply HP; left; exact Hx | exact (proj2 (F1 x Hx))].
        * right. split.
          -- apply HP. right. split; [exact Hx|]. intros u' Hu'. apply Hno. apply in_or_app; left; exact Hu'.
          -- apply Hno. apply in_or_app; right; left; reflexivity.
  Qed.

  Lemma update_fold rest : forall done M,
    upd = done ++ rest -> P M done -> NoDup (map sid M) ->
    P (fold_left update_one rest M) upd /\ NoDup (map sid (fold_left update_one rest M)).
  Proof.
    induction rest as [|u rest IH]; intros done M Hsplit HP Hnd; cbn [fold_left].
    - rewrite app_nil_r in Hsplit. subst done. tauto.
    - apply (IH (done ++ [u])).
      + rewrite <- app_assoc. exact Hsplit.
      + exact (update_step done u rest M Hsplit HP).
      + apply update_one_NoDup. exact Hnd.
  Qed.

  (* a stale entry cannot survive: the update covers the hash space, so something in it overlaps the entry *)
  Lemma stale_is_overlapped x : valid_range x -> exists u, In u upd /\ overlap u x = true.
  Proof.
    intros [Hle Hlt]. destruct (route_unique upd (smin x) Hupd ltac:(lia)) as (s & Hr & Hs).
    exists s. split; [exact Hs|].
    assert (Hin : In s (route upd (smin x))) by (rewrite Hr; left; reflexivity).
    unfold route in Hin. apply filter_In in Hin. destruct Hin as [_ Hir]. unfold in_range in Hir.
    apply andb_true_iff in Hir. rewrite !N.leb_le in Hir. unfold overlap. apply andb_true_iff.
    rewrite !N.leb_le. lia.
  Qed.

  Theorem client_update_elements :
    (forall x, In x (client_update m upd) <-> In x upd) /\ NoDup (map sid (client_update m upd)).
  Proof.
    assert (HP0 : P m []) by (intros x; cbn; intuition).
    destruct (update_fold upd [] m eq_refl HP0 (dm_ids _ Hm)) as [HP Hnd].
    split; [|exact Hnd]. intros x. unfold client_update. rewrite (HP x). split; [|tauto].
    intros [Hx|[Hx Hno]]; [exact Hx|]. exfalso.
    destruct (stale_is_overlapped x (dm_valid _ Hm x Hx)) as (u & Hu & Hov). rewrite (Hno u Hu) in Hov. discriminate.
  Qed.

  Theorem client_update_partition :
    Permutation (client_update m upd) upd /\ disjoint_map (client_update m upd).
  Proof.
    destruct client_update_elements as [Hel Hnd]. split.
    - apply NoDup_Permutation; [exact (NoDup_map_inv _ _ Hnd) | exact (NoDup_map_inv _ _ Hupd_ids) | exact Hel].
    - exact (disjoint_map_same_elements upd _ (partition_disjoint_map upd Hupd Hupd_ids) Hel Hnd).
  Qed.
End Update.

Lemma permutation_filter {A} (f : A -> bool) l l' : Permutation l l' -> Permutation (filter f l) (filter f l').
Proof.
  induction 1; cbn.
  - constructor.
  - destruct (f x); [constructor|]; assumption.
  - destruct (f x), (f y); try constructor; apply Permutation_refl.
  - eapply Permutation_trans; eassumption.
Qed.

(* the client routes like the published list *)
Theorem client_route_after_update m upd h :
  disjoint_map m -> partition upd -> NoDup (map sid upd) ->
  (forall x u, In x m -> In u upd -> sid x = sid u -> x = u) ->
  h < U32 ->
  exists s, route upd h = [s] /\ route (client_update m upd) h = [s] /\ In s upd.
Proof.
  intros Hm Hupd Hids Hsame Hh.
  destruct (route_unique upd h Hupd Hh) as (s & Hr & Hs). exists s. split; [exact Hr | split; [|exact Hs]].
  destruct (client_update_partition m upd Hm Hupd Hids Hsame) as [Hperm _].
  pose proof (permutation_filter (in_range h) _ _ Hperm) as Hp. fold (route (client_update m upd) h) in Hp.
  fold (route upd h) in Hp. rewrite Hr in Hp. apply Permutation_sym in Hp.
  exact (Permutation_length_1_inv Hp).
Qed.

(* ------------------------------------------------------------------ *)
(* server and client agree, along every history of the coordinator     *)

Lemma client_receive_spec name st ns m :
  ns_lookup name (st_ns st) = Some ns ->
  client_receive name (compute_assignments st) m = Some (client_update m (assignments ns)).
Proof.
  unfold client_receive, compute_assignments, filter_by_namespace. generalize (st_ns st) as l.
  induction l as [|[k v] l IH]; cbn [ns_lookup map filter fst snd]; [discriminate|].
  destruct (N.eqb_spec k name) as [->|Hne].
  - intros [= ->]. cbn [pub_lookup fst snd]. rewrite N.eqb_refl. unfold assignments. rewrite map_map. reflexivity.
  - exact IH.
Qed.

Lemma assignments_ids_NoDup (l : nsmap) name ns :
  NoDup (all_ids l) -> In (name, ns) l -> NoDup (map sid (assignments ns)).
Proof.
  intros Hnd Hin. pose proof (ns_ids_NoDup _ _ _ Hnd Hin) as H. rewrite ns_ids_m_id in H.
  unfold assignments, live. rewrite map_map. cbn [to_shard sid].
  apply (nodup_map_filter m_id). exact H.
Qed.

Section Agreement.
  Variable S : Type.
  Variable supplier : S -> nsconfig -> cstatus -> option (list N) * S.
  Notation runS := (run S supplier).

  (* A client of namespace [name] that received the assignments published after [ops1] (its first message)
     and next the ones published after [ops1 ++ ops2] -- whatever happened to the namespace in between,
     including its deletion and re-creation -- holds exactly the shards of the second publication, and routes
     every hash code to the one shard that publication (the list the servers forward unchanged) names. *)
  Theorem client_server_agree sup0 ops1 ops2 name ns1 ns2 m1 m2 h :
    Forall op_in_domain (ops1 ++ ops2) -> (requested (ops1 ++ ops2) < I64)%Z ->
    let s1 := fst (runS (init_status, sup0) ops1) in
    let s2 := fst (runS (init_status, sup0) (ops1 ++ ops2)) in
    ns_lookup name (st_ns s1) = Some ns1 -> assignments ns1 <> [] ->
    ns_lookup name (st_ns s2) = Some ns2 -> assignments ns2 <> [] ->
    client_receive name (compute_assignments s1) [] = Some m1 ->
    client_receive name (compute_assignments s2) m1 = Some m2 ->
    h < U32 ->
    Permutation m2 (assignments ns2) /\
    exists s, route (assignments ns2) h = [s] /\ route m2 h = [s].
  Proof.
    intros Hdom Hsum. cbn zeta. intros Hl1 Hne1 Hl2 Hne2 Hr1 Hr2 Hh.
    rewrite (client_receive_spec _ _ _ _ Hl1) in Hr1. injection Hr1 as <-.
    rewrite (client_receive_spec _ _ _ _ Hl2) in Hr2. injection Hr2 as <-.
    assert (Hd := Hdom). apply Forall_app in Hd. destruct Hd as [Hd1 _].
    pose proof (requested_nonneg ops2) as Hn2. assert (Hsum' := Hsum). rewrite requested_app in Hsum'.
    destruct (reach_inv S supplier sup0 ops1 Hd1 ltac:(lia)) as [HI1 _].
    destruct (reach_inv S supplier sup0 (ops1 ++ ops2) Hdom Hsum) as [HI2 _].
    apply ns_lookup_In in Hl1. apply ns_lookup_In in Hl2.
    assert (Hp1 : partition (assignments ns1)).
    { destruct (inv_ok _ HI1 _ Hl1) as [_ [E|Hp]]; [|exact Hp]. cbn [snd] in E. unfold assignments in Hne1. rewrite E in Hne1. tauto. }
    assert (Hp2 : partition (assignments ns2)).
    { destruct (inv_ok _ HI2 _ Hl2) as [_ [E|Hp]]; [|exact Hp]. cbn [snd] in E. unfold assignments in Hne2. rewrite E in Hne2. tauto. }
    pose proof (assignments_ids_NoDup _ _ _ (inv_ids _ HI1) Hl1) as Hnd1.
    pose proof (assignments_ids_NoDup _ _ _ (inv_ids _ HI2) Hl2) as Hnd2.
    destruct (client_update_elements [] (assignments ns1) disjoint_map_nil Hp1 Hnd1 ltac:(intros ? ? [])) as [Hel1 _].
    destruct (client_update_partition [] (assignments ns1) disjoint_map_nil Hp1 Hnd1 ltac:(intros ? ? [])) as [_ Hdm1].
    assert (Hsame : forall x u, In x (client_update [] (assignments ns1)) -> In u (assignments ns2) -> sid x = sid u -> x = u).
    { intros x u Hx Hu. apply Hel1 in Hx.
      exact (published_ids_keep_ranges S supplier sup0 ops1 ops2 name ns1 ns2 x u Hdom Hsum Hl1 Hl2 Hx Hu). }
    destruct (client_update_partition _ _ Hdm1 Hp2 Hnd2 Hsame) as [Hperm _].
    split; [exact Hperm|].
    destruct (client_route_after_update _ _ h Hdm1 Hp2 Hnd2 Hsame Hh) as (s & H1 & H2 & _).
    exists s. tauto.
  Qed.
End Agreement.

(* non-vacuity of the client theorem: a two-shard map replaced by a three-shard partition with fresh ids *)
Example client_update_example :
  let m := [mkShard 0 0 2147483647; mkShard 1 2147483648 4294967295] in
  let upd := [mkShard 2 0 1431655765; mkShard 3 1431655766 2863311531; mkShard 4 2863311532 4294967295] in
  partition m /\ partition upd /\ NoDup (map sid upd) /\
  map sid (client_update m upd) = [4; 3; 2]%Z.
Proof.
  cbn zeta. split; [|split; [|split]].
  - apply chainedb_spec. vm_compute. reflexivity.
  - apply chainedb_spec. vm_compute. reflexivity.
  - cbn. repeat constructor; cbn; intuition discriminate.
  - vm_compute. reflexivity.
Qed.

(* ------------------------------------------------------------------ *)
(* The client's map entries carry the leader address besides id and range (internal.Shard); an assignment is
   published with an empty leader while the shard has none (bootstrap, new namespace, election).  [update]
   never looks at the leader: with ANY payload attached to the shards -- [option N] for "leader known or not" --
   the ids and ranges of the map after the update are those of the leaderless model, so
   c18_client_update_preserves_partition holds whether or not leaders are known, and every entry of the result
   is an entry of the old map or of the update, payload included. *)
Section Payload.
  Variable L : Type.
  Definition lshard : Type := (shard * L)%type.

  Definition update_one_l (m : list lshard) (u : lshard) : list lshard :=
    if has_id (sid (fst u)) (map fst m)
    then u :: filter (fun s => negb (Z.eqb (sid (fst s)) (sid (fst u)))) m
    else u :: filter (fun s => negb (overlap (fst u) (fst s))) m.

  Definition client_update_l (m us : list lshard) : list lshard := fold_left update_one_l us m.

  Lemma update_one_l_fst m u : map fst (update_one_l m u) = update_one (map fst m) (fst u).
  Proof.
    unfold update_one_l, update_one, remove_id. destruct (has_id (sid (fst u)) (map fst m)); cbn [map];
      rewrite filter_map_comm; reflexivity.
  Qed.

  Lemma client_update_l_fst us : forall m,
    map fst (client_update_l m us) = client_update (map fst m) (map fst us).
  Proof.
    unfold client_update_l, client_update. induction us as [|u us IH]; intros m; cbn [fold_left map]; [reflexivity|].
    rewrite IH, update_one_l_fst. reflexivity.
  Qed.

  Lemma client_update_l_In us : forall m x, In x (client_update_l m us) -> In x m \/ In x us.
  Proof.
    unfold client_update_l. induction us as [|u us IH]; intros m x Hx; cbn [fold_left] in Hx; [left; exact Hx|].
    destruct (IH _ _ Hx) as [H|H]; [|right; right; exact H].
    unfold update_one_l in H. destruct (has_id (sid (fst u)) (map fst m)); destruct H as [<-|H];
      try (right; left; reflexivity); apply filter_In in H; tauto.
  Qed.

  Theorem client_update_partition_with_leaders (m upd : list lshard) :
    disjoint_map (map fst m) -> partition (map fst upd) -> NoDup (map sid (map fst upd)) ->
    (forall x u, In x (map fst m) -> In u (map fst upd) -> sid x = sid u -> x = u) ->
    Permutation (map fst (client_update_l m upd)) (map fst upd) /\
    disjoint_map (map fst (client_update_l m upd)).
  Proof. intros H1 H2 H3 H4. rewrite client_update_l_fst. exact (client_update_partition _ _ H1 H2 H3 H4). Qed.
End Payload.

(* ------------------------------------------------------------------ *)
(* shardManagerImpl.update holds the write lock over the WHOLE received list, so readers (Get, GetAll) see the map
   before the update or the map after it: [client_update] is one atomic step and the theorems above are about
   exactly the maps a reader can observe.  The maps in between -- what a reader would see if the lock were
   released after every shard of the list -- are not partitions in general: *)
Fixpoint update_steps (m : list shard) (us : list shard) : list (list shard) :=
  match us with
  | [] => []
  | u :: tl => update_one m u :: update_steps (update_one m u) tl
  end.

Lemma last_nonempty_default {A} (l : list A) : forall x d d', last (x :: l) d = last (x :: l) d'.
Proof. induction l as [|y l IH]; intros x d d'; [reflexivity|]. cbn [last] in *. apply (IH y). Qed.

Lemma update_steps_last us : forall m, last (update_steps m us) m = client_update m us.
Proof.
  unfold client_update. induction us as [|u tl IH]; intros m; [reflexivity|].
  cbn [update_steps fold_left]. rewrite <- IH.
  destruct (update_steps (update_one m u) tl) eqn:E; [reflexivity|].
  rewrite (last_nonempty_default _ _ m (update_one m u)). cbn [last]. reflexivity.
Qed.

(* a one-shard namespace re-created with two fresh shards: after the first shard of the list has been applied the
   old shard is purged and the upper half of the hash space has no shard (Get panics "shard not found") *)
Theorem stepwise_update_exposes_hole_refuted :
  exists m upd mid h,
    partition m /\ partition upd /\ NoDup (map sid upd) /\
    (forall x u, In x m -> In u upd -> sid x <> sid u) /\
    In mid (update_steps m upd) /\ h < U32 /\ route mid h = [] /\ ~ partition mid.
Proof.
  exists [mkShard 0 0 4294967295],
         [mkShard 1 0 2147483647; mkShard 2 2147483648 4294967295],
         [mkShard 1 0 2147483647], 3221225472.
  split; [apply chainedb_spec; vm_compute; reflexivity|].
  split; [apply chainedb_spec; vm_compute; reflexivity|].
  split; [cbn; repeat constructor; cbn; intuition discriminate|].
  split; [intros x u [<-|[]] [<-|[<-|[]]]; cbn; discriminate|].
  split; [left; vm_compute; reflexivity|].
  split; [reflexivity|].
  split; [vm_compute; reflexivity|].
  intros H. apply chainedb_spec in H. vm_compute in H. discriminate.
Qed.
