(* Model of how the coordinator's cluster status evolves and what is published from it:

     coordinator/utils/cluster_updates.go   ApplyClusterChanges   (with fix O-18(a): a namespace is
                                            created as a whole or not at all)
     coordinator/resources/status_resource.go  DeleteShardMetadata, UpdateShardMetadata
     coordinator/coordinator.go             computeNewAssignments (what is pushed to the servers)
     server/assignment_dispatcher.go        filterByNamespace     (what a server forwards to a client)
     oxia/internal/shard_manager.go         receive               (what the client hands to update)

   Go maps are association lists; nothing below depends on their order (the driver sorts before
   printing).  Names of namespaces and servers are numbers.  uint32 / int64 arithmetic is written
   with explicit [mod 2^32] / [wrap64]; Go panics (division by zero in GenerateShards for a shard
   count of 0, [ServerIdx % uint32(len(config.Servers))] with an empty server list) are the explicit
   outcome [None].  The ensemble supplier is a parameter with its own state (the real selector is
   C19's business): it is called once per shard with the namespace config and the status being edited. *)
From Coq Require Import List NArith ZArith Bool.
From Oxia.Shard Require Import Model.
Import ListNotations.
Open Scope N_scope.

Definition I64 : Z := 9223372036854775808.   (* 2^63 *)
(* int64 two's-complement wrap of a mathematical integer *)
Definition wrap64 (z : Z) : Z := ((z + I64) mod (2 * I64) - I64)%Z.

(* model.ShardStatus: Unknown = 0, SteadyState = 1, Election = 2, Deleting = 3 *)
Inductive sstatus := SUnknown | SSteady | SElection | SDeleting.
Definition is_deleting (s : sstatus) : bool := match s with SDeleting => true | _ => false end.

Record smeta := mkMeta {
  m_id : Z; m_st : sstatus; m_term : Z; m_leader : option N; m_ens : list N; m_min : N; m_max : N }.
Record nsstatus := mkNs { ns_rf : N; ns_shards : list smeta }.
Definition nsmap := list (N * nsstatus).
Record cstatus := mkSt { st_ns : nsmap; st_idgen : Z; st_sidx : N }.

Record nsconfig := mkNc { nc_name : N; nc_count : N; nc_rf : N }.
Record cconfig := mkCfg { cfg_ns : list nsconfig; cfg_servers : list N }.

(* model.NewClusterStatus() *)
Definition init_status : cstatus := mkSt [] 0%Z 0.

Fixpoint ns_lookup (name : N) (l : nsmap) : option nsstatus :=
  match l with
  | [] => None
  | p :: tl => if N.eqb (fst p) name then Some (snd p) else ns_lookup name tl
  end.
Definition ns_remove (name : N) (l : nsmap) : nsmap := filter (fun p => negb (N.eqb (fst p) name)) l.
(* m[name] = v *)
Definition ns_set (name : N) (v : nsstatus) (l : nsmap) : nsmap := (name, v) :: ns_remove name l.
(* m[name] = v for a key that is present, in place *)
Definition ns_replace (name : N) (v : nsstatus) (l : nsmap) : nsmap :=
  map (fun p => if N.eqb (fst p) name then (name, v) else p) l.

Definition set_sidx (st : cstatus) (x : N) : cstatus := mkSt (st_ns st) (st_idgen st) x.

(* GenerateShards computes [Id: baseId + int64(i)] in int64 *)
Definition wrap_sid (s : shard) : shard := mkShard (wrap64 (sid s)) (smin s) (smax s).

Definition new_meta (sh : shard) (ens : list N) : smeta :=
  mkMeta (sid sh) SUnknown (-1)%Z None ens (smin sh) (smax sh).

Definition to_shard (m : smeta) : shard := mkShard (m_id m) (m_min m) (m_max m).
Definition live (ns : nsstatus) : list smeta := filter (fun m => negb (is_deleting (m_st m))) (ns_shards ns).
(* the shard list published for one namespace (computeNewAssignments skips Deleting shards;
   a shard without a leader is published with an empty leader string) *)
Definition assignments (ns : nsstatus) : list shard := map to_shard (live ns).

Definition mark_deleting (ns : nsstatus) : nsstatus :=
  mkNs (ns_rf ns)
       (map (fun m => mkMeta (m_id m) SDeleting (m_term m) (m_leader m) (m_ens m) (m_min m) (m_max m)) (ns_shards ns)).

Definition in_config (name : N) (names : list N) : bool := existsb (N.eqb name) names.

Section Apply.
  Variable S : Type.
  Variable supplier : S -> nsconfig -> cstatus -> option (list N) * S.

  Inductive fill_res := FPanic | FRefused | FDone (ms : list smeta) (ed : cstatus).

  (* the per-shard loop of a new namespace.  [ed] is newStatus (only its ServerIdx changes here),
     [nsrv] is uint32(len(config.Servers)). *)
  Fixpoint fill (nc : nsconfig) (nsrv : N) (ed : cstatus) (sup : S) (shards : list shard) : fill_res * S :=
    match shards with
    | [] => (FDone [] ed, sup)
    | sh :: tl =>
      let (r, sup1) := supplier sup nc ed in
      match r with
      | None => (FRefused, sup1)                       (* complete = false; break *)
      | Some ens =>
        if N.eqb nsrv 0 then (FPanic, sup1)            (* integer divide by zero *)
        else
          let ed1 := set_sidx ed (((st_sidx ed + nc_rf nc) mod U32) mod nsrv) in
          match fill nc nsrv ed1 sup1 tl with
          | (FDone ms ed2, sup2) => (FDone (new_meta sh ens :: ms) ed2, sup2)
          | other => other
          end
      end
    end.

  (* first loop of ApplyClusterChanges: namespaces of the config that the CURRENT status does not have *)
  Fixpoint add_namespaces (cur : nsmap) (nsrv : N) (ncs : list nsconfig) (ed : cstatus) (sup : S)
           (toadd : list (Z * N)) : option (cstatus * list (Z * N)) * S :=
    match ncs with
    | [] => (Some (ed, toadd), sup)
    | nc :: tl =>
      match ns_lookup (nc_name nc) cur with
      | Some _ => add_namespaces cur nsrv tl ed sup toadd
      | None =>
        match generate_shards (st_idgen ed) (nc_count nc) with
        | None => (None, sup)                          (* GenerateShards(_, 0): divide by zero *)
        | Some shards =>
          match fill nc nsrv ed sup (map wrap_sid shards) with
          | (FPanic, sup1) => (None, sup1)
          | (FRefused, sup1) =>
            (* nothing stored, ServerIdx restored, no ids consumed *)
            add_namespaces cur nsrv tl ed sup1 toadd
          | (FDone ms ed1, sup1) =>
            let ed2 := mkSt (ns_set (nc_name nc) (mkNs (nc_rf nc) ms) (st_ns ed1))
                            (wrap64 (st_idgen ed1 + Z.of_N (nc_count nc)))
                            (st_sidx ed1) in
            add_namespaces cur nsrv tl ed2 sup1 (toadd ++ map (fun m => (m_id m, nc_name nc)) ms)
          end
        end
      end
    end.

  (* second loop: namespaces of the CURRENT status that the config no longer has keep their shards, marked Deleting *)
  Definition remove_pass (names : list N) (cur ed : nsmap) : nsmap :=
    map (fun p => match ns_lookup (fst p) cur with
                  | Some old => if in_config (fst p) names then p else (fst p, mark_deleting old)
                  | None => p
                  end) ed.

  Definition to_delete (names : list N) (cur : nsmap) : list Z :=
    flat_map (fun p => if in_config (fst p) names then [] else map m_id (ns_shards (snd p))) cur.

  (* None = the call panics (the coordinator crashes, nothing is stored) *)
  Definition apply_cluster_changes (cfg : cconfig) (cur : cstatus) (sup : S)
    : option (cstatus * list (Z * N) * list Z) * S :=
    let nsrv := N.of_nat (length (cfg_servers cfg)) mod U32 in
    let names := map nc_name (cfg_ns cfg) in
    match add_namespaces (st_ns cur) nsrv (cfg_ns cfg) cur sup [] with
    | (None, sup1) => (None, sup1)
    | (Some (ed, toadd), sup1) =>
      (Some (mkSt (remove_pass names (st_ns cur) (st_ns ed)) (st_idgen ed) (st_sidx ed),
             toadd, to_delete names (st_ns cur)), sup1)
    end.
End Apply.

(* statusResource.DeleteShardMetadata *)
Definition delete_shard_metadata (name : N) (id : Z) (st : cstatus) : cstatus :=
  match ns_lookup name (st_ns st) with
  | None => st
  | Some ns =>
    match filter (fun m => negb (Z.eqb (m_id m) id)) (ns_shards ns) with
    | [] => mkSt (ns_remove name (st_ns st)) (st_idgen st) (st_sidx st)
    | shards => mkSt (ns_replace name (mkNs (ns_rf ns) shards) (st_ns st)) (st_idgen st) (st_sidx st)
    end
  end.

(* ns.Shards[shard] = shardMetadata *)
Definition put_meta (m : smeta) (l : list smeta) : list smeta :=
  if existsb (fun x => Z.eqb (m_id x) (m_id m)) l
  then map (fun x => if Z.eqb (m_id x) (m_id m) then m else x) l
  else l ++ [m].

(* statusResource.UpdateShardMetadata *)
Definition update_shard_metadata (name : N) (m : smeta) (st : cstatus) : cstatus :=
  match ns_lookup name (st_ns st) with
  | None => st
  | Some ns => mkSt (ns_replace name (mkNs (ns_rf ns) (put_meta m (ns_shards ns))) (st_ns st)) (st_idgen st) (st_sidx st)
  end.

(* coordinator.computeNewAssignments: per namespace the non-deleting shards with their leader *)
Definition compute_assignments (st : cstatus) : list (N * list (shard * option N)) :=
  map (fun p => (fst p, map (fun m => (to_shard m, m_leader m)) (live (snd p)))) (st_ns st).

Fixpoint pub_lookup (name : N) (l : list (N * list (shard * option N))) : option (list (shard * option N)) :=
  match l with
  | [] => None
  | p :: tl => if N.eqb (fst p) name then Some (snd p) else pub_lookup name tl
  end.

(* server side: what the dispatcher forwards to a client of [name] (filterByNamespace), and client side:
   shardManagerImpl.receive takes response.Namespaces[namespace] and hands the shards to update;
   None = "namespace not found in shards assignments" *)
Definition filter_by_namespace (name : N) (pub : list (N * list (shard * option N))) :=
  filter (fun p => N.eqb (fst p) name) pub.
Definition client_receive (name : N) (pub : list (N * list (shard * option N))) (m : list shard) : option (list shard) :=
  match pub_lookup name (filter_by_namespace name pub) with
  | None => None
  | Some l => Some (client_update m (map fst l))
  end.

(* ---- histories: config changes, shard-deletion completions, controller metadata updates ---- *)

Inductive op :=
| OpApply (cfg : cconfig)
| OpDeleted (name : N) (id : Z)
| OpMeta (name : N) (id : Z) (st : sstatus) (term : Z) (leader : option N) (ens : list N)
| OpRestart (cfg : cconfig)
| OpCasLost (cfg : cconfig).

Definition find_shard (name : N) (id : Z) (st : cstatus) : option smeta :=
  match ns_lookup name (st_ns st) with
  | None => None
  | Some ns => find (fun m => Z.eqb (m_id m) id) (ns_shards ns)
  end.

Section Run.
  Variable S : Type.
  Variable supplier : S -> nsconfig -> cstatus -> option (list N) * S.

  (* One step of the coordinator.
     OpApply: ConfigChanged; when ApplyClusterChanges panics nothing is stored.
     OpRestart: the coordinator is restarted (or fails over) and finds configuration [cfg]: NewCoordinator loads
       the STORED status and runs ApplyClusterChanges on it -- nothing is reset, in particular not
       ShardIdGenerator, also when the stored status has no namespace left.
     OpCasLost: one attempt of ConfigChanged's compare-and-set loop that loses: LoadWithVersion, ApplyClusterChanges
       (the supplier is consulted), and the Swap fails because a shard controller has stored the status in
       between (the concurrent OpDeleted / OpMeta steps that follow in the history); nothing is stored, the
       loop reads the status again and recomputes.  ConfigChanged with k lost attempts is
       OpCasLost cfg; <concurrent steps>; ... ; OpApply cfg  (the OpApply is the attempt whose Swap succeeds).
     OpDeleted: shardController.deleteShard -> DeleteShardMetadata; the controller gets there only
       through DeleteShard(), which the coordinator invokes for shards it has marked Deleting, hence the guard.
     OpMeta: a shard controller writes back its own copy of the metadata after an election step: new
       status (never Deleting) / term / leader / ensemble, the hash range it was created with.
       Modelled restriction: the write does not hit a shard the status already marks Deleting (the
       real controller can do that while an election is still running when the namespace is removed). *)
  Definition step (s : cstatus * S) (o : op) : cstatus * S :=
    let (st, sup) := s in
    match o with
    | OpApply cfg | OpRestart cfg =>
      match apply_cluster_changes S supplier cfg st sup with
      | (None, sup1) => (st, sup1)
      | (Some (st1, _, _), sup1) => (st1, sup1)
      end
    | OpCasLost cfg => (st, snd (apply_cluster_changes S supplier cfg st sup))
    | OpDeleted name id =>
      match find_shard name id st with
      | Some m => if is_deleting (m_st m) then (delete_shard_metadata name id st, sup) else (st, sup)
      | None => (st, sup)
      end
    | OpMeta name id s1 term leader ens =>
      match find_shard name id st with
      | Some m =>
        if is_deleting (m_st m) || is_deleting s1 then (st, sup)
        else (update_shard_metadata name (mkMeta id s1 term leader ens (m_min m) (m_max m)) st, sup)
      | None => (st, sup)
      end
    end.

  Definition run (s : cstatus * S) (ops : list op) : cstatus * S := fold_left step ops s.
End Run.

(* every shard count of every configuration of the history is in 1..65536 *)
Definition cfg_in_domain (cfg : cconfig) : Prop :=
  Forall (fun nc => 1 <= nc_count nc /\ nc_count nc <= 65536) (cfg_ns cfg).
Definition op_in_domain (o : op) : Prop :=
  match o with OpApply cfg | OpRestart cfg => cfg_in_domain cfg | _ => True end.

(* shards requested by the history (an upper bound of what ShardIdGenerator can reach) *)
Definition requested_cfg (cfg : cconfig) : Z :=
  fold_right (fun nc acc => (Z.of_N (nc_count nc) + acc)%Z) 0%Z (cfg_ns cfg).
Definition requested (ops : list op) : Z :=
  fold_right (fun o acc => match o with OpApply cfg | OpRestart cfg => (requested_cfg cfg + acc)%Z | _ => acc end) 0%Z ops.

(* ---- the scripted supplier of the correspondence harness ---- *)

Inductive script_entry := SFail | SSimple | SExplicit (ens : list N).
Record sup_state := mkSup {
  sup_servers : list N; sup_script : list script_entry; sup_log : list (N * N * Z * N) }.

(* round robin from ServerIdx over the servers of the config being applied; fails without servers and
   when there are fewer servers than replicas (like the real selector) *)
Definition simple_ensemble (servers : list N) (sidx rf : N) : option (list N) :=
  let n := N.of_nat (length servers) mod U32 in
  if N.eqb n 0 || N.ltb n rf then None
  else Some (map (fun i => nth (N.to_nat (((sidx + i) mod U32) mod n)) servers 0) (N_seq rf)).

Definition scripted (s : sup_state) (nc : nsconfig) (ed : cstatus) : option (list N) * sup_state :=
  (* newest first (the driver reverses it) *)
  let log := (nc_name nc, st_sidx ed, st_idgen ed, N.of_nat (length (st_ns ed))) :: sup_log s in
  match sup_script s with
  | [] => (simple_ensemble (sup_servers s) (st_sidx ed) (nc_rf nc), mkSup (sup_servers s) [] log)
  | SFail :: tl => (None, mkSup (sup_servers s) tl log)
  | SSimple :: tl => (simple_ensemble (sup_servers s) (st_sidx ed) (nc_rf nc), mkSup (sup_servers s) tl log)
  | SExplicit ens :: tl => (Some ens, mkSup (sup_servers s) tl log)
  end.

Definition apply_scripted := apply_cluster_changes sup_state scripted.
