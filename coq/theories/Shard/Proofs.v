From Coq Require Import List NArith ZArith Bool Lia Arith.
From Oxia.Shard Require Import Model.
Import ListNotations.
Open Scope N_scope.

Lemma chainedb_spec next l : chainedb next l = true <-> chained next l.
Proof.
  revert next; induction l as [|s tl IH]; intros next; cbn [chainedb chained].
  - apply N.eqb_eq.
  - rewrite !andb_true_iff, N.eqb_eq, N.leb_le, N.ltb_lt, IH. tauto.
Qed.

(* ------------------------------------------------------------------ *)
(* GenerateShards yields a partition for 1 <= n <= 65536               *)

Lemma q_lower_bound n : 2 <= n -> n <= 65536 -> n - 1 <= MAXU32 / n.
Proof.
  intros H2 Hn. apply N.div_le_lower_bound; [lia|].
  unfold MAXU32. nia.
Qed.

Lemma mul_bound n i : 2 <= n -> n <= 65536 -> i <= n - 1 ->
  i * (MAXU32 / n + 1) <= MAXU32.
Proof.
  intros H2 Hn Hi.
  pose proof (q_lower_bound n H2 Hn) as Hq.
  pose proof (N.mul_div_le MAXU32 n ltac:(lia)) as Hm.
  set (q := MAXU32 / n) in *.
  assert (i * (q + 1) <= (n - 1) * (q + 1)) by (apply N.mul_le_mono_r; exact Hi).
  assert ((n - 1) * (q + 1) <= n * q) by nia.
  lia.
Qed.

Lemma bucket_small n : 2 <= n -> n <= 65536 -> bucket_size n = MAXU32 / n + 1.
Proof.
  intros H2 Hn. unfold bucket_size. apply N.mod_small.
  pose proof (mul_bound n 1 H2 Hn ltac:(lia)). unfold U32, MAXU32 in *. lia.
Qed.

Lemma last_index n : 1 <= n -> n <= 65536 -> (n + (U32 - 1)) mod U32 = n - 1.
Proof.
  intros H1 Hn.
  replace (n + (U32 - 1)) with ((n - 1) + 1 * U32) by (unfold U32; lia).
  rewrite N.mod_add by (unfold U32; lia). apply N.mod_small. unfold U32; lia.
Qed.

Lemma gen_one_mid base n i : 2 <= n -> n <= 65536 -> i < n - 1 ->
  smin (gen_one base n i) = i * bucket_size n /\
  smax (gen_one base n i) = i * bucket_size n + bucket_size n - 1 /\
  1 <= bucket_size n /\ i * bucket_size n + bucket_size n <= MAXU32.
Proof.
  intros H2 Hn Hi. unfold gen_one; cbn [smin smax].
  rewrite last_index by lia.
  destruct (N.eqb_spec i (n - 1)) as [Heq|_]; [lia|].
  pose proof (mul_bound n (i + 1) H2 Hn ltac:(lia)) as Hmb.
  rewrite (bucket_small n H2 Hn).
  set (q := MAXU32 / n + 1) in *.
  assert (Hq1 : 1 <= q) by (unfold q; apply N.le_add_l).
  assert (Hlow : i * q + q <= MAXU32)
    by (rewrite N.mul_add_distr_r, N.mul_1_l in Hmb; exact Hmb).
  rewrite (N.mod_small (i * q)) by (unfold U32, MAXU32 in *; lia).
  rewrite (N.mod_small (i * q + q)) by (unfold U32, MAXU32 in *; lia).
  replace (i * q + q + (U32 - 1)) with ((i * q + q - 1) + 1 * U32) by (unfold U32; lia).
  rewrite N.mod_add by (unfold U32; lia).
  rewrite N.mod_small by (unfold U32, MAXU32 in *; lia).
  auto.
Qed.

Lemma gen_one_last base n : 2 <= n -> n <= 65536 ->
  smin (gen_one base n (n - 1)) = (n - 1) * bucket_size n /\
  smax (gen_one base n (n - 1)) = MAXU32 /\
  (n - 1) * bucket_size n <= MAXU32.
Proof.
  intros H2 Hn. unfold gen_one; cbn [smin smax].
  rewrite last_index by lia. rewrite N.eqb_refl.
  pose proof (mul_bound n (n - 1) H2 Hn ltac:(lia)) as Hmb.
  rewrite (bucket_small n H2 Hn).
  rewrite N.mod_small by (unfold U32, MAXU32 in *; lia). auto.
Qed.

Lemma gen_chain base n : 2 <= n -> n <= 65536 ->
  forall m i, i + N.of_nat (S m) = n ->
  chained (i * bucket_size n) (map (gen_one base n) (N_seq_from i (S m))).
Proof.
  intros H2 Hn.
  induction m as [|m IH]; intros i Hi.
  - cbn [N_seq_from map chained].
    assert (Hkn : i = n - 1) by lia. rewrite Hkn.
    destruct (gen_one_last base n H2 Hn) as (-> & -> & Hle).
    unfold U32, MAXU32 in *. repeat split; lia.
  - change (N_seq_from i (S (S m))) with (i :: N_seq_from (i + 1) (S m)).
    rewrite map_cons. cbn [chained].
    destruct (gen_one_mid base n i H2 Hn ltac:(lia)) as (-> & -> & Hq1 & Hlow).
    split; [reflexivity|]. split; [lia|]. split; [unfold U32, MAXU32 in *; lia|].
    replace (i * bucket_size n + bucket_size n - 1 + 1)
      with ((i + 1) * bucket_size n) by lia.
    apply IH. lia.
Qed.

Theorem generate_partitions base n :
  1 <= n -> n <= 65536 ->
  exists l, generate_shards base n = Some l /\ partition l /\
            map sid l = map (fun i => (base + Z.of_N i)%Z) (N_seq n).
Proof.
  intros H1 Hn. unfold generate_shards.
  destruct (N.eqb_spec n 0) as [->|Hn0]; [lia|].
  eexists; split; [reflexivity|]. split.
  - unfold partition, N_seq.
    destruct (N.eq_dec n 1) as [->|Hn1].
    + vm_compute. repeat split; discriminate.
    + destruct (N.to_nat n) as [|m] eqn:Hm; [lia|].
      change 0 with (0 * bucket_size n).
      apply gen_chain; lia.
  - rewrite map_map. reflexivity.
Qed.

(* The bound is sharp: with 65537 shards the last lower bound wraps. *)
Lemma generate_65537_not_partition :
  exists l, generate_shards 0 65537 = Some l /\ chainedb 0 l = false.
Proof. eexists; split; [reflexivity|]. vm_compute. reflexivity. Qed.

Lemma generate_0_panics base : generate_shards base 0 = None.
Proof. reflexivity. Qed.

(* ------------------------------------------------------------------ *)
(* Routing on a partition: every hash has exactly one shard            *)

Lemma chained_route next l h :
  chained next l -> h < U32 ->
  (h < next -> route l h = []) /\
  (next <= h -> exists s, route l h = [s] /\ In s l).
Proof.
  revert next; induction l as [|s tl IH]; intros next Hc Hh; cbn [chained] in Hc.
  - subst next. split; [reflexivity | lia].
  - destruct Hc as (Hmin & Hle & Hlt & Hc).
    destruct (IH _ Hc Hh) as [IHlt IHge].
    unfold route in *; cbn [filter].
    destruct (in_range h s) eqn:E; unfold in_range in E.
    + apply andb_true_iff in E. rewrite !N.leb_le in E. destruct E as [E1 E2].
      split; [intros; lia|]. intros _. exists s. rewrite IHlt by lia.
      split; [reflexivity | left; reflexivity].
    + apply andb_false_iff in E. rewrite !N.leb_gt in E.
      split.
      * intros Hn. apply IHlt. lia.
      * intros Hn. destruct IHge as (s' & Hs' & Hin); [lia|].
        exists s'. split; [exact Hs' | right; exact Hin].
Qed.

Theorem route_unique l h :
  partition l -> h < U32 -> exists s, route l h = [s] /\ In s l.
Proof.
  intros Hp Hh. apply (chained_route 0 l h Hp Hh). lia.
Qed.

(* A hole or an overlap is visible to routing: the converse direction, used
   by the violation search (a list that is not a partition mis-routes some hash). *)
Lemma route_unique_all_implies_cover l :
  (forall h, h < U32 -> exists s, route l h = [s]) ->
  forall h, h < U32 -> existsb (in_range h) l = true.
Proof.
  intros H h Hh. destruct (H h Hh) as (s & Hs).
  apply existsb_exists. exists s.
  assert (In s (route l h)) as Hin by (rewrite Hs; left; reflexivity).
  unfold route in Hin. apply filter_In in Hin. exact (conj (proj1 Hin) (proj2 Hin)).
Qed.
