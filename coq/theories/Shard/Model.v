(* Model of common/sharding/shards.go:GenerateShards and of the client-side
   routing of oxia/internal/shard_manager.go / shard_strategy_impl.go.

   uint32 arithmetic is written out with an explicit [mod 2^32] on every
   expression of the Go source; the Go panic on [numShards = 0]
   (integer division by zero) is the explicit outcome [None]. *)
From Coq Require Import List NArith ZArith Bool.
Import ListNotations.
Open Scope N_scope.

Definition U32 : N := 4294967296.
Definition MAXU32 : N := 4294967295.

Record shard := mkShard { sid : Z; smin : N; smax : N }.

(* bucketSize := (math.MaxUint32 / numShards) + 1          (uint32) *)
Definition bucket_size (n : N) : N := ((MAXU32 / n) + 1) mod U32.

(* body of the loop for index i *)
Definition gen_one (base : Z) (n : N) (i : N) : shard :=
  let b := bucket_size n in
  let lower := (i * b) mod U32 in
  (* lowerBound + bucketSize - 1, two uint32 operations, each wrapping *)
  let upper := ((lower + b) mod U32 + (U32 - 1)) mod U32 in
  let upper := if N.eqb i ((n + (U32 - 1)) mod U32) then MAXU32 else upper in
  mkShard (base + Z.of_N i)%Z lower upper.

Fixpoint N_seq_from (start : N) (len : nat) : list N :=
  match len with O => [] | S k => start :: N_seq_from (start + 1) k end.
Definition N_seq (n : N) : list N := N_seq_from 0 (N.to_nat n).

(* None = Go runtime panic (division by zero).  n is a uint32, i.e. < 2^32. *)
Definition generate_shards (base : Z) (n : N) : option (list shard) :=
  if N.eqb n 0 then None
  else Some (map (gen_one base n) (N_seq n)).

(* ---- the specification side: what a partition of [0, 2^32) is ---- *)

(* consecutive ranges chain: each starts right after the previous one ends *)
Fixpoint chained (next : N) (l : list shard) : Prop :=
  match l with
  | [] => next = U32
  | s :: tl => smin s = next /\ smin s <= smax s /\ smax s < U32 /\ chained (smax s + 1) tl
  end.

Definition partition (l : list shard) : Prop := chained 0 l.

Fixpoint chainedb (next : N) (l : list shard) : bool :=
  match l with
  | [] => N.eqb next U32
  | s :: tl => N.eqb (smin s) next && N.leb (smin s) (smax s) && N.ltb (smax s) U32
               && chainedb (smax s + 1) tl
  end.

Definition in_range (h : N) (s : shard) : bool := N.leb (smin s) h && N.leb h (smax s).

(* client routing: shards whose range contains the hash code *)
Definition route (l : list shard) (h : N) : list shard := filter (in_range h) l.

(* ---- client shard map update (shard_manager.go:update) ----
   The Go map is modelled as an association list without duplicate ids,
   its iteration order is irrelevant to the result (deletions commute). *)
Definition overlap (a b : shard) : bool :=
  N.leb (smin a) (smax b) && N.leb (smin b) (smax a).

Definition has_id (i : Z) (l : list shard) : bool := existsb (fun s => Z.eqb (sid s) i) l.

Definition remove_id (i : Z) (l : list shard) : list shard :=
  filter (fun s => negb (Z.eqb (sid s) i)) l.

Definition update_one (m : list shard) (u : shard) : list shard :=
  if has_id (sid u) m then u :: remove_id (sid u) m
  else u :: filter (fun s => negb (overlap u s)) m.

Definition client_update (m : list shard) (us : list shard) : list shard :=
  fold_left update_one us m.
