(* Model of server/assignment_dispatcher.go: the glue between the coordinator's pushes
   (PushShardAssignments -> updateShardAssignment) and the clients' streams (RegisterForUpdates).

   One atomic action = one critical section of the dispatcher's mutex, or one completed Send on a client stream:
     DRegister  RegisterForUpdates up to and including the unlock: snapshot of the current assignments AND
                registration of the client's channel in s.clients under ONE lock hold; the client then sits in
                its first Send
     DPush      updateShardAssignment: the new assignments become current; every registered client that waits in
                the select gets them (it then sits in a Send), every registered client that is still inside a Send
                is cut off (its channel is closed and removed: it ends with ErrCancelled once the Send returns)
     DSendOk    a client stream's Send returns nil
     DSendFail  a client stream's Send returns an error (client removed, stream ends)
     DLeave     the client's stream context is cancelled (client removed, stream ends)
   An assignment is the list of namespaces with their shards; a client of [ns] is sent [filter_ns ns]. *)
From Coq Require Import List NArith ZArith Bool.
From Oxia.Shard Require Import Model.
Import ListNotations.
Open Scope N_scope.

Definition assignment := list (N * list shard).
Definition filter_ns (ns : N) (a : assignment) : assignment := filter (fun p => N.eqb (fst p) ns) a.
Definition has_ns (ns : N) (a : assignment) : bool := existsb (fun p => N.eqb (fst p) ns) a.

Inductive phase := Sending (m : assignment) | Waiting | Ended.

Record dclient := mkClient {
  dc_id : N; dc_ns : N; dc_phase : phase;
  dc_reg : bool;                 (* its channel is in s.clients (open) *)
  dc_recv : list assignment }.   (* what the client has been sent, newest first *)

Record dstate := mkD { d_cur : option assignment; d_clients : list dclient }.
Definition dinit : dstate := mkD None [].

Inductive daction :=
| DRegister (id ns : N) | DPush (a : assignment) | DSendOk (id : N) | DSendFail (id : N) | DLeave (id : N).

Definition on_client (id : N) (f : dclient -> dclient) (l : list dclient) : list dclient :=
  map (fun c => if N.eqb (dc_id c) id then f c else c) l.

Definition push_client (a : assignment) (c : dclient) : dclient :=
  if dc_reg c then
    match dc_phase c with
    | Waiting => mkClient (dc_id c) (dc_ns c) (Sending (filter_ns (dc_ns c) a)) true (dc_recv c)
    | Sending m => mkClient (dc_id c) (dc_ns c) (Sending m) false (dc_recv c)   (* close(clientCh); delete *)
    | Ended => c
    end
  else c.

Definition send_ok (c : dclient) : dclient :=
  match dc_phase c with
  | Sending m => mkClient (dc_id c) (dc_ns c) (if dc_reg c then Waiting else Ended) (dc_reg c) (m :: dc_recv c)
  | _ => c
  end.

Definition send_fail (c : dclient) : dclient :=
  match dc_phase c with
  | Sending _ => mkClient (dc_id c) (dc_ns c) Ended false (dc_recv c)
  | _ => c
  end.

Definition leave (c : dclient) : dclient :=
  match dc_phase c with
  | Ended => c
  | _ => mkClient (dc_id c) (dc_ns c) Ended false (dc_recv c)
  end.

Definition dstep (s : dstate) (x : daction) : dstate :=
  match x with
  | DRegister id ns =>
    match d_cur s with
    | None => mkD None (d_clients s ++ [mkClient id ns Ended false []])               (* ErrNotInitialized *)
    | Some a =>
      if has_ns ns a
      then mkD (Some a) (d_clients s ++ [mkClient id ns (Sending (filter_ns ns a)) true []])
      else mkD (Some a) (d_clients s ++ [mkClient id ns Ended false []])             (* ErrNamespaceNotFound *)
    end
  | DPush a => mkD (Some a) (map (push_client a) (d_clients s))
  | DSendOk id => mkD (d_cur s) (on_client id send_ok (d_clients s))
  | DSendFail id => mkD (d_cur s) (on_client id send_fail (d_clients s))
  | DLeave id => mkD (d_cur s) (on_client id leave (d_clients s))
  end.

Definition drun (acts : list daction) : dstate := fold_left dstep acts dinit.

(* the last update a client was sent *)
Definition last_update (c : dclient) : option assignment := hd_error (dc_recv c).
