(* The tracker as it was before the O-8 repair (upstream quorum_ack_tracker.go), kept to
   record what is false of it.  Differences from Model.v:
     notifyCommitOffsetAdvanced  stored the offset unconditionally;
     cursorAcker.ack             dropped an ack whose offset had no tracker entry, also when
                                 the offset was ABOVE the head (sync callback not run yet);
     AdvanceHeadOffset           always created a fresh, empty entry.
   Witnesses are admissible schedules (Model.grun's discipline), replayed on the real code by
   the harness (corpus/quorum/o8-*.case). *)
From Coq Require Import List NArith ZArith Bool Lia.
From Oxia.Quorum Require Import Model Exact.
Import ListNotations.
Open Scope Z_scope.

Definition notify_old (s : state) (c : Z) : state * list (N * bool) :=
  let (f, r) := release (waiting s) c in (set_commit_waiting s c r, fired_ok f).

Definition advance_head_old (s : state) (h : Z) : state * list (N * bool) :=
  if closed s then (s, [])
  else if h <=? head s then (s, [])
  else
    let s1 := set_head s h in
    if (required s1 =? 0)%N then notify_old s1 h
    else (set_tracker s1 (t_put (tracker s1) h bs_empty), []).

Definition ack_old (s : state) (c : N) (o : Z) : ack_res :=
  match t_get (tracker s) o with
  | None => AckOk s []
  | Some e =>
      match bs_set e c with
      | None => AckPanic s
      | Some e' =>
          let s1 := set_tracker s (t_put (tracker s) o e') in
          if (bs_count e' =? required s1)%N
          then let (s2, f) := notify_old (set_tracker s1 (t_del (tracker s1) o)) o in AckOk s2 f
          else AckOk s1 []
      end
  end.

Fixpoint ack_loop_old (s : state) (c : N) (offs : list Z) (acc : list (N * bool)) : ack_res :=
  match offs with
  | [] => AckOk s acc
  | o :: tl =>
      match ack_old s c o with
      | AckPanic s' => AckPanic s'
      | AckOk s' f => ack_loop_old s' c tl (acc ++ f)
      end
  end.

Definition new_cursor_old (s : state) (a : Z) : cur_res :=
  if ((rf s + U32 - 1) mod U32 <=? cursor_gen s mod U32)%N then CurTooMany
  else if head s <? a then CurInvalidHead
  else
    let idx := cursor_gen s in
    match ack_loop_old s idx (z_range (commit s + 1) (Z.to_nat (a - commit s))) [] with
    | AckPanic s' => CurPanic s'
    | AckOk s' f => CurOk (set_cursor_gen s' (cursor_gen s' + 1)%N) idx f
    end.

Definition step_old (s : state) (x : op) : state * (res * list (N * bool)) :=
  match x with
  | OpNext => let (s', o) := next_offset s in (s', (RNext o, []))
  | OpAdvance h => let (s', f) := advance_head_old s h in (s', (RNone, f))
  | OpWait o id => let (s', f) := wait_async s o id in (s', (RNone, f))
  | OpNewCursor a =>
      match new_cursor_old s a with
      | CurOk s' idx f => (s', (RCursor idx, f))
      | CurTooMany => (s, (RErrTooMany, []))
      | CurInvalidHead => (s, (RErrInvalidHead, []))
      | CurPanic s' => (s', (RPanic, []))
      end
  | OpAck c o =>
      match ack_old s c o with
      | AckOk s' f => (s', (RNone, f))
      | AckPanic s' => (s', (RPanic, []))
      end
  | OpClose => let (s', f) := close s in (s', (RNone, f))
  end.

(* same admissibility discipline as Model.gstep, over the old operations *)
Definition gstep_old (st : state * ghost) (x : op) : option (state * ghost) :=
  let (s, hi) := st in
  match x with
  | OpAdvance h => if h <=? head s + 1 then Some (fst (step_old s x), hi) else None
  | OpNewCursor a =>
      match new_cursor_old s a with
      | CurOk s' idx _ => Some (s', upd hi idx a)
      | CurPanic s' => Some (s', hi)
      | _ => Some (s, hi)
      end
  | OpAck c o =>
      if (c <? cursor_gen s)%N && (o <=? hi c + 1) then
        match ack_old s c o with
        | AckOk s' _ => Some (s', upd hi c (Z.max (hi c) o))
        | AckPanic s' => Some (s', hi)
        end
      else None
  | _ => Some (fst (step_old s x), hi)
  end.

Fixpoint grun_old (st : state * ghost) (ops : list op) : option (state * ghost) :=
  match ops with
  | [] => Some st
  | x :: tl => match gstep_old st x with None => None | Some st' => grun_old st' tl end
  end.

Definition commit_of (r : option (state * ghost)) : Z :=
  match r with Some (s, _) => commit s | None => -100 end.

(* O-8, part 1: rf = 3, head = commit = 4.  Follower 0 acknowledges offset 5 after it was synced
   on the leader but before the sync callback advanced the head: the ack is dropped.  Once the head
   is at 5 the whole prefix up to 5 is stored on the leader and acknowledged by one follower
   (rf/2 = 1), yet the commit offset stays at 4 although no ack is in flight. *)
Definition o8_lost_ack : list op :=
  [OpNewCursor 4; OpNewCursor 4; OpNext; OpAck 0%N 5; OpAdvance 5].

Theorem commit_eq_true_commit_old_refuted :
  exists ops s hi, grun_old (new_tracker 3 4 4, ghost0) ops = Some (s, hi) /\
    commit s = 4 /\ head s = 5 /\ (required s <= nacks (cursor_gen s) hi 5)%N.
Proof.
  exists o8_lost_ack. eexists. eexists. split; [vm_compute; reflexivity|].
  vm_compute. repeat split; discriminate.
Qed.

(* O-8, part 2: the schedule continues; follower 0 acknowledges 6 (commit = 6), then follower 1's
   acknowledgement of 5 arrives: its entry is still in the tracker, reaches the quorum and the
   commit offset is stored unconditionally: it moves BACKWARDS from 6 to 5. *)
Definition o8_regress_prefix : list op :=
  o8_lost_ack ++ [OpNext; OpAdvance 6; OpAck 0%N 6].
Definition o8_regress : list op := o8_regress_prefix ++ [OpAck 1%N 5].

Theorem commit_monotone_old_refuted :
  exists ops1 ops2,
    commit_of (grun_old (new_tracker 3 4 4, ghost0) (ops1 ++ ops2)) <
    commit_of (grun_old (new_tracker 3 4 4, ghost0) ops1) /\
    grun_old (new_tracker 3 4 4, ghost0) (ops1 ++ ops2) <> None.
Proof.
  exists o8_regress_prefix, [OpAck 1%N 5]. split; vm_compute; [reflexivity|discriminate].
Qed.

(* the same schedules on the repaired model *)
Example o8_lost_ack_fixed :
  commit_of (grun (new_tracker 3 4 4, ghost0) o8_lost_ack) = 5.
Proof. vm_compute. reflexivity. Qed.

Example o8_regress_fixed :
  commit_of (grun (new_tracker 3 4 4, ghost0) o8_regress_prefix) = 6 /\
  commit_of (grun (new_tracker 3 4 4, ghost0) o8_regress) = 6.
Proof. vm_compute. split; reflexivity. Qed.

(* the hypotheses of Exact.commit_eq_true_commit are satisfiable on a non-trivial schedule *)
Example admissible_nontrivial :
  Exact.init_ok 3 4 4 /\ exists s hi, grun (new_tracker 3 4 4, ghost0) o8_regress = Some (s, hi) /\
    commit s = 6 /\ head s = 6 /\ cursor_gen s = 2%N.
Proof.
  split; [repeat split; try lia; discriminate|].
  eexists. eexists. split; [vm_compute; reflexivity|]. repeat split.
Qed.
