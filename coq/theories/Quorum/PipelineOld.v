(* The write path as it was before the O-1 repair (PAlloc / PAppend: offset allocated under the
   controller lock, WAL append after Unlock) refutes "no write fails"; and non-vacuity examples
   for the theorems about the repaired path. *)
From Coq Require Import List NArith ZArith Bool Lia.
From Oxia.Quorum Require Import Model Pipeline PipelineProofs.
Import ListNotations.
Open Scope Z_scope.

(* rf = 1, the log ends at 4.  Writers A (request 0) and B (request 1) allocate 5 and 6; B reaches
   the WAL first: "6 can not immediately follow 4"; A's append of 5 then succeeds; offset 6 is burnt,
   so the next write (request 2, offset 7) fails too: "7 can not immediately follow 5" - and so does
   every later one. *)
Definition o1_schedule : list paction :=
  [PAlloc; PAlloc; PAppend 1; PAppend 0; PAlloc; PAppend 2; PAlloc; PAppend 3].

Theorem all_succeed_old_refuted :
  exists acts p, prun false (p_init 1 4) acts = Some p /\
    failed p = [1; 2; 3]%N /\ map fst (wal p) = [5].
Proof.
  exists o1_schedule. eexists. split; [vm_compute; reflexivity|]. split; reflexivity.
Qed.

(* the same client behaviour on the repaired path: every write is appended *)
Example o1_schedule_fixed :
  exists p, prun true (p_init 1 4) [PWrite; PWrite; PWrite; PWrite] = Some p /\
    failed p = [] /\ map fst (wal p) = [5; 6; 7; 8].
Proof. eexists. split; [vm_compute; reflexivity|]. split; reflexivity. Qed.

(* a non-trivial reachable, quiescent state of the repaired pipeline: rf = 3, two followers, two
   writes, follower 0 acknowledges offset 5 before the sync callback advances the head (the O-8
   window), the first write completes on the "already committed" path, the second one through the
   waiting list *)
Definition demo_schedule : list paction :=
  [PNewCursor 4; PNewCursor 4; PWrite; PWrite; PSyncDrain; PSyncFlush; PAck 0 5;
   PCbAdvance; PCbWait; PCbApply; PCbAdvance; PCbWait; PAck 1 5; PAck 1 6].

Example demo_reachable_quiescent :
  exists p, prun true (p_init 3 4) demo_schedule = Some p /\
    applied p = [(5, 0%N); (6, 1%N)] /\ resp p = [(0%N, (5, 0%N)); (1%N, (6, 1%N))] /\
    commit (trk p) = 6 /\ syncq p = [] /\ batch p = [] /\
    (required (trk p) <= nacks (cursor_gen (trk p)) (hi p) (wal_last p))%N.
Proof.
  eexists. split; [vm_compute; reflexivity|]. vm_compute. repeat split; discriminate.
Qed.
