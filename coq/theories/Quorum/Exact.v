(* Exactness: on every admissible schedule in which the head offset advances one entry at a
   time, with 1 <= rf <= 17, the commit offset EQUALS the true commit offset in every
   reachable state.  No delivered acknowledgement is ever lost: in particular an ack that
   arrives before AdvanceHeadOffset (O-8) is remembered. *)
From Coq Require Import List NArith ZArith Bool Lia.
From Oxia.Quorum Require Import Model Bits Spec Proofs.
Import ListNotations.
Open Scope Z_scope.

Definition E1 (s : state) (g : N) (hi : ghost) : Prop :=
  forall o e, t_get (tracker s) o = Some e ->
    commit s < o /\
    (forall i, (i < g)%N -> o <= hi i -> N.testbit e i = true) /\
    (o <= head s -> (bs_count e < required s)%N).

Definition E2 (s : state) : Prop :=
  forall o, commit s < o <= head s -> t_get (tracker s) o <> None.

Definition E3 (s : state) (g : N) (hi : ghost) : Prop :=
  forall o, head s < o -> t_get (tracker s) o = None -> forall i, (i < g)%N -> hi i < o.

Definition E4 (s : state) (g : N) : Prop :=
  (1 <= rf s)%N /\ (rf s <= 17)%N /\ required s = (rf s / 2)%N /\ (g + 1 <= rf s)%N.

Definition E5 (s : state) : Prop :=
  required s = 0%N -> forall o, t_get (tracker s) o = None.

Definition Inv (s : state) (g : N) (hi : ghost) (c0 : Z) : Prop :=
  Safe s g hi c0 /\ commit s <= head s /\ E1 s g hi /\ E2 s /\ E3 s g hi /\ E4 s g /\ E5 s.

Lemma e4_req_pos s g c : E4 s g -> (c < g)%N -> required s <> 0%N.
Proof.
  intros [H1 [H2 [H3 H4]]] Hc. rewrite H3. intros Hz.
  assert (rf s < 2)%N by (apply N.div_small_iff in Hz; lia). lia.
Qed.

Lemma e4_g16 s g : E4 s g -> (g <= 16)%N.
Proof. intros [H1 [H2 [H3 H4]]]. lia. Qed.

Lemma inv_ext s g hi hi' c0 : (forall x, hi x = hi' x) -> Inv s g hi c0 -> Inv s g hi' c0.
Proof.
  intros Hx [HS [Hch [H1 [H2 [H3 [H4 H5]]]]]].
  split; [|split; [exact Hch|split; [|split; [exact H2|split; [|split; [exact H4|exact H5]]]]]].
  - eapply safe_mono; [exact HS|lia|]. intros c _. rewrite Hx. lia.
  - intros o e He. destruct (H1 o e He) as [A [B C]]. split; [exact A|split; [|exact C]].
    intros i Hi Ho. apply B; [exact Hi|]. rewrite Hx. exact Ho.
  - intros o Ho Hn i Hi. rewrite <- Hx. exact (H3 o Ho Hn i Hi).
Qed.

Lemma inv_fields s s' g hi c0 :
  tracker s' = tracker s -> commit s' = commit s -> required s' = required s ->
  head s' = head s -> rf s' = rf s ->
  Inv s g hi c0 -> Inv s' g hi c0.
Proof.
  intros Ht Hc Hr Hh Hf [HS [Hch [H1 [H2 [H3 [H4 H5]]]]]].
  unfold Inv, E1, E2, E3, E4, E5. rewrite Ht, Hc, Hr, Hh, Hf.
  split; [eapply safe_fields; eauto|]. split; [exact Hch|].
  split; [exact H1|]. split; [exact H2|]. split; [exact H3|]. split; [exact H4|exact H5].
Qed.

(* ------------------------------------------------------------------ *)
(* ack                                                                 *)

Lemma inv_ack s g hi c0 c o :
  Inv s g hi c0 -> (c < g)%N -> o <= hi c + 1 ->
  exists s' f, ack s c o = AckOk s' f /\ Inv s' g (upd hi c (Z.max (hi c) o)) c0.
Proof.
  intros [HS [Hch [H1 [H2 [H3 [H4 H5]]]]]] Hc Ho.
  pose proof (e4_g16 s g H4) as Hg16.
  pose proof (e4_req_pos s g c H4 Hc) as Hreq.
  pose proof (safe_ack s g hi c0 c o HS Hc) as HS'.
  pose proof (ack_commit_le_head s c o Hch) as Hch'.
  destruct HS as [S1s _].
  set (hi' := upd hi c (Z.max (hi c) o)) in *.
  assert (Hhc : hi' c = Z.max (hi c) o) by (unfold hi'; apply upd_same).
  assert (Hho : forall x, x <> c -> hi' x = hi x) by (intros; unfold hi'; apply upd_other; assumption).
  (* bits required by hi' on an old entry other than o are already there *)
  assert (Hbits_old : forall k e, t_get (tracker s) k = Some e -> k <> o ->
            forall i, (i < g)%N -> k <= hi' i -> N.testbit e i = true).
  { intros k e Hk Hne i Hi Hki. destruct (H1 k e Hk) as [_ [B _]].
    destruct (N.eq_dec i c) as [->|Hic].
    - rewrite Hhc in Hki. apply B; [exact Hi|]. lia.
    - rewrite (Hho i Hic) in Hki. apply B; assumption. }
  destruct (ack_ok s c o) as [Hn Hh | s' Hbig Hcore Hcm Hw Hget | e' s' Hnone Hset Hncommit Hcore Hcm Hw Hget
                             | e e' s' f Hsome Hset Hh Hcnt Hcore Hcm Hget]; cbn [ack_state] in *.
  - (* ignored: the entry is at or below head and has no tracker entry: already committed *)
    exists s, []. split; [reflexivity|].
    split; [exact HS'|]. split; [exact Hch|]. split; [|split; [exact H2|split; [|split; [exact H4|exact H5]]]].
    + intros k e Hk. destruct (H1 k e Hk) as [A [B C]]. split; [exact A|split; [|exact C]].
      intros i Hi Hki. apply (Hbits_old k e Hk); [congruence|exact Hi|exact Hki].
    + intros k Hk Hkn i Hi. destruct (N.eq_dec i c) as [->|Hic].
      * rewrite Hhc. specialize (H3 k Hk Hkn c Hi). lia.
      * rewrite (Hho i Hic). exact (H3 k Hk Hkn i Hi).
  - lia.
  - (* bit set, no commit *)
    exists s', []. split; [reflexivity|].
    destruct Hcore as [Hrf [Hr [_ [Hhd _]]]].
    pose proof Hset as Hset0. apply bs_set_some in Hset. destruct Hset as [_ Hb].
    split; [exact HS'|]. split; [exact Hch'|].
    split; [|split; [|split; [|split]]].
    + intros k e Hk. rewrite Hget in Hk. rewrite Hcm, Hhd, Hr.
      destruct (Z.eqb_spec k o) as [->|Hne].
      * inversion Hk; subst e. clear Hk. split; [|split].
        -- destruct (t_get (tracker s) o) as [e0|] eqn:E0.
           ++ destruct (H1 o e0 E0) as [A _]. exact A.
           ++ specialize (Hnone eq_refl). lia.
        -- intros i Hi Hoi. rewrite Hb. apply orb_true_iff.
           destruct (N.eq_dec i c) as [->|Hic]; [right; apply N.eqb_refl|left].
           rewrite (Hho i Hic) in Hoi. unfold entry_or_empty.
           destruct (t_get (tracker s) o) as [e0|] eqn:E0.
           ++ destruct (H1 o e0 E0) as [_ [B _]]. apply B; assumption.
           ++ specialize (Hnone eq_refl). specialize (H3 o Hnone E0 i Hi). lia.
        -- intros Hoh. unfold entry_or_empty in *.
           destruct (t_get (tracker s) o) as [e0|] eqn:E0; [|specialize (Hnone eq_refl); lia].
           destruct (H1 o e0 E0) as [_ [_ C]]. specialize (C Hoh).
           destruct (N.testbit e0 c) eqn:Ebit.
           ++ rewrite (count_set_old e0 c e' Hset0 Ebit). exact C.
           ++ rewrite (count_set_new e0 c e' Hset0 Ebit) in *.
              assert ((bs_count e0 + 1)%N <> required s) by (intros Heq; apply Hncommit; split; assumption).
              lia.
      * destruct (H1 k e Hk) as [A [B C]]. split; [exact A|split; [|exact C]].
        intros i Hi Hki. apply (Hbits_old k e Hk Hne i Hi Hki).
    + intros k Hk. rewrite Hcm, Hhd in Hk. rewrite Hget. destruct (Z.eqb_spec k o); [discriminate|]. apply H2. exact Hk.
    + intros k Hk Hkn i Hi. rewrite Hhd in Hk. rewrite Hget in Hkn.
      destruct (Z.eqb_spec k o) as [->|Hne]; [discriminate|].
      pose proof (H3 k Hk Hkn) as Hold.
      destruct (N.eq_dec i c) as [->|Hic].
      * rewrite Hhc. specialize (Hold c Hc). lia.
      * rewrite (Hho i Hic). apply Hold. exact Hi.
    + unfold E4. rewrite Hrf, Hr. exact H4.
    + intros Hz. rewrite Hr in Hz. contradiction.
  - (* bit set, quorum reached: commit := o *)
    exists s', f. split; [reflexivity|].
    destruct Hcore as [Hrf [Hr [_ [Hhd _]]]].
    pose proof Hset as Hset0. apply bs_set_some in Hset. destruct Hset as [_ Hb].
    destruct (H1 o e Hsome) as [Aco [Bo Co]]. specialize (Co Hh).
    assert (Ebit : N.testbit e c = false).
    { destruct (N.testbit e c) eqn:Ebit; [|reflexivity].
      rewrite (count_set_old e c e' Hset0 Ebit) in Hcnt. lia. }
    (* no tracked entry strictly between the old commit offset and o *)
    assert (Hnone_between : forall k, commit s < k < o -> False).
    { intros k Hk.
      destruct (t_get (tracker s) k) as [ek|] eqn:Ek; [|apply (H2 k); [lia|exact Ek]].
      destruct (H1 k ek Ek) as [_ [Bk Ck]]. specialize (Ck ltac:(lia)).
      assert ((bs_count e' <= bs_count ek)%N); [|lia].
      apply count_subset. intros i Hi. rewrite Hb in Hi. apply orb_true_iff in Hi. destruct Hi as [Hi|Hi].
      - destruct (S1s o e Hsome i Hi) as [Hig Hoi]. apply Bk; [exact Hig|lia].
      - apply N.eqb_eq in Hi. subst i. apply Bk; [exact Hc|lia]. }
    assert (Hcm' : commit s' = o) by lia.
    split; [exact HS'|]. split; [exact Hch'|].
    split; [|split; [|split; [|split]]].
    + intros k ek Hk. rewrite Hget in Hk. rewrite Hcm', Hhd, Hr.
      destruct (Z.eqb_spec k o) as [->|Hne]; [discriminate|].
      destruct (H1 k ek Hk) as [A [B C]].
      split; [|split; [|exact C]].
      * destruct (Z.lt_trichotomy k o) as [Hlt|[Heq|Hgt]]; [exfalso; apply (Hnone_between k); lia|contradiction|exact Hgt].
      * intros i Hi Hki. apply (Hbits_old k ek Hk Hne i Hi Hki).
    + intros k Hk. rewrite Hcm', Hhd in Hk. rewrite Hget. destruct (Z.eqb_spec k o); [lia|]. apply H2. lia.
    + intros k Hk Hkn i Hi. rewrite Hhd in Hk. rewrite Hget in Hkn.
      destruct (Z.eqb_spec k o) as [->|Hne]; [lia|].
      pose proof (H3 k Hk Hkn) as Hold.
      destruct (N.eq_dec i c) as [->|Hic].
      * rewrite Hhc. specialize (Hold c Hc). lia.
      * rewrite (Hho i Hic). apply Hold. exact Hi.
    + unfold E4. rewrite Hrf, Hr. exact H4.
    + intros Hz. rewrite Hr in Hz. contradiction.
Qed.

(* ------------------------------------------------------------------ *)
(* AdvanceHeadOffset by one entry                                      *)

Lemma inv_advance s g hi c0 h :
  Inv s g hi c0 -> h <= head s + 1 -> Inv (fst (advance_head s h)) g hi c0.
Proof.
  intros HI Hh1.
  pose proof HI as [HS [Hch [H1 [H2 [H3 [H4 H5]]]]]].
  pose proof (safe_advance s g hi c0 h HS) as HS'.
  destruct HS as [S1s _].
  destruct (advance_ok s h) as [ | s' Hcl Hh Hr0 Hrf Hr Hn Hhd Hg Hc Htr Hcm
                               | s' Hcl Hh Hr0 Hnone Hrf Hr Hn Hhd Hg Hc Hcm Hw Hget
                               | e s' Hcl Hh Hr0 Hsome Hcnt Hrf Hr Hn Hhd Hg Hc Hcm Hget
                               | e s' Hcl Hh Hr0 Hsome Hcnt Hrf Hr Hn Hhd Hg Hc Hcm Hw Htr].
  - exact HI.
  - (* required = 0 *)
    assert (Hh' : h = head s + 1) by lia.
    split; [exact HS'|]. split; [lia|].
    split; [|split; [|split; [|split]]].
    + intros k e Hk. rewrite Htr in Hk. rewrite (H5 Hr0 k) in Hk. discriminate.
    + intros k Hk. lia.
    + intros k Hk Hkn i Hi. destruct H4 as [A [B [C D]]]. rewrite C in Hr0.
      apply N.div_small_iff in Hr0; lia.
    + unfold E4. rewrite Hrf, Hr. exact H4.
    + intros _ k. rewrite Htr. apply H5. exact Hr0.
  - (* new empty entry *)
    assert (Hh' : h = head s + 1) by lia.
    split; [exact HS'|]. split; [lia|].
    split; [|split; [|split; [|split]]].
    + intros k e Hk. rewrite Hget in Hk. rewrite Hcm, Hhd, Hr.
      destruct (Z.eqb_spec k h) as [->|Hne].
      * inversion Hk; subst e. split; [lia|split].
        -- intros i Hi Hhi. specialize (H3 h Hh Hnone i Hi). lia.
        -- intros _. rewrite count_empty. lia.
      * destruct (H1 k e Hk) as [A [B C]]. split; [exact A|split; [exact B|]].
        intros Hkh. apply C. lia.
    + intros k Hk. rewrite Hget. destruct (Z.eqb_spec k h); [discriminate|]. apply H2. lia.
    + intros k Hk Hkn i Hi. rewrite Hget in Hkn. destruct (Z.eqb_spec k h); [discriminate|].
      apply (H3 k); [lia|exact Hkn|exact Hi].
    + unfold E4. rewrite Hrf, Hr. exact H4.
    + intros Hz. rewrite Hr in Hz. contradiction.
  - (* early acks already reached the quorum: commit := h *)
    assert (Hh' : h = head s + 1) by lia.
    assert (Hcomm : commit s = head s).
    { destruct (Z.eq_dec (commit s) (head s)) as [?|Hne]; [assumption|exfalso].
      assert (Hk : commit s < head s <= head s) by lia.
      destruct (t_get (tracker s) (head s)) as [ek|] eqn:Ek; [|apply (H2 (head s) Hk Ek)].
      destruct (H1 _ ek Ek) as [_ [Bk Ck]]. specialize (Ck ltac:(lia)).
      assert ((bs_count e <= bs_count ek)%N); [|lia].
      apply count_subset. intros i Hi. destruct (S1s h e Hsome i Hi) as [Hig Hoi]. apply Bk; [exact Hig|lia]. }
    split; [exact HS'|]. split; [lia|].
    split; [|split; [|split; [|split]]].
    + intros k ek Hk. rewrite Hget in Hk. rewrite Hcm, Hhd, Hr.
      destruct (Z.eqb_spec k h) as [->|Hne]; [discriminate|].
      destruct (H1 k ek Hk) as [A [B C]]. split; [lia|split; [exact B|]]. intros Hkh. lia.
    + intros k Hk. lia.
    + intros k Hk Hkn i Hi. rewrite Hget in Hkn. destruct (Z.eqb_spec k h); [lia|].
      apply (H3 k); [lia|exact Hkn|exact Hi].
    + unfold E4. rewrite Hrf, Hr. exact H4.
    + intros Hz. rewrite Hr in Hz. contradiction.
  - (* early acks below the quorum *)
    assert (Hh' : h = head s + 1) by lia.
    split; [exact HS'|]. split; [lia|].
    split; [|split; [|split; [|split]]].
    + intros k ek Hk. rewrite Htr in Hk. rewrite Hcm, Hhd, Hr.
      destruct (H1 k ek Hk) as [A [B C]]. split; [exact A|split; [exact B|]].
      intros Hkh. destruct (Z.eq_dec k h) as [->|Hne].
      * rewrite Hsome in Hk. inversion Hk; subst ek. exact Hcnt.
      * apply C. lia.
    + intros k Hk. rewrite Htr. destruct (Z.eq_dec k h) as [->|Hne]; [congruence|]. apply H2. lia.
    + intros k Hk Hkn i Hi. rewrite Htr in Hkn. apply (H3 k); [lia|exact Hkn|exact Hi].
    + unfold E4. rewrite Hrf, Hr. exact H4.
    + intros Hz. rewrite Hr in Hz. contradiction.
Qed.

(* ------------------------------------------------------------------ *)
(* NewCursorAcker                                                      *)

Lemma inv_attach s g hi c0 v :
  Inv s g hi c0 -> (g + 2 <= rf s)%N -> v <= commit s -> Inv s (g + 1) (upd hi g v) c0.
Proof.
  intros [HS [Hch [H1 [H2 [H3 [H4 H5]]]]]] Hg Hv.
  split; [|split; [exact Hch|split; [|split; [exact H2|split; [|split; [|exact H5]]]]]].
  - eapply safe_mono; [exact HS|lia|]. intros c Hc. rewrite upd_other by lia. lia.
  - intros k e Hk. destruct (H1 k e Hk) as [A [B C]]. split; [exact A|split; [|exact C]].
    intros i Hi Hki. destruct (N.eq_dec i g) as [->|Hne].
    + rewrite upd_same in Hki. lia.
    + rewrite upd_other in Hki by exact Hne. apply B; [lia|exact Hki].
  - intros k Hk Hkn i Hi. destruct (N.eq_dec i g) as [->|Hne].
    + rewrite upd_same. lia.
    + rewrite upd_other by exact Hne. apply (H3 k Hk Hkn). lia.
  - destruct H4 as [A [B [C D]]]. repeat split; try assumption. lia.
Qed.

Lemma inv_ack_loop g c0 c : (c < g)%N -> forall n s hi acc,
  Inv s g hi c0 ->
  exists s' f, ack_loop s c (z_range (hi c + 1) n) acc = AckOk s' f /\
               Inv s' g (upd hi c (hi c + Z.of_nat n)) c0.
Proof.
  intros Hc. induction n as [|n IH]; intros s hi acc HI; cbn [z_range ack_loop].
  - exists s, acc. split; [reflexivity|]. eapply inv_ext; [|exact HI].
    intros x. unfold upd. destruct (N.eqb_spec x c) as [->|_]; [cbn; lia|reflexivity].
  - destruct (inv_ack s g hi c0 c (hi c + 1) HI Hc ltac:(lia)) as [s1 [f1 [E1' HI1]]].
    rewrite E1'.
    set (hi1 := upd hi c (Z.max (hi c) (hi c + 1))) in *.
    assert (Hh1 : hi1 c = hi c + 1) by (unfold hi1; rewrite upd_same; lia).
    destruct (IH s1 hi1 (acc ++ f1) HI1) as [s' [f' [El HI']]].
    rewrite Hh1 in El. exists s', f'. split; [exact El|].
    eapply inv_ext; [|exact HI'].
    intros x. unfold upd. destruct (N.eqb_spec x c) as [->|Hne].
    + rewrite Hh1. lia.
    + unfold hi1, upd. destruct (N.eqb_spec x c); [contradiction|reflexivity].
Qed.

(* ------------------------------------------------------------------ *)
(* every admissible step preserves the invariant                       *)

Lemma gstep_inv s hi c0 x s' hi' :
  Inv s (cursor_gen s) hi c0 -> gstep (s, hi) x = Some (s', hi') ->
  Inv s' (cursor_gen s') hi' c0.
Proof.
  intros HI Hg. destruct x as [|h|o id|a|c o|]; cbn [gstep] in Hg.
  - inversion Hg; subst. cbn. eapply inv_fields; [| | | | |exact HI]; reflexivity.
  - destruct (Z.leb_spec h (head s + 1)) as [Hh|Hh]; [|discriminate]. inversion Hg; subst hi' s'. cbn [step].
    pose proof (inv_advance s (cursor_gen s) hi c0 h HI Hh) as H.
    assert (Hgen : cursor_gen (fst (advance_head s h)) = cursor_gen s).
    { pose proof (advance_ok s h) as Ha. inversion Ha; subst; congruence. }
    destruct (advance_head s h) as [s1 f]. cbn [fst] in *. rewrite Hgen. exact H.
  - inversion Hg; subst hi' s'. cbn [step].
    pose proof (wait_spec s o id) as Hw. cbn zeta in Hw.
    destruct (wait_async s o id) as [s1 f]. cbn [fst] in *.
    destruct Hw as [[Hrf [Hr [_ [Hhd [Hgen _]]]]] [Hc Ht]]. rewrite Hgen.
    eapply inv_fields; [exact Ht|exact Hc|exact Hr|exact Hhd|exact Hrf|exact HI].
  - unfold new_cursor in Hg.
    destruct (N.leb_spec ((rf s + U32 - 1) mod U32) (cursor_gen s mod U32)) as [Hmany|Hmany];
      [inversion Hg; subst; exact HI|].
    destruct (head s <? a) eqn:Hha; [inversion Hg; subst; exact HI|].
    apply Z.ltb_ge in Hha.
    set (g := cursor_gen s) in *.
    pose proof HI as [_ [Hch [_ [_ [_ [H4 _]]]]]].
    pose proof (e4_g16 s g H4) as Hg16.
    assert (Hg2 : (g + 2 <= rf s)%N).
    { destruct H4 as [A [B _]]. unfold U32 in Hmany.
      rewrite (N.mod_small g) in Hmany by lia.
      replace (rf s + 4294967296 - 1)%N with ((rf s - 1) + 1 * 4294967296)%N in Hmany by lia.
      rewrite N.mod_add in Hmany by lia. rewrite N.mod_small in Hmany by lia. lia. }
    set (v := Z.min a (commit s)).
    pose proof (inv_attach s g hi c0 v HI Hg2 ltac:(unfold v; lia)) as HI1.
    set (hi1 := upd hi g v) in *.
    assert (Hv : hi1 g = v) by (unfold hi1; apply upd_same).
    destruct (inv_ack_loop (g + 1) c0 g ltac:(lia) (Z.to_nat (a - commit s)) s hi1 [] HI1) as [s1 [f1 [El HI2]]].
    assert (Hl : z_range (hi1 g + 1) (Z.to_nat (a - commit s)) = z_range (commit s + 1) (Z.to_nat (a - commit s))).
    { rewrite Hv. unfold v. destruct (Z.le_gt_cases a (commit s)) as [Hle|Hgt].
      - replace (Z.to_nat (a - commit s)) with 0%nat by lia. reflexivity.
      - rewrite Z.min_r by lia. reflexivity. }
    rewrite Hl in El. rewrite El in Hg. inversion Hg; subst s' hi'. cbn [cursor_gen set_cursor_gen].
    pose proof (ack_loop_core s g (z_range (commit s + 1) (Z.to_nat (a - commit s))) []) as Hcore.
    rewrite El in Hcore. cbn [ack_state] in Hcore. destruct Hcore as [_ [_ [_ [_ [Hgen _]]]]].
    rewrite Hgen. fold g.
    eapply inv_fields; [| | | | |eapply inv_ext; [|exact HI2]]; try reflexivity.
    intros x. unfold hi1, upd. destruct (N.eqb_spec x g) as [->|Hne]; [|reflexivity].
    rewrite N.eqb_refl. unfold v. lia.
  - destruct (N.ltb_spec c (cursor_gen s)) as [Hc|Hc]; cbn [andb] in Hg; [|discriminate].
    destruct (Z.leb_spec o (hi c + 1)) as [Ho|Ho]; [|discriminate].
    destruct (inv_ack s (cursor_gen s) hi c0 c o HI Hc Ho) as [s1 [f1 [E HI1]]].
    rewrite E in Hg. inversion Hg; subst s' hi'.
    pose proof (ack_core s c o) as Hcore. rewrite E in Hcore. cbn [ack_state] in Hcore.
    destruct Hcore as [_ [_ [_ [_ [Hgen _]]]]]. rewrite Hgen. exact HI1.
  - inversion Hg; subst. cbn. eapply inv_fields; [| | | | |exact HI]; reflexivity.
Qed.

Definition init_ok (rf0 : N) (h0 c0 : Z) : Prop :=
  (1 <= rf0)%N /\ (rf0 <= 17)%N /\ c0 <= h0 /\ (rf0 = 1%N -> c0 = h0).

Lemma inv_init rf0 h0 c0 : init_ok rf0 h0 c0 -> Inv (new_tracker rf0 h0 c0) 0 ghost0 c0.
Proof.
  intros [A [B [C D]]].
  split; [apply safe_init|]. split; [exact C|].
  assert (Hget : forall o, t_get (tracker (new_tracker rf0 h0 c0)) o =
                           if (c0 + 1 <=? o) && (o <? c0 + 1 + Z.of_nat (Z.to_nat (h0 - c0))) then Some bs_empty else None).
  { intros o. cbn [new_tracker tracker]. apply t_get_init_range. }
  split; [|split; [|split; [|split]]].
  - intros o e Ho. rewrite Hget in Ho. cbn [new_tracker commit head required].
    destruct (Z.leb_spec (c0 + 1) o); destruct (Z.ltb_spec o (c0 + 1 + Z.of_nat (Z.to_nat (h0 - c0)))); cbn [andb] in Ho; try discriminate.
    inversion Ho; subst e. split; [lia|split].
    + intros i Hi. lia.
    + intros _. rewrite count_empty.
      assert (rf0 <> 1%N) by (intros E; specialize (D E); lia).
      assert (1 <= rf0 / 2)%N; [|lia]. apply N.div_le_lower_bound; lia.
  - intros o Ho. cbn [new_tracker commit head] in Ho. rewrite Hget.
    destruct (Z.leb_spec (c0 + 1) o); destruct (Z.ltb_spec o (c0 + 1 + Z.of_nat (Z.to_nat (h0 - c0)))); cbn [andb]; try discriminate; lia.
  - intros o Ho Hn i Hi. lia.
  - cbn [new_tracker]. unfold E4. cbn [rf required]. repeat split; try assumption; lia.
  - intros Hz o. cbn [new_tracker required] in Hz. rewrite Hget.
    assert (rf0 = 1%N) by (apply N.div_small_iff in Hz; lia).
    specialize (D H). subst c0.
    destruct (Z.leb_spec (h0 + 1) o); destruct (Z.ltb_spec o (h0 + 1 + Z.of_nat (Z.to_nat (h0 - h0)))); cbn [andb]; try reflexivity; lia.
Qed.

Lemma grun_inv c0 ops : forall s hi s' hi',
  Inv s (cursor_gen s) hi c0 -> grun (s, hi) ops = Some (s', hi') -> Inv s' (cursor_gen s') hi' c0.
Proof.
  induction ops as [|x tl IH]; intros s hi s' hi' HS Hr; cbn [grun] in Hr.
  - inversion Hr; subst. exact HS.
  - destruct (gstep (s, hi) x) as [[s1 hi1]|] eqn:E; [|discriminate].
    eapply IH; [|exact Hr]. eapply gstep_inv; eauto.
Qed.

(* in a state satisfying the invariant the commit offset is the true commit offset *)
Lemma inv_true_commit s g hi c0 : Inv s g hi c0 -> is_true_commit s g hi c0 (commit s).
Proof.
  intros [[S1s [S2s S3s]] [Hch [H1 [H2 [H3 [H4 H5]]]]]].
  split; [lia|]. split; [exact S2s|].
  intros o Ho Hp.
  destruct (t_get (tracker s) o) as [e|] eqn:E; [|apply (H2 o Ho E)].
  destruct (H1 o e E) as [_ [B C]]. specialize (C ltac:(lia)).
  assert (Hq : (required s <= nacks g hi o)%N) by (apply (Hp o); lia).
  pose proof (nacks_le_count e g hi o (e4_g16 s g H4) B). lia.
Qed.

(* THEOREM (every admissible schedule, 1 <= rf <= 17): in every reachable state the commit
   offset is the highest offset <= head whose whole prefix is acknowledged by rf/2 followers.
   Every [OpAck] is a delivered ack, so this is in particular the state "at quiescence". *)
Theorem commit_eq_true_commit rf0 h0 c0 ops s hi :
  init_ok rf0 h0 c0 -> grun (new_tracker rf0 h0 c0, ghost0) ops = Some (s, hi) ->
  is_true_commit s (cursor_gen s) hi c0 (commit s).
Proof.
  intros H0 Hr. apply inv_true_commit.
  exact (grun_inv c0 ops _ _ _ _ (inv_init rf0 h0 c0 H0) Hr).
Qed.

(* the true commit offset is unique, so "is" can be read as "equals" *)
Lemma true_commit_unique s g hi c0 T T' :
  is_true_commit s g hi c0 T -> is_true_commit s g hi c0 T' -> T = T'.
Proof.
  intros [A [B C]] [A' [B' C']].
  destruct (Z.lt_trichotomy T T') as [H|[H|H]]; [|exact H|].
  - exfalso. apply (C T'); [lia|exact B'].
  - exfalso. apply (C' T); [lia|exact B].
Qed.
