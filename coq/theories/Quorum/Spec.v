(* Characterisation of every tracker operation by its effect on the fields that the
   invariants talk about (so that the invariant proofs never unfold the operations again),
   and the facts that hold for EVERY call sequence: the commit offset is monotone and never
   passes the head offset. *)
From Coq Require Import List NArith ZArith Bool Lia.
From Oxia.Quorum Require Import Model Bits.
Import ListNotations.
Open Scope Z_scope.

(* all fields except tracker / commit / waiting are unchanged *)
Definition same_core (s s' : state) : Prop :=
  rf s' = rf s /\ required s' = required s /\ next s' = next s /\ head s' = head s /\
  cursor_gen s' = cursor_gen s /\ closed s' = closed s.

Lemma same_core_refl s : same_core s s.
Proof. repeat split. Qed.

Lemma same_core_trans a b c : same_core a b -> same_core b c -> same_core a c.
Proof. unfold same_core. intuition congruence. Qed.

(* ---------------- notify ---------------- *)

Lemma notify_spec s c :
  let s' := fst (notify s c) in
  same_core s s' /\ tracker s' = tracker s /\ commit s' = Z.max (commit s) c.
Proof.
  unfold notify. destruct (Z.leb_spec c (commit s)).
  - cbn [fst]. repeat split. lia.
  - destruct (release (waiting s) c) as [f r]. cbn [fst]. repeat split. cbn. lia.
Qed.

(* ---------------- ack ---------------- *)

Definition entry_or_empty (s : state) (o : Z) : bitset :=
  match t_get (tracker s) o with Some e => e | None => bs_empty end.

Inductive ack_spec (s : state) (c : N) (o : Z) : ack_res -> Prop :=
| AS_ignored :
    t_get (tracker s) o = None -> o <= head s -> ack_spec s c o (AckOk s [])
| AS_panic s' :
    (16 <= c)%N -> same_core s s' -> commit s' = commit s -> waiting s' = waiting s ->
    (forall k, t_get (tracker s') k = t_get (tracker s) k \/
               (t_get (tracker s') k = Some bs_empty /\ head s < k)) ->
    ack_spec s c o (AckPanic s')
| AS_set e' s' :
    (t_get (tracker s) o = None -> head s < o) ->
    bs_set (entry_or_empty s o) c = Some e' ->
    ~ (o <= head s /\ bs_count e' = required s) ->
    same_core s s' -> commit s' = commit s -> waiting s' = waiting s ->
    (forall k, t_get (tracker s') k = if k =? o then Some e' else t_get (tracker s) k) ->
    ack_spec s c o (AckOk s' [])
| AS_commit e e' s' f :
    t_get (tracker s) o = Some e ->
    bs_set e c = Some e' ->
    o <= head s -> bs_count e' = required s ->
    same_core s s' -> commit s' = Z.max (commit s) o ->
    (forall k, t_get (tracker s') k = if k =? o then None else t_get (tracker s) k) ->
    ack_spec s c o (AckOk s' f).

Lemma ack_ok s c o : ack_spec s c o (ack s c o).
Proof.
  unfold ack. cbn zeta.
  destruct (t_get (tracker s) o) as [e|] eqn:Hget.
  - (* found *)
    destruct (bs_set e c) as [e'|] eqn:Hset.
    + destruct ((o <=? head s) && (bs_count e' =? required (set_tracker s (t_put (tracker s) o e')))%N) eqn:Hc.
      * apply andb_true_iff in Hc. destruct Hc as [Hh Hcnt].
        apply Z.leb_le in Hh. apply N.eqb_eq in Hcnt. cbn [required set_tracker] in Hcnt.
        pose proof (notify_spec (set_tracker (set_tracker s (t_put (tracker s) o e'))
                       (t_del (tracker (set_tracker s (t_put (tracker s) o e'))) o)) o) as Hn.
        destruct (notify _ o) as [s2 f] eqn:En. cbn [fst] in Hn. destruct Hn as [Hcore [Htr Hcm]].
        apply (AS_commit s c o e e' s2 f Hget Hset Hh Hcnt).
        -- eapply same_core_trans; [|exact Hcore]. repeat split.
        -- exact Hcm.
        -- intros k. rewrite Htr. cbn [tracker set_tracker]. rewrite t_get_del, t_get_put.
           destruct (k =? o); reflexivity.
      * eapply AS_set.
        -- intros Hn. congruence.
        -- unfold entry_or_empty. rewrite Hget. exact Hset.
        -- intros [Hh Hcnt]. apply andb_false_iff in Hc. destruct Hc as [Hc|Hc].
           ++ apply Z.leb_gt in Hc. lia.
           ++ apply N.eqb_neq in Hc. cbn [required set_tracker] in Hc. congruence.
        -- repeat split.
        -- reflexivity.
        -- reflexivity.
        -- intros k. cbn [tracker set_tracker]. apply t_get_put.
    + apply AS_panic.
      * unfold bs_set in Hset. destruct (N.leb_spec 16 c); [assumption|discriminate].
      * apply same_core_refl.
      * reflexivity.
      * reflexivity.
      * intros k. left. reflexivity.
  - (* not found *)
    destruct (Z.leb_spec o (head s)) as [Hh|Hh].
    + apply AS_ignored; assumption.
    + destruct (bs_set bs_empty c) as [e'|] eqn:Hset.
      * cbn [andb].
        eapply AS_set.
        -- intros _. exact Hh.
        -- unfold entry_or_empty. rewrite Hget. exact Hset.
        -- intros [Hle _]. lia.
        -- repeat split.
        -- reflexivity.
        -- reflexivity.
        -- intros k. cbn [tracker set_tracker]. rewrite !t_get_put. destruct (k =? o); reflexivity.
      * apply AS_panic.
        -- unfold bs_set in Hset. destruct (N.leb_spec 16 c); [assumption|discriminate].
        -- repeat split.
        -- reflexivity.
        -- reflexivity.
        -- intros k. cbn [tracker set_tracker]. rewrite t_get_put.
           destruct (Z.eqb_spec k o) as [->|Hne]; [right; split; [reflexivity|exact Hh]|left; reflexivity].
Qed.

(* ---------------- advance_head ---------------- *)

Inductive adv_spec (s : state) (h : Z) : state -> Prop :=
| AD_noop : closed s = true \/ h <= head s -> adv_spec s h s
| AD_req0 s' :
    closed s = false -> head s < h -> required s = 0%N ->
    rf s' = rf s -> required s' = required s -> next s' = next s -> head s' = h ->
    cursor_gen s' = cursor_gen s -> closed s' = closed s ->
    tracker s' = tracker s -> commit s' = Z.max (commit s) h -> adv_spec s h s'
| AD_new s' :
    closed s = false -> head s < h -> required s <> 0%N -> t_get (tracker s) h = None ->
    rf s' = rf s -> required s' = required s -> next s' = next s -> head s' = h ->
    cursor_gen s' = cursor_gen s -> closed s' = closed s ->
    commit s' = commit s -> waiting s' = waiting s ->
    (forall k, t_get (tracker s') k = if k =? h then Some bs_empty else t_get (tracker s) k) ->
    adv_spec s h s'
| AD_commit e s' :
    closed s = false -> head s < h -> required s <> 0%N -> t_get (tracker s) h = Some e ->
    (required s <= bs_count e)%N ->
    rf s' = rf s -> required s' = required s -> next s' = next s -> head s' = h ->
    cursor_gen s' = cursor_gen s -> closed s' = closed s ->
    commit s' = Z.max (commit s) h ->
    (forall k, t_get (tracker s') k = if k =? h then None else t_get (tracker s) k) ->
    adv_spec s h s'
| AD_wait e s' :
    closed s = false -> head s < h -> required s <> 0%N -> t_get (tracker s) h = Some e ->
    (bs_count e < required s)%N ->
    rf s' = rf s -> required s' = required s -> next s' = next s -> head s' = h ->
    cursor_gen s' = cursor_gen s -> closed s' = closed s ->
    commit s' = commit s -> waiting s' = waiting s -> tracker s' = tracker s ->
    adv_spec s h s'.

Lemma advance_ok s h : adv_spec s h (fst (advance_head s h)).
Proof.
  unfold advance_head.
  destruct (closed s) eqn:Hcl; [cbn [fst]; apply AD_noop; left; exact Hcl|].
  destruct (Z.leb_spec h (head s)) as [Hh|Hh]; [cbn [fst]; apply AD_noop; right; exact Hh|].
  cbn [required set_head tracker].
  destruct (N.eqb_spec (required s) 0) as [Hr|Hr].
  - pose proof (notify_spec (set_head s h) h) as Hn. cbn zeta in Hn.
    destruct Hn as [[H1 [H2 [H3 [H4 [H5 H6]]]]] [Htr Hcm]]. cbn [rf required next head cursor_gen closed set_head tracker commit] in *.
    eapply AD_req0; eauto.
  - destruct (t_get (tracker s) h) as [e|] eqn:Hget.
    + destruct (N.leb_spec (required s) (bs_count e)) as [Hc|Hc].
      * pose proof (notify_spec (set_tracker (set_head s h) (t_del (tracker s) h)) h) as Hn. cbn zeta in Hn.
        destruct Hn as [[H1 [H2 [H3 [H4 [H5 H6]]]]] [Htr Hcm]].
        cbn [rf required next head cursor_gen closed set_head set_tracker tracker commit] in *.
        eapply AD_commit; eauto.
        intros k. rewrite Htr. apply t_get_del.
      * cbn [fst]. eapply AD_wait; eauto.
    + cbn [fst]. eapply AD_new; eauto.
      intros k. cbn [tracker set_tracker set_head]. apply t_get_put.
Qed.

(* ---------------- the other operations ---------------- *)

Lemma next_spec s : let s' := fst (next_offset s) in
  rf s' = rf s /\ required s' = required s /\ head s' = head s /\ commit s' = commit s /\
  tracker s' = tracker s /\ cursor_gen s' = cursor_gen s /\ closed s' = closed s /\
  waiting s' = waiting s /\ next s' = next s + 1.
Proof. cbn. repeat split. Qed.

Lemma wait_spec s o id : let s' := fst (wait_async s o id) in
  same_core s s' /\ commit s' = commit s /\ tracker s' = tracker s.
Proof.
  unfold wait_async. destruct (closed s); [cbn; repeat split|].
  destruct ((required s =? 0)%N || (o <=? commit s)); cbn; repeat split.
Qed.

Lemma close_spec s : let s' := fst (close s) in
  rf s' = rf s /\ required s' = required s /\ next s' = next s /\ head s' = head s /\
  cursor_gen s' = cursor_gen s /\ commit s' = commit s /\ tracker s' = tracker s /\
  waiting s' = waiting s /\ closed s' = true.
Proof. cbn. repeat split. Qed.


(* ---------------- how the waiting requests are released ---------------- *)
(* every operation either leaves commit / waiting alone and fires nothing, or ends with one
   notifyCommitOffsetAdvanced on a state with the same commit / waiting *)

Definition via_notify (s : state) (o : Z) (s' : state) (f : list (N * bool)) : Prop :=
  (waiting s' = waiting s /\ commit s' = commit s /\ f = []) \/
  (exists sm, waiting sm = waiting s /\ commit sm = commit s /\ notify sm o = (s', f)).

Lemma ack_via_notify s c o s' f : ack s c o = AckOk s' f -> via_notify s o s' f.
Proof.
  unfold ack. cbn zeta. intros H.
  destruct (t_get (tracker s) o) as [e|].
  - destruct (bs_set e c) as [e'|]; [|discriminate].
    destruct ((o <=? head s) && _).
    + match type of H with context [notify ?X o] =>
        destruct (notify X o) as [s2 f2] eqn:En; inversion H; subst; right; exists X;
        split; [reflexivity|split; [reflexivity|exact En]] end.
    + inversion H; subst. left. repeat split.
  - destruct (o <=? head s).
    + inversion H; subst. left. repeat split.
    + destruct (bs_set bs_empty c) as [e'|]; [|discriminate]. cbn [andb] in H.
      inversion H; subst. left. repeat split.
Qed.

Lemma advance_via_notify s h s' f : advance_head s h = (s', f) -> via_notify s h s' f.
Proof.
  unfold advance_head. intros H.
  destruct (closed s); [inversion H; subst; left; repeat split|].
  destruct (h <=? head s); [inversion H; subst; left; repeat split|].
  destruct (required (set_head s h) =? 0)%N.
  - right. eexists. split; [|split; [|exact H]]; reflexivity.
  - destruct (t_get (tracker (set_head s h)) h) as [e|].
    + destruct (required (set_head s h) <=? bs_count e)%N.
      * right. eexists. split; [|split; [|exact H]]; reflexivity.
      * inversion H; subst. left. repeat split.
    + inversion H; subst. left. repeat split.
Qed.

(* ---------------- facts about ack_res in general ---------------- *)

Definition ack_state (r : ack_res) : state :=
  match r with AckOk s _ => s | AckPanic s => s end.

Lemma ack_commit_mono s c o : commit s <= commit (ack_state (ack s c o)).
Proof.
  destruct (ack_ok s c o); cbn [ack_state]; lia.
Qed.

Lemma ack_head s c o : head (ack_state (ack s c o)) = head s.
Proof.
  destruct (ack_ok s c o) as [| ? ? Hc | ? ? ? ? ? Hc | ? ? ? ? ? ? ? ? Hc]; cbn [ack_state];
    try reflexivity; apply Hc.
Qed.

Lemma ack_commit_le_head s c o :
  commit s <= head s -> commit (ack_state (ack s c o)) <= head (ack_state (ack s c o)).
Proof.
  intros H. rewrite ack_head.
  destruct (ack_ok s c o); cbn [ack_state]; lia.
Qed.

Lemma ack_loop_mono s c l acc :
  commit s <= commit (ack_state (ack_loop s c l acc)) /\
  head (ack_state (ack_loop s c l acc)) = head s.
Proof.
  revert s acc; induction l as [|o tl IH]; intros s acc; cbn [ack_loop ack_state]; [split; [lia|reflexivity]|].
  pose proof (ack_commit_mono s c o) as Hm. pose proof (ack_head s c o) as Hh.
  destruct (ack s c o) as [s' f|s']; cbn [ack_state] in *.
  - destruct (IH s' (acc ++ f)) as [H1 H2]. split; [lia|congruence].
  - split; [lia|congruence].
Qed.

Lemma ack_loop_commit_le_head s c l acc :
  commit s <= head s ->
  commit (ack_state (ack_loop s c l acc)) <= head (ack_state (ack_loop s c l acc)).
Proof.
  revert s acc; induction l as [|o tl IH]; intros s acc H; cbn [ack_loop ack_state]; [exact H|].
  pose proof (ack_commit_le_head s c o H) as Hm.
  destruct (ack s c o) as [s' f|s']; cbn [ack_state] in *.
  - apply IH. exact Hm.
  - exact Hm.
Qed.

(* ---------------- every step: commit monotone, commit <= head preserved ---------------- *)

Lemma step_commit_mono s x : commit s <= commit (fst (step s x)).
Proof.
  destruct x as [|h|o id|a|c o|]; cbn [step].
  - cbn. lia.
  - destruct (advance_head s h) as [s' f] eqn:E. cbn [fst].
    pose proof (advance_ok s h) as Ha. rewrite E in Ha. cbn [fst] in Ha.
    inversion Ha; subst; lia.
  - destruct (wait_async s o id) as [s' f] eqn:E. cbn [fst].
    pose proof (wait_spec s o id) as Hw. rewrite E in Hw. cbn in Hw. lia.
  - unfold new_cursor.
    destruct ((rf s + U32 - 1) mod U32 <=? cursor_gen s mod U32)%N; [cbn; lia|].
    destruct (head s <? a); [cbn; lia|].
    pose proof (ack_loop_mono s (cursor_gen s) (z_range (commit s + 1) (Z.to_nat (a - commit s))) []) as [Hm _].
    destruct (ack_loop _ _ _ _) as [s' f|s']; cbn [ack_state fst commit set_cursor_gen] in *; exact Hm.
  - pose proof (ack_commit_mono s c o) as Hm.
    destruct (ack s c o) as [s' f|s']; cbn [ack_state fst] in *; exact Hm.
  - cbn. lia.
Qed.

Lemma step_commit_le_head s x : commit s <= head s -> commit (fst (step s x)) <= head (fst (step s x)).
Proof.
  intros H. destruct x as [|h|o id|a|c o|]; cbn [step].
  - cbn. exact H.
  - destruct (advance_head s h) as [s' f] eqn:E. cbn [fst].
    pose proof (advance_ok s h) as Ha. rewrite E in Ha. cbn [fst] in Ha.
    inversion Ha; subst; lia.
  - destruct (wait_async s o id) as [s' f] eqn:E. cbn [fst].
    pose proof (wait_spec s o id) as Hw. rewrite E in Hw. cbn in Hw.
    destruct Hw as [[_ [_ [_ [Hh _]]]] [Hc _]]. lia.
  - unfold new_cursor.
    destruct ((rf s + U32 - 1) mod U32 <=? cursor_gen s mod U32)%N; [cbn; lia|].
    destruct (head s <? a); [cbn; lia|].
    pose proof (ack_loop_commit_le_head s (cursor_gen s) (z_range (commit s + 1) (Z.to_nat (a - commit s))) [] H) as Hm.
    destruct (ack_loop _ _ _ _) as [s' f|s']; cbn [ack_state fst commit head set_cursor_gen] in *; exact Hm.
  - pose proof (ack_commit_le_head s c o H) as Hm.
    destruct (ack s c o) as [s' f|s']; cbn [ack_state fst] in *; exact Hm.
  - cbn. exact H.
Qed.

(* THEOREM (all call sequences, any starting state): the commit offset never moves backwards *)
Theorem commit_monotone s ops1 ops2 : commit (run s ops1) <= commit (run s (ops1 ++ ops2)).
Proof.
  unfold run. rewrite fold_left_app. generalize (fold_left (fun st x => fst (step st x)) ops1 s) as t.
  induction ops2 as [|x tl IH]; intros t; cbn [fold_left]; [lia|].
  pose proof (step_commit_mono t x). specialize (IH (fst (step t x))). lia.
Qed.

(* THEOREM (all call sequences): the commit offset never passes the head offset *)
Theorem commit_le_head rf0 h0 c0 ops : c0 <= h0 ->
  commit (run (new_tracker rf0 h0 c0) ops) <= head (run (new_tracker rf0 h0 c0) ops).
Proof.
  intros H. unfold run.
  assert (Hi : commit (new_tracker rf0 h0 c0) <= head (new_tracker rf0 h0 c0)) by exact H.
  revert Hi. generalize (new_tracker rf0 h0 c0) as t.
  induction ops as [|x tl IH]; intros t Hi; cbn [fold_left]; [exact Hi|].
  apply IH. apply step_commit_le_head. exact Hi.
Qed.
