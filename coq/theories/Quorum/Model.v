(* Model of server/quorum_ack_tracker.go (with the O-8 repair applied, see Old.v for the
   code as it was) and of server/util/bitset.go.

   One function per Go method, same statement order.  Offsets are Go int64 (Z, no wrap is
   reachable: offsets only grow by one per write), the replication factor and the ack count
   are uint32 (N, explicit [mod 2^32] where the Go expression can wrap), a cursor index is
   a Go int that starts at 0 and only increments (N).  A Go panic (BitSet.Set with an
   index >= 16) is the explicit outcome [AckPanic]/[CurPanic]; the state it carries is the
   state the tracker is left in (all locks are released by [defer]).

   Callbacks are identified by a number; every operation returns the callbacks it fired,
   in order, with [true] = OnComplete(nil) and [false] = OnCompleteError(ErrAlreadyClosed). *)
From Coq Require Import List NArith ZArith Bool.
Import ListNotations.
Open Scope Z_scope.

(* ------------------------------------------------------------------ *)
(* util.BitSet : a uint16                                              *)

Definition bitset := N.
Definition bs_empty : bitset := 0%N.
Definition idxs16 : list N := [0;1;2;3;4;5;6;7;8;9;10;11;12;13;14;15]%N.

(* bits.OnesCount16(bs.bits) *)
Definition bs_count (b : bitset) : N := N.of_nat (length (filter (N.testbit b) idxs16)).

(* Set: panics (None) when idx >= MaxBitSetSize; idx < 0 cannot happen (cursor indices start at 0) *)
Definition bs_set (b : bitset) (idx : N) : option bitset :=
  if (16 <=? idx)%N then None else Some (N.lor b (N.shiftl 1 idx)).

(* ------------------------------------------------------------------ *)
(* tracker map[int64]*BitSet as an association list read through t_get *)

Definition tmap := list (Z * bitset).

Fixpoint t_get (m : tmap) (o : Z) : option bitset :=
  match m with
  | [] => None
  | (k, v) :: tl => if k =? o then Some v else t_get tl o
  end.

Fixpoint t_del (m : tmap) (o : Z) : tmap :=
  match m with
  | [] => []
  | (k, v) :: tl => if k =? o then t_del tl o else (k, v) :: t_del tl o
  end.

Definition t_put (m : tmap) (o : Z) (v : bitset) : tmap := (o, v) :: t_del m o.

(* ------------------------------------------------------------------ *)

Definition U32 : N := 4294967296%N.

Record state := mkState {
  rf : N;                       (* replicationFactor uint32 *)
  required : N;                 (* requiredAcks uint32 *)
  next : Z;                     (* nextOffset *)
  head : Z;                     (* headOffset *)
  commit : Z;                   (* commitOffset *)
  tracker : tmap;
  cursor_gen : N;               (* cursorIdxGenerator *)
  waiting : list (Z * N);       (* waitingRequests: (minOffset, callback id) *)
  closed : bool
}.

Definition set_next (s : state) (v : Z) : state :=
  mkState (rf s) (required s) v (head s) (commit s) (tracker s) (cursor_gen s) (waiting s) (closed s).
Definition set_head (s : state) (v : Z) : state :=
  mkState (rf s) (required s) (next s) v (commit s) (tracker s) (cursor_gen s) (waiting s) (closed s).
Definition set_commit_waiting (s : state) (c : Z) (w : list (Z * N)) : state :=
  mkState (rf s) (required s) (next s) (head s) c (tracker s) (cursor_gen s) w (closed s).
Definition set_tracker (s : state) (t : tmap) : state :=
  mkState (rf s) (required s) (next s) (head s) (commit s) t (cursor_gen s) (waiting s) (closed s).
Definition set_cursor_gen (s : state) (g : N) : state :=
  mkState (rf s) (required s) (next s) (head s) (commit s) (tracker s) g (waiting s) (closed s).
Definition set_waiting (s : state) (w : list (Z * N)) : state :=
  mkState (rf s) (required s) (next s) (head s) (commit s) (tracker s) (cursor_gen s) w (closed s).
Definition set_closed (s : state) : state :=
  mkState (rf s) (required s) (next s) (head s) (commit s) (tracker s) (cursor_gen s) (waiting s) true.

Fixpoint z_range (from : Z) (n : nat) : list Z :=
  match n with O => [] | S k => from :: z_range (from + 1) k end.

(* NewQuorumAckTracker(replicationFactor, headOffset, commitOffset) *)
Definition new_tracker (rf0 : N) (head0 commit0 : Z) : state :=
  mkState rf0 (rf0 / 2)%N head0 head0 commit0
          (map (fun o => (o, bs_empty)) (z_range (commit0 + 1) (Z.to_nat (head0 - commit0))))
          0%N [] false.

(* the loop of notifyCommitOffsetAdvanced: releases the waiting requests from the front
   and stops at the first one above the new commit offset *)
Fixpoint release (w : list (Z * N)) (c : Z) : list N * list (Z * N) :=
  match w with
  | [] => ([], [])
  | (m, id) :: tl =>
      if c <? m then ([], w)
      else let (f, r) := release tl c in (id :: f, r)
  end.

Definition fired_ok (l : list N) : list (N * bool) := map (fun id => (id, true)) l.

(* notifyCommitOffsetAdvanced *)
Definition notify (s : state) (c : Z) : state * list (N * bool) :=
  if c <=? commit s then (s, [])
  else let (f, r) := release (waiting s) c in (set_commit_waiting s c r, fired_ok f).

(* AdvanceHeadOffset *)
Definition advance_head (s : state) (h : Z) : state * list (N * bool) :=
  if closed s then (s, [])
  else if h <=? head s then (s, [])
  else
    let s1 := set_head s h in
    if (required s1 =? 0)%N then notify s1 h
    else match t_get (tracker s1) h with
         | None => (set_tracker s1 (t_put (tracker s1) h bs_empty), [])
         | Some e =>
             if (required s1 <=? bs_count e)%N
             then notify (set_tracker s1 (t_del (tracker s1) h)) h
             else (s1, [])
         end.

(* NextOffset: nextOffset.Add(1) *)
Definition next_offset (s : state) : state * Z := (set_next s (next s + 1), next s + 1).

(* WaitForCommitOffsetAsync *)
Definition wait_async (s : state) (o : Z) (id : N) : state * list (N * bool) :=
  if closed s then (s, [(id, false)])
  else if (required s =? 0)%N || (o <=? commit s) then (s, [(id, true)])
  else (set_waiting s (waiting s ++ [(o, id)]), []).

(* Close: the waiting requests are failed but stay in the slice *)
Definition close (s : state) : state * list (N * bool) :=
  (set_closed s, map (fun w => (snd w, false)) (waiting s)).

Inductive ack_res :=
| AckOk (s : state) (fired : list (N * bool))
| AckPanic (s : state).

(* cursorAcker.ack with cursorIdx = c *)
Definition ack (s : state) (c : N) (o : Z) : ack_res :=
  let h := head s in
  let found := t_get (tracker s) o in
  match found with
  | None => if o <=? h then AckOk s [] else
      (* early ack: e = &BitSet{}; q.tracker[offset] = e *)
      let s0 := set_tracker s (t_put (tracker s) o bs_empty) in
      match bs_set bs_empty c with
      | None => AckPanic s0
      | Some e' =>
          let s1 := set_tracker s0 (t_put (tracker s0) o e') in
          if (o <=? h) && (bs_count e' =? required s1)%N
          then let (s2, f) := notify (set_tracker s1 (t_del (tracker s1) o)) o in AckOk s2 f
          else AckOk s1 []
      end
  | Some e =>
      match bs_set e c with
      | None => AckPanic s
      | Some e' =>
          let s1 := set_tracker s (t_put (tracker s) o e') in
          if (o <=? h) && (bs_count e' =? required s1)%N
          then let (s2, f) := notify (set_tracker s1 (t_del (tracker s1) o)) o in AckOk s2 f
          else AckOk s1 []
      end
  end.

(* the loop  for offset := commit+1; offset <= ackOffset; offset++ { qa.ack(offset) } *)
Fixpoint ack_loop (s : state) (c : N) (offs : list Z) (acc : list (N * bool)) : ack_res :=
  match offs with
  | [] => AckOk s acc
  | o :: tl =>
      match ack s c o with
      | AckPanic s' => AckPanic s'
      | AckOk s' f => ack_loop s' c tl (acc ++ f)
      end
  end.

Inductive cur_res :=
| CurOk (s : state) (idx : N) (fired : list (N * bool))
| CurTooMany
| CurInvalidHead
| CurPanic (s : state).

(* NewCursorAcker(ackOffset) *)
Definition new_cursor (s : state) (a : Z) : cur_res :=
  if ((rf s + U32 - 1) mod U32 <=? cursor_gen s mod U32)%N then CurTooMany
  else if head s <? a then CurInvalidHead
  else
    let idx := cursor_gen s in
    match ack_loop s idx (z_range (commit s + 1) (Z.to_nat (a - commit s))) [] with
    | AckPanic s' => CurPanic s'
    | AckOk s' f => CurOk (set_cursor_gen s' (cursor_gen s' + 1)%N) idx f
    end.

(* ------------------------------------------------------------------ *)
(* one API call = one step                                             *)

Inductive op :=
| OpNext
| OpAdvance (h : Z)
| OpWait (o : Z) (id : N)
| OpNewCursor (a : Z)
| OpAck (c : N) (o : Z)
| OpClose.

Inductive res :=
| RNone
| RNext (o : Z)
| RCursor (idx : N)
| RErrTooMany
| RErrInvalidHead
| RPanic.

Definition step (s : state) (x : op) : state * (res * list (N * bool)) :=
  match x with
  | OpNext => let (s', o) := next_offset s in (s', (RNext o, []))
  | OpAdvance h => let (s', f) := advance_head s h in (s', (RNone, f))
  | OpWait o id => let (s', f) := wait_async s o id in (s', (RNone, f))
  | OpNewCursor a =>
      match new_cursor s a with
      | CurOk s' idx f => (s', (RCursor idx, f))
      | CurTooMany => (s, (RErrTooMany, []))
      | CurInvalidHead => (s, (RErrInvalidHead, []))
      | CurPanic s' => (s', (RPanic, []))
      end
  | OpAck c o =>
      match ack s c o with
      | AckOk s' f => (s', (RNone, f))
      | AckPanic s' => (s', (RPanic, []))
      end
  | OpClose => let (s', f) := close s in (s', (RNone, f))
  end.

Definition run (s : state) (ops : list op) : state := fold_left (fun st x => fst (step st x)) ops s.

(* what the harness observes after every call: commit, head, result, fired callbacks *)
Record obs := mkObs { o_commit : Z; o_head : Z; o_res : res; o_fired : list (N * bool) }.

Fixpoint trace (s : state) (ops : list op) : list obs :=
  match ops with
  | [] => []
  | x :: tl => let (s', r) := step s x in
               mkObs (commit s') (head s') (fst r) (snd r) :: trace s' tl
  end.

(* ------------------------------------------------------------------ *)
(* Specification side.  [hi c] is the highest offset follower cursor c has acknowledged
   (its attach offset at first).  A follower acknowledges an entry only after all earlier
   ones, and a re-attached stream may repeat earlier acknowledgements: an ack of [o] by [c]
   is admissible when [o <= hi c + 1], so cursor c has acknowledged exactly the offsets
   <= hi c. *)

Definition ghost := N -> Z.
Definition upd (hi : ghost) (c : N) (v : Z) : ghost := fun x => if (x =? c)%N then v else hi x.

Definition n_seq (n : N) : list N := map N.of_nat (seq 0 (N.to_nat n)).

(* number of attached cursors (indices < g) that acknowledged offset o *)
Definition nacks (g : N) (hi : ghost) (o : Z) : N :=
  N.of_nat (length (filter (fun c => o <=? hi c) (n_seq g))).

Definition quorum_acked (s : state) (g : N) (hi : ghost) (o : Z) : Prop :=
  (required s <= nacks g hi o)%N.

(* the whole prefix (above the commit offset the tracker was created with) is acknowledged by the quorum *)
Definition prefix_acked (s : state) (g : N) (hi : ghost) (c0 o : Z) : Prop :=
  forall i, c0 < i <= o -> quorum_acked s g hi i.

(* T is the highest offset <= head whose whole prefix is on the leader and quorum-acknowledged *)
Definition is_true_commit (s : state) (g : N) (hi : ghost) (c0 T : Z) : Prop :=
  c0 <= T <= head s /\ prefix_acked s g hi c0 T /\
  forall o, T < o <= head s -> ~ prefix_acked s g hi c0 o.

(* admissible schedules: the ghost evolves with the operations; None = the operation is not
   admissible (an ack that skips an offset, an ack through a cursor that does not exist,
   a head advance that skips an offset) *)
Definition gstep (st : state * ghost) (x : op) : option (state * ghost) :=
  let (s, hi) := st in
  match x with
  | OpAdvance h => if h <=? head s + 1 then Some (fst (step s x), hi) else None
  | OpNewCursor a =>
      match new_cursor s a with
      | CurOk s' idx _ => Some (s', upd hi idx a)
      | CurPanic s' => Some (s', hi)
      | _ => Some (s, hi)
      end
  | OpAck c o =>
      if (c <? cursor_gen s)%N && (o <=? hi c + 1) then
        match ack s c o with
        | AckOk s' _ => Some (s', upd hi c (Z.max (hi c) o))
        | AckPanic s' => Some (s', hi)
        end
      else None
  | _ => Some (fst (step s x), hi)
  end.

Fixpoint grun (st : state * ghost) (ops : list op) : option (state * ghost) :=
  match ops with
  | [] => Some st
  | x :: tl => match gstep st x with None => None | Some st' => grun st' tl end
  end.

Definition ghost0 : ghost := fun _ => -1.
