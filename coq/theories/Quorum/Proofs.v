(* Invariants of the quorum ack tracker over all admissible schedules (Model.grun):
   safety  (commit never exceeds the true commit offset) needs nothing but the schedule
           being admissible;
   exactness (commit IS the true commit offset, in every reachable state: every delivered
           ack is accounted for, including acks that arrive before the head offset is
           advanced) needs 1 <= rf <= 17 (the BitSet holds 16 cursors). *)
From Coq Require Import List NArith ZArith Bool Lia.
From Oxia.Quorum Require Import Model Bits Spec.
Import ListNotations.
Open Scope Z_scope.

Lemma upd_same hi c v : upd hi c v c = v.
Proof. unfold upd. rewrite N.eqb_refl. reflexivity. Qed.

Lemma upd_other hi c v x : x <> c -> upd hi c v x = hi x.
Proof. unfold upd. intros H. destruct (N.eqb_spec x c); [contradiction|reflexivity]. Qed.

(* ================================================================== *)
(* Safety                                                              *)

Definition S1 (s : state) (g : N) (hi : ghost) : Prop :=
  forall o e, t_get (tracker s) o = Some e ->
  forall i, N.testbit e i = true -> (i < g)%N /\ o <= hi i.

Definition S2 (s : state) (g : N) (hi : ghost) (c0 : Z) : Prop :=
  forall i, c0 < i <= commit s -> (required s <= nacks g hi i)%N.

Definition Safe (s : state) (g : N) (hi : ghost) (c0 : Z) : Prop :=
  S1 s g hi /\ S2 s g hi c0 /\ c0 <= commit s.

Lemma safe_mono s g g' hi hi' c0 :
  Safe s g hi c0 -> (g <= g')%N -> (forall c, (c < g)%N -> hi c <= hi' c) -> Safe s g' hi' c0.
Proof.
  intros [H1 [H2 H3]] Hg Hhi. repeat split; try assumption.
  - destruct (H1 o e H i H0). lia.
  - destruct (H1 o e H i H0) as [Hi Ho]. specialize (Hhi i Hi). lia.
  - intros i Hi. specialize (H2 i Hi).
    pose proof (nacks_mono g g' hi hi' i i Hg Hhi ltac:(lia)). lia.
Qed.

Lemma safe_fields s s' g hi c0 :
  tracker s' = tracker s -> commit s' = commit s -> required s' = required s ->
  Safe s g hi c0 -> Safe s' g hi c0.
Proof.
  intros Ht Hc Hr [H1 [H2 H3]]. unfold Safe, S1, S2. rewrite Ht, Hc, Hr. auto.
Qed.

Lemma upd_max_ge hi c o x : hi x <= upd hi c (Z.max (hi c) o) x.
Proof.
  unfold upd. destruct (N.eqb_spec x c) as [->|_]; lia.
Qed.

Lemma safe_ack s g hi c0 c o :
  Safe s g hi c0 -> (c < g)%N ->
  Safe (ack_state (ack s c o)) g (upd hi c (Z.max (hi c) o)) c0.
Proof.
  intros HS Hc.
  assert (HS' : Safe s g (upd hi c (Z.max (hi c) o)) c0).
  { eapply safe_mono; [exact HS|lia|]. intros x _. apply upd_max_ge. }
  clear HS. destruct HS' as [H1 [H2 H3]].
  set (hi' := upd hi c (Z.max (hi c) o)) in *.
  assert (Hhc : o <= hi' c) by (unfold hi'; rewrite upd_same; lia).
  destruct (ack_ok s c o) as [Hn Hh | s' Hbig Hcore Hcm Hw Hget | e' s' Hnone Hset Hncommit Hcore Hcm Hw Hget
                             | e e' s' f Hsome Hset Hh Hcnt Hcore Hcm Hget]; cbn [ack_state].
  - exact (conj H1 (conj H2 H3)).
  - destruct Hcore as [_ [Hr _]]. repeat split.
    + destruct (Hget o0) as [E|[E _]]; rewrite E in H.
      * destruct (H1 o0 e H i H0); assumption.
      * inversion H; subst e. rewrite testbit_empty in H0. discriminate.
    + destruct (Hget o0) as [E|[E _]]; rewrite E in H.
      * destruct (H1 o0 e H i H0); assumption.
      * inversion H; subst e. rewrite testbit_empty in H0. discriminate.
    + intros i Hi. rewrite Hr. apply H2. lia.
    + lia.
  - destruct Hcore as [_ [Hr _]].
    apply bs_set_some in Hset. destruct Hset as [_ Hbits].
    assert (Hent : forall k e i, t_get (tracker s') k = Some e -> N.testbit e i = true -> (i < g)%N /\ k <= hi' i).
    { intros k e i Hk Hi. rewrite Hget in Hk. destruct (Z.eqb_spec k o) as [->|Hne].
      - inversion Hk; subst e. rewrite Hbits in Hi. apply orb_true_iff in Hi. destruct Hi as [Hi|Hi].
        + unfold entry_or_empty in Hi. destruct (t_get (tracker s) o) as [e0|] eqn:E0.
          * exact (H1 o e0 E0 i Hi).
          * rewrite testbit_empty in Hi. discriminate.
        + apply N.eqb_eq in Hi. subst i. split; assumption.
      - exact (H1 k e Hk i Hi). }
    repeat split.
    + destruct (Hent o0 e i H H0); assumption.
    + destruct (Hent o0 e i H H0); assumption.
    + intros i Hi. rewrite Hr. apply H2. lia.
    + lia.
  - destruct Hcore as [_ [Hr _]].
    apply bs_set_some in Hset. destruct Hset as [_ Hbits].
    repeat split.
    + rewrite Hget in H. destruct (Z.eqb_spec o0 o); [discriminate|]. destruct (H1 o0 e0 H i H0); assumption.
    + rewrite Hget in H. destruct (Z.eqb_spec o0 o); [discriminate|]. destruct (H1 o0 e0 H i H0); assumption.
    + intros i Hi. rewrite Hr. rewrite Hcm in Hi.
      destruct (Z.le_gt_cases i (commit s)) as [Hle|Hgt]; [apply H2; lia|].
      assert (Hio : i <= o) by lia.
      assert (Hcn : (bs_count e' <= nacks g hi' o)%N).
      { apply count_le_nacks. intros j Hj. rewrite Hbits in Hj. apply orb_true_iff in Hj. destruct Hj as [Hj|Hj].
        - exact (H1 o e Hsome j Hj).
        - apply N.eqb_eq in Hj. subst j. split; assumption. }
      pose proof (nacks_mono g g hi' hi' o i ltac:(lia) ltac:(intros; lia) Hio). lia.
    + lia.
Qed.

(* a cursor index the BitSet cannot hold never sets a bit *)
Lemma safe_ack_big s g hi c0 c o :
  Safe s g hi c0 -> (16 <= c)%N -> Safe (ack_state (ack s c o)) g hi c0.
Proof.
  intros [H1 [H2 H3]] Hc.
  destruct (ack_ok s c o) as [Hn Hh | s' Hbig Hcore Hcm Hw Hget | e' s' Hnone Hset Hncommit Hcore Hcm Hw Hget
                             | e e' s' f Hsome Hset Hh Hcnt Hcore Hcm Hget]; cbn [ack_state].
  - exact (conj H1 (conj H2 H3)).
  - destruct Hcore as [_ [Hr _]]. repeat split.
    + destruct (Hget o0) as [E|[E _]]; rewrite E in H.
      * destruct (H1 o0 e H i H0); assumption.
      * inversion H; subst e. rewrite testbit_empty in H0. discriminate.
    + destruct (Hget o0) as [E|[E _]]; rewrite E in H.
      * destruct (H1 o0 e H i H0); assumption.
      * inversion H; subst e. rewrite testbit_empty in H0. discriminate.
    + intros i Hi. rewrite Hr. apply H2. lia.
    + lia.
  - rewrite bs_set_none in Hset by assumption. discriminate.
  - rewrite bs_set_none in Hset by assumption. discriminate.
Qed.

Lemma ack_core s c o : same_core s (ack_state (ack s c o)).
Proof.
  destruct (ack_ok s c o); cbn [ack_state]; try assumption; apply same_core_refl.
Qed.

Lemma ack_loop_core s c l acc : same_core s (ack_state (ack_loop s c l acc)).
Proof.
  revert s acc; induction l as [|o tl IH]; intros s acc; cbn [ack_loop]; [apply same_core_refl|].
  pose proof (ack_core s c o) as H.
  destruct (ack s c o) as [s' f|s']; cbn [ack_state] in *.
  - eapply same_core_trans; [exact H|apply IH].
  - exact H.
Qed.

Lemma ack_no_panic s c o : (c < 16)%N -> exists s' f, ack s c o = AckOk s' f.
Proof.
  intros Hc. destruct (ack_ok s c o); try (eexists; eexists; reflexivity). lia.
Qed.

Lemma safe_ack_loop_big g c0 c l : (16 <= c)%N ->
  forall s hi acc, Safe s g hi c0 -> Safe (ack_state (ack_loop s c l acc)) g hi c0.
Proof.
  intros Hc. induction l as [|o tl IH]; intros s hi acc HS; cbn [ack_loop]; [exact HS|].
  pose proof (safe_ack_big s g hi c0 c o HS Hc) as H.
  destruct (ack s c o) as [s' f|s']; cbn [ack_state] in *; [apply IH; exact H|exact H].
Qed.

Lemma safe_ack_loop g c0 c a l : (c < g)%N -> (forall o, In o l -> o <= a) ->
  forall s hi acc, Safe s g hi c0 -> hi c <= a ->
  exists hi', Safe (ack_state (ack_loop s c l acc)) g hi' c0 /\
              (forall x, x <> c -> hi' x = hi x) /\ hi' c <= a.
Proof.
  intros Hc. induction l as [|o tl IH]; intros Hl s hi acc HS Hhi; cbn [ack_loop].
  - exists hi. split; [exact HS|split; [intros; reflexivity|exact Hhi]].
  - pose proof (safe_ack s g hi c0 c o HS Hc) as H.
    destruct (ack s c o) as [s' f|s']; cbn [ack_state] in *.
    + assert (Hl' : forall o', In o' tl -> o' <= a) by (intros; apply Hl; right; assumption).
      assert (Hhi' : upd hi c (Z.max (hi c) o) c <= a).
      { rewrite upd_same. specialize (Hl o (or_introl eq_refl)). lia. }
      destruct (IH Hl' s' _ (acc ++ f) H Hhi') as [hi' [Ha [Hb Hd]]].
      exists hi'. split; [exact Ha|split; [|exact Hd]]. intros x Hx. rewrite (Hb x Hx). apply upd_other. exact Hx.
    + eexists. split; [exact H|split].
      * intros x Hx. apply upd_other. exact Hx.
      * rewrite upd_same. specialize (Hl o (or_introl eq_refl)). lia.
Qed.

Lemma safe_advance s g hi c0 h :
  Safe s g hi c0 -> Safe (fst (advance_head s h)) g hi c0.
Proof.
  intros [H1 [H2 H3]].
  destruct (advance_ok s h) as [ | s' Hcl Hh Hr0 Hrf Hr Hn Hhd Hg Hc Htr Hcm
                               | s' Hcl Hh Hr0 Hnone Hrf Hr Hn Hhd Hg Hc Hcm Hw Hget
                               | e s' Hcl Hh Hr0 Hsome Hcnt Hrf Hr Hn Hhd Hg Hc Hcm Hget
                               | e s' Hcl Hh Hr0 Hsome Hcnt Hrf Hr Hn Hhd Hg Hc Hcm Hw Htr].
  - exact (conj H1 (conj H2 H3)).
  - unfold Safe, S1, S2. rewrite Htr, Hr, Hcm. repeat split.
    + destruct (H1 o e H i H0); assumption.
    + destruct (H1 o e H i H0); assumption.
    + intros i Hi. rewrite Hr0. lia.
    + lia.
  - unfold Safe, S1, S2. rewrite Hr, Hcm. repeat split; try assumption.
    + rewrite Hget in H. destruct (Z.eqb_spec o h).
      * inversion H; subst e. rewrite testbit_empty in H0. discriminate.
      * destruct (H1 o e H i H0); assumption.
    + rewrite Hget in H. destruct (Z.eqb_spec o h).
      * inversion H; subst e. rewrite testbit_empty in H0. discriminate.
      * destruct (H1 o e H i H0); assumption.
  - unfold Safe, S1, S2. rewrite Hr, Hcm. repeat split.
    + rewrite Hget in H. destruct (Z.eqb_spec o h); [discriminate|]. destruct (H1 o e0 H i H0); assumption.
    + rewrite Hget in H. destruct (Z.eqb_spec o h); [discriminate|]. destruct (H1 o e0 H i H0); assumption.
    + intros i Hi. destruct (Z.le_gt_cases i (commit s)) as [Hle|Hgt]; [apply H2; lia|].
      assert (Hih : i <= h) by lia.
      assert (Hcn : (bs_count e <= nacks g hi h)%N) by (apply count_le_nacks; intros j Hj; exact (H1 h e Hsome j Hj)).
      pose proof (nacks_mono g g hi hi h i ltac:(lia) ltac:(intros; lia) Hih). lia.
    + lia.
  - unfold Safe, S1, S2. rewrite Htr, Hr, Hcm. exact (conj H1 (conj H2 H3)).
Qed.

Lemma safe_set_gen s g hi c0 x : Safe s g hi c0 -> Safe (set_cursor_gen s x) g hi c0.
Proof. apply safe_fields; reflexivity. Qed.

Lemma gstep_safe s hi c0 x s' hi' :
  Safe s (cursor_gen s) hi c0 -> gstep (s, hi) x = Some (s', hi') ->
  Safe s' (cursor_gen s') hi' c0.
Proof.
  intros HS Hg. destruct x as [|h|o id|a|c o|]; cbn [gstep] in Hg.
  - inversion Hg; subst. cbn. eapply safe_fields; [| | |exact HS]; reflexivity.
  - destruct (h <=? head s + 1); [|discriminate]. inversion Hg; subst hi' s'. cbn [step].
    destruct (advance_head s h) as [s1 f] eqn:E. cbn [fst].
    pose proof (safe_advance s (cursor_gen s) hi c0 h HS) as H. rewrite E in H. cbn [fst] in H.
    assert (Hgen : cursor_gen s1 = cursor_gen s).
    { pose proof (advance_ok s h) as Ha. rewrite E in Ha. cbn [fst] in Ha. inversion Ha; subst; congruence. }
    rewrite Hgen. exact H.
  - inversion Hg; subst hi' s'. cbn [step].
    destruct (wait_async s o id) as [s1 f] eqn:E. cbn [fst].
    pose proof (wait_spec s o id) as Hw. rewrite E in Hw. cbn [fst] in Hw. cbn zeta in Hw.
    destruct Hw as [[_ [Hr [_ [_ [Hgen _]]]]] [Hc Ht]]. rewrite Hgen.
    eapply safe_fields; [exact Ht|exact Hc|exact Hr|exact HS].
  - unfold new_cursor in Hg.
    destruct ((rf s + U32 - 1) mod U32 <=? cursor_gen s mod U32)%N; [inversion Hg; subst; exact HS|].
    destruct (head s <? a) eqn:Hha; [inversion Hg; subst; exact HS|].
    apply Z.ltb_ge in Hha.
    set (g := cursor_gen s) in *.
    set (l := z_range (commit s + 1) (Z.to_nat (a - commit s))) in *.
    pose proof (ack_loop_core s g l []) as Hcore.
    destruct (N.ltb_spec g 16) as [Hsmall|Hbig].
    + (* the new cursor fits the BitSet *)
      assert (HS1 : Safe s (g + 1) (upd hi g (Z.min a (commit s))) c0).
      { eapply safe_mono; [exact HS|lia|]. intros c Hc. rewrite upd_other by lia. lia. }
      destruct (safe_ack_loop (g + 1) c0 g a l ltac:(lia)
                  ltac:(intros o Ho; apply z_range_In in Ho; lia) s _ [] HS1 ltac:(rewrite upd_same; lia))
        as [hi1 [Ha [Hb Hd]]].
      destruct (ack_loop s g l []) as [s1 f|s1] eqn:El; cbn [ack_state] in *.
      * inversion Hg; subst s' hi'. cbn [cursor_gen set_cursor_gen].
        destruct Hcore as [_ [_ [_ [_ [Hgen _]]]]]. rewrite Hgen. fold g.
        apply safe_set_gen. eapply safe_mono; [exact Ha|lia|].
        intros c Hc. destruct (N.eqb_spec c g) as [->|Hne].
        -- rewrite upd_same. exact Hd.
        -- rewrite (Hb c Hne), !upd_other by assumption. lia.
      * exfalso. clear - El Hsmall.
        assert (forall l s acc s1, ack_loop s g l acc <> AckPanic s1).
        { induction l0 as [|o tl IH]; intros s0 acc s2; cbn [ack_loop]; [discriminate|].
          destruct (ack_no_panic s0 g o Hsmall) as [s3 [f3 E3]]. rewrite E3. apply IH. }
        eapply H. exact El.
    + pose proof (safe_ack_loop_big g c0 g l Hbig s hi [] HS) as Ha.
      destruct (ack_loop s g l []) as [s1 f|s1] eqn:El; cbn [ack_state] in *.
      * inversion Hg; subst s' hi'. cbn [cursor_gen set_cursor_gen].
        destruct Hcore as [_ [_ [_ [_ [Hgen _]]]]]. rewrite Hgen. fold g.
        apply safe_set_gen. eapply safe_mono; [exact Ha|lia|].
        intros c Hc. rewrite upd_other by lia. lia.
      * inversion Hg; subst s' hi'.
        destruct Hcore as [_ [_ [_ [_ [Hgen _]]]]]. rewrite Hgen. exact Ha.
  - destruct ((c <? cursor_gen s)%N) eqn:Hc; cbn [andb] in Hg; [|discriminate].
    destruct (o <=? hi c + 1); [|discriminate].
    apply N.ltb_lt in Hc.
    pose proof (ack_core s c o) as Hcore. destruct Hcore as [_ [_ [_ [_ [Hgen _]]]]].
    destruct (ack s c o) as [s1 f|s1] eqn:E.
    + inversion Hg; subst s' hi'. cbn [ack_state] in Hgen. rewrite Hgen.
      pose proof (safe_ack s (cursor_gen s) hi c0 c o HS Hc) as H. rewrite E in H. exact H.
    + inversion Hg; subst s' hi'. cbn [ack_state] in Hgen. rewrite Hgen.
      assert (Hbig : (16 <= c)%N).
      { destruct (N.le_gt_cases 16 c) as [?|Hlt]; [assumption|].
        destruct (ack_no_panic s c o Hlt) as [? [? E']]. congruence. }
      pose proof (safe_ack_big s (cursor_gen s) hi c0 c o HS Hbig) as H. rewrite E in H. exact H.
  - inversion Hg; subst. cbn. eapply safe_fields; [| | |exact HS]; reflexivity.
Qed.

Lemma safe_init rf0 h0 c0 : Safe (new_tracker rf0 h0 c0) 0 ghost0 c0.
Proof.
  repeat split.
  - cbn [new_tracker tracker] in H. rewrite t_get_init_range in H.
    destruct (_ && _); [|discriminate]. inversion H; subst e. rewrite testbit_empty in H0. discriminate.
  - cbn [new_tracker tracker] in H. rewrite t_get_init_range in H.
    destruct (_ && _); [|discriminate]. inversion H; subst e. rewrite testbit_empty in H0. discriminate.
  - intros i Hi. cbn [new_tracker commit] in Hi. lia.
  - cbn. lia.
Qed.

Lemma grun_safe c0 ops : forall s hi s' hi',
  Safe s (cursor_gen s) hi c0 -> grun (s, hi) ops = Some (s', hi') -> Safe s' (cursor_gen s') hi' c0.
Proof.
  induction ops as [|x tl IH]; intros s hi s' hi' HS Hr; cbn [grun] in Hr.
  - inversion Hr; subst. exact HS.
  - destruct (gstep (s, hi) x) as [[s1 hi1]|] eqn:E; [|discriminate].
    eapply IH; [|exact Hr]. eapply gstep_safe; eauto.
Qed.

Lemma grun_run ops : forall s hi s' hi', grun (s, hi) ops = Some (s', hi') -> s' = run s ops.
Proof.
  induction ops as [|x tl IH]; intros s hi s' hi' Hr; cbn [grun] in Hr.
  - inversion Hr; reflexivity.
  - destruct (gstep (s, hi) x) as [[s1 hi1]|] eqn:E; [|discriminate].
    rewrite (IH _ _ _ _ Hr). unfold run. cbn [fold_left]. f_equal.
    destruct x as [|h|o id|a|c o|]; cbn [gstep] in E.
    + inversion E; reflexivity.
    + destruct (h <=? head s + 1); inversion E; reflexivity.
    + inversion E; reflexivity.
    + cbn [step]. destruct (new_cursor s a); inversion E; reflexivity.
    + cbn [step]. destruct ((c <? cursor_gen s)%N && (o <=? hi c + 1)); [|discriminate].
      destruct (ack s c o); inversion E; reflexivity.
    + inversion E; reflexivity.
Qed.

(* THEOREM (safety, every admissible schedule, every rf): everything up to the commit offset is
   acknowledged by the quorum, hence the commit offset never exceeds the true commit offset *)
Theorem commit_never_exceeds_true_commit rf0 h0 c0 ops s hi :
  c0 <= h0 -> grun (new_tracker rf0 h0 c0, ghost0) ops = Some (s, hi) ->
  prefix_acked s (cursor_gen s) hi c0 (commit s) /\
  forall T, is_true_commit s (cursor_gen s) hi c0 T -> commit s <= T.
Proof.
  intros H0 Hr.
  pose proof (grun_safe c0 ops _ _ _ _ (safe_init rf0 h0 c0) Hr) as [H1 [H2 H3]].
  assert (Hp : prefix_acked s (cursor_gen s) hi c0 (commit s)) by (intros i Hi; apply H2; exact Hi).
  split; [exact Hp|].
  intros T [HT [_ Hmax]].
  destruct (Z.le_gt_cases (commit s) T) as [?|Hgt]; [assumption|].
  exfalso. apply (Hmax (commit s)); [|exact Hp].
  pose proof (commit_le_head rf0 h0 c0 ops H0) as Hle.
  rewrite <- (grun_run ops _ _ _ _ Hr) in Hle. lia.
Qed.
