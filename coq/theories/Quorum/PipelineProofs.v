(* Invariant of the write pipeline (Pipeline.v, repaired write path) over every schedule,
   and the C08 pipeline theorems derived from it. *)
From Coq Require Import List NArith ZArith Bool Lia Sorted.
From Oxia.Quorum Require Import Model Bits Spec Proofs Exact Pipeline.
Import ListNotations.
Open Scope Z_scope.

(* the WAL / the closures after n successful writes on a leader whose log ended at h0 *)
Definition wal_of (h0 : Z) (n : nat) : list entry :=
  map (fun k => (h0 + 1 + Z.of_nat k, N.of_nat k)) (seq 0 n).
Definition closures_of (h0 : Z) (n : nat) : list (N * Z) :=
  map (fun k => (N.of_nat k, h0 + 1 + Z.of_nat k)) (seq 0 n).

Definition lt_fst (a b : entry) : Prop := fst a < fst b.

Lemma wal_of_length h0 n : length (wal_of h0 n) = n.
Proof. unfold wal_of. rewrite map_length, seq_length. reflexivity. Qed.

Lemma wal_of_succ h0 n : wal_of h0 (S n) = wal_of h0 n ++ [(h0 + 1 + Z.of_nat n, N.of_nat n)].
Proof. unfold wal_of. rewrite seq_S, map_app. reflexivity. Qed.

Lemma closures_of_succ h0 n : closures_of h0 (S n) = closures_of h0 n ++ [(N.of_nat n, h0 + 1 + Z.of_nat n)].
Proof. unfold closures_of. rewrite seq_S, map_app. reflexivity. Qed.

Lemma closures_of_length h0 n : length (closures_of h0 n) = n.
Proof. unfold closures_of. rewrite map_length, seq_length. reflexivity. Qed.

Lemma wal_of_In h0 n e : In e (wal_of h0 n) <->
  exists k, (k < n)%nat /\ e = (h0 + 1 + Z.of_nat k, N.of_nat k).
Proof.
  unfold wal_of. rewrite in_map_iff. split.
  - intros [k [<- Hk]]. apply in_seq in Hk. exists k. split; [lia|reflexivity].
  - intros [k [Hk ->]]. exists k. split; [reflexivity|apply in_seq; lia].
Qed.

Lemma wal_of_nth h0 n a e b : wal_of h0 n = a ++ e :: b ->
  e = (h0 + 1 + Z.of_nat (length a), N.of_nat (length a)).
Proof.
  intros H.
  assert (Hn : nth_error (wal_of h0 n) (length a) = Some e).
  { rewrite H. rewrite nth_error_app2 by lia. rewrite Nat.sub_diag. reflexivity. }
  unfold wal_of in Hn. rewrite nth_error_map in Hn.
  destruct (nth_error (seq 0 n) (length a)) as [k|] eqn:E; [|discriminate].
  assert (length a < n)%nat.
  { apply (f_equal (@length _)) in H. rewrite wal_of_length, app_length in H. cbn in H. lia. }
  rewrite nth_error_nth' with (d := 0%nat) in E by (rewrite seq_length; lia).
  rewrite seq_nth in E by lia. inversion E; subst k. inversion Hn. reflexivity.
Qed.

Lemma lookup_closures h0 n k : (k < n)%nat -> lookup (closures_of h0 n) (N.of_nat k) = h0 + 1 + Z.of_nat k.
Proof.
  induction n as [|n IH]; intros Hk; [lia|].
  rewrite closures_of_succ.
  assert (Happ : forall l1 l2 r, lookup (l1 ++ l2) r =
            if existsb (fun x => (fst x =? r)%N) l1 then lookup l1 r else lookup l2 r).
  { induction l1 as [|[k0 o0] tl IHl]; intros l2 r; cbn [app lookup existsb fst]; [reflexivity|].
    destruct (k0 =? r)%N; [reflexivity|apply IHl]. }
  rewrite Happ.
  destruct (existsb (fun x => (fst x =? N.of_nat k)%N) (closures_of h0 n)) eqn:Ex.
  - apply existsb_exists in Ex. destruct Ex as [[k0 o0] [Hin Heq]]. cbn [fst] in Heq. apply N.eqb_eq in Heq.
    unfold closures_of in Hin. apply in_map_iff in Hin. destruct Hin as [j [Hj Hjn]]. apply in_seq in Hjn.
    inversion Hj; subst. apply Nat2N.inj in H0. subst j. apply IH. lia.
  - assert (k = n).
    { destruct (Nat.eq_dec k n); [assumption|]. exfalso.
      assert (existsb (fun x => (fst x =? N.of_nat k)%N) (closures_of h0 n) = true); [|congruence].
      apply existsb_exists. exists (N.of_nat k, h0 + 1 + Z.of_nat k). split.
      - unfold closures_of. apply in_map_iff. exists k. split; [reflexivity|apply in_seq; lia].
      - cbn. apply N.eqb_refl. }
    subst k. cbn [lookup]. rewrite N.eqb_refl. reflexivity.
Qed.

Lemma wal_of_sorted h0 n : StronglySorted lt_fst (wal_of h0 n).
Proof.
  induction n as [|n IH]; [constructor|].
  rewrite wal_of_succ.
  assert (Hsnoc : forall l (x : entry), StronglySorted lt_fst l -> (forall y, In y l -> lt_fst y x) ->
                  StronglySorted lt_fst (l ++ [x])).
  { induction l as [|y tl IHl]; intros x Hs Hall; cbn [app].
    - constructor; constructor.
    - inversion Hs; subst. constructor.
      + apply IHl; [assumption|]. intros z Hz. apply Hall. right. exact Hz.
      + apply Forall_app. split; [assumption|]. constructor; [|constructor]. apply Hall. left. reflexivity. }
  apply Hsnoc; [exact IH|].
  intros y Hy. apply wal_of_In in Hy. destruct Hy as [k [Hk ->]]. unfold lt_fst. cbn. lia.
Qed.

Lemma sorted_app_l {A} (R : A -> A -> Prop) a b : StronglySorted R (a ++ b) -> StronglySorted R a.
Proof.
  induction a as [|x tl IH]; intros H; [constructor|].
  cbn in H. inversion H; subst. constructor; [apply IH; assumption|].
  apply Forall_app in H3. tauto.
Qed.

Lemma sorted_app_r {A} (R : A -> A -> Prop) a b : StronglySorted R (a ++ b) -> StronglySorted R b.
Proof.
  induction a as [|x tl IH]; intros H; [exact H|]. cbn in H. inversion H; subst. apply IH. assumption.
Qed.

(* ------------------------------------------------------------------ *)
(* the waiting requests of the tracker against the finished callbacks  *)

Definition WInv (t : state) (dn ap : list entry) : Prop :=
  dn = ap ++ waiting t /\ (forall e, In e ap -> fst e <= commit t) /\
  (forall e, In e (waiting t) -> commit t < fst e).

Lemma release_sorted w c : StronglySorted lt_fst w ->
  exists l1 l2, release w c = (map snd l1, l2) /\ w = l1 ++ l2 /\
    (forall e, In e l1 -> fst e <= c) /\ (forall e, In e l2 -> c < fst e).
Proof.
  induction w as [|[m id] tl IH]; intros Hs; cbn [release].
  - exists [], []. repeat split; intros e [].
  - inversion Hs as [|? ? Hs' Hall]; subst.
    destruct (Z.ltb_spec c m) as [Hlt|Hge].
    + exists [], ((m, id) :: tl). split; [reflexivity|]. split; [reflexivity|]. split; [intros e []|].
      intros e [<-|He]; [exact Hlt|]. rewrite Forall_forall in Hall. specialize (Hall e He). unfold lt_fst in Hall. cbn in Hall. lia.
    + destruct (IH Hs') as [l1 [l2 [Hr [Hw [H1 H2]]]]]. rewrite Hr.
      exists ((m, id) :: l1), l2. split; [reflexivity|]. split; [cbn; rewrite Hw; reflexivity|].
      split; [|exact H2]. intros e [<-|He]; [exact Hge|apply H1; exact He].
Qed.

Lemma winv_notify t dn ap c t' f : StronglySorted lt_fst dn ->
  WInv t dn ap -> notify t c = (t', f) ->
  exists es, f = fired_ok (map snd es) /\ WInv t' dn (ap ++ es).
Proof.
  intros Hs [Hd [Ha Hw]] Hn. unfold notify in Hn.
  destruct (Z.leb_spec c (commit t)) as [Hle|Hgt].
  - inversion Hn; subst. exists []. split; [reflexivity|]. rewrite app_nil_r. repeat split; assumption.
  - assert (Hsw : StronglySorted lt_fst (waiting t)) by (rewrite Hd in Hs; eapply sorted_app_r; exact Hs).
    destruct (release_sorted (waiting t) c Hsw) as [l1 [l2 [Hr [Hww [H1 H2]]]]].
    rewrite Hr in Hn. inversion Hn; subst t' f. exists l1. split; [reflexivity|].
    unfold WInv. cbn [waiting commit set_commit_waiting]. split; [|split].
    + rewrite Hd, Hww, app_assoc. reflexivity.
    + intros e He. apply in_app_or in He. destruct He as [He|He]; [specialize (Ha e He); lia|apply H1; exact He].
    + exact H2.
Qed.

Lemma winv_same t t' dn ap : waiting t' = waiting t -> commit t' = commit t -> WInv t dn ap -> WInv t' dn ap.
Proof. unfold WInv. intros -> ->. tauto. Qed.

Lemma winv_via t o t' f dn ap : StronglySorted lt_fst dn ->
  WInv t dn ap -> via_notify t o t' f ->
  exists es, f = fired_ok (map snd es) /\ WInv t' dn (ap ++ es).
Proof.
  intros Hs HW [[Hw [Hc ->]]|[sm [Hw [Hc Hn]]]].
  - exists []. split; [reflexivity|]. rewrite app_nil_r. eapply winv_same; eauto.
  - eapply winv_notify; [exact Hs| |exact Hn]. eapply winv_same; eauto.
Qed.

Lemma winv_ack_loop c dn l : StronglySorted lt_fst dn -> forall t ap acc es0 t' f,
  WInv t dn ap -> acc = fired_ok (map snd es0) ->
  ack_loop t c l acc = AckOk t' f ->
  exists es, f = fired_ok (map snd (es0 ++ es)) /\ WInv t' dn (ap ++ es).
Proof.
  intros Hs. induction l as [|o tl IH]; intros t ap acc es0 t' f HW Hacc Hl; cbn [ack_loop] in Hl.
  - inversion Hl; subst. exists []. rewrite !app_nil_r. split; [reflexivity|exact HW].
  - destruct (ack t c o) as [t1 f1|] eqn:E; [|discriminate].
    destruct (winv_via t o t1 f1 dn ap Hs HW (ack_via_notify t c o t1 f1 E)) as [es1 [Hf1 HW1]].
    destruct (IH t1 (ap ++ es1) (acc ++ f1) (es0 ++ es1) t' f HW1) as [es [Hf HW']].
    + rewrite Hacc, Hf1. unfold fired_ok. rewrite !map_app. reflexivity.
    + exact Hl.
    + exists (es1 ++ es). rewrite !app_assoc in *. split; [exact Hf|exact HW'].
Qed.

(* ------------------------------------------------------------------ *)

Record PCore (rf0 : N) (h0 : Z) (p : pstate) : Prop := mkPCore {
  i_wal : wal p = wal_of h0 (length (wal p));
  i_cl : closures p = closures_of h0 (length (wal p));
  i_pend : pending p = [];
  i_failed : failed p = [];
  i_next : next (trk p) = h0 + Z.of_nat (length (wal p));
  i_last : wal_last p = h0 + Z.of_nat (length (wal p));
  i_split : wal p = done p ++ batch p ++ syncq p;
  i_synced_le : wal_synced p <= wal_last p;
  i_synced_done : h0 + Z.of_nat (length (done p)) <= wal_synced p;
  i_trk : Inv (trk p) (cursor_gen (trk p)) (hi p) h0;
  i_w : WInv (trk p) (done p) (applied p);
  i_resp : resp p = map (fun e => (snd e, e)) (applied p);
  i_open : closed (trk p) = false;
  i_h0 : -1 <= h0
}.

Record PPhase (h0 : Z) (p : pstate) : Prop := mkPPhase {
  i_head : head (trk p) = h0 + Z.of_nat (length (done p)) +
                          match ph p with PhWait | PhApply => 1 | _ => 0 end;
  i_ph : (ph p = PhIdle <-> batch p = []);
  i_synced : (ph p <> PhIdle -> ph p <> PhFlush ->
              h0 + Z.of_nat (length (done p ++ batch p)) <= wal_synced p);
  i_apply : (ph p = PhApply -> waiting (trk p) = [] /\
             forall e, hd_error (batch p) = Some e -> fst e <= commit (trk p))
}.

Definition PInv (rf0 : N) (h0 : Z) (p : pstate) : Prop := PCore rf0 h0 p /\ PPhase h0 p.

Lemma pinv_init rf0 h0 : (1 <= rf0)%N -> (rf0 <= 17)%N -> -1 <= h0 -> PInv rf0 h0 (p_init rf0 h0).
Proof.
  intros A B C. split; constructor; cbn [p_init wal closures pending failed trk wal_last done batch syncq ph
    wal_synced applied resp hi length]; try reflexivity; try lia.
  - cbn. lia.
  - apply inv_init. repeat split; try assumption; lia.
  - repeat split; intros e [].
  - cbn. lia.
  - split; reflexivity.
  - intros H; contradiction.
  - discriminate.
Qed.

Lemma done_sorted rf0 h0 p : PCore rf0 h0 p -> StronglySorted lt_fst (done p).
Proof.
  intros H. pose proof (wal_of_sorted h0 (length (wal p))) as Hs.
  rewrite <- (i_wal _ _ _ H), (i_split _ _ _ H) in Hs. eapply sorted_app_l. exact Hs.
Qed.

Lemma filter_true {A} (l : list A) : filter (fun _ => true) l = l.
Proof. induction l; cbn; congruence. Qed.

Lemma fired_entries_ok h0 n es :
  (forall e, In e es -> In e (wal_of h0 n)) ->
  fired_entries (closures_of h0 n) (fired_ok (map snd es)) = es.
Proof.
  intros H. unfold fired_entries, fired_ok.
  rewrite filter_ext_in with (g := fun _ => true), filter_true.
  2:{ intros x Hx. apply in_map_iff in Hx. destruct Hx as [y [<- _]]. reflexivity. }
  rewrite !map_map. cbn [fst].
  induction es as [|e tl IH]; [reflexivity|]. cbn [map]. f_equal.
  - destruct (proj1 (wal_of_In h0 n e) (H e (or_introl eq_refl))) as [k [Hk ->]]. cbn [snd].
    rewrite lookup_closures by exact Hk. reflexivity.
  - apply IH. intros x Hx. apply H. right. exact Hx.
Qed.


(* ------------------------------------------------------------------ *)
(* preservation, action by action                                      *)

Lemma batch_head rf0 h0 p o r rest : PCore rf0 h0 p -> batch p = (o, r) :: rest ->
  o = h0 + 1 + Z.of_nat (length (done p)) /\ r = N.of_nat (length (done p)) /\
  (length (done p) < length (wal p))%nat.
Proof.
  intros H Hb. pose proof (i_wal _ _ _ H) as Hw. pose proof (i_split _ _ _ H) as Hs.
  rewrite Hb in Hs. rewrite Hs in Hw at 1. cbn [app] in Hw. symmetry in Hw.
  pose proof (wal_of_nth _ _ _ _ _ Hw) as He. inversion He. repeat split.
  apply (f_equal (@length _)) in Hs. rewrite app_length in Hs. cbn in Hs. lia.
Qed.

Lemma check_ok last : -1 <= last -> check_next_offset last (last + 1) = true.
Proof.
  intros H. unfold check_next_offset.
  destruct (Z.ltb_spec (last + 1) 0); [lia|]. rewrite Z.eqb_refl. cbn. rewrite andb_false_r. reflexivity.
Qed.

Lemma in_done_wal rf0 h0 p e : PCore rf0 h0 p -> In e (done p) -> In e (wal_of h0 (length (wal p))).
Proof.
  intros H He. rewrite <- (i_wal _ _ _ H), (i_split _ _ _ H). apply in_or_app. left. exact He.
Qed.

(* a tracker transition that fires callbacks, everything else in place *)
Lemma pcore_with_fired rf0 h0 p t' f hi' es :
  PCore rf0 h0 p -> f = fired_ok (map snd es) -> WInv t' (done p) (applied p ++ es) ->
  Inv t' (cursor_gen t') hi' h0 -> next t' = next (trk p) -> closed t' = false ->
  PCore rf0 h0 (with_fired p t' f hi') /\ applied (with_fired p t' f hi') = applied p ++ es.
Proof.
  intros H Hf HW HI Hn Hc.
  assert (Hes : fired_entries (closures p) f = es).
  { rewrite (i_cl _ _ _ H), Hf. apply fired_entries_ok. intros e He.
    apply (in_done_wal rf0 h0 p e H). destruct HW as [Hd _]. rewrite Hd.
    apply in_or_app. left. apply in_or_app. right. exact He. }
  assert (Herr : fired_errors f = []).
  { rewrite Hf. unfold fired_errors, fired_ok. rewrite filter_ext_in with (g := fun _ => false).
    - induction (map _ (map snd es)); cbn; auto.
    - intros x Hx. apply in_map_iff in Hx. destruct Hx as [y [<- _]]. reflexivity. }
  unfold with_fired. rewrite Hes, Herr. split; [|reflexivity].
  destruct H. constructor; cbn [wal closures pending failed trk wal_last done batch syncq ph
    wal_synced applied resp hi]; try assumption.
  - rewrite app_nil_r. assumption.
  - congruence.
  - rewrite map_app, i_resp0. reflexivity.
Qed.

Lemma pstep_write rf0 h0 p p' : PInv rf0 h0 p -> pstep true p PWrite = Some p' -> PInv rf0 h0 p'.
Proof.
  intros [H HP] Hs. cbn [pstep next_offset] in Hs.
  pose proof (i_next _ _ _ H) as Hn. pose proof (i_last _ _ _ H) as Hl.
  unfold wal_append_and_sync in Hs.
  replace (next (trk p) + 1) with (wal_last p + 1) in Hs by lia.
  rewrite check_ok in Hs by (pose proof (i_h0 _ _ _ H); lia).
  inversion Hs; subst p'; clear Hs.
  assert (Hclen : length (closures p) = length (wal p)) by (rewrite (i_cl _ _ _ H) at 1; apply closures_of_length).
  split.
  - destruct H. constructor; cbn [wal closures pending failed trk wal_last done batch syncq ph
      wal_synced applied resp hi next set_next closed cursor_gen]; try assumption.
    + rewrite app_length. cbn [length]. rewrite Nat.add_1_r, wal_of_succ. f_equal; [assumption|].
      rewrite Hclen. f_equal. f_equal. lia.
    + rewrite app_length. cbn [length]. rewrite Nat.add_1_r, closures_of_succ. f_equal; [assumption|].
      rewrite Hclen. f_equal. f_equal. lia.
    + rewrite app_length. cbn [length]. lia.
    + rewrite app_length. cbn [length]. lia.
    + rewrite i_split0 at 1. rewrite <- !app_assoc. reflexivity.
    + lia.
  - destruct HP. constructor; cbn [wal closures pending failed trk wal_last done batch syncq ph
      wal_synced applied resp hi next set_next head waiting commit]; assumption.
Qed.

Lemma pstep_drain rf0 h0 p p' : PInv rf0 h0 p -> pstep true p PSyncDrain = Some p' -> PInv rf0 h0 p'.
Proof.
  intros [H HP] Hs. cbn [pstep] in Hs.
  destruct (ph p) eqn:Eph; try discriminate. destruct (syncq p) as [|e q] eqn:Eq; [discriminate|].
  inversion Hs; subst p'; clear Hs.
  assert (Hb : batch p = []) by (apply (i_ph _ _ HP); exact Eph).
  split.
  - destruct H. constructor; cbn [wal closures pending failed trk wal_last done batch syncq ph
      wal_synced applied resp hi]; try assumption.
    rewrite i_split0 at 1. rewrite Hb, Eq. cbn [app]. rewrite app_nil_r. reflexivity.
  - destruct HP. constructor; cbn [wal closures pending failed trk wal_last done batch syncq ph
      wal_synced applied resp hi].
    + rewrite i_head0, Eph. reflexivity.
    + split; discriminate.
    + intros _ Hx. contradiction.
    + discriminate.
Qed.

Lemma pstep_flush rf0 h0 p p' : PInv rf0 h0 p -> pstep true p PSyncFlush = Some p' -> PInv rf0 h0 p'.
Proof.
  intros [H HP] Hs. cbn [pstep] in Hs.
  destruct (ph p) eqn:Eph; try discriminate.
  inversion Hs; subst p'; clear Hs.
  assert (Hlen : (length (done p ++ batch p) <= length (wal p))%nat).
  { rewrite (i_split _ _ _ H). rewrite app_assoc, (app_length (done p ++ batch p)). lia. }
  pose proof (i_last _ _ _ H) as Hl.
  split.
  - destruct H. constructor; cbn [wal closures pending failed trk wal_last done batch syncq ph
      wal_synced applied resp hi]; try assumption; try lia.
  - destruct HP. constructor; cbn [wal closures pending failed trk wal_last done batch syncq ph
      wal_synced applied resp hi].
    + rewrite i_head0, Eph. reflexivity.
    + split; [discriminate|]. intros Hb. apply i_ph0 in Hb. congruence.
    + intros _ _. lia.
    + discriminate.
Qed.

Lemma advance_head_fields t h t' f : advance_head t h = (t', f) -> closed t = false -> head t < h ->
  head t' = h /\ next t' = next t /\ closed t' = false /\ cursor_gen t' = cursor_gen t.
Proof.
  intros E Hc Hh. pose proof (advance_ok t h) as Ha. rewrite E in Ha. cbn [fst] in Ha.
  inversion Ha; subst; try (repeat split; congruence).
  destruct H as [H|H]; [congruence|lia].
Qed.

Lemma pstep_cb_advance rf0 h0 p p' : PInv rf0 h0 p -> pstep true p PCbAdvance = Some p' -> PInv rf0 h0 p'.
Proof.
  intros [H HP] Hs. cbn [pstep] in Hs.
  destruct (ph p) eqn:Eph; try discriminate. destruct (batch p) as [|[o r] rest] eqn:Eb; [discriminate|].
  destruct (advance_head (trk p) o) as [t f] eqn:Ea. inversion Hs; subst p'; clear Hs.
  destruct (batch_head _ _ _ _ _ _ H Eb) as [Ho [Hr Hlen]].
  pose proof (i_head _ _ HP) as Hh. rewrite Eph in Hh.
  destruct (advance_head_fields _ _ _ _ Ea (i_open _ _ _ H) ltac:(lia)) as [Hh' [Hn' [Hc' Hg']]].
  destruct (winv_via _ _ _ _ _ _ (done_sorted _ _ _ H) (i_w _ _ _ H) (advance_via_notify _ _ _ _ Ea)) as [es [Hf HW]].
  assert (HI : Inv t (cursor_gen t) (hi p) h0).
  { pose proof (inv_advance (trk p) (cursor_gen (trk p)) (hi p) h0 o (i_trk _ _ _ H) ltac:(lia)) as X.
    rewrite Ea in X. cbn [fst] in X. rewrite Hg'. exact X. }
  destruct (pcore_with_fired rf0 h0 p t f (hi p) es H Hf HW HI Hn' Hc') as [HC _].
  split.
  - destruct HC. constructor; assumption.
  - destruct HP. constructor; cbn [set_ph with_fired wal closures pending failed trk wal_last done batch syncq ph
      wal_synced applied resp hi].
    + lia.
    + rewrite Eb. split; discriminate.
    + intros _ _. apply i_synced0; rewrite Eph; discriminate.
    + discriminate.
Qed.

Lemma pstep_cb_wait rf0 h0 p p' : PInv rf0 h0 p -> pstep true p PCbWait = Some p' -> PInv rf0 h0 p'.
Proof.
  intros [H HP] Hs. cbn [pstep] in Hs.
  destruct (ph p) eqn:Eph; try discriminate. destruct (batch p) as [|[o r] rest] eqn:Eb; [discriminate|].
  destruct (batch_head _ _ _ _ _ _ H Eb) as [Ho [Hr Hlen]].
  pose proof (i_head _ _ HP) as Hh. rewrite Eph in Hh.
  pose proof (i_open _ _ _ H) as Hop.
  pose proof (i_trk _ _ _ H) as HI.
  pose proof (i_w _ _ _ H) as HW.
  assert (Hsyn : h0 + Z.of_nat (length (done p ++ batch p)) <= wal_synced p)
    by (apply (i_synced _ _ HP); rewrite Eph; discriminate).
  unfold wait_async in Hs. rewrite Hop in Hs.
  destruct ((required (trk p) =? 0)%N || (o <=? commit (trk p))) eqn:Ec.
  - (* the commit offset already covers o: completes outside the lock *)
    inversion Hs; subst p'; clear Hs.
    assert (Hoc : o <= commit (trk p)).
    { apply orb_true_iff in Ec. destruct Ec as [Ez|Ez]; [|apply Z.leb_le; exact Ez].
      apply N.eqb_eq in Ez. destruct HI as [_ [_ [_ [H2 [_ [_ H5]]]]]].
      destruct (Z.le_gt_cases (head (trk p)) (commit (trk p))) as [?|Hgt]; [lia|].
      exfalso. apply (H2 (head (trk p))); [lia|]. apply H5. exact Ez. }
    assert (Hw0 : waiting (trk p) = []).
    { destruct (waiting (trk p)) as [|e w] eqn:Ew; [reflexivity|exfalso].
      destruct HW as [Hd [_ Hgt]]. specialize (Hgt e ltac:(rewrite Ew; left; reflexivity)).
      assert (Hin : In e (done p)) by (rewrite Hd, Ew; apply in_or_app; right; left; reflexivity).
      pose proof (i_wal _ _ _ H) as Hwal. pose proof (i_split _ _ _ H) as Hsp.
      rewrite Hsp in Hwal at 1. symmetry in Hwal.
      apply in_split in Hin. destruct Hin as [a [b Hab]]. rewrite Hab in Hwal. rewrite <- !app_assoc in Hwal. cbn [app] in Hwal.
      pose proof (wal_of_nth _ _ _ _ _ Hwal) as He. rewrite He in Hgt. cbn [fst] in Hgt.
      rewrite Hab, app_length in Ho. cbn [length] in Ho. clear - Ho Hoc Hgt. unfold entry in *. lia. }
    split.
    + destruct (pcore_with_fired rf0 h0 p (trk p) [] (hi p) [] H eq_refl
                 ltac:(rewrite app_nil_r; exact HW) HI eq_refl Hop) as [HC _].
      destruct HC. constructor; assumption.
    + destruct HP. constructor; cbn [set_ph with_fired wal closures pending failed trk wal_last done batch syncq ph
        wal_synced applied resp hi].
      * lia.
      * rewrite Eb. split; discriminate.
      * intros _ _. exact Hsyn.
      * intros _. split; [exact Hw0|]. rewrite Eb. cbn [hd_error]. intros e He. inversion He; subst e. exact Hoc.
  - (* registered *)
    inversion Hs; subst p'; clear Hs.
    apply orb_false_iff in Ec. destruct Ec as [_ Ec]. apply Z.leb_gt in Ec.
    set (t := set_waiting (trk p) (waiting (trk p) ++ [(o, r)])).
    assert (HIt : Inv t (cursor_gen t) (hi p) h0) by (eapply inv_fields; [| | | | |exact HI]; reflexivity).
    split.
    + destruct H. constructor; cbn [pop_callback with_fired wal closures pending failed trk wal_last done batch syncq ph
        wal_synced applied resp hi fired_entries fired_errors filter map]; rewrite ?app_nil_r; try assumption.
      * rewrite i_split0 at 1. rewrite Eb. rewrite <- !app_assoc. reflexivity.
      * rewrite app_length. cbn [length]. rewrite app_length, Eb in Hsyn. cbn [length] in Hsyn. lia.
      * destruct i_w0 as [Hd [Ha Hgt]]. unfold WInv. cbn [t waiting commit set_waiting]. split; [|split].
        -- rewrite Hd at 1. rewrite <- app_assoc. reflexivity.
        -- exact Ha.
        -- intros e He. apply in_app_or in He. destruct He as [He|[<-|[]]]; [apply Hgt; exact He|exact Ec].
    + destruct HP. constructor; cbn [pop_callback with_fired wal closures pending failed trk wal_last done batch syncq ph
        wal_synced applied resp hi t head set_waiting].
      * rewrite app_length. cbn [length]. destruct rest; lia.
      * destruct rest; split; try discriminate; reflexivity.
      * intros _ _. rewrite <- app_assoc. cbn [app]. rewrite Eb in Hsyn. exact Hsyn.
      * destruct rest; discriminate.
Qed.

Lemma pstep_cb_apply rf0 h0 p p' : PInv rf0 h0 p -> pstep true p PCbApply = Some p' -> PInv rf0 h0 p'.
Proof.
  intros [H HP] Hs. cbn [pstep] in Hs.
  destruct (ph p) eqn:Eph; try discriminate. destruct (batch p) as [|[o r] rest] eqn:Eb; [discriminate|].
  inversion Hs; subst p'; clear Hs.
  destruct (batch_head _ _ _ _ _ _ H Eb) as [Ho [Hr Hlen]].
  pose proof (i_head _ _ HP) as Hh. rewrite Eph in Hh.
  destruct (i_apply _ _ HP Eph) as [Hw0 Hoc]. rewrite Eb in Hoc. specialize (Hoc _ eq_refl). cbn [fst] in Hoc.
  assert (Hsyn : h0 + Z.of_nat (length (done p ++ batch p)) <= wal_synced p)
    by (apply (i_synced _ _ HP); rewrite Eph; discriminate).
  assert (Hfe : fired_entries (closures p) [(r, true)] = [(o, r)]).
  { unfold fired_entries. cbn [filter snd map fst]. rewrite (i_cl _ _ _ H), Hr, lookup_closures by exact Hlen.
    rewrite Ho. reflexivity. }
  unfold with_fired. rewrite Hfe. cbn [fired_errors filter snd negb map].
  split.
  - destruct H. constructor; cbn [pop_callback wal closures pending failed trk wal_last done batch syncq ph
      wal_synced applied resp hi]; rewrite ?app_nil_r; try assumption.
    + rewrite i_split0 at 1. rewrite Eb. rewrite <- !app_assoc. reflexivity.
    + rewrite app_length. cbn [length]. rewrite app_length, Eb in Hsyn. cbn [length] in Hsyn. lia.
    + destruct i_w0 as [Hd [Ha Hgt]]. unfold WInv. rewrite Hw0 in *. rewrite app_nil_r in *. split; [|split].
      * rewrite Hd. reflexivity.
      * intros e He. apply in_app_or in He. destruct He as [He|[<-|[]]]; [apply Ha; exact He|exact Hoc].
      * intros e [].
    + rewrite map_app, i_resp0. reflexivity.
  - destruct HP. constructor; cbn [pop_callback wal closures pending failed trk wal_last done batch syncq ph
      wal_synced applied resp hi].
    + rewrite app_length. cbn [length]. destruct rest; lia.
    + destruct rest; split; try discriminate; reflexivity.
    + intros _ _. rewrite <- app_assoc. cbn [app]. rewrite Eb in Hsyn. exact Hsyn.
    + destruct rest; discriminate.
Qed.

(* a transition of the tracker alone (follower ack, new cursor) *)
Lemma pinv_tracker_step rf0 h0 p t f hi' es :
  PInv rf0 h0 p -> f = fired_ok (map snd es) -> WInv t (done p) (applied p ++ es) ->
  Inv t (cursor_gen t) hi' h0 -> next t = next (trk p) -> closed t = false -> head t = head (trk p) ->
  commit (trk p) <= commit t ->
  PInv rf0 h0 (with_fired p t f hi').
Proof.
  intros [H HP] Hf HW HI Hn Hc Hh Hcm.
  destruct (pcore_with_fired rf0 h0 p t f hi' es H Hf HW HI Hn Hc) as [HC _].
  split; [exact HC|].
  destruct HP. constructor; cbn [with_fired wal closures pending failed trk wal_last done batch syncq ph
      wal_synced applied resp hi]; try assumption.
  - rewrite Hh. exact i_head0.
  - intros Eph. destruct (i_apply0 Eph) as [Hw0 Hoc].
    destruct (i_w _ _ _ H) as [Hd _]. destruct HW as [Hd' _].
    rewrite Hw0, app_nil_r in Hd. rewrite Hd in Hd'. rewrite <- app_assoc in Hd'.
    rewrite <- (app_nil_r (applied p)) in Hd' at 1. apply app_inv_head in Hd'.
    symmetry in Hd'. apply app_eq_nil in Hd'. destruct Hd' as [_ Hwt]. split; [exact Hwt|].
    intros e He. specialize (Hoc e He). lia.
Qed.

Lemma pstep_ack rf0 h0 p c o p' : PInv rf0 h0 p -> pstep true p (PAck c o) = Some p' -> PInv rf0 h0 p'.
Proof.
  intros HPI Hs. pose proof HPI as [H HP]. cbn [pstep] in Hs.
  destruct ((c <? cursor_gen (trk p))%N && (o <=? hi p c + 1)) eqn:Ec; cbn [andb] in Hs; [|discriminate].
  destruct (o <=? wal_synced p); [|discriminate].
  destruct (ack (trk p) c o) as [t f|] eqn:Ea; [|discriminate].
  inversion Hs; subst p'; clear Hs.
  assert (Hg : gstep (trk p, hi p) (OpAck c o) = Some (t, upd (hi p) c (Z.max (hi p c) o))).
  { cbn [gstep]. rewrite Ec, Ea. reflexivity. }
  pose proof (gstep_inv _ _ _ _ _ _ (i_trk _ _ _ H) Hg) as HI.
  destruct (winv_via _ _ _ _ _ _ (done_sorted _ _ _ H) (i_w _ _ _ H) (ack_via_notify _ _ _ _ _ Ea)) as [es [Hf HW]].
  pose proof (ack_core (trk p) c o) as Hcore. rewrite Ea in Hcore. cbn [ack_state] in Hcore.
  destruct Hcore as [_ [_ [Hn [Hh [_ Hcl]]]]].
  pose proof (ack_commit_mono (trk p) c o) as Hm. rewrite Ea in Hm. cbn [ack_state] in Hm.
  apply (pinv_tracker_step rf0 h0 p _ f _ es HPI Hf HW HI Hn); [|exact Hh|exact Hm].
  rewrite Hcl. exact (i_open _ _ _ H).
Qed.

Lemma pstep_new_cursor rf0 h0 p a p' : PInv rf0 h0 p -> pstep true p (PNewCursor a) = Some p' -> PInv rf0 h0 p'.
Proof.
  intros HPI Hs. pose proof HPI as [H HP]. cbn [pstep] in Hs.
  destruct (new_cursor (trk p) a) as [t idx f| | |] eqn:En; try discriminate;
    try (inversion Hs; subst p'; exact HPI).
  inversion Hs; subst p'; clear Hs.
  assert (Hg : gstep (trk p, hi p) (OpNewCursor a) = Some (t, upd (hi p) idx a)).
  { cbn [gstep]. rewrite En. reflexivity. }
  pose proof (gstep_inv _ _ _ _ _ _ (i_trk _ _ _ H) Hg) as HI.
  unfold new_cursor in En.
  destruct ((rf (trk p) + U32 - 1) mod U32 <=? cursor_gen (trk p) mod U32)%N; [discriminate|].
  destruct (head (trk p) <? a); [discriminate|].
  set (l := z_range (commit (trk p) + 1) (Z.to_nat (a - commit (trk p)))) in *.
  pose proof (ack_loop_core (trk p) (cursor_gen (trk p)) l []) as Hcore.
  pose proof (ack_loop_mono (trk p) (cursor_gen (trk p)) l []) as [Hm _].
  destruct (ack_loop (trk p) (cursor_gen (trk p)) l []) as [t1 f1|] eqn:El; [|discriminate].
  inversion En; subst t idx f; clear En. cbn [ack_state] in *.
  destruct (winv_ack_loop _ _ _ (done_sorted _ _ _ H) _ _ [] [] _ _ (i_w _ _ _ H) eq_refl El) as [es [Hf HW]].
  destruct Hcore as [_ [_ [Hn [Hh [_ Hcl]]]]].
  cbn [app] in Hf.
  apply (pinv_tracker_step rf0 h0 p _ f1 _ es HPI Hf).
  - eapply winv_same; [| |exact HW]; reflexivity.
  - exact HI.
  - exact Hn.
  - cbn [closed set_cursor_gen]. rewrite Hcl. exact (i_open _ _ _ H).
  - exact Hh.
  - exact Hm.
Qed.

Lemma pstep_inv rf0 h0 p a p' : PInv rf0 h0 p -> pstep true p a = Some p' -> PInv rf0 h0 p'.
Proof.
  destruct a.
  - apply pstep_write.
  - discriminate.
  - discriminate.
  - apply pstep_drain.
  - apply pstep_flush.
  - apply pstep_cb_advance.
  - apply pstep_cb_wait.
  - apply pstep_cb_apply.
  - apply pstep_ack.
  - apply pstep_new_cursor.
Qed.

Lemma prun_inv rf0 h0 acts : forall p p', PInv rf0 h0 p -> prun true p acts = Some p' -> PInv rf0 h0 p'.
Proof.
  induction acts as [|a tl IH]; intros p p' HI Hr; cbn [prun] in Hr.
  - inversion Hr; subst. exact HI.
  - destruct (pstep true p a) as [p1|] eqn:E; [|discriminate].
    eapply IH; [|exact Hr]. eapply pstep_inv; eauto.
Qed.

(* ================================================================== *)
(* The pipeline theorems (every schedule of the repaired write path)   *)

Definition reachable (rf0 : N) (h0 : Z) (p : pstate) : Prop :=
  exists acts, prun true (p_init rf0 h0) acts = Some p.

Definition params_ok (rf0 : N) (h0 : Z) : Prop := (1 <= rf0)%N /\ (rf0 <= 17)%N /\ -1 <= h0.

Lemma reachable_inv rf0 h0 p : params_ok rf0 h0 -> reachable rf0 h0 p -> PInv rf0 h0 p.
Proof.
  intros [A [B C]] [acts Hr]. eapply prun_inv; [|exact Hr]. apply pinv_init; assumption.
Qed.

Lemma z_range_snoc b n : z_range b (S n) = z_range b n ++ [b + Z.of_nat n].
Proof.
  revert b; induction n as [|n IH]; intros b.
  - cbn. f_equal. lia.
  - change (z_range b (S (S n))) with (b :: z_range (b + 1) (S n)). rewrite IH.
    cbn [z_range app]. f_equal. f_equal. f_equal. lia.
Qed.

Lemma wal_of_fst h0 n : map fst (wal_of h0 n) = z_range (h0 + 1) n.
Proof.
  induction n as [|n IH]; [reflexivity|].
  rewrite wal_of_succ, map_app, z_range_snoc. f_equal. exact IH.
Qed.

(* no write fails; every write is in the WAL; the WAL holds the offsets h0+1, h0+2, ... in this
   order (distinct, contiguous, appended in offset order); the i-th request got offset h0+1+i *)
Theorem writes_succeed_in_order rf0 h0 p : params_ok rf0 h0 -> reachable rf0 h0 p ->
  failed p = [] /\ pending p = [] /\
  length (closures p) = length (wal p) /\
  map fst (wal p) = z_range (h0 + 1) (length (wal p)) /\
  map snd (wal p) = n_seq (N.of_nat (length (wal p))) /\
  next (trk p) = wal_last p.
Proof.
  intros Hp Hr. destruct (reachable_inv _ _ _ Hp Hr) as [H _].
  split; [exact (i_failed _ _ _ H)|]. split; [exact (i_pend _ _ _ H)|].
  split; [rewrite (i_cl _ _ _ H) at 1; apply closures_of_length|].
  split; [rewrite (i_wal _ _ _ H) at 1; apply wal_of_fst|].
  split; [|rewrite (i_next _ _ _ H), (i_last _ _ _ H); reflexivity].
  rewrite (i_wal _ _ _ H) at 1. unfold wal_of, n_seq. rewrite map_map. cbn [snd].
  rewrite Nat2N.id. reflexivity.
Qed.

(* effects are applied in WAL (= offset) order, each entry once, nothing skipped: the applied
   entries are a prefix of the WAL; and only committed entries are applied *)
Theorem applied_in_offset_order rf0 h0 p : params_ok rf0 h0 -> reachable rf0 h0 p ->
  (exists rest, wal p = applied p ++ rest) /\
  forall e, In e (applied p) -> fst e <= commit (trk p).
Proof.
  intros Hp Hr. destruct (reachable_inv _ _ _ Hp Hr) as [H _].
  destruct (i_w _ _ _ H) as [Hd [Ha _]]. split; [|exact Ha].
  exists (waiting (trk p) ++ batch p ++ syncq p).
  rewrite (i_split _ _ _ H), Hd, <- app_assoc. reflexivity.
Qed.

Lemma nodup_app_l {A} (a b : list A) : NoDup (a ++ b) -> NoDup a.
Proof.
  induction a as [|x l IHl]; intros H; [constructor|]. cbn [app] in H. inversion H as [|? ? Hnotin Hnd']; subst.
  constructor; [|apply IHl; assumption]. intros Hx. apply Hnotin. apply in_or_app. left. exact Hx.
Qed.

(* each caller gets the response to its own request: a response handed to caller r is the result
   of applying r's own request at the offset where r's request sits in the WAL; and no caller is
   answered twice *)
Theorem each_caller_gets_own_response rf0 h0 p : params_ok rf0 h0 -> reachable rf0 h0 p ->
  resp p = map (fun e => (snd e, e)) (applied p) /\
  (forall r e, In (r, e) (resp p) -> snd e = r /\ In e (wal p) /\ lookup (closures p) r = fst e) /\
  NoDup (map fst (resp p)).
Proof.
  intros Hp Hr. destruct (reachable_inv _ _ _ Hp Hr) as [H _].
  destruct (applied_in_offset_order _ _ _ Hp Hr) as [[rest Hw] _].
  pose proof (i_resp _ _ _ H) as Hresp. split; [exact Hresp|]. split.
  - intros r e Hin. rewrite Hresp in Hin. apply in_map_iff in Hin. destruct Hin as [e' [Heq He']].
    inversion Heq; subst e' r. split; [reflexivity|].
    assert (Hew : In e (wal p)) by (rewrite Hw; apply in_or_app; left; exact He').
    split; [exact Hew|].
    rewrite (i_wal _ _ _ H) in Hew. apply wal_of_In in Hew. destruct Hew as [k [Hk ->]].
    rewrite (i_cl _ _ _ H). cbn [snd fst]. apply lookup_closures. exact Hk.
  - rewrite Hresp, map_map. cbn [fst].
    assert (Hnd : NoDup (map snd (wal p))).
    { rewrite (i_wal _ _ _ H). unfold wal_of. rewrite map_map. cbn [snd].
      apply FinFun.Injective_map_NoDup; [intros x y; apply Nat2N.inj|apply seq_NoDup]. }
    rewrite Hw, map_app in Hnd. eapply nodup_app_l. exact Hnd.
Qed.

(* offsets of the tracker and of the WAL stay ordered *)
Theorem offsets_ordered rf0 h0 p : params_ok rf0 h0 -> reachable rf0 h0 p ->
  h0 <= commit (trk p) <= head (trk p) /\ head (trk p) <= wal_synced p <= wal_last p.
Proof.
  intros Hp Hr. destruct (reachable_inv _ _ _ Hp Hr) as [H HP].
  destruct (i_trk _ _ _ H) as [[_ [_ Hc0]] [Hch _]].
  pose proof (i_head _ _ HP) as Hh. pose proof (i_synced_done _ _ _ H) as Hsd.
  pose proof (i_synced_le _ _ _ H) as Hsl.
  assert (head (trk p) <= wal_synced p).
  { destruct (ph p) eqn:Eph; try lia.
    - assert (X : h0 + Z.of_nat (length (done p ++ batch p)) <= wal_synced p)
        by (apply (i_synced _ _ HP); rewrite Eph; discriminate).
      rewrite app_length in X. destruct (batch p) eqn:Eb; [apply (i_ph _ _ HP) in Eb; congruence|]. cbn [length] in X. lia.
    - assert (X : h0 + Z.of_nat (length (done p ++ batch p)) <= wal_synced p)
        by (apply (i_synced _ _ HP); rewrite Eph; discriminate).
      rewrite app_length in X. destruct (batch p) eqn:Eb; [apply (i_ph _ _ HP) in Eb; congruence|]. cbn [length] in X. lia. }
  lia.
Qed.

(* the commit offset of the tracker inside the pipeline is the true commit offset, in every
   reachable state (the pipeline only issues admissible tracker calls) *)
Theorem pipeline_commit_is_true_commit rf0 h0 p : params_ok rf0 h0 -> reachable rf0 h0 p ->
  is_true_commit (trk p) (cursor_gen (trk p)) (hi p) h0 (commit (trk p)).
Proof.
  intros Hp Hr. destruct (reachable_inv _ _ _ Hp Hr) as [H _].
  apply inv_true_commit. exact (i_trk _ _ _ H).
Qed.

(* with a healthy quorum no write is stuck: once the sync goroutine has nothing left to do and
   rf/2 followers have acknowledged the whole log, every write has been applied and answered *)
Theorem no_write_stuck_at_quiescence rf0 h0 p : params_ok rf0 h0 -> reachable rf0 h0 p ->
  quiescent p ->
  applied p = wal p /\ resp p = map (fun e => (snd e, e)) (wal p) /\
  commit (trk p) = wal_last p /\ failed p = [].
Proof.
  intros Hp Hr [Hq [Hb Hack]]. destruct (reachable_inv _ _ _ Hp Hr) as [H HP].
  pose proof (i_split _ _ _ H) as Hs. rewrite Hb, Hq, !app_nil_r in Hs.
  assert (Eph : ph p = PhIdle) by (apply (i_ph _ _ HP); exact Hb).
  pose proof (i_head _ _ HP) as Hh. rewrite Eph, <- Hs in Hh.
  pose proof (i_last _ _ _ H) as Hl.
  assert (Hhead : head (trk p) = wal_last p) by lia.
  pose proof (i_trk _ _ _ H) as HI.
  destruct (inv_true_commit _ _ _ _ HI) as [[Hc0 Hch] [_ Hmax]].
  assert (Hcm : commit (trk p) = head (trk p)).
  { destruct (Z.eq_dec (commit (trk p)) (head (trk p))) as [?|Hne]; [assumption|exfalso].
    apply (Hmax (head (trk p))); [lia|].
    intros i Hi. unfold quorum_acked.
    pose proof (nacks_mono (cursor_gen (trk p)) (cursor_gen (trk p)) (hi p) (hi p) (wal_last p) i
                  ltac:(lia) ltac:(intros; lia) ltac:(lia)). lia. }
  destruct (i_w _ _ _ H) as [Hd [_ Hgt]].
  assert (Hw0 : waiting (trk p) = []).
  { destruct (waiting (trk p)) as [|e w] eqn:Ew; [reflexivity|exfalso].
    specialize (Hgt e (or_introl eq_refl)).
    assert (Hin : In e (wal_of h0 (length (wal p)))).
    { rewrite <- (i_wal _ _ _ H), Hs, Hd. apply in_or_app. right. left. reflexivity. }
    apply wal_of_In in Hin. destruct Hin as [k [Hk ->]]. cbn [fst] in Hgt. lia. }
  rewrite Hw0, app_nil_r in Hd.
  split; [congruence|]. split; [rewrite (i_resp _ _ _ H); congruence|].
  split; [lia|exact (i_failed _ _ _ H)].
Qed.

(* the commit offset never moves backwards along any schedule, from any state, on either path *)
Lemma with_fired_trk p t f hi' : trk (with_fired p t f hi') = t.
Proof. reflexivity. Qed.

Lemma pstep_commit_mono fixed p a p' : pstep fixed p a = Some p' -> commit (trk p) <= commit (trk p').
Proof.
  intros Hs. destruct a; cbn [pstep] in Hs.
  - destruct fixed; [|discriminate]. cbn [next_offset] in Hs. unfold wal_append_and_sync in Hs.
    destruct (check_next_offset _ _); inversion Hs; subst; cbn; lia.
  - destruct fixed; [discriminate|]. cbn [next_offset] in Hs. inversion Hs; subst; cbn; lia.
  - destruct fixed; [discriminate|]. destruct (existsb _ _); [|discriminate]. unfold wal_append_and_sync in Hs.
    destruct (check_next_offset _ _); inversion Hs; subst; cbn; lia.
  - destruct (ph p); try discriminate. destruct (syncq p); [discriminate|]. inversion Hs; subst; cbn; lia.
  - destruct (ph p); try discriminate. inversion Hs; subst; cbn; lia.
  - destruct (ph p); try discriminate. destruct (batch p) as [|[o r] rest]; [discriminate|].
    pose proof (step_commit_mono (trk p) (OpAdvance o)) as Hm. cbn [step] in Hm.
    destruct (advance_head (trk p) o) as [t f]. cbn [fst] in Hm. inversion Hs; subst. cbn. exact Hm.
  - destruct (ph p); try discriminate. destruct (batch p) as [|[o r] rest]; [discriminate|].
    pose proof (step_commit_mono (trk p) (OpWait o r)) as Hm. cbn [step] in Hm.
    destruct (wait_async (trk p) o r) as [t f]. cbn [fst] in Hm. destruct f; inversion Hs; subst; cbn; exact Hm.
  - destruct (ph p); try discriminate. destruct (batch p) as [|[o r] rest]; [discriminate|].
    inversion Hs; subst; cbn; lia.
  - destruct (_ && _); [|discriminate].
    pose proof (ack_commit_mono (trk p) c o) as Hm.
    destruct (ack (trk p) c o) as [t f|]; [|discriminate]. inversion Hs; subst. cbn in *. exact Hm.
  - pose proof (step_commit_mono (trk p) (OpNewCursor a)) as Hm. cbn [step] in Hm.
    destruct (new_cursor (trk p) a) as [t idx f| | |]; inversion Hs; subst; cbn in *; try lia; exact Hm.
Qed.

Theorem pipeline_commit_monotone fixed acts1 acts2 p p1 p2 :
  prun fixed p acts1 = Some p1 -> prun fixed p1 acts2 = Some p2 -> commit (trk p1) <= commit (trk p2).
Proof.
  intros _. revert p1. induction acts2 as [|a tl IH]; intros p1 Hr; cbn [prun] in Hr.
  - inversion Hr; subst; lia.
  - destruct (pstep fixed p1 a) as [p1'|] eqn:E; [|discriminate].
    pose proof (pstep_commit_mono _ _ _ _ E). specialize (IH _ Hr). lia.
Qed.
