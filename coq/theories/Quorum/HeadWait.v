(* Waiters on the HEAD offset (QuorumAckTracker.WaitForHeadOffset: the follower cursors park there when
   they have sent everything that is synced).  The Go loop is
       for !q.closed && q.headOffset < offset { waitForHeadOffset.Wait(ctx) }
   and AdvanceHeadOffset / Close broadcast whenever the head offset changes / the tracker closes, so a
   parked waiter has returned exactly when  offset <= head  or the tracker is closed.  The layer keeps the
   parked waiters next to the tracker state of Model.v; every operation reports the waiters it woke. *)
From Coq Require Import List NArith ZArith Bool Lia.
From Oxia.Quorum Require Import Model.
Import ListNotations.
Open Scope Z_scope.

Definition hstate := (state * list (Z * N))%type.

Inductive hop :=
| HBase (x : op)
| HPark (o : Z) (id : N).      (* WaitForHeadOffset(ctx, o) issued by waiter id *)

Definition can_return (s : state) (w : Z * N) : bool := closed s || (fst w <=? head s).

(* the waiters that return after the tracker moved to s, and those that stay parked *)
Definition wake (s : state) (parked : list (Z * N)) : list N * list (Z * N) :=
  (map snd (filter (can_return s) parked), filter (fun w => negb (can_return s w)) parked).

Definition hstep (st : hstate) (x : hop) : hstate * (res * list (N * bool) * list N) :=
  let (s, parked) := st in
  match x with
  | HBase b =>
      let (s', r) := step s b in
      let (w, p') := wake s' parked in
      ((s', p'), (fst r, snd r, w))
  | HPark o id =>
      let (w, p') := wake s (parked ++ [(o, id)]) in
      ((s, p'), (RNone, [], w))
  end.

Definition hrun (st : hstate) (ops : list hop) : hstate := fold_left (fun a x => fst (hstep a x)) ops st.

Lemma wake_none_left s parked w : In w (snd (wake s parked)) -> can_return s w = false.
Proof.
  unfold wake. cbn [snd]. intros H. apply filter_In in H. destruct H as [_ H]. apply negb_true_iff. exact H.
Qed.

(* after every operation no waiter whose offset the head has reached (or any, once closed) is still parked *)
Lemma hstep_woken st x w :
  In w (snd (fst (hstep st x))) ->
  fst w > head (fst (fst (hstep st x))) /\ closed (fst (fst (hstep st x))) = false.
Proof.
  destruct st as [s parked]. destruct x as [b|o id]; cbn [hstep].
  - destruct (step s b) as [s' r]. cbn [wake fst snd]. intros H.
    apply (wake_none_left s' parked w) in H. unfold can_return in H.
    apply orb_false_iff in H. destruct H as [Hc Hh]. apply Z.leb_gt in Hh. split; [lia|exact Hc].
  - cbn [wake fst snd]. intros H.
    apply (wake_none_left s (parked ++ [(o, id)]) w) in H. unfold can_return in H.
    apply orb_false_iff in H. destruct H as [Hc Hh]. apply Z.leb_gt in Hh. split; [lia|exact Hc].
Qed.

(* THEOREM: along every call sequence, after AdvanceHeadOffset(h) (or any other call) every waiter parked
   for an offset <= head has returned, and after Close every waiter has returned *)
Theorem head_waiters_woken st ops w :
  ops <> [] -> In w (snd (hrun st ops)) ->
  fst w > head (fst (hrun st ops)) /\ closed (fst (hrun st ops)) = false.
Proof.
  intros Hne. destruct (exists_last Hne) as [l [x ->]].
  unfold hrun. rewrite fold_left_app. cbn [fold_left]. apply hstep_woken.
Qed.

(* a waiter stays parked only for that reason: nobody is woken early *)
Lemma hstep_parked_kept st x w :
  In w (snd st) -> can_return (fst (fst (hstep st x))) w = false -> In w (snd (fst (hstep st x))).
Proof.
  destruct st as [s parked]. destruct x as [b|o id]; cbn [hstep snd].
  - destruct (step s b) as [s' r]. cbn [wake fst snd]. intros Hin Hc.
    apply filter_In. split; [exact Hin|rewrite Hc; reflexivity].
  - cbn [wake fst snd]. intros Hin Hc. apply filter_In. split; [apply in_or_app; left; exact Hin|rewrite Hc; reflexivity].
Qed.

Example head_waiters_demo :
  let st := hrun (new_tracker 5 4 4, []) [HBase (OpNewCursor 4); HBase (OpNewCursor 4); HPark 5 1%N; HPark 6 2%N;
                                        HBase (OpAck 0%N 5); HBase (OpAdvance 5)] in
  snd st = [(6, 2%N)] /\ head (fst st) = 5 /\ commit (fst st) = 4.
Proof. vm_compute. repeat split. Qed.
