(* Progress of the repaired write pipeline: from EVERY reachable state, if at least rf/2 follower
   cursors are attached, the steps of the WAL sync goroutine followed by the in-order acks of the
   first rf/2 followers (no new write, no other help) lead to a quiescent state - in which, by
   PipelineProofs.no_write_stuck_at_quiescence, every write has been applied and answered.
   So there is no reachable state from which a write can never complete. *)
From Coq Require Import List NArith ZArith Bool Lia Arith Wf_nat.
From Oxia.Quorum Require Import Model Bits Spec Proofs Exact Pipeline PipelineProofs.
Import ListNotations.
Open Scope Z_scope.

Lemma prun_app fixed a b : forall p,
  prun fixed p (a ++ b) = match prun fixed p a with Some p1 => prun fixed p1 b | None => None end.
Proof.
  induction a as [|x tl IH]; intros p; cbn [app prun]; [reflexivity|].
  destruct (pstep fixed p x); [apply IH|reflexivity].
Qed.

Definition helper (a : paction) : Prop :=
  match a with PWrite | PAlloc | PAppend _ | PNewCursor _ => False | _ => True end.

(* what the helping steps leave alone *)
Definition same_log (p p' : pstate) : Prop :=
  wal p' = wal p /\ wal_last p' = wal_last p /\ cursor_gen (trk p') = cursor_gen (trk p) /\
  required (trk p') = required (trk p) /\ (forall c, hi p c <= hi p' c).

Lemma same_log_refl p : same_log p p.
Proof. repeat split. intros; lia. Qed.

Lemma same_log_trans a b c : same_log a b -> same_log b c -> same_log a c.
Proof.
  intros [A1 [A2 [A3 [A4 A5]]]] [B1 [B2 [B3 [B4 B5]]]]. repeat split; try congruence.
  intros x. specialize (A5 x). specialize (B5 x). lia.
Qed.

Definition mu (p : pstate) : nat :=
  5 * (length (syncq p) + length (batch p)) +
  match ph p with PhIdle => 4 | PhFlush => 3 | PhAdvance => 2 | PhWait => 1 | PhApply => 0 end.

Lemma sync_step rf0 h0 p : PInv rf0 h0 p -> (syncq p <> [] \/ batch p <> []) ->
  exists a p', helper a /\ pstep true p a = Some p' /\ (mu p' < mu p)%nat /\ same_log p p'.
Proof.
  intros [H HP] Hne. destruct (ph p) eqn:Eph.
  - assert (Hb : batch p = []) by (apply (i_ph _ _ HP); exact Eph).
    destruct (syncq p) as [|e q] eqn:Eq; [destruct Hne; congruence|].
    exists PSyncDrain. eexists. split; [exact I|]. split; [cbn [pstep]; rewrite Eph, Eq; reflexivity|].
    split; [unfold mu; cbn [syncq batch ph length]; rewrite Eph, Eq, Hb; cbn [length]; lia|].
    repeat split. intros; cbn; lia.
  - exists PSyncFlush. eexists. split; [exact I|]. split; [cbn [pstep]; rewrite Eph; reflexivity|].
    split; [unfold mu; cbn [syncq batch ph]; rewrite Eph; lia|]. repeat split. intros; cbn; lia.
  - destruct (batch p) as [|[o r] rest] eqn:Eb; [apply (i_ph _ _ HP) in Eb; congruence|].
    exists PCbAdvance. destruct (advance_head (trk p) o) as [t f] eqn:Ea.
    eexists. split; [exact I|]. split; [cbn [pstep]; rewrite Eph, Eb, Ea; reflexivity|].
    destruct (batch_head _ _ _ _ _ _ H Eb) as [Ho _].
    pose proof (i_head _ _ HP) as Hh. rewrite Eph in Hh.
    destruct (advance_head_fields _ _ _ _ Ea (i_open _ _ _ H) ltac:(lia)) as [_ [_ [_ Hg]]].
    assert (Hr : required t = required (trk p)).
    { pose proof (advance_ok (trk p) o) as X. rewrite Ea in X. cbn [fst] in X. inversion X; subst; congruence. }
    split; [unfold mu; cbn [set_ph with_fired syncq batch ph]; rewrite Eph; lia|].
    repeat split; try assumption. intros; cbn; lia.
  - destruct (batch p) as [|[o r] rest] eqn:Eb; [apply (i_ph _ _ HP) in Eb; congruence|].
    exists PCbWait. cbn [pstep]. rewrite Eph, Eb.
    unfold wait_async. rewrite (i_open _ _ _ H).
    destruct ((required (trk p) =? 0)%N || (o <=? commit (trk p))).
    + eexists. split; [exact I|]. split; [reflexivity|].
      split; [unfold mu; cbn [set_ph with_fired syncq batch ph]; rewrite Eph, Eb; lia|].
      repeat split. intros; cbn; lia.
    + eexists. split; [exact I|]. split; [reflexivity|].
      split; [unfold mu; cbn [pop_callback with_fired syncq batch ph]; rewrite Eph, Eb; cbn [length]; destruct rest; lia|].
      repeat split. intros; cbn; lia.
  - destruct (batch p) as [|[o r] rest] eqn:Eb; [apply (i_ph _ _ HP) in Eb; congruence|].
    exists PCbApply. eexists. split; [exact I|]. split; [cbn [pstep]; rewrite Eph, Eb; reflexivity|].
    split; [unfold mu; cbn [pop_callback with_fired syncq batch ph]; rewrite Eph, Eb; cbn [length]; destruct rest; lia|].
    repeat split. intros; cbn; lia.
Qed.

Lemma sync_completes rf0 h0 : forall n p, (mu p <= n)%nat -> PInv rf0 h0 p ->
  exists acts p', Forall helper acts /\ prun true p acts = Some p' /\
    syncq p' = [] /\ batch p' = [] /\ same_log p p' /\ PInv rf0 h0 p'.
Proof.
  induction n as [|n IH]; intros p Hmu HI.
  - exists [], p. assert (syncq p = [] /\ batch p = []) as [A B].
    { unfold mu in Hmu. destruct (syncq p), (batch p); cbn [length] in Hmu; try lia. split; reflexivity. }
    split; [constructor|]. split; [reflexivity|]. split; [exact A|]. split; [exact B|].
    split; [apply same_log_refl|exact HI].
  - destruct (syncq p) as [|e q] eqn:Eq; [destruct (batch p) as [|e b] eqn:Eb|].
    + exists [], p. split; [constructor|]. split; [reflexivity|]. split; [exact Eq|]. split; [exact Eb|].
      split; [apply same_log_refl|exact HI].
    + destruct (sync_step rf0 h0 p HI ltac:(right; rewrite Eb; discriminate)) as [a [p1 [Ha [Hs [Hlt Hsl]]]]].
      destruct (IH p1 ltac:(lia) (pstep_inv _ _ _ _ _ HI Hs)) as [acts [p' [Hf [Hr [A [B [C D]]]]]]].
      exists (a :: acts), p'. split; [constructor; assumption|]. split; [cbn [prun]; rewrite Hs; exact Hr|].
      split; [exact A|]. split; [exact B|]. split; [eapply same_log_trans; eauto|exact D].
    + destruct (sync_step rf0 h0 p HI ltac:(left; rewrite Eq; discriminate)) as [a [p1 [Ha [Hs [Hlt Hsl]]]]].
      destruct (IH p1 ltac:(lia) (pstep_inv _ _ _ _ _ HI Hs)) as [acts [p' [Hf [Hr [A [B [C D]]]]]]].
      exists (a :: acts), p'. split; [constructor; assumption|]. split; [cbn [prun]; rewrite Hs; exact Hr|].
      split; [exact A|]. split; [exact B|]. split; [eapply same_log_trans; eauto|exact D].
Qed.

(* one more ack of follower cursor c *)
Lemma ack_step rf0 h0 p c : PInv rf0 h0 p -> (c < cursor_gen (trk p))%N -> hi p c < wal_synced p ->
  exists p', pstep true p (PAck c (hi p c + 1)) = Some p' /\ hi p' c = hi p c + 1 /\
    same_log p p' /\ syncq p' = syncq p /\ batch p' = batch p /\ wal_synced p' = wal_synced p.
Proof.
  intros [H HP] Hc Hlt.
  assert (Hg16 : (cursor_gen (trk p) <= 16)%N).
  { destruct (i_trk _ _ _ H) as [_ [_ [_ [_ [_ [H4 _]]]]]]. exact (e4_g16 _ _ H4). }
  destruct (ack_no_panic (trk p) c (hi p c + 1) ltac:(lia)) as [t [f Ea]].
  cbn [pstep].
  replace ((c <? cursor_gen (trk p))%N) with true by (symmetry; apply N.ltb_lt; exact Hc).
  replace (hi p c + 1 <=? hi p c + 1) with true by (symmetry; apply Z.leb_le; lia).
  replace (hi p c + 1 <=? wal_synced p) with true by (symmetry; apply Z.leb_le; lia).
  cbn [andb]. rewrite Ea. eexists. split; [reflexivity|].
  pose proof (ack_core (trk p) c (hi p c + 1)) as Hcore. rewrite Ea in Hcore. cbn [ack_state] in Hcore.
  destruct Hcore as [_ [Hr [_ [_ [Hgen _]]]]].
  cbn [with_fired hi]. split; [rewrite upd_same; lia|].
  repeat split; try assumption.
  intros x. cbn [with_fired hi]. unfold upd. destruct (N.eqb_spec x c) as [->|_]; lia.
Qed.

Lemma catch_up rf0 h0 c : forall n p, (Z.to_nat (wal_synced p - hi p c) <= n)%nat ->
  PInv rf0 h0 p -> (c < cursor_gen (trk p))%N ->
  exists acts p', Forall helper acts /\ prun true p acts = Some p' /\ wal_synced p' <= hi p' c /\
    same_log p p' /\ syncq p' = syncq p /\ batch p' = batch p /\ wal_synced p' = wal_synced p /\
    PInv rf0 h0 p'.
Proof.
  induction n as [|n IH]; intros p Hn HI Hc.
  - exists [], p. split; [constructor|]. split; [reflexivity|]. split; [lia|]. split; [apply same_log_refl|].
    split; [reflexivity|]. split; [reflexivity|]. split; [reflexivity|exact HI].
  - destruct (Z.lt_ge_cases (hi p c) (wal_synced p)) as [Hlt|Hge].
    + destruct (ack_step rf0 h0 p c HI Hc Hlt) as [p1 [Hs [Hh [Hsl [A [B C]]]]]].
      pose proof (pstep_inv _ _ _ _ _ HI Hs) as HI1.
      destruct Hsl as [S1 [S2 [S3 [S4 S5]]]].
      destruct (IH p1 ltac:(rewrite C, Hh; lia) HI1 ltac:(rewrite S3; exact Hc))
        as [acts [p' [Hf [Hr [D [E [F [G [K L]]]]]]]]].
      exists (PAck c (hi p c + 1) :: acts), p'.
      split; [constructor; [exact I|exact Hf]|]. split; [cbn [prun]; rewrite Hs; exact Hr|].
      split; [exact D|]. split; [eapply same_log_trans; [|exact E]; repeat split; assumption|].
      split; [congruence|]. split; [congruence|]. split; [congruence|exact L].
    + exists [], p. split; [constructor|]. split; [reflexivity|]. split; [lia|]. split; [apply same_log_refl|].
      split; [reflexivity|]. split; [reflexivity|]. split; [reflexivity|exact HI].
Qed.

Lemma catch_up_all rf0 h0 : forall K p, PInv rf0 h0 p -> (N.of_nat K <= cursor_gen (trk p))%N ->
  exists acts p', Forall helper acts /\ prun true p acts = Some p' /\
    (forall c, (c < N.of_nat K)%N -> wal_synced p' <= hi p' c) /\
    same_log p p' /\ syncq p' = syncq p /\ batch p' = batch p /\ wal_synced p' = wal_synced p /\
    PInv rf0 h0 p'.
Proof.
  induction K as [|K IH]; intros p HI HK.
  - exists [], p. split; [constructor|]. split; [reflexivity|]. split; [intros c Hc; cbn in Hc; lia|].
    split; [apply same_log_refl|]. split; [reflexivity|]. split; [reflexivity|]. split; [reflexivity|exact HI].
  - destruct (IH p HI ltac:(lia)) as [a1 [p1 [F1 [R1 [A1 [S1 [B1 [C1 [D1 I1]]]]]]]]].
    pose proof S1 as [_ [_ [G1 _]]].
    destruct (catch_up rf0 h0 (N.of_nat K) _ p1 (le_n _) I1 ltac:(rewrite G1; lia))
      as [a2 [p2 [F2 [R2 [A2 [S2 [B2 [C2 [D2 I2]]]]]]]]].
    exists (a1 ++ a2), p2. split; [apply Forall_app; split; assumption|].
    split; [rewrite prun_app, R1; exact R2|].
    split.
    { intros c Hc. destruct (N.eq_dec c (N.of_nat K)) as [->|Hne]; [exact A2|].
      specialize (A1 c ltac:(lia)). destruct S2 as [_ [_ [_ [_ S5]]]]. specialize (S5 c). lia. }
    split; [eapply same_log_trans; eauto|]. split; [congruence|]. split; [congruence|]. split; [congruence|exact I2].
Qed.

Lemma nacks_ge g hi o k : (k <= g)%N -> (forall c, (c < k)%N -> o <= hi c) -> (k <= nacks g hi o)%N.
Proof.
  intros Hk H. unfold nacks.
  assert (length (n_seq k) <= length (filter (fun c => Z.leb o (hi c)) (n_seq g)))%nat.
  { apply NoDup_incl_length; [apply n_seq_NoDup|]. intros c Hc. apply n_seq_In in Hc.
    apply filter_In. split; [apply n_seq_In; lia|apply Z.leb_le; apply H; exact Hc]. }
  unfold n_seq in H0 at 1. rewrite map_length, seq_length in H0. lia.
Qed.

(* THEOREM: from every reachable state with rf/2 followers attached, sync steps and follower acks
   alone reach a quiescent state over the same log *)
Theorem completion_reachable rf0 h0 p : params_ok rf0 h0 -> reachable rf0 h0 p ->
  (required (trk p) <= cursor_gen (trk p))%N ->
  exists acts p', Forall helper acts /\ prun true p acts = Some p' /\
    reachable rf0 h0 p' /\ quiescent p' /\ wal p' = wal p.
Proof.
  intros Hp Hr Hq. pose proof (reachable_inv _ _ _ Hp Hr) as HI.
  destruct (sync_completes rf0 h0 _ p (le_n _) HI) as [a1 [p1 [F1 [R1 [A1 [B1 [S1 I1]]]]]]].
  pose proof S1 as [W1 [L1 [G1 [Q1 _]]]].
  destruct (catch_up_all rf0 h0 (N.to_nat (required (trk p))) p1 I1 ltac:(rewrite N2Nat.id, G1; exact Hq))
    as [a2 [p2 [F2 [R2 [A2 [S2 [B2 [C2 [D2 I2]]]]]]]]].
  pose proof S2 as [W2 [L2 [G2 [Q2 _]]]].
  exists (a1 ++ a2), p2. split; [apply Forall_app; split; assumption|].
  split; [rewrite prun_app, R1; exact R2|].
  split.
  { destruct Hr as [acts0 Hr0]. exists (acts0 ++ a1 ++ a2). rewrite prun_app, Hr0, prun_app, R1. exact R2. }
  split; [|congruence].
  split; [congruence|]. split; [congruence|].
  (* at syncq = batch = [] everything appended has been synced *)
  destruct I2 as [H2 HP2].
  assert (Hsyn : wal_synced p2 = wal_last p2).
  { pose proof (i_split _ _ _ H2) as Hs. rewrite B2, C2, A1, B1, !app_nil_r in Hs.
    pose proof (i_synced_done _ _ _ H2). pose proof (i_synced_le _ _ _ H2). pose proof (i_last _ _ _ H2).
    rewrite Hs in *. lia. }
  rewrite N2Nat.id in A2.
  rewrite Q2, Q1. apply nacks_ge; [rewrite G2, G1; exact Hq|].
  intros c Hc. specialize (A2 c Hc). lia.
Qed.
