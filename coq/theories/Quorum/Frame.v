(* Frame / monotonicity facts of the quorum ack tracker over ALL call sequences from ANY state
   (also inadmissible ones, also panicking acks): what a call may NOT change.
     - rf and the required-ack count never change;
     - the head offset and the offset allocator (next) only move forward;
     - the cursor generation only moves forward, by at most one per call;
     - a closed tracker stays closed;
     - commit <= head is preserved from any state in which it holds (generalises Spec.commit_le_head,
       which starts from new_tracker). *)
From Coq Require Import List NArith ZArith Bool Lia.
From Oxia.Quorum Require Import Model Bits Spec Proofs.
Import ListNotations.
Open Scope Z_scope.

Definition frame (s s' : state) : Prop :=
  rf s' = rf s /\ required s' = required s /\
  next s <= next s' /\ head s <= head s' /\
  (cursor_gen s <= cursor_gen s' <= cursor_gen s + 1)%N /\
  (closed s = true -> closed s' = true).

Lemma frame_of_core s s' : same_core s s' -> frame s s'.
Proof.
  intros [H1 [H2 [H3 [H4 [H5 H6]]]]]. unfold frame.
  rewrite H1, H2, H3, H4, H5, H6. repeat split; try lia. intros X; exact X.
Qed.

Lemma step_frame s x : frame s (fst (step s x)).
Proof.
  destruct x as [|h|o id|a|c o|]; cbn [step].
  - unfold next_offset. cbn. unfold frame. cbn. repeat split; try lia. intros X; exact X.
  - destruct (advance_head s h) as [s' f] eqn:E. cbn [fst].
    pose proof (advance_ok s h) as Ha. rewrite E in Ha. cbn [fst] in Ha.
    unfold frame.
    inversion Ha; subst;
      repeat match goal with H : _ = _ |- _ => rewrite H end;
      repeat split; try lia; try (intros X; exact X); try congruence.
  - destruct (wait_async s o id) as [s' f] eqn:E. cbn [fst].
    pose proof (wait_spec s o id) as Hw. rewrite E in Hw. cbn [fst] in Hw.
    destruct Hw as [Hc _]. apply frame_of_core. exact Hc.
  - unfold new_cursor.
    destruct ((rf s + U32 - 1) mod U32 <=? cursor_gen s mod U32)%N;
      [cbn [fst]; apply frame_of_core, same_core_refl|].
    destruct (head s <? a); [cbn [fst]; apply frame_of_core, same_core_refl|].
    pose proof (ack_loop_core s (cursor_gen s) (z_range (commit s + 1) (Z.to_nat (a - commit s))) []) as Hc.
    destruct (ack_loop _ _ _ _) as [s' f|s']; cbn [ack_state fst] in *.
    + destruct Hc as [H1 [H2 [H3 [H4 [H5 H6]]]]]. unfold frame.
      cbn [rf required next head cursor_gen closed set_cursor_gen].
      rewrite H1, H2, H3, H4, H5, H6. repeat split; try lia. intros X; exact X.
    + apply frame_of_core. exact Hc.
  - pose proof (ack_core s c o) as Hc.
    destruct (ack s c o) as [s' f|s']; cbn [ack_state fst] in *; apply frame_of_core; exact Hc.
  - pose proof (close_spec s) as Hc. cbn zeta in Hc.
    destruct (close s) as [s' f]. cbn [fst] in *.
    destruct Hc as [H1 [H2 [H3 [H4 [H5 [_ [_ [_ H9]]]]]]]]. unfold frame.
    rewrite H1, H2, H3, H4, H5. repeat split; try lia. intros _; exact H9.
Qed.

(* the per-call bound on the cursor generation does not compose; the composable part does *)
Definition frame_star (s s' : state) : Prop :=
  rf s' = rf s /\ required s' = required s /\
  next s <= next s' /\ head s <= head s' /\
  (cursor_gen s <= cursor_gen s')%N /\
  (closed s = true -> closed s' = true).

Lemma frame_star_refl s : frame_star s s.
Proof. unfold frame_star. repeat split; try lia. intros X; exact X. Qed.

Lemma frame_star_step s s' s'' : frame_star s s' -> frame s' s'' -> frame_star s s''.
Proof.
  intros [A1 [A2 [A3 [A4 [A5 A6]]]]] [B1 [B2 [B3 [B4 [B5 B6]]]]]. unfold frame_star.
  repeat split; try congruence; try lia. intros X. apply B6, A6, X.
Qed.

(* THEOREM (all call sequences, any starting state) *)
Theorem run_frame s ops1 ops2 : frame_star (run s ops1) (run s (ops1 ++ ops2)).
Proof.
  unfold run. rewrite fold_left_app. generalize (fold_left (fun st x => fst (step st x)) ops1 s) as t.
  intros t. assert (G : forall u, frame_star t u ->
              frame_star t (fold_left (fun st x => fst (step st x)) ops2 u)).
  { induction ops2 as [|x tl IH]; intros u Hu; cbn [fold_left]; [exact Hu|].
    apply IH. eapply frame_star_step; [exact Hu|apply step_frame]. }
  apply G, frame_star_refl.
Qed.

(* THEOREM: the cursor generation grows by at most the number of calls *)
Theorem run_cursor_gen_bound s ops :
  (cursor_gen (run s ops) <= cursor_gen s + N.of_nat (length ops))%N.
Proof.
  unfold run. revert s. induction ops as [|x tl IH]; intros s; cbn [fold_left length]; [lia|].
  specialize (IH (fst (step s x))). pose proof (step_frame s x) as [_ [_ [_ [_ [Hg _]]]]]. lia.
Qed.

(* THEOREM (all call sequences, any state with commit <= head) *)
Theorem commit_le_head_any s ops : commit s <= head s -> commit (run s ops) <= head (run s ops).
Proof.
  unfold run. revert s. induction ops as [|x tl IH]; intros s H; cbn [fold_left]; [exact H|].
  apply IH, step_commit_le_head, H.
Qed.

(* non-vacuity: a run that moves every framed field *)
Example frame_moves :
  let s := run (new_tracker 3 4 4) [OpNext; OpAdvance 5; OpNewCursor 4; OpAck 0 5; OpClose] in
  next s = 5 /\ head s = 5 /\ cursor_gen s = 1%N /\ closed s = true /\ commit s = 5 /\ rf s = 3%N.
Proof. vm_compute. repeat split. Qed.
