(* The leader write pipeline of server/leader_controller.go:write (with the O-1 repair: the
   controller lock is held from the status check until the entry has been handed to
   wal.AppendAndSync) as a labelled transition system.  One action = one Go critical
   section / one step of the single WAL sync goroutine / one delivered follower ack.

     PWrite        lc.Lock ... NextOffset ... wal.AppendAndSync (checkNextOffset, append,
                   sync request enqueued) ... lc.Unlock                      [repaired code]
     PAlloc        lc.Lock; NextOffset; lc.Unlock                            [code as it was]
     PAppend r     wal.AppendAndSync of request r, outside the controller lock  [as it was]
     PSyncDrain    runSync takes every queued sync request
     PSyncFlush    runSync flushes and stores lastSyncedOffset := lastAppendedOffset
     PCbAdvance    the first pending sync callback calls tracker.AdvanceHeadOffset(o)
     PCbWait       the same callback calls tracker.WaitForCommitOffsetAsync(o): registered, or
                   (commit already >= o) completes at once, outside the tracker lock:
     PCbApply      db.ProcessWrite(request, o) + response to the caller, then the next callback
     PAck c o      follower cursor c delivers the ack of offset o (tracker lock held while the
                   released waiting requests are applied and answered, in order)
     PNewCursor a  AddFollower: NewCursorAcker(a)

   With SyncData=false the WAL runs the callback inline: that is the schedule
   PWrite;PSyncDrain;PSyncFlush;PCbAdvance;PCbWait[;PCbApply] without interleaving.
   A request is identified by its arrival number; the closure created by [write] captures
   (request, newOffset, callback) together. *)
From Coq Require Import List NArith ZArith Bool.
From Oxia.Quorum Require Import Model.
Import ListNotations.
Open Scope Z_scope.

Inductive phase := PhIdle | PhFlush | PhAdvance | PhWait | PhApply.

Definition entry := (Z * N)%type.        (* (offset, request id) *)

Record pstate := mkP {
  trk : state;                  (* the quorum ack tracker *)
  wal : list entry;             (* the leader WAL, in append order *)
  wal_last : Z;                 (* wal.lastAppendedOffset *)
  wal_synced : Z;               (* wal.lastSyncedOffset *)
  syncq : list entry;           (* wal.syncRequests: queued sync callbacks *)
  batch : list entry;           (* callbacks taken by runSync, still to run, in order *)
  ph : phase;                   (* progress of runSync / of the first callback of [batch] *)
  done : list entry;            (* callbacks that have returned *)
  applied : list entry;         (* db.ProcessWrite(request, offset) calls, in order *)
  resp : list (N * entry);      (* (caller, what was applied to produce the response) *)
  failed : list N;              (* callers that received an error *)
  closures : list (N * Z);      (* request id -> the offset captured by its closure *)
  pending : list N;             (* [old code] allocated, not yet handed to the WAL *)
  hi : ghost                    (* highest offset acknowledged per follower cursor *)
}.

Definition p_init (rf0 : N) (h0 : Z) : pstate :=
  mkP (new_tracker rf0 h0 h0) [] h0 h0 [] [] PhIdle [] [] [] [] [] [] ghost0.

Fixpoint lookup (cl : list (N * Z)) (r : N) : Z :=
  match cl with
  | [] => -1
  | (k, o) :: tl => if (k =? r)%N then o else lookup tl r
  end.

(* the closures run by the tracker: OnComplete -> ProcessWrite + answer; OnCompleteError -> error *)
Definition fired_entries (cl : list (N * Z)) (f : list (N * bool)) : list entry :=
  map (fun x => (lookup cl (fst x), fst x)) (filter (fun x => snd x) f).
Definition fired_errors (f : list (N * bool)) : list N :=
  map fst (filter (fun x => negb (snd x)) f).

Definition with_fired (p : pstate) (t : state) (f : list (N * bool)) (hi' : ghost) : pstate :=
  let es := fired_entries (closures p) f in
  mkP t (wal p) (wal_last p) (wal_synced p) (syncq p) (batch p) (ph p) (done p)
      (applied p ++ es) (resp p ++ map (fun e => (snd e, e)) es) (failed p ++ fired_errors f)
      (closures p) (pending p) hi'.

(* wal_impl.go:checkNextOffset *)
Definition check_next_offset (last o : Z) : bool :=
  if o <? 0 then false
  else if negb (last =? -1) && negb (o =? last + 1) then false else true.

(* wal.AppendAndSync(entry{offset o, request r}, callback) *)
Definition wal_append_and_sync (p : pstate) (t : state) (cl : list (N * Z)) (pend : list N) (o : Z) (r : N) : pstate :=
  if check_next_offset (wal_last p) o
  then mkP t (wal p ++ [(o, r)]) o (wal_synced p) (syncq p ++ [(o, r)]) (batch p) (ph p) (done p)
           (applied p) (resp p) (failed p) cl pend (hi p)
  else (* callback(ErrInvalidNextOffset) -> cb.OnCompleteError *)
       mkP t (wal p) (wal_last p) (wal_synced p) (syncq p) (batch p) (ph p) (done p)
           (applied p) (resp p) (failed p ++ [r]) cl pend (hi p).

Inductive paction :=
| PWrite | PAlloc | PAppend (r : N)
| PSyncDrain | PSyncFlush | PCbAdvance | PCbWait | PCbApply
| PAck (c : N) (o : Z) | PNewCursor (a : Z).

Definition pop_callback (p : pstate) (e : entry) (rest : list entry) : pstate :=
  mkP (trk p) (wal p) (wal_last p) (wal_synced p) (syncq p) rest
      (match rest with [] => PhIdle | _ => PhAdvance end) (done p ++ [e])
      (applied p) (resp p) (failed p) (closures p) (pending p) (hi p).

Definition set_ph (p : pstate) (x : phase) : pstate :=
  mkP (trk p) (wal p) (wal_last p) (wal_synced p) (syncq p) (batch p) x (done p)
      (applied p) (resp p) (failed p) (closures p) (pending p) (hi p).

(* [fixed] = true: the repaired write path (PWrite); false: the path as it was (PAlloc/PAppend) *)
Definition pstep (fixed : bool) (p : pstate) (a : paction) : option pstate :=
  match a with
  | PWrite =>
      if fixed then
        let r := N.of_nat (length (closures p)) in
        let (t, o) := next_offset (trk p) in
        Some (wal_append_and_sync p t (closures p ++ [(r, o)]) (pending p) o r)
      else None
  | PAlloc =>
      if fixed then None else
        let r := N.of_nat (length (closures p)) in
        let (t, o) := next_offset (trk p) in
        Some (mkP t (wal p) (wal_last p) (wal_synced p) (syncq p) (batch p) (ph p) (done p)
                  (applied p) (resp p) (failed p) (closures p ++ [(r, o)]) (pending p ++ [r]) (hi p))
  | PAppend r =>
      if fixed then None
      else if existsb (N.eqb r) (pending p)
      then Some (wal_append_and_sync p (trk p) (closures p)
                   (filter (fun x => negb (x =? r)%N) (pending p)) (lookup (closures p) r) r)
      else None
  | PSyncDrain =>
      match ph p, syncq p with
      | PhIdle, _ :: _ =>
          Some (mkP (trk p) (wal p) (wal_last p) (wal_synced p) [] (syncq p) PhFlush (done p)
                    (applied p) (resp p) (failed p) (closures p) (pending p) (hi p))
      | _, _ => None
      end
  | PSyncFlush =>
      match ph p with
      | PhFlush =>
          Some (mkP (trk p) (wal p) (wal_last p) (wal_last p) (syncq p) (batch p) PhAdvance (done p)
                    (applied p) (resp p) (failed p) (closures p) (pending p) (hi p))
      | _ => None
      end
  | PCbAdvance =>
      match ph p, batch p with
      | PhAdvance, (o, r) :: _ =>
          let (t, f) := advance_head (trk p) o in
          Some (set_ph (with_fired p t f (hi p)) PhWait)
      | _, _ => None
      end
  | PCbWait =>
      match ph p, batch p with
      | PhWait, (o, r) :: rest =>
          let (t, f) := wait_async (trk p) o r in
          match f with
          | [] => Some (pop_callback (with_fired p t [] (hi p)) (o, r) rest)     (* registered *)
          | _ => Some (set_ph (with_fired p t [] (hi p)) PhApply)               (* completes at once *)
          end
      | _, _ => None
      end
  | PCbApply =>
      match ph p, batch p with
      | PhApply, (o, r) :: rest =>
          Some (pop_callback (with_fired p (trk p) [(r, true)] (hi p)) (o, r) rest)
      | _, _ => None
      end
  | PAck c o =>
      if (c <? cursor_gen (trk p))%N && (o <=? hi p c + 1) && (o <=? wal_synced p) then
        match ack (trk p) c o with
        | AckOk t f => Some (with_fired p t f (upd (hi p) c (Z.max (hi p c) o)))
        | AckPanic _ => None
        end
      else None
  | PNewCursor a =>
      match new_cursor (trk p) a with
      | CurOk t idx f => Some (with_fired p t f (upd (hi p) idx a))
      | CurPanic _ => None
      | _ => Some p
      end
  end.

Fixpoint prun (fixed : bool) (p : pstate) (acts : list paction) : option pstate :=
  match acts with
  | [] => Some p
  | a :: tl => match pstep fixed p a with None => None | Some p' => prun fixed p' tl end
  end.

(* nothing is left to do for the sync goroutine, and the quorum acknowledged the whole log *)
Definition quiescent (p : pstate) : Prop :=
  syncq p = [] /\ batch p = [] /\
  (required (trk p) <= nacks (cursor_gen (trk p)) (hi p) (wal_last p))%N.
