(* Lemmas about the association-list map, the 16-bit set and the ack counts of Quorum/Model.v *)
From Coq Require Import List NArith ZArith Bool Lia Arith FinFun.
From Oxia.Quorum Require Import Model.
Import ListNotations.
Open Scope Z_scope.

(* ---------------- map ---------------- *)

Lemma t_get_del m o k : t_get (t_del m o) k = if k =? o then None else t_get m k.
Proof.
  induction m as [|[k0 v] tl IH]; cbn [t_del t_get].
  - destruct (Z.eqb k o); reflexivity.
  - destruct (Z.eqb_spec k0 o) as [E1|E1].
    + rewrite IH. destruct (Z.eqb_spec k o) as [E2|E2]; [reflexivity|].
      destruct (Z.eqb_spec k0 k) as [E3|E3]; [congruence|reflexivity].
    + cbn [t_get]. rewrite IH.
      destruct (Z.eqb_spec k0 k) as [E3|E3].
      * destruct (Z.eqb_spec k o) as [E2|E2]; [congruence|reflexivity].
      * reflexivity.
Qed.

Lemma t_get_put m o v k : t_get (t_put m o v) k = if k =? o then Some v else t_get m k.
Proof.
  unfold t_put. cbn [t_get]. rewrite t_get_del.
  destruct (Z.eqb_spec o k) as [E1|E1]; destruct (Z.eqb_spec k o) as [E2|E2]; try reflexivity; congruence.
Qed.

Lemma z_range_In from n o : In o (z_range from n) <-> from <= o < from + Z.of_nat n.
Proof.
  revert from; induction n as [|n IH]; intros from; cbn [z_range In].
  - lia.
  - rewrite IH. lia.
Qed.

Lemma t_get_init l o :
  t_get (map (fun k => (k, bs_empty)) l) o = if existsb (fun k => k =? o) l then Some bs_empty else None.
Proof.
  induction l as [|k tl IH]; cbn [map t_get existsb]; [reflexivity|].
  destruct (Z.eqb k o); [reflexivity|exact IH].
Qed.

Lemma t_get_init_range from n o :
  t_get (map (fun k => (k, bs_empty)) (z_range from n)) o =
  if (from <=? o) && (o <? from + Z.of_nat n) then Some bs_empty else None.
Proof.
  rewrite t_get_init.
  destruct (existsb (fun k => k =? o) (z_range from n)) eqn:E.
  - apply existsb_exists in E. destruct E as [k [Hin Hk]]. apply Z.eqb_eq in Hk. subst k.
    apply z_range_In in Hin.
    destruct (Z.leb_spec from o); destruct (Z.ltb_spec o (from + Z.of_nat n)); cbn; try reflexivity; lia.
  - destruct (Z.leb_spec from o); destruct (Z.ltb_spec o (from + Z.of_nat n)); cbn; try reflexivity.
    exfalso. assert (In o (z_range from n)) by (apply z_range_In; lia).
    assert (existsb (fun k => k =? o) (z_range from n) = true).
    { apply existsb_exists. exists o. split; [assumption|apply Z.eqb_refl]. }
    congruence.
Qed.

(* ---------------- n_seq ---------------- *)

Lemma n_seq_In g i : In i (n_seq g) <-> (i < g)%N.
Proof.
  unfold n_seq. rewrite in_map_iff. split.
  - intros [k [<- Hk]]. apply in_seq in Hk. lia.
  - intros H. exists (N.to_nat i). split; [apply N2Nat.id|]. apply in_seq. lia.
Qed.

Lemma n_seq_NoDup g : NoDup (n_seq g).
Proof.
  unfold n_seq. apply Injective_map_NoDup.
  - intros a b H. apply Nat2N.inj. exact H.
  - apply seq_NoDup.
Qed.

Lemma idxs16_eq : idxs16 = n_seq 16.
Proof. reflexivity. Qed.

Lemma idxs16_In i : In i idxs16 <-> (i < 16)%N.
Proof. rewrite idxs16_eq. apply n_seq_In. Qed.

Lemma n_seq_succ g : n_seq (g + 1) = n_seq g ++ [g].
Proof.
  unfold n_seq. replace (N.to_nat (g + 1)) with (N.to_nat g + 1)%nat by lia.
  rewrite seq_app, map_app. cbn [seq map Nat.add]. rewrite N2Nat.id. reflexivity.
Qed.

(* ---------------- bitset ---------------- *)

Lemma testbit_empty i : N.testbit bs_empty i = false.
Proof. apply N.bits_0. Qed.

Lemma bs_set_some e c e' : bs_set e c = Some e' ->
  (c < 16)%N /\ forall i, N.testbit e' i = N.testbit e i || (i =? c)%N.
Proof.
  unfold bs_set. destruct (N.leb_spec 16 c) as [Hc|Hc]; [discriminate|].
  intros Heq. apply (f_equal (fun x => match x with Some v => v | None => e end)) in Heq.
  subst e'. split; [assumption|].
  intros i. rewrite N.lor_spec, N.shiftl_1_l, N.pow2_bits_eqb.
  rewrite (N.eqb_sym c i). reflexivity.
Qed.

Lemma bs_set_ok e c : (c < 16)%N -> exists e', bs_set e c = Some e'.
Proof. unfold bs_set. intros H. destruct (N.leb_spec 16 c); [lia|]. eauto. Qed.

Lemma bs_set_none e c : (16 <= c)%N -> bs_set e c = None.
Proof. unfold bs_set. intros H. destruct (N.leb_spec 16 c); [reflexivity|lia]. Qed.

(* ---------------- counting ---------------- *)

Lemma filter_len_le {A} (p q : A -> bool) l :
  (forall x, p x = true -> q x = true) -> (length (filter p l) <= length (filter q l))%nat.
Proof.
  intros H. induction l as [|x tl IH]; cbn [filter]; [lia|].
  destruct (p x) eqn:Ep.
  - rewrite (H x Ep). cbn [length]. lia.
  - destruct (q x); cbn [length]; lia.
Qed.

Lemma filter_len_add (p q : N -> bool) c l :
  NoDup l -> In c l -> p c = false -> (forall i, q i = p i || (i =? c)%N) ->
  length (filter q l) = S (length (filter p l)).
Proof.
  intros Hnd Hin Hpc Hq. induction l as [|x tl IH]; [inversion Hin|].
  inversion Hnd as [|? ? Hnotin Hnd']; subst.
  cbn [filter]. rewrite Hq.
  destruct Hin as [->|Hin].
  - rewrite Hpc, N.eqb_refl. cbn [orb length]. f_equal.
    f_equal. apply filter_ext_in. intros a Ha. rewrite Hq.
    destruct (N.eqb_spec a c) as [->|_]; [contradiction|]. apply orb_false_r.
  - destruct (N.eqb_spec x c) as [->|Hne]; [contradiction|].
    rewrite orb_false_r. destruct (p x); cbn [length]; rewrite (IH Hnd' Hin); reflexivity.
Qed.

Lemma count_subset a b :
  (forall i, N.testbit a i = true -> N.testbit b i = true) -> (bs_count a <= bs_count b)%N.
Proof. intros H. unfold bs_count. pose proof (filter_len_le _ _ idxs16 H). lia. Qed.

Lemma count_empty : bs_count bs_empty = 0%N.
Proof. reflexivity. Qed.

Lemma count_set_new e c e' : bs_set e c = Some e' -> N.testbit e c = false ->
  bs_count e' = (bs_count e + 1)%N.
Proof.
  intros Hs Hc. apply bs_set_some in Hs. destruct Hs as [Hlt Hbits].
  unfold bs_count.
  rewrite (filter_len_add (N.testbit e) (N.testbit e') c idxs16); try assumption.
  - lia.
  - rewrite idxs16_eq. apply n_seq_NoDup.
  - apply idxs16_In. assumption.
Qed.

Lemma count_set_old e c e' : bs_set e c = Some e' -> N.testbit e c = true ->
  bs_count e' = bs_count e.
Proof.
  intros Hs Hc. apply bs_set_some in Hs. destruct Hs as [_ Hbits].
  unfold bs_count. f_equal. f_equal. apply filter_ext. intros i. rewrite Hbits.
  destruct (N.eqb_spec i c) as [->|_]; [rewrite Hc; reflexivity|apply orb_false_r].
Qed.

Lemma count_le_nacks e g hi o :
  (forall i, N.testbit e i = true -> (i < g)%N /\ o <= hi i) -> (bs_count e <= nacks g hi o)%N.
Proof.
  intros H. unfold bs_count, nacks.
  assert (length (filter (N.testbit e) idxs16) <= length (filter (fun c => Z.leb o (hi c)) (n_seq g)))%nat; [|lia].
  apply NoDup_incl_length.
  - apply NoDup_filter. rewrite idxs16_eq. apply n_seq_NoDup.
  - intros i Hi. apply filter_In in Hi. destruct Hi as [_ Hb]. destruct (H i Hb) as [Hg Ho].
    apply filter_In. split; [apply n_seq_In; assumption|apply Z.leb_le; assumption].
Qed.

Lemma nacks_le_count e g hi o : (g <= 16)%N ->
  (forall i, (i < g)%N -> o <= hi i -> N.testbit e i = true) -> (nacks g hi o <= bs_count e)%N.
Proof.
  intros Hg H. unfold bs_count, nacks.
  assert (length (filter (fun c => Z.leb o (hi c)) (n_seq g)) <= length (filter (N.testbit e) idxs16))%nat; [|lia].
  apply NoDup_incl_length.
  - apply NoDup_filter. apply n_seq_NoDup.
  - intros i Hi. apply filter_In in Hi. destruct Hi as [Hin Hb]. apply n_seq_In in Hin. apply Z.leb_le in Hb.
    apply filter_In. split; [apply idxs16_In; lia|apply H; assumption].
Qed.

Lemma nacks_mono g g' hi hi' o o' :
  (g <= g')%N -> (forall c, (c < g)%N -> hi c <= hi' c) -> o' <= o -> (nacks g hi o <= nacks g' hi' o')%N.
Proof.
  intros Hg Hhi Ho. unfold nacks.
  assert (length (filter (fun c => Z.leb o (hi c)) (n_seq g)) <= length (filter (fun c => Z.leb o' (hi' c)) (n_seq g')))%nat; [|lia].
  apply NoDup_incl_length.
  - apply NoDup_filter, n_seq_NoDup.
  - intros i Hi. apply filter_In in Hi. destruct Hi as [Hin Hb]. apply n_seq_In in Hin. apply Z.leb_le in Hb.
    apply filter_In. split; [apply n_seq_In; lia|]. apply Z.leb_le. specialize (Hhi i Hin). lia.
Qed.

Lemma nacks_ext g hi hi' o : (forall c, (c < g)%N -> hi c = hi' c) -> nacks g hi o = nacks g hi' o.
Proof.
  intros H. apply N.le_antisymm; apply nacks_mono; try lia; intros c Hc; rewrite (H c Hc); lia.
Qed.
