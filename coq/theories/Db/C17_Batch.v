(* Db/C17_Batch.v — what one request writes into its notification batch (helper of Proofs_C17).

   Three layers:
   1. STRUCTURAL (every request, every callback set): the notification map a request leaves is the fold of
      its operations' answers — a successful put records CREATED/MODIFIED with its version under the key it
      wrote, a successful delete DELETED, a delete-range RANGE_DELETED under its start key; keys with the
      prefix "__oxia/" are never recorded; a later operation on the same key replaces the earlier record
      ([request_nm], [resp_changes]).
   2. SPECIFICATION ([changes]): the same fold defined on the sequential specification of C12 (Db/Spec.v):
      the answers are the specification's, and a put is a creation iff the key held no record in the
      specification state it was applied to (sequence puts always create).  For a request the specification
      answers like the model, the two folds coincide as long as modification counts have not wrapped
      ([changes_of_spec_resp]).
   3. FRAME: a request on user keys does not touch any "__oxia/" key outside the shadow / index classes; in
      particular no stored notification batch ([request_frame]). *)
From Coq Require Import List NArith ZArith Bool Lia.
From Oxia.KeyOrder Require Import Model Proofs.
From Oxia.Db Require Import Types Bytes Escape Keys Kv SortedMap SortedMapProofs KeyFacts Sessions Indexes
     Sequences Notifications Write Read Spec KvProofs NumProofs Proofs_C12.
Import ListNotations.

(* ---------------------------------------------------------------- change sets as functions *)
Definition chg := key -> option notif.
Definition chg_empty : chg := fun _ => None.
(* record [n] under [k]; internal keys are never recorded *)
Definition chg_upd (c : chg) (k : key) (n : notif) : chg :=
  if is_internal k then c else fun k' => if bytes_eqb k' k then Some n else c k'.

Definition chg_clean (c : chg) : Prop := forall k n, c k = Some n -> is_internal k = false.

Lemma chg_empty_clean : chg_clean chg_empty.
Proof. intros k n H. discriminate. Qed.

Lemma chg_upd_clean c k n : chg_clean c -> chg_clean (chg_upd c k n).
Proof.
  intros Hc k' n' H. unfold chg_upd in H. destruct (is_internal k) eqn:I; [eapply Hc; exact H|].
  destruct (bytes_eqb k' k) eqn:E; [apply bytes_eqb_eq in E; subst; exact I|eapply Hc; exact H].
Qed.

Lemma chg_upd_ext c c' k n : (forall x, c x = c' x) -> forall x, chg_upd c k n x = chg_upd c' k n x.
Proof. intros H x. unfold chg_upd. destruct (is_internal k); [apply H|]. destruct (bytes_eqb x k); [reflexivity|apply H]. Qed.

(* ---------------------------------------------------------------- the Go map as an association list *)
(* lookup: Notifications.nm_find (the Go map read) *)
Notation nm_get := nm_find.

Lemma nm_get_set m k n k' : nm_get (nm_set m k n) k' = if bytes_eqb k' k then Some n else nm_get m k'.
Proof.
  induction m as [|[k0 n0] tl IH]; simpl.
  - reflexivity.
  - destruct (bytes_eqb k k0) eqn:E.
    + apply bytes_eqb_eq in E. subst k0. simpl. destruct (bytes_eqb k' k); reflexivity.
    + simpl. destruct (bytes_eqb k' k0) eqn:E0.
      * apply bytes_eqb_eq in E0. subst k0.
        destruct (bytes_eqb k' k) eqn:E1; [|reflexivity].
        apply bytes_eqb_eq in E1. subst. rewrite bytes_eqb_refl in E. discriminate.
      * exact IH.
Qed.

Lemma nm_set_keys m k n k' : In k' (map fst (nm_set m k n)) <-> k' = k \/ In k' (map fst m).
Proof.
  induction m as [|[k0 n0] tl IH]; simpl.
  - split; [intros [H|[]]; left; auto|intros [H|[]]; left; auto].
  - destruct (bytes_eqb k k0) eqn:E.
    + apply bytes_eqb_eq in E. subst k0. simpl. split; [intros [H|H]; auto|intros [H|[H|H]]; auto].
    + simpl. rewrite IH. split; [intros [H|[H|H]]; auto|intros [H|[H|H]]; auto].
Qed.

Lemma nm_set_nodup m k n : NoDup (map fst m) -> NoDup (map fst (nm_set m k n)).
Proof.
  induction m as [|[k0 n0] tl IH]; simpl; intro H.
  - constructor; [intros []|constructor].
  - inversion H as [|? ? Hn Ht]; subst. destruct (bytes_eqb k k0) eqn:E.
    + apply bytes_eqb_eq in E. subst k0. simpl. constructor; assumption.
    + simpl. constructor; [|apply IH; exact Ht].
      intro Hin. apply nm_set_keys in Hin. destruct Hin as [->|Hin]; [|contradiction].
      rewrite bytes_eqb_refl in E. discriminate.
Qed.

Lemma nm_get_in m k n : nm_get m k = Some n -> In (k, n) m.
Proof.
  induction m as [|[k0 n0] tl IH]; simpl; [discriminate|].
  destruct (bytes_eqb k k0) eqn:E.
  - intro H. inversion H; subst. apply bytes_eqb_eq in E. subst. left. reflexivity.
  - intro H. right. apply IH. exact H.
Qed.

Lemma nm_in_get m k n : NoDup (map fst m) -> In (k, n) m -> nm_get m k = Some n.
Proof.
  induction m as [|[k0 n0] tl IH]; simpl; intros Hd Hin; [contradiction|].
  inversion Hd as [|? ? Hn Ht]; subst. destruct Hin as [E|Hin].
  - inversion E; subst. rewrite bytes_eqb_refl. reflexivity.
  - destruct (bytes_eqb k k0) eqn:E; [|apply IH; assumption].
    apply bytes_eqb_eq in E. subst k0. exfalso. apply Hn. apply in_map_iff. exists (k, n). split; [reflexivity|exact Hin].
Qed.

(* the in-flight map represents the change set *)
Definition nm_rep (m : option nmap) (c : chg) : Prop :=
  exists nm, m = Some nm /\ NoDup (map fst nm) /\ forall k, nm_get nm k = c k.

Lemma nm_rep_empty : nm_rep (Some []) chg_empty.
Proof. exists []. split; [reflexivity|]. split; [constructor|reflexivity]. Qed.

Lemma nm_rep_set m c k n : nm_rep m c ->
  nm_rep (match m with None => None | Some nm => if is_internal k then Some nm else Some (nm_set nm k n) end)
         (chg_upd c k n).
Proof.
  intros [nm [-> [Hd Hg]]]. unfold chg_upd. destruct (is_internal k).
  - exists nm. split; [reflexivity|]. split; assumption.
  - exists (nm_set nm k n). split; [reflexivity|]. split; [apply nm_set_nodup; exact Hd|].
    intro k'. rewrite nm_get_set, Hg. reflexivity.
Qed.

Lemma nm_rep_ext m c c' : nm_rep m c -> (forall k, c k = c' k) -> nm_rep m c'.
Proof. intros [nm [E [Hd Hg]]] H. exists nm. split; [exact E|]. split; [exact Hd|]. intro k. rewrite Hg. apply H. Qed.

(* ---------------------------------------------------------------- 1. structural: the fold of the answers *)
Definition put_resp_change (p : put_req) (r : put_resp) (c : chg) : chg :=
  match pr_status r, pr_version r with
  | OK, Some v =>
      chg_upd c (match pr_key r with Some nk => nk | None => p_key p end)
              (if (0 <? v_modcount v)%Z then NModified (v_id v) else NCreated (v_id v))
  | _, _ => c
  end.

Definition del_resp_change (d : del_req) (x : status) (c : chg) : chg :=
  match x with OK => chg_upd c (d_key d) NDeleted | _ => c end.

(* a delete-range is reported under its start key, unless the range is empty (start >= end: nothing is deleted)
   or a range with the same start key that covers it is already recorded *)
Definition chg_range (c : chg) (s e : key) : chg :=
  if is_internal s then c
  else if key_geb s e then c
  else match c s with
       | Some (NRangeDeleted prev) => if key_geb prev e then c else chg_upd c s (NRangeDeleted e)
       | _ => chg_upd c s (NRangeDeleted e)
       end.

Definition range_resp_change (r : range_req) (x : status) (c : chg) : chg :=
  match x with OK => chg_range c (r_start r) (r_end r) | _ => c end.

Lemma chg_range_clean c s e : chg_clean c -> chg_clean (chg_range c s e).
Proof.
  intro H. unfold chg_range. destruct (is_internal s); [exact H|]. destruct (key_geb s e); [exact H|].
  destruct (c s) as [[v|v| |prev]|]; try (apply chg_upd_clean; exact H).
  destruct (key_geb prev e); [exact H|apply chg_upd_clean; exact H].
Qed.

Lemma chg_range_ext c c' s e : (forall x, c x = c' x) -> forall x, chg_range c s e x = chg_range c' s e x.
Proof.
  intros H x. unfold chg_range. destruct (is_internal s) eqn:I; [apply H|]. destruct (key_geb s e); [apply H|].
  rewrite <- (H s). destruct (c s) as [[v|v| |prev]|]; try (apply chg_upd_ext; exact H).
  destruct (key_geb prev e); [apply H|apply chg_upd_ext; exact H].
Qed.

Lemma nm_rep_range m c s e : nm_rep m c -> nm_rep (notif_deleted_range m s e) (chg_range c s e).
Proof.
  intros [nm [-> [Hd Hg]]]. unfold notif_deleted_range, chg_range.
  destruct (is_internal s) eqn:I; [exists nm; split; [reflexivity|split; assumption]|].
  destruct (key_geb s e); [exists nm; split; [reflexivity|split; assumption]|].
  assert (Hset : nm_rep (Some (nm_set nm s (NRangeDeleted e))) (chg_upd c s (NRangeDeleted e))).
  { pose proof (nm_rep_set (Some nm) c s (NRangeDeleted e) (ex_intro _ nm (conj eq_refl (conj Hd Hg)))) as R.
    rewrite I in R. exact R. }
  rewrite <- (Hg s). destruct (nm_find nm s) as [[v|v| |prev]|]; try exact Hset.
  destruct (key_geb prev e); [exists nm; split; [reflexivity|split; assumption]|exact Hset].
Qed.

Fixpoint puts_resp_changes (ps : list put_req) (rs : list put_resp) (c : chg) : chg :=
  match ps, rs with
  | p :: ps', r :: rs' => puts_resp_changes ps' rs' (put_resp_change p r c)
  | _, _ => c
  end.
Fixpoint dels_resp_changes (ds : list del_req) (xs : list status) (c : chg) : chg :=
  match ds, xs with
  | d :: ds', x :: xs' => dels_resp_changes ds' xs' (del_resp_change d x c)
  | _, _ => c
  end.
Fixpoint ranges_resp_changes (rs : list range_req) (xs : list status) (c : chg) : chg :=
  match rs, xs with
  | r :: rs', x :: xs' => ranges_resp_changes rs' xs' (range_resp_change r x c)
  | _, _ => c
  end.

Definition resp_changes_from (c : chg) (req : write_req) (resp : write_resp) : chg :=
  ranges_resp_changes (w_ranges req) (wr_ranges resp)
    (dels_resp_changes (w_dels req) (wr_dels resp)
       (puts_resp_changes (w_puts req) (wr_puts resp) c)).
Definition resp_changes (req : write_req) (resp : write_resp) : chg := resp_changes_from chg_empty req resp.

Lemma finish_put_nm cb w p ex rk ts w' r c :
  finish_put cb w p ex rk ts = (w', Ok r) -> nm_rep (w_nm w) c ->
  pr_key r = match pr_status r with OK => rk | _ => None end /\
  nm_rep (w_nm w')
    (match pr_status r, pr_version r with
     | OK, Some v => chg_upd c (p_key p) (if (0 <? v_modcount v)%Z then NModified (v_id v) else NCreated (v_id v))
     | _, _ => c
     end).
Proof.
  intros H Hc. unfold finish_put in H.
  destruct (cb_on_put cb (w_kv w) p ex) as [[st b1]|e]; [|discriminate].
  destruct st; inversion H; subst w' r; clear H; simpl; try (split; [reflexivity|exact Hc]).
  split; [reflexivity|]. unfold notif_modified. apply (nm_rep_set _ _ (p_key p)) with (n :=
    if (0 <? e_modcount (stored_entry ex p (wrap64 (w_ver w + 1)) ts))%Z
    then NModified (wrap64 (w_ver w + 1)) else NCreated (wrap64 (w_ver w + 1))) in Hc.
  assert (Ev : e_version (stored_entry ex p (wrap64 (w_ver w + 1)) ts) = wrap64 (w_ver w + 1)) by (destruct ex; reflexivity).
  rewrite Ev. destruct (w_nm w); exact Hc.
Qed.

Lemma put_nm cb w p ts w' r c :
  apply_put cb w p ts = (w', Ok r) -> nm_rep (w_nm w) c -> nm_rep (w_nm w') (put_resp_change p r c).
Proof.
  intros H Hc. unfold apply_put in H. unfold put_resp_change.
  destruct (p_deltas p) as [|d0 dtl].
  - destruct (check_expected (w_kv w) (p_key p) (p_expected p)) as [ex| |e]; [| |discriminate].
    + destruct (finish_put_nm _ _ _ _ _ _ _ _ _ H Hc) as [Hk Hr].
      destruct (pr_status r) eqn:S; try exact Hr. rewrite Hk. exact Hr.
    + inversion H; subst. exact Hc.
  - destruct (generate_key (w_kv w) p) as [nk| |e]; [| |discriminate].
    + destruct (finish_put cb w (set_key p nk) None (Some nk) ts) as [w1 [r1|e]] eqn:F; [|discriminate].
      inversion H; subst; clear H.
      destruct (finish_put_nm _ _ _ _ _ _ _ _ _ F Hc) as [Hk Hr].
      assert (Hnm : w_nm (match pr_key r with Some k => add_event w1 (p_key p) k | None => w1 end) = w_nm w1)
        by (destruct (pr_key r); reflexivity).
      rewrite Hnm. destruct (pr_status r) eqn:S; try exact Hr. rewrite Hk. exact Hr.
    + inversion H; subst. exact Hc.
Qed.

Lemma delete_nm cb w d w' x c :
  apply_delete cb w d = (w', Ok x) -> nm_rep (w_nm w) c -> nm_rep (w_nm w') (del_resp_change d x c).
Proof.
  intros H Hc. unfold apply_delete in H. unfold del_resp_change.
  destruct (check_expected (w_kv w) (d_key d) (d_expected d)) as [[e|]| |e]; try discriminate;
    try (inversion H; subst; exact Hc).
  destruct (cb_on_delete cb (w_kv w) (d_key d)) as [b1|e1]; [|discriminate].
  inversion H; subst w' x; clear H. simpl. unfold notif_deleted.
  apply (nm_rep_set _ _ (d_key d) NDeleted) in Hc. destruct (w_nm w); exact Hc.
Qed.

Lemma range_nm cb t w r w' x c :
  apply_delete_range cb t w r = (w', Ok x) -> nm_rep (w_nm w) c -> nm_rep (w_nm w') (range_resp_change r x c).
Proof.
  intros H Hc. rewrite apply_delete_range_unfold in H. unfold range_resp_change.
  destruct (scan_callbacks cb (w_kv w) (kv_range (w_kv w) (Some (r_start r)) (Some (r_end r)))) as [b1|e]; [|discriminate].
  inversion H; subst w' x; clear H. simpl. apply nm_rep_range. exact Hc.
Qed.

Lemma puts_nm cb ps : forall w ts w' rs c,
  apply_puts cb w ps ts = (w', Ok rs) -> nm_rep (w_nm w) c -> nm_rep (w_nm w') (puts_resp_changes ps rs c).
Proof.
  induction ps as [|p tl IH]; simpl; intros w ts w' rs c H Hc.
  - inversion H; subst. exact Hc.
  - destruct (apply_put cb w p ts) as [w1 [r|e]] eqn:A; [|discriminate].
    destruct (apply_puts cb w1 tl ts) as [w2 [rs'|e]] eqn:B; [|discriminate].
    inversion H; subst w' rs; clear H. simpl. eapply IH; [exact B|]. eapply put_nm; eassumption.
Qed.

Lemma dels_nm cb ds : forall w w' xs c,
  apply_deletes cb w ds = (w', Ok xs) -> nm_rep (w_nm w) c -> nm_rep (w_nm w') (dels_resp_changes ds xs c).
Proof.
  induction ds as [|d tl IH]; simpl; intros w w' xs c H Hc.
  - inversion H; subst. exact Hc.
  - destruct (apply_delete cb w d) as [w1 [x|e]] eqn:A; [|discriminate].
    destruct (apply_deletes cb w1 tl) as [w2 [xs'|e]] eqn:B; [|discriminate].
    inversion H; subst w' xs; clear H. simpl. eapply IH; [exact B|]. eapply delete_nm; eassumption.
Qed.

Lemma ranges_nm cb t rs : forall w w' xs c,
  apply_ranges cb t w rs = (w', Ok xs) -> nm_rep (w_nm w) c -> nm_rep (w_nm w') (ranges_resp_changes rs xs c).
Proof.
  induction rs as [|r tl IH]; simpl; intros w w' xs c H Hc.
  - inversion H; subst. exact Hc.
  - destruct (apply_delete_range cb t w r) as [w1 [x|e]] eqn:A; [|discriminate].
    destruct (apply_ranges cb t w1 tl) as [w2 [xs'|e]] eqn:B; [|discriminate].
    inversion H; subst w' xs; clear H. simpl. eapply IH; [exact B|]. eapply range_nm; eassumption.
Qed.

(* every request, every callback set *)
Theorem request_nm cb t w req ts w' resp c :
  apply_write_request cb t w req ts = (w', Ok resp) -> nm_rep (w_nm w) c ->
  nm_rep (w_nm w') (resp_changes_from c req resp).
Proof.
  intros H Hc. unfold apply_write_request in H.
  destruct (apply_puts cb w (w_puts req) ts) as [w1 [prs|e]] eqn:A; [|discriminate].
  destruct (apply_deletes cb w1 (w_dels req)) as [w2 [drs|e]] eqn:B; [|discriminate].
  destruct (apply_ranges cb t w2 (w_ranges req)) as [w3 [rrs|e]] eqn:C; [|discriminate].
  inversion H; subst w' resp; clear H. unfold resp_changes_from. simpl.
  eapply ranges_nm; [exact C|]. eapply dels_nm; [exact B|]. eapply puts_nm; eassumption.
Qed.

Lemma puts_resp_changes_clean ps : forall rs c, chg_clean c -> chg_clean (puts_resp_changes ps rs c).
Proof.
  induction ps as [|p tl IH]; intros [|r rs] c Hc; simpl; try exact Hc. apply IH.
  unfold put_resp_change. destruct (pr_status r); try exact Hc. destruct (pr_version r); [|exact Hc].
  apply chg_upd_clean. exact Hc.
Qed.
Lemma dels_resp_changes_clean ds : forall xs c, chg_clean c -> chg_clean (dels_resp_changes ds xs c).
Proof.
  induction ds as [|d tl IH]; intros [|x xs] c Hc; simpl; try exact Hc. apply IH.
  unfold del_resp_change. destruct x; try exact Hc. apply chg_upd_clean. exact Hc.
Qed.
Lemma ranges_resp_changes_clean rs : forall xs c, chg_clean c -> chg_clean (ranges_resp_changes rs xs c).
Proof.
  induction rs as [|r tl IH]; intros [|x xs] c Hc; simpl; try exact Hc. apply IH.
  unfold range_resp_change. destruct x; try exact Hc. apply chg_range_clean. exact Hc.
Qed.

(* no internal key is ever recorded *)
Theorem resp_changes_clean req resp : chg_clean (resp_changes req resp).
Proof.
  unfold resp_changes, resp_changes_from.
  apply ranges_resp_changes_clean, dels_resp_changes_clean, puts_resp_changes_clean, chg_empty_clean.
Qed.

(* ---------------------------------------------------------------- 2. the specification of a batch *)
(* [r] is the specification's answer to [p] in state [s] *)
Definition put_change (s : sstate) (p : put_req) (r : put_resp) (c : chg) : chg :=
  match pr_status r, pr_version r with
  | OK, Some v =>
      let k := match pr_key r with Some nk => nk | None => p_key p end in
      let created := match p_deltas p with
                     | [] => match s_recs s k with None => true | Some _ => false end
                     | _ :: _ => true                      (* a sequence put creates a fresh record *)
                     end in
      chg_upd c k (if created then NCreated (v_id v) else NModified (v_id v))
  | _, _ => c
  end.

Fixpoint puts_changes (s : sstate) (ps : list put_req) (cs : list seq_choice) (ts : N) (c : chg) : sstate * chg :=
  match ps with
  | [] => (s, c)
  | p :: tl =>
      let '(s1, r) := spec_put s p (hd SeqNoKey cs) ts in
      puts_changes s1 tl (List.tl cs) ts (put_change s p r c)
  end.

Fixpoint dels_changes (s : sstate) (ds : list del_req) (c : chg) : sstate * chg :=
  match ds with
  | [] => (s, c)
  | d :: tl => let '(s1, x) := spec_delete s d in dels_changes s1 tl (del_resp_change d x c)
  end.

Fixpoint ranges_changes (s : sstate) (rs : list range_req) (c : chg) : sstate * chg :=
  match rs with
  | [] => (s, c)
  | r :: tl => let '(s1, x) := spec_delete_range s r in ranges_changes s1 tl (range_resp_change r x c)
  end.

(* the user keys the request created / modified / deleted / range-deleted, with their resulting versions:
   the last operation on a key is the one that is reported *)
Definition changes (s : sstate) (req : write_req) (cs : list seq_choice) (ts : N) : chg :=
  let '(s1, c1) := puts_changes s (w_puts req) cs ts chg_empty in
  let '(s2, c2) := dels_changes s1 (w_dels req) c1 in
  snd (ranges_changes s2 (w_ranges req) c2).

(* modification counts have not wrapped: every record's count lies between 0 and the last version id *)
Definition mod_ok (s : sstate) : Prop :=
  (-1 <= s_last s)%Z /\ forall k e, s_recs s k = Some e -> (0 <= e_modcount e <= s_last s)%Z.

Lemma mod_ok_store s k p cur ts rk :
  mod_ok s -> (s_last s + 1 < TWO63)%Z -> (cur = None \/ s_recs s k = cur) ->
  mod_ok (fst (spec_store s k p cur ts rk)) /\ s_last (fst (spec_store s k p cur ts rk)) = (s_last s + 1)%Z.
Proof.
  intros [Hl Hm] Hb Hcur. unfold TWO63 in Hb.
  assert (Hw : wrap64 (s_last s + 1) = (s_last s + 1)%Z) by (apply wrap64_small; unfold TWO63; lia).
  unfold spec_store. simpl. rewrite Hw. split; [|reflexivity]. split; simpl; [lia|].
  intros k0 e0. unfold upd. destruct (bytes_eqb k0 k) eqn:E0.
  - intro E. inversion E; subst e0; clear E. destruct cur as [e|]; simpl; [|lia].
    destruct Hcur as [Hcur|Hcur]; [discriminate|].
    destruct (Hm k e Hcur) as [M1 M2]. rewrite wrap64_small by (unfold TWO63; lia). lia.
  - intro E. destruct (Hm k0 e0 E). lia.
Qed.

Lemma spec_put_change s p ch ts s1 r c c' :
  spec_put s p ch ts = (s1, r) -> mod_ok s -> (s_last s + 1 < TWO63)%Z -> (forall x, c x = c' x) ->
  (forall x, put_resp_change p r c x = put_change s p r c' x) /\ mod_ok s1 /\ (s_last s <= s_last s1 <= s_last s + 1)%Z.
Proof.
  intros H Hok Hb Hc.
  assert (Hsame : forall st, (s1, r) = (s, put_status st) ->
            (forall x, put_resp_change p r c x = put_change s p r c' x) /\ mod_ok s1 /\
            (s_last s <= s_last s1 <= s_last s + 1)%Z).
  { intros st E. inversion E; subst s1 r. split; [|split; [exact Hok|lia]].
    intro x. unfold put_resp_change, put_change. simpl. destruct st; apply Hc. }
  unfold spec_put in H. destruct (p_deltas p) as [|d0 dtl] eqn:D.
  - destruct (spec_check (s_recs s (p_key p)) (p_expected p)); [|symmetry in H; eapply Hsame; exact H].
    destruct (spec_session_ok s (p_session p)); [|symmetry in H; eapply Hsame; exact H].
    destruct (mod_ok_store s (p_key p) p (s_recs s (p_key p)) ts None Hok Hb (or_intror eq_refl)) as [M1 M2].
    rewrite H in M1, M2. simpl in M1, M2. split; [|split; [exact M1|lia]].
    unfold spec_store in H. inversion H; subst s1 r; clear H.
    intro x. unfold put_resp_change, put_change. simpl. rewrite D.
    destruct (s_recs s (p_key p)) as [e|] eqn:Cur; simpl.
    + destruct Hok as [_ Hm]. destruct (Hm _ _ Cur) as [A B]. unfold TWO63 in Hb.
      rewrite wrap64_small by (unfold TWO63; lia).
      replace (0 <? e_modcount e + 1)%Z with true by (symmetry; apply Z.ltb_lt; lia).
      apply chg_upd_ext. exact Hc.
    + apply chg_upd_ext. exact Hc.
  - destruct (p_expected p); [symmetry in H; eapply Hsame; exact H|].
    destruct ch as [nk| |].
    + destruct (spec_session_ok s (p_session p)); [|symmetry in H; eapply Hsame; exact H].
      destruct (mod_ok_store s nk p None ts (Some nk) Hok Hb (or_introl eq_refl)) as [M1 M2].
      rewrite H in M1, M2. simpl in M1, M2. split; [|split; [exact M1|lia]].
      unfold spec_store in H. inversion H; subst s1 r; clear H.
      intro x. unfold put_resp_change, put_change. simpl. rewrite D. apply chg_upd_ext. exact Hc.
    + symmetry in H; eapply Hsame; exact H.
    + destruct (spec_session_ok s (p_session p)); symmetry in H; eapply Hsame; exact H.
Qed.

Lemma spec_puts_changes ps : forall s cs ts s' rs c c',
  spec_puts s ps cs ts = (s', rs) -> mod_ok s -> (s_last s + Z.of_nat (length ps) < TWO63)%Z ->
  (forall x, c x = c' x) ->
  fst (puts_changes s ps cs ts c') = s' /\
  (forall x, puts_resp_changes ps rs c x = snd (puts_changes s ps cs ts c') x) /\ mod_ok s' /\
  (s_last s <= s_last s' <= s_last s + Z.of_nat (length ps))%Z.
Proof.
  induction ps as [|p tl IH]; intros s cs ts s' rs c c' H Hok Hb Hc.
  - simpl in H. inversion H; subst. simpl. split; [reflexivity|]. split; [exact Hc|]. split; [exact Hok|lia].
  - cbn [spec_puts] in H. cbn [puts_changes]. cbn [length] in Hb. rewrite Nat2Z.inj_succ in Hb.
    destruct (spec_put s p (hd SeqNoKey cs) ts) as [s1 r] eqn:P.
    destruct (spec_puts s1 tl (List.tl cs) ts) as [s2 rs'] eqn:Q.
    inversion H; subst s' rs; clear H.
    destruct (spec_put_change _ _ _ _ _ _ _ _ P Hok ltac:(lia) Hc) as [E1 [M1 B1]].
    destruct (IH _ _ _ _ _ _ _ Q M1 ltac:(lia) E1) as [E2 [E3 [M2 B2]]].
    split; [exact E2|]. split; [exact E3|]. split; [exact M2|]. cbn [length]. lia.
Qed.

Lemma spec_deletes_changes ds : forall s s' xs c c',
  spec_deletes s ds = (s', xs) -> mod_ok s -> (forall x, c x = c' x) ->
  fst (dels_changes s ds c') = s' /\
  (forall x, dels_resp_changes ds xs c x = snd (dels_changes s ds c') x) /\ mod_ok s' /\ s_last s' = s_last s.
Proof.
  induction ds as [|d tl IH]; intros s s' xs c c' H Hok Hc.
  - simpl in H. inversion H; subst. simpl. split; [reflexivity|]. split; [exact Hc|]. split; [exact Hok|reflexivity].
  - cbn [spec_deletes] in H. cbn [dels_changes].
    destruct (spec_delete s d) as [s1 x] eqn:P. destruct (spec_deletes s1 tl) as [s2 xs'] eqn:Q.
    inversion H; subst s' xs; clear H.
    assert (M1 : mod_ok s1 /\ s_last s1 = s_last s).
    { unfold spec_delete in P. destruct Hok as [Hl Hm].
      destruct (s_recs s (d_key d)) as [e|].
      - destruct (spec_check (Some e) (d_expected d)); inversion P; subst; [|split; [split; assumption|reflexivity]].
        split; [|reflexivity]. split; [exact Hl|]. simpl. intros k0 e0. unfold upd.
        destruct (bytes_eqb k0 (d_key d)); [discriminate|apply Hm].
      - inversion P; subst. split; [split; assumption|reflexivity]. }
    destruct M1 as [M1 L1].
    assert (E1 : forall x0, del_resp_change d x c x0 = del_resp_change d x c' x0).
    { intro x0. unfold del_resp_change. destruct x; try apply Hc. apply chg_upd_ext. exact Hc. }
    destruct (IH _ _ _ _ _ Q M1 E1) as [E2 [E3 [M2 L2]]].
    split; [exact E2|]. split; [exact E3|]. split; [exact M2|congruence].
Qed.

Lemma spec_ranges_changes rs : forall s s' xs c c',
  spec_ranges s rs = (s', xs) -> mod_ok s -> (forall x, c x = c' x) ->
  fst (ranges_changes s rs c') = s' /\
  (forall x, ranges_resp_changes rs xs c x = snd (ranges_changes s rs c') x) /\ mod_ok s' /\ s_last s' = s_last s.
Proof.
  induction rs as [|r tl IH]; intros s s' xs c c' H Hok Hc.
  - simpl in H. inversion H; subst. simpl. split; [reflexivity|]. split; [exact Hc|]. split; [exact Hok|reflexivity].
  - cbn [spec_ranges] in H. cbn [ranges_changes].
    destruct (spec_delete_range s r) as [s1 x] eqn:P. destruct (spec_ranges s1 tl) as [s2 xs'] eqn:Q.
    inversion H; subst s' xs; clear H.
    assert (M1 : mod_ok s1 /\ s_last s1 = s_last s).
    { unfold spec_delete_range in P. inversion P; subst. destruct Hok as [Hl Hm]. split; [|reflexivity].
      split; [exact Hl|]. simpl. intros k0 e0.
      destruct (key_in_range (Some (r_start r)) (Some (r_end r)) k0); [discriminate|apply Hm]. }
    destruct M1 as [M1 L1].
    assert (E1 : forall x0, range_resp_change r x c x0 = range_resp_change r x c' x0).
    { intro x0. unfold range_resp_change. destruct x; try apply Hc. apply chg_range_ext. exact Hc. }
    destruct (IH _ _ _ _ _ Q M1 E1) as [E2 [E3 [M2 L2]]].
    split; [exact E2|]. split; [exact E3|]. split; [exact M2|congruence].
Qed.

(* the answers of the specification determine the same change set, by the specification's own notion of creation *)
Theorem changes_of_spec_resp s req cs ts s' resp :
  spec_write s req cs ts = (s', resp) -> mod_ok s -> (s_last s + Z.of_nat (length (w_puts req)) < TWO63)%Z ->
  (forall x, resp_changes req resp x = changes s req cs ts x) /\ mod_ok s' /\
  (s_last s <= s_last s' <= s_last s + Z.of_nat (length (w_puts req)))%Z.
Proof.
  intros H Hok Hb. unfold spec_write in H.
  destruct (spec_puts s (w_puts req) cs ts) as [s1 prs] eqn:A.
  destruct (spec_deletes s1 (w_dels req)) as [s2 drs] eqn:B.
  destruct (spec_ranges s2 (w_ranges req)) as [s3 rrs] eqn:C.
  inversion H; subst s' resp; clear H.
  destruct (spec_puts_changes _ _ _ _ _ _ chg_empty chg_empty A Hok Hb (fun _ => eq_refl)) as [E1 [F1 [M1 B1]]].
  destruct (spec_deletes_changes _ _ _ _ _ _ B M1 F1) as [E2 [F2 [M2 L2]]].
  unfold resp_changes, resp_changes_from, changes. simpl.
  destruct (puts_changes s (w_puts req) cs ts chg_empty) as [t1 c1] eqn:P1. simpl in E1, F1, F2, E2. subst t1.
  destruct (dels_changes s1 (w_dels req) c1) as [t2 c2] eqn:P2. simpl in E2, F2. subst t2.
  destruct (spec_ranges_changes _ _ _ _ _ _ C M2 F2) as [E3 [F3 [M3 L3]]].
  split; [exact F3|]. split; [exact M3|lia].
Qed.

(* ---------------------------------------------------------------- 3. frame: stored batches are not touched *)
(* the keys under "__oxia/notifications/" *)
Definition notif_class (k : key) : Prop := has_prefix notifications_prefix k = true.

Lemma notif_class_tag k : notif_class k -> key_tag k = 110%N.
Proof. intro H. apply has_prefix_iff in H. destruct H as [l ->]. reflexivity. Qed.

Lemma notif_class_internal k : notif_class k -> is_internal k = true.
Proof. intro H. apply has_prefix_iff in H. destruct H as [l ->]. reflexivity. Qed.

Lemma notif_class_not_cbkey k : notif_class k -> ~ cbkey k.
Proof.
  intros H [[z [x E]]|[pk [si E]]]; apply notif_class_tag in H; subst k.
  - rewrite tag_shadow in H. discriminate.
  - rewrite tag_index in H. discriminate.
Qed.

Lemma notif_class_nk o : notif_class (notification_key o).
Proof. unfold notif_class, notification_key. apply has_prefix_app. Qed.

Lemma finish_put_frame w p ex rk ts w' r :
  wf_kv (w_kv w) -> is_internal (p_key p) = false ->
  finish_put wrapper_callbacks w p ex rk ts = (w', Ok r) ->
  forall k, notif_class k -> kv_get (w_kv w') k = kv_get (w_kv w) k.
Proof.
  intros Hw Hi H k Hk. unfold finish_put in H. simpl in H.
  destruct (wrapper_on_put_spec (w_kv w) p ex Hw) as [b1 [R E]]. rewrite E in H.
  assert (Hb1 : kv_get b1 k = kv_get (w_kv w) k) by (destruct R as [_ [Rf _]]; apply Rf, notif_class_not_cbkey, Hk).
  assert (Hne : k <> p_key p) by (intro; subst; rewrite (notif_class_internal _ Hk) in Hi; discriminate).
  destruct (p_session p) as [z|]; [destruct (alive (w_kv w) z)|]; inversion H; subst w' r; simpl;
    try (rewrite kv_get_put_other by exact Hne); exact Hb1.
Qed.

Lemma put_frame w p ts w' r :
  wf_kv (w_kv w) -> is_internal (p_key p) = false ->
  apply_put wrapper_callbacks w p ts = (w', Ok r) ->
  forall k, notif_class k -> kv_get (w_kv w') k = kv_get (w_kv w) k.
Proof.
  intros Hw Hi H k Hk. unfold apply_put in H. destruct (p_deltas p) as [|d0 dtl].
  - destruct (check_expected (w_kv w) (p_key p) (p_expected p)) as [ex| |e]; [| |discriminate].
    + eapply finish_put_frame; eassumption.
    + inversion H; subst. reflexivity.
  - destruct (generate_key (w_kv w) p) as [nk| |e] eqn:G; [| |discriminate].
    + destruct (finish_put wrapper_callbacks w (set_key p nk) None (Some nk) ts) as [w1 [r1|e]] eqn:F; [|discriminate].
      inversion H; subst; clear H.
      assert (Hkv : w_kv (match pr_key r with Some k0 => add_event w1 (p_key p) k0 | None => w1 end) = w_kv w1)
        by (destruct (pr_key r); reflexivity).
      rewrite Hkv. eapply finish_put_frame; [exact Hw| |exact F|exact Hk].
      simpl. eapply generate_key_not_internal; eassumption.
    + inversion H; subst. reflexivity.
Qed.

Lemma delete_frame w d w' x :
  wf_kv (w_kv w) -> is_internal (d_key d) = false ->
  apply_delete wrapper_callbacks w d = (w', Ok x) ->
  forall k, notif_class k -> kv_get (w_kv w') k = kv_get (w_kv w) k.
Proof.
  intros Hw Hi H k Hk. unfold apply_delete in H.
  rewrite (check_expected_user _ _ (d_expected d) Hw Hi) in H.
  destruct (spec_check (uv (w_kv w) (d_key d)) (d_expected d)); [|inversion H; subst; reflexivity].
  destruct (uv (w_kv w) (d_key d)) as [e|] eqn:U; [|inversion H; subst; reflexivity].
  simpl in H. destruct (wrapper_on_delete_spec _ _ _ Hw Hi U) as [b1 [E [R _]]]. rewrite E in H.
  inversion H; subst w' x; clear H. simpl.
  assert (Hne : k <> d_key d) by (intro; subst; rewrite (notif_class_internal _ Hk) in Hi; discriminate).
  rewrite kv_get_del_other; [|apply (cb_rel_wf _ _ R)|exact Hne].
  destruct R as [_ [Rf _]]. apply Rf, notif_class_not_cbkey, Hk.
Qed.

Lemma range_frame t w r w' x :
  wf_kv (w_kv w) -> range_user r ->
  apply_delete_range wrapper_callbacks t w r = (w', Ok x) ->
  forall k, notif_class k -> kv_get (w_kv w') k = kv_get (w_kv w) k.
Proof.
  intros Hw Hu H k Hk. rewrite apply_delete_range_unfold in H.
  destruct (scan_callbacks_spec _ (w_kv w) Hw (scanned_are_records _ _ _ Hw Hu)) as [b1 [E [R S]]].
  rewrite E in H. inversion H; subst w' x; clear H. simpl.
  rewrite (range_delete_get _ _ _ _ _ k (proj1 Hw) (proj1 (cb_rel_wf _ _ R)) S).
  rewrite (Hu _ (notif_class_internal _ Hk)).
  destruct R as [_ [Rf _]]. apply Rf, notif_class_not_cbkey, Hk.
Qed.

Lemma puts_frame ps : forall w ts w' rs,
  wf_kv (w_kv w) -> Forall (fun p => is_internal (p_key p) = false) ps ->
  apply_puts wrapper_callbacks w ps ts = (w', Ok rs) ->
  wf_kv (w_kv w') /\ forall k, notif_class k -> kv_get (w_kv w') k = kv_get (w_kv w) k.
Proof.
  induction ps as [|p tl IH]; simpl; intros w ts w' rs Hw Hu H.
  - inversion H; subst. split; [exact Hw|reflexivity].
  - inversion Hu as [|? ? Hp Htl]; subst.
    pose proof (apply_put_wf w p ts Hw) as W1.
    destruct (apply_put wrapper_callbacks w p ts) as [w1 [r|e]] eqn:A; [|discriminate]. simpl in W1.
    destruct (apply_puts wrapper_callbacks w1 tl ts) as [w2 [rs'|e]] eqn:B; [|discriminate].
    inversion H; subst w' rs; clear H.
    destruct (IH _ _ _ _ W1 Htl B) as [W2 F2]. split; [exact W2|].
    intros k Hk. rewrite (F2 k Hk). eapply put_frame; eassumption.
Qed.

Lemma dels_frame ds : forall w w' xs,
  wf_kv (w_kv w) -> Forall (fun d => is_internal (d_key d) = false) ds ->
  apply_deletes wrapper_callbacks w ds = (w', Ok xs) ->
  wf_kv (w_kv w') /\ forall k, notif_class k -> kv_get (w_kv w') k = kv_get (w_kv w) k.
Proof.
  induction ds as [|d tl IH]; simpl; intros w w' xs Hw Hu H.
  - inversion H; subst. split; [exact Hw|reflexivity].
  - inversion Hu as [|? ? Hd Htl]; subst.
    pose proof (apply_delete_wf w d Hw) as W1.
    destruct (apply_delete wrapper_callbacks w d) as [w1 [x|e]] eqn:A; [|discriminate]. simpl in W1.
    destruct (apply_deletes wrapper_callbacks w1 tl) as [w2 [xs'|e]] eqn:B; [|discriminate].
    inversion H; subst w' xs; clear H.
    destruct (IH _ _ _ W1 Htl B) as [W2 F2]. split; [exact W2|].
    intros k Hk. rewrite (F2 k Hk). eapply delete_frame; eassumption.
Qed.

Lemma ranges_frame t rs : forall w w' xs,
  wf_kv (w_kv w) -> Forall range_user rs ->
  apply_ranges wrapper_callbacks t w rs = (w', Ok xs) ->
  wf_kv (w_kv w') /\ forall k, notif_class k -> kv_get (w_kv w') k = kv_get (w_kv w) k.
Proof.
  induction rs as [|r tl IH]; simpl; intros w w' xs Hw Hu H.
  - inversion H; subst. split; [exact Hw|reflexivity].
  - inversion Hu as [|? ? Hr Htl]; subst.
    pose proof (apply_delete_range_wf t w r Hw) as W1.
    destruct (apply_delete_range wrapper_callbacks t w r) as [w1 [x|e]] eqn:A; [|discriminate]. simpl in W1.
    destruct (apply_ranges wrapper_callbacks t w1 tl) as [w2 [xs'|e]] eqn:B; [|discriminate].
    inversion H; subst w' xs; clear H.
    destruct (IH _ _ _ W1 Htl B) as [W2 F2]. split; [exact W2|].
    intros k Hk. rewrite (F2 k Hk). eapply range_frame; eassumption.
Qed.

Theorem request_frame t w req ts w' resp :
  wf_kv (w_kv w) -> user_request req ->
  apply_write_request wrapper_callbacks t w req ts = (w', Ok resp) ->
  wf_kv (w_kv w') /\ forall k, notif_class k -> kv_get (w_kv w') k = kv_get (w_kv w) k.
Proof.
  intros Hw [Hp [Hd Hr]] H. unfold apply_write_request in H.
  destruct (apply_puts wrapper_callbacks w (w_puts req) ts) as [w1 [prs|e]] eqn:A; [|discriminate].
  destruct (apply_deletes wrapper_callbacks w1 (w_dels req)) as [w2 [drs|e]] eqn:B; [|discriminate].
  destruct (apply_ranges wrapper_callbacks t w2 (w_ranges req)) as [w3 [rrs|e]] eqn:C; [|discriminate].
  inversion H; subst w' resp; clear H.
  destruct (puts_frame _ _ _ _ _ Hw Hp A) as [W1 F1].
  destruct (dels_frame _ _ _ _ W1 Hd B) as [W2 F2].
  destruct (ranges_frame _ _ _ _ _ W2 Hr C) as [W3 F3].
  split; [exact W3|]. intros k Hk. rewrite (F3 k Hk), (F2 k Hk). apply F1, Hk.
Qed.

(* ---------------------------------------------------------------- one committed request *)
Lemma notif_class_not_commit_offset k : notif_class k -> k <> commit_offset_key.
Proof. intros H E. apply notif_class_tag in H. subst. discriminate. Qed.
Lemma notif_class_not_last_version k : notif_class k -> k <> last_version_key.
Proof. intros H E. apply notif_class_tag in H. subst. discriminate. Qed.

(* with notifications enabled, a request on user keys that is applied stores exactly one batch, under
   its own offset, carrying shard / offset / timestamp and the fold of its answers; every other key under
   "__oxia/notifications/" keeps its binding *)
Theorem batch_step cfg st req offset ts st' resp :
  wf_kv (st_kv st) -> user_request req -> st_notif st = true ->
  process_write wrapper_callbacks cfg st req offset ts = (st', Ok resp) ->
  (exists nm,
     kv_get (st_kv st') (notification_key offset) = Some (VNotif (mkNBatch (cfg_shard cfg) offset ts nm)) /\
     NoDup (map fst nm) /\ (forall k, nm_get nm k = resp_changes req resp k)) /\
  (forall k, notif_class k -> k <> notification_key offset -> kv_get (st_kv st') k = kv_get (st_kv st) k) /\
  wf_kv (st_kv st') /\ st_notif st' = true /\ st_notif_last st' = offset.
Proof.
  intros Hw Hu Hn H. rewrite process_write_unfold in H.
  destruct (apply_write_request wrapper_callbacks (cfg_threshold cfg) (start_write st) req ts) as [w [r|e]] eqn:A;
    [|discriminate].
  inversion H; subst st' resp; clear H.
  assert (Hw0 : wf_kv (w_kv (start_write st))) by exact Hw.
  destruct (request_frame _ _ _ _ _ _ Hw0 Hu A) as [W F].
  assert (Hrep0 : nm_rep (w_nm (start_write st)) chg_empty) by (unfold start_write; simpl; rewrite Hn; apply nm_rep_empty).
  destruct (request_nm _ _ _ _ _ _ _ _ A Hrep0) as [nm [Enm [Hd Hg]]].
  unfold commit_write. rewrite Enm. simpl.
  split; [|split; [|split; [|split; [exact Hn|reflexivity]]]].
  - exists nm. rewrite kv_get_put_same. split; [reflexivity|]. split; [exact Hd|exact Hg].
  - intros k Hk Hne. rewrite kv_get_put_other by exact Hne. unfold internal_put.
    rewrite kv_get_put_other by (apply notif_class_not_last_version; exact Hk).
    rewrite kv_get_put_other by (apply notif_class_not_commit_offset; exact Hk).
    apply F, Hk.
  - apply wf_put_internal; [|apply notification_key_internal]. apply wf_internal_put, wf_internal_put, W.
Qed.
