(* Db/C15_Fresh.v — the freshness hypothesis of C15_Inv.v ([puts_fresh] / [req_fresh]) holds for every
   admissible request in every state satisfying the invariant: C16's [generate_key_fresh] (the key a sequence
   put generates holds nothing, on any sorted map; code as repaired in db_sequences.go).  Hence the histories
   C15 quantifies over need no freshness side condition ([run_adm_ok]). *)
From Coq Require Import List NArith ZArith Bool.
From Oxia.Db Require Import Types Bytes Keys Kv Sessions Indexes Sequences Write Read KvProofs Proofs_C12
     C15_Layout C15_Inv C16_Gen.
Import ListNotations.

Lemma put_fresh_always b p : sorted b -> put_fresh b p.
Proof.
  intro Hs. unfold put_fresh. destruct (p_deltas p) as [|d tl] eqn:D; [exact I|].
  destruct (generate_key b p) as [nk| |e] eqn:G; try exact I.
  apply (generate_key_fresh b p nk Hs); [rewrite D; discriminate|exact G].
Qed.

Lemma puts_fresh_always ps : forall w ts, inv (w_kv w) -> Forall put_ok ps -> puts_fresh w ps ts.
Proof.
  induction ps as [|p tl IH]; simpl; intros w ts Hi Hok; [exact I|].
  inversion Hok as [|? ? Hp Htl]; subst.
  assert (Hf : put_fresh (w_kv w) p) by (apply put_fresh_always; apply (inv_wf _ Hi)).
  split; [exact Hf|].
  pose proof (apply_put_inv w p ts Hi Hp Hf) as H1.
  destruct (apply_put wrapper_callbacks w p ts) as [w1 [r|e]]; simpl in *; [|exact I].
  apply IH; assumption.
Qed.

Lemma req_fresh_always st req ts : inv (st_kv st) -> c15_request req -> req_fresh st req ts.
Proof. intros Hi [Hp _]. unfold req_fresh. apply puts_fresh_always; assumption. Qed.

(* admissible histories, without any freshness condition *)
Definition op_adm (op : db_op) : Prop :=
  match op with OpWrite req _ _ => c15_request req | _ => True end.

Theorem run_adm_ok cfg ops : Forall op_adm ops -> run_ok cfg init_state ops.
Proof.
  assert (H : inv (st_kv init_state)) by apply inv_nil.
  revert H. generalize init_state. induction ops as [|op tl IH]; simpl; intros st Hi Hadm; [exact I|].
  inversion Hadm as [|? ? Hop Htl]; subst.
  assert (Hok : op_ok st op).
  { destruct op; simpl in *; try exact I. split; [exact Hop|apply req_fresh_always; assumption]. }
  split; [exact Hok|]. apply IH; [apply db_step_inv; assumption|exact Htl].
Qed.
